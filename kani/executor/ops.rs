//! Mounted under cfg(kani) from crates/vibesql-executor/src/evaluator/operators/mod.rs
//! E-3vl (LogicalOps), E-null (OperatorRegistry::eval_binary_op), E-arith (ArithmeticOps on exact numerics),
//! E-cmp (ComparisonOps on numerics).  Properties C01, C06, C24.
#![allow(dead_code)]
use vibesql_ast::BinaryOperator as Op;
use vibesql_types::{SqlMode, SqlValue};

use super::{ArithmeticOps, ComparisonOps, LogicalOps, OperatorRegistry};
use crate::errors::ExecutorError;

pub(crate) fn fmt_stub(_a: std::fmt::Arguments<'_>) -> String { String::new() }
fn forget<T>(r: T) { std::mem::forget(r); }

/// truth value in {T, F, NULL}
fn tv(k: u8) -> SqlValue { match k { 0 => SqlValue::Boolean(false), 1 => SqlValue::Boolean(true), _ => SqlValue::Null } }
/// Kleene tables on {0 = F, 1 = T, 2 = NULL}, written out independently of the code
fn kleene_and(a: u8, b: u8) -> u8 { if a == 0 || b == 0 { 0 } else if a == 1 && b == 1 { 1 } else { 2 } }
fn kleene_or(a: u8, b: u8) -> u8 { if a == 1 || b == 1 { 1 } else if a == 0 && b == 0 { 0 } else { 2 } }
fn is_tv(r: &Result<SqlValue, ExecutorError>, k: u8) -> bool {
    match (r, k) {
        (Ok(SqlValue::Boolean(false)), 0) | (Ok(SqlValue::Boolean(true)), 1) | (Ok(SqlValue::Null), 2) => true,
        _ => false,
    }
}

// --------------------------------------------------------------------------------------------
// E-3vl
// --------------------------------------------------------------------------------------------
#[kani::proof]
fn e_3vl_and_or_truth_tables() {
    let a: u8 = kani::any(); let b: u8 = kani::any();
    kani::assume(a < 3 && b < 3);
    let r = LogicalOps::and(&tv(a), &tv(b));
    assert!(is_tv(&r, kleene_and(a, b)), "E-3vl#and_truth_table");
    forget(r);
    let r = LogicalOps::or(&tv(a), &tv(b));
    assert!(is_tv(&r, kleene_or(a, b)), "E-3vl#or_truth_table");
    forget(r);
}
/// a non-Boolean, non-NULL operand is an error, never a silent truth value (one harness per operand variant)
macro_rules! e3vl_err {
    ($name:ident, $v:expr) => {
        #[kani::proof]
        fn $name() {
            let b: u8 = kani::any(); kani::assume(b < 3);
            let left: bool = kani::any();
            let x: SqlValue = $v;
            let r = if left { LogicalOps::and(&x, &tv(b)) } else { LogicalOps::and(&tv(b), &x) };
            assert!(r.is_err(), "E-3vl#and_non_boolean_is_error"); forget(r);
            let r = if left { LogicalOps::or(&x, &tv(b)) } else { LogicalOps::or(&tv(b), &x) };
            assert!(r.is_err(), "E-3vl#or_non_boolean_is_error"); forget(r);
            forget(x);
        }
    };
}
e3vl_err!(e_3vl_err_integer, SqlValue::Integer(kani::any()));
e3vl_err!(e_3vl_err_double, SqlValue::Double(kani::any()));
e3vl_err!(e_3vl_err_smallint, SqlValue::Smallint(kani::any()));

// --------------------------------------------------------------------------------------------
// E-null: op not in {AND, OR} and a NULL operand => Ok(NULL); AND/OR are dispatched to LogicalOps
// --------------------------------------------------------------------------------------------
fn some_operand(k: u8) -> SqlValue {
    match k { 0 => SqlValue::Integer(kani::any()), 1 => SqlValue::Boolean(kani::any()), 2 => SqlValue::Double(kani::any()),
              3 => SqlValue::Smallint(kani::any()), _ => SqlValue::Null }
}
macro_rules! enull {
    ($name:ident, $op:expr) => {
        #[kani::proof]
        fn $name() {
            let k: u8 = kani::any(); kani::assume(k < 5);
            let x = some_operand(k);
            let r = OperatorRegistry::eval_binary_op(&SqlValue::Null, &$op, &x, SqlMode::default());
            assert!(matches!(r, Ok(SqlValue::Null)), "E-null#null_left"); forget(r);
            let r = OperatorRegistry::eval_binary_op(&x, &$op, &SqlValue::Null, SqlMode::default());
            assert!(matches!(r, Ok(SqlValue::Null)), "E-null#null_right"); forget(r);
            forget(x);
        }
    };
}
enull!(e_null_plus, Op::Plus);
enull!(e_null_minus, Op::Minus);
enull!(e_null_multiply, Op::Multiply);
enull!(e_null_divide, Op::Divide);
enull!(e_null_integer_divide, Op::IntegerDivide);
enull!(e_null_modulo, Op::Modulo);
enull!(e_null_equal, Op::Equal);
enull!(e_null_not_equal, Op::NotEqual);
enull!(e_null_less_than, Op::LessThan);
enull!(e_null_less_than_or_equal, Op::LessThanOrEqual);
enull!(e_null_greater_than, Op::GreaterThan);
enull!(e_null_greater_than_or_equal, Op::GreaterThanOrEqual);
enull!(e_null_concat, Op::Concat);

#[kani::proof]
fn e_null_and_or_not_short_circuited() {
    let a: u8 = kani::any(); let b: u8 = kani::any();
    kani::assume(a < 3 && b < 3);
    let r = OperatorRegistry::eval_binary_op(&tv(a), &Op::And, &tv(b), SqlMode::default());
    assert!(is_tv(&r, kleene_and(a, b)), "E-null#and_dispatch_kleene"); forget(r);
    let r = OperatorRegistry::eval_binary_op(&tv(a), &Op::Or, &tv(b), SqlMode::default());
    assert!(is_tv(&r, kleene_or(a, b)), "E-null#or_dispatch_kleene"); forget(r);
}

// --------------------------------------------------------------------------------------------
// E-arith: + - * % on exact numerics: Ok(Integer(r)) => r is the exact mathematical result (i128);
// when the exact result does not fit i64: Err or Ok(NULL); never a different integer, never a panic
// (Kani checks overflow / panics on every path).  Through the registry (dispatch included).
// --------------------------------------------------------------------------------------------
fn exact(k: u8) -> (SqlValue, i128) {
    match k {
        0 => { let v: i64 = kani::any(); (SqlValue::Integer(v), v as i128) }
        1 => { let v: i16 = kani::any(); (SqlValue::Smallint(v), v as i128) }
        _ => { let v: i64 = kani::any(); (SqlValue::Bigint(v), v as i128) }
    }
}
fn fits(x: i128) -> bool { x >= i64::MIN as i128 && x <= i64::MAX as i128 }
fn check_exact(r: &Result<SqlValue, ExecutorError>, want: i128) -> bool {
    match r {
        Ok(SqlValue::Integer(x)) => (*x as i128) == want,
        Ok(SqlValue::Null) | Err(_) => !fits(want),
        _ => false,
    }
}
macro_rules! earith {
    ($name:ident, $op:expr, $ka:expr, $kb:expr, $f:expr) => {
        #[kani::proof]
        #[kani::stub(alloc::fmt::format, fmt_stub)]
        fn $name() {
            let (a, ia) = exact($ka); let (b, ib) = exact($kb);
            let r = OperatorRegistry::eval_binary_op(&a, &$op, &b, SqlMode::default());
            let want: i128 = ($f)(ia, ib);
            assert!(check_exact(&r, want), "E-arith#exact_or_error");
            forget(r);
        }
    };
}
earith!(e_arith_add_int_int, Op::Plus, 0, 0, |a: i128, b: i128| a + b);
earith!(e_arith_add_big_small, Op::Plus, 2, 1, |a: i128, b: i128| a + b);
earith!(e_arith_add_big_big, Op::Plus, 2, 2, |a: i128, b: i128| a + b);
earith!(e_arith_sub_int_int, Op::Minus, 0, 0, |a: i128, b: i128| a - b);
earith!(e_arith_sub_small_big, Op::Minus, 1, 2, |a: i128, b: i128| a - b);
earith!(e_arith_sub_big_big, Op::Minus, 2, 2, |a: i128, b: i128| a - b);

/// multiplication: 64x64 bit multipliers are expensive for SAT; operands are bounded to 32 bits here (class B),
/// the overflow behaviour itself is covered by e_arith_mul_overflow_detected below
macro_rules! earith_mul {
    ($name:ident, $ka:expr, $kb:expr) => {
        #[kani::proof]
        #[kani::stub(alloc::fmt::format, fmt_stub)]
        fn $name() {
            let (a, ia) = exact($ka); let (b, ib) = exact($kb);
            kani::assume(ia >= -(1i128 << 31) && ia < (1i128 << 31) && ib >= -(1i128 << 31) && ib < (1i128 << 31));
            let r = OperatorRegistry::eval_binary_op(&a, &Op::Multiply, &b, SqlMode::default());
            assert!(check_exact(&r, ia * ib), "E-arith#exact_or_error");
            forget(r);
        }
    };
}
earith_mul!(e_arith_mul_int_int_b32, 0, 0);
earith_mul!(e_arith_mul_big_small_b32, 2, 1);
/// full 64-bit domain: the product is never a *wrapped* value: if Ok(Integer(x)) then checked_mul agrees
#[kani::proof]
#[kani::stub(alloc::fmt::format, fmt_stub)]
fn e_arith_mul_never_wraps() {
    let a: i64 = kani::any(); let b: i64 = kani::any();
    let r = OperatorRegistry::eval_binary_op(&SqlValue::Integer(a), &Op::Multiply, &SqlValue::Integer(b), SqlMode::default());
    match &r {
        Ok(SqlValue::Integer(x)) => assert!(a.checked_mul(b) == Some(*x), "E-arith#never_wraps"),
        Ok(SqlValue::Null) | Err(_) => assert!(a.checked_mul(b).is_none(), "E-arith#error_only_on_overflow"),
        _ => assert!(false, "E-arith#result_type"),
    }
    forget(r);
}

/// modulo, full 64-bit domain: divisor 0 => NULL; otherwise Ok(Integer(_)); never a panic (i64::MIN % -1 included).
/// (the remainder VALUE is checked on bounded operands below: a 64-bit remainder circuit does not finish in CBMC)
#[kani::proof]
#[kani::stub(alloc::fmt::format, fmt_stub)]
fn e_arith_mod_int_int_total() {
    let a: i64 = kani::any(); let b: i64 = kani::any();
    let r = OperatorRegistry::eval_binary_op(&SqlValue::Integer(a), &Op::Modulo, &SqlValue::Integer(b), SqlMode::default());
    if b == 0 { assert!(matches!(r, Ok(SqlValue::Null)), "E-arith#mod_by_zero_is_null"); }
    else { assert!(matches!(r, Ok(SqlValue::Integer(_))), "E-arith#mod_total"); }
    forget(r);
}
#[kani::proof]
#[kani::stub(alloc::fmt::format, fmt_stub)]
fn e_arith_mod_big_small_total() {
    let (a, _ia) = exact(2); let (b, ib) = exact(1);
    let r = OperatorRegistry::eval_binary_op(&a, &Op::Modulo, &b, SqlMode::default());
    if ib == 0 { assert!(matches!(r, Ok(SqlValue::Null)), "E-arith#mod_by_zero_is_null"); }
    else { assert!(matches!(r, Ok(SqlValue::Integer(_))), "E-arith#mod_total"); }
    forget(r);
}
/// remainder value on 16-bit operands (class B(16))
#[kani::proof]
#[kani::stub(alloc::fmt::format, fmt_stub)]
fn e_arith_mod_int_int_value_b16() {
    let a: i16 = kani::any(); let b: i16 = kani::any();
    kani::assume(b != 0);
    let r = OperatorRegistry::eval_binary_op(&SqlValue::Integer(a as i64), &Op::Modulo, &SqlValue::Integer(b as i64), SqlMode::default());
    assert!(check_exact(&r, (a as i128) % (b as i128)), "E-arith#exact_or_error");
    forget(r);
}

/// division by zero: `/` => NULL, DIV => DivisionByZero error (as documented), never a panic
#[kani::proof]
#[kani::stub(alloc::fmt::format, fmt_stub)]
fn e_arith_div_by_zero() {
    let a: i64 = kani::any();
    let r = OperatorRegistry::eval_binary_op(&SqlValue::Integer(a), &Op::Divide, &SqlValue::Integer(0), SqlMode::default());
    assert!(matches!(r, Ok(SqlValue::Null)), "E-arith#div_by_zero_is_null"); forget(r);
    let r = OperatorRegistry::eval_binary_op(&SqlValue::Integer(a), &Op::IntegerDivide, &SqlValue::Integer(0), SqlMode::default());
    assert!(matches!(r, Err(ExecutorError::DivisionByZero)), "E-arith#intdiv_by_zero_is_error"); forget(r);
}
/// DIV on integers below 2^53 in magnitude: exactly the truncated quotient (beyond 2^53 the f64 route is inexact: recorded)
#[kani::proof]
#[kani::stub(alloc::fmt::format, fmt_stub)]
fn e_arith_intdiv_exact_b8() {
    let a: i64 = kani::any(); let b: i64 = kani::any();
    // SAT-friendly bound on the f64 division circuit (class B(8)): |a| < 2^8, 0 < |b| < 2^8
    kani::assume(a > -(1 << 8) && a < (1 << 8) && b > -(1 << 8) && b < (1 << 8) && b != 0);
    let r = OperatorRegistry::eval_binary_op(&SqlValue::Integer(a), &Op::IntegerDivide, &SqlValue::Integer(b), SqlMode::default());
    assert!(matches!(r, Ok(SqlValue::Integer(q)) if q == a / b), "E-arith#intdiv_truncated_quotient");
    forget(r);
}

// --------------------------------------------------------------------------------------------
// E-cmp: comparisons yield only Boolean/NULL; on exact operands the Boolean of the mathematical relation;
// exactly one of <, =, > is TRUE; <> is NOT =; <= is < OR =.   f64 operands: IEEE relation for non-NaN.
// --------------------------------------------------------------------------------------------
fn as_bool(r: &Result<SqlValue, ExecutorError>) -> Option<bool> { match r { Ok(SqlValue::Boolean(b)) => Some(*b), _ => None } }
fn take_bool(r: Result<SqlValue, ExecutorError>) -> Option<bool> { let b = as_bool(&r); forget(r); b }
macro_rules! ecmp_exact {
    ($name:ident, $ka:expr, $kb:expr) => {
        #[kani::proof]
        #[kani::stub(alloc::fmt::format, fmt_stub)]
        fn $name() {
            let (a, ia) = exact($ka); let (b, ib) = exact($kb);
            let m = SqlMode::default();
            let lt = OperatorRegistry::eval_binary_op(&a, &Op::LessThan, &b, m.clone());
            let le = OperatorRegistry::eval_binary_op(&a, &Op::LessThanOrEqual, &b, m.clone());
            let gt = OperatorRegistry::eval_binary_op(&a, &Op::GreaterThan, &b, m.clone());
            let ge = OperatorRegistry::eval_binary_op(&a, &Op::GreaterThanOrEqual, &b, m.clone());
            let eq = OperatorRegistry::eval_binary_op(&a, &Op::Equal, &b, m.clone());
            let ne = OperatorRegistry::eval_binary_op(&a, &Op::NotEqual, &b, m);
            assert!(as_bool(&lt) == Some(ia < ib), "E-cmp#lt_mathematical");
            assert!(as_bool(&le) == Some(ia <= ib), "E-cmp#le_mathematical");
            assert!(as_bool(&gt) == Some(ia > ib), "E-cmp#gt_mathematical");
            assert!(as_bool(&ge) == Some(ia >= ib), "E-cmp#ge_mathematical");
            assert!(as_bool(&eq) == Some(ia == ib), "E-cmp#eq_mathematical");
            assert!(as_bool(&ne) == Some(ia != ib), "E-cmp#ne_mathematical");
            forget(lt); forget(le); forget(gt); forget(ge); forget(eq); forget(ne);
        }
    };
}
ecmp_exact!(e_cmp_int_int, 0, 0);
ecmp_exact!(e_cmp_int_small, 0, 1);
ecmp_exact!(e_cmp_big_int, 2, 0);
ecmp_exact!(e_cmp_small_big, 1, 2);

#[kani::proof]
#[kani::stub(alloc::fmt::format, fmt_stub)]
fn e_cmp_double_double() {
    let x: f64 = kani::any(); let y: f64 = kani::any();
    let (a, b) = (SqlValue::Double(x), SqlValue::Double(y));
    let m = SqlMode::default();
    let lt = OperatorRegistry::eval_binary_op(&a, &Op::LessThan, &b, m.clone());
    let le = OperatorRegistry::eval_binary_op(&a, &Op::LessThanOrEqual, &b, m.clone());
    let gt = OperatorRegistry::eval_binary_op(&a, &Op::GreaterThan, &b, m.clone());
    let ge = OperatorRegistry::eval_binary_op(&a, &Op::GreaterThanOrEqual, &b, m.clone());
    let eq = OperatorRegistry::eval_binary_op(&a, &Op::Equal, &b, m.clone());
    let ne = OperatorRegistry::eval_binary_op(&a, &Op::NotEqual, &b, m);
    // always a Boolean (the partition law needs nothing else on NaN)
    assert!(as_bool(&lt).is_some() && as_bool(&le).is_some() && as_bool(&gt).is_some() && as_bool(&ge).is_some()
        && as_bool(&eq).is_some() && as_bool(&ne).is_some(), "E-cmp#boolean_result");
    assert!(as_bool(&ne) == as_bool(&eq).map(|b| !b), "E-cmp#ne_is_not_eq");
    if !x.is_nan() && !y.is_nan() {
        assert!(as_bool(&lt) == Some(x < y), "E-cmp#lt_ieee");
        assert!(as_bool(&le) == Some(x <= y), "E-cmp#le_ieee");
        assert!(as_bool(&gt) == Some(x > y), "E-cmp#gt_ieee");
        assert!(as_bool(&ge) == Some(x >= y), "E-cmp#ge_ieee");
        assert!(as_bool(&eq) == Some(x == y), "E-cmp#eq_ieee");
    }
    forget(lt); forget(le); forget(gt); forget(ge); forget(eq); forget(ne);
}
/// exact x approximate: internal consistency only (trichotomy, <= is < or =, <> is not =)
#[kani::proof]
#[kani::stub(alloc::fmt::format, fmt_stub)]
fn e_cmp_int_double_consistent() {
    let i: i64 = kani::any(); let y: f64 = kani::any();
    kani::assume(!y.is_nan());
    let (a, b) = (SqlValue::Integer(i), SqlValue::Double(y));
    let m = SqlMode::default();
    let lt = take_bool(OperatorRegistry::eval_binary_op(&a, &Op::LessThan, &b, m.clone()));
    let le = take_bool(OperatorRegistry::eval_binary_op(&a, &Op::LessThanOrEqual, &b, m.clone()));
    let gt = take_bool(OperatorRegistry::eval_binary_op(&a, &Op::GreaterThan, &b, m.clone()));
    let eq = take_bool(OperatorRegistry::eval_binary_op(&a, &Op::Equal, &b, m.clone()));
    let ne = take_bool(OperatorRegistry::eval_binary_op(&a, &Op::NotEqual, &b, m));
    assert!(lt.is_some() && le.is_some() && gt.is_some() && eq.is_some() && ne.is_some(), "E-cmp#boolean_result");
    let (lt, le, gt, eq, ne) = (lt.unwrap(), le.unwrap(), gt.unwrap(), eq.unwrap(), ne.unwrap());
    assert!((lt as u8) + (eq as u8) + (gt as u8) == 1, "E-cmp#trichotomy");
    assert!(le == (lt || eq), "E-cmp#le_is_lt_or_eq");
    assert!(ne == !eq, "E-cmp#ne_is_not_eq");
}

/// vacuity canary: MUST FAIL
#[kani::proof]
#[kani::stub(alloc::fmt::format, fmt_stub)]
fn e_canary_must_fail() {
    let (a, _ia) = exact(0); let (b, _ib) = exact(0);
    let r = OperatorRegistry::eval_binary_op(&a, &Op::LessThan, &b, SqlMode::default());
    assert!(as_bool(&r) == Some(true), "canary");
    forget(r);
}

// --------------------------------------------------------------------------------------------
// E-unary: eval_unary_op (evaluator/expressions/operators.rs, shared by both evaluators)
// NOT is Kleene negation on {T,F,NULL} and, on numbers, TRUE exactly for the values WHERE treats as false;
// unary minus on exact numerics is the exact negation or an explicit error (never a wrapped value, never a panic); unary plus is the identity.
// --------------------------------------------------------------------------------------------
use crate::evaluator::expressions::operators::eval_unary_op;
use vibesql_ast::UnaryOperator as UOp;

#[kani::proof]
#[kani::stub(alloc::fmt::format, fmt_stub)]
fn e_unary_not_kleene_and_numeric() {
    let k: u8 = kani::any(); kani::assume(k < 3);
    let r = eval_unary_op(&UOp::Not, &tv(k));
    assert!(is_tv(&r, if k == 2 { 2 } else { 1 - k }), "E-unary#kleene_not");
    forget(r);
    let i: i64 = kani::any();
    let r = eval_unary_op(&UOp::Not, &SqlValue::Integer(i));
    assert!(matches!(r, Ok(SqlValue::Boolean(b)) if b == (i == 0)), "E-unary#not_numeric_is_true_iff_falsy");
    forget(r);
    let f: f64 = kani::any();
    let r = eval_unary_op(&UOp::Not, &SqlValue::Double(f));
    assert!(matches!(r, Ok(SqlValue::Boolean(b)) if b == !(f != 0.0)), "E-unary#not_numeric_is_true_iff_falsy");
    forget(r);
}
#[kani::proof]
#[kani::stub(alloc::fmt::format, fmt_stub)]
fn e_unary_minus_exact_or_error() {
    let i: i64 = kani::any();
    let r = eval_unary_op(&UOp::Minus, &SqlValue::Integer(i));
    match &r { Ok(SqlValue::Integer(x)) => assert!((*x as i128) == -(i as i128), "E-unary#minus_exact"), Err(_) => assert!(i == i64::MIN, "E-unary#minus_error_only_at_min"), _ => assert!(false, "E-unary#minus_type") }
    forget(r);
    let b: i64 = kani::any();
    let r = eval_unary_op(&UOp::Minus, &SqlValue::Bigint(b));
    match &r { Ok(SqlValue::Bigint(x)) => assert!((*x as i128) == -(b as i128), "E-unary#minus_exact"), Err(_) => assert!(b == i64::MIN, "E-unary#minus_error_only_at_min"), _ => assert!(false, "E-unary#minus_type") }
    forget(r);
    let s: i16 = kani::any();
    let r = eval_unary_op(&UOp::Minus, &SqlValue::Smallint(s));
    match &r { Ok(SqlValue::Smallint(x)) => assert!((*x as i128) == -(s as i128), "E-unary#minus_exact"), Err(_) => assert!(s == i16::MIN, "E-unary#minus_error_only_at_min"), _ => assert!(false, "E-unary#minus_type") }
    forget(r);
    let r = eval_unary_op(&UOp::Minus, &SqlValue::Null);
    assert!(matches!(r, Ok(SqlValue::Null)), "E-unary#null_propagates"); forget(r);
}
#[kani::proof]
#[kani::stub(alloc::fmt::format, fmt_stub)]
fn e_unary_plus_identity() {
    let i: i64 = kani::any();
    let r = eval_unary_op(&UOp::Plus, &SqlValue::Integer(i));
    assert!(matches!(r, Ok(SqlValue::Integer(x)) if x == i), "E-unary#plus_identity"); forget(r);
    let f: f64 = kani::any();
    let r = eval_unary_op(&UOp::Plus, &SqlValue::Double(f));
    assert!(matches!(r, Ok(SqlValue::Double(x)) if x.to_bits() == f.to_bits()), "E-unary#plus_identity"); forget(r);
}

// --------------------------------------------------------------------------------------------
// E-between: eval_between_static (evaluator/core.rs) on integer / NULL operands:
//   x BETWEEN a AND b  ==  (x >= a) AND (x <= b)   in three-valued logic, NOT BETWEEN its Kleene negation,
//   SYMMETRIC: the bounds are ordered first (when both are non-NULL).
// --------------------------------------------------------------------------------------------
use crate::evaluator::core::eval_between_static;

fn opt_int() -> (SqlValue, Option<i64>) {
    if kani::any() { let v: i64 = kani::any(); (SqlValue::Integer(v), Some(v)) } else { (SqlValue::Null, None) }
}
/// Kleene comparison on optional integers: 0 = F, 1 = T, 2 = NULL
fn k_ge(a: Option<i64>, b: Option<i64>) -> u8 { match (a, b) { (Some(x), Some(y)) => (x >= y) as u8, _ => 2 } }
fn k_le(a: Option<i64>, b: Option<i64>) -> u8 { match (a, b) { (Some(x), Some(y)) => (x <= y) as u8, _ => 2 } }
fn k_not(a: u8) -> u8 { if a == 2 { 2 } else { 1 - a } }

fn opt_int_c(null: bool) -> (SqlValue, Option<i64>) {
    if null { (SqlValue::Null, None) } else { let v: i64 = kani::any(); (SqlValue::Integer(v), Some(v)) }
}
/// NULL pattern of (x, a, b) is case-split outside the solver; payloads, NOT and SYMMETRIC are symbolic
macro_rules! ebetween {
    ($name:ident, $xn:expr, $an:expr, $bn:expr) => {
        #[kani::proof]
        #[kani::unwind(40)]   // std::mem::swap of two SqlValue (SYMMETRIC with reversed bounds) copies in a small loop
        #[kani::stub(alloc::fmt::format, fmt_stub)]
        fn $name() {
            let (x, ox) = opt_int_c($xn); let (a, oa) = opt_int_c($an); let (b, ob) = opt_int_c($bn);
            let negated: bool = kani::any(); let symmetric: bool = kani::any();
            let r = eval_between_static(&x, &a, &b, negated, symmetric, SqlMode::default());
            // SYMMETRIC orders the bounds when both are known
            let (lo, hi) = match (symmetric, oa, ob) { (true, Some(p), Some(q)) if p > q => (ob, oa), _ => (oa, ob) };
            let between = kleene_and(k_ge(ox, lo), k_le(ox, hi));
            let want = if negated { k_not(between) } else { between };
            assert!(is_tv(&r, want), "E-between#ge_and_le_three_valued");
            forget(r);
        }
    };
}
ebetween!(e_between_vvv, false, false, false);
ebetween!(e_between_nvv, true, false, false);
ebetween!(e_between_vnv, false, true, false);
ebetween!(e_between_vvn, false, false, true);
ebetween!(e_between_vnn, false, true, true);
ebetween!(e_between_nnn, true, true, true);

// concrete-playback replay slot (see lib/kani_run.py: replay); empty except while a counterexample is being replayed
include!("ops.playback.rs");
