//! Mounted under cfg(kani) at the end of crates/vibesql-executor/src/select/filter.rs (child module: sees the private truthiness fns).
//! E-truthy: every WHERE site that turns a value into keep/drop makes the SAME decision as is_truthy_combined (C06, C09).
//! S-cmpsort: compare_sql_values is a total preorder on same-variant values with NULL greatest (C08).
#![allow(dead_code)]
use std::cmp::Ordering;

use vibesql_types::SqlValue;

use super::super::grouping::compare_sql_values;
use super::{is_truthy_basic, is_truthy_combined};
use crate::errors::ExecutorError;

pub(crate) fn fmt_stub(_a: std::fmt::Arguments<'_>) -> String { String::new() }

// the inline decision tables, lifted mechanically from the working tree on every run (lib/lift.py)
include!("lifted_gen.rs");

/// numeric / boolean / NULL values: symbolic variant AND payload (no allocation on these paths)
fn any_where_value() -> SqlValue {
    let k: u8 = kani::any();
    match k % 9 {
        0 => SqlValue::Boolean(kani::any()),
        1 => SqlValue::Null,
        2 => SqlValue::Integer(kani::any()),
        3 => SqlValue::Smallint(kani::any()),
        4 => SqlValue::Bigint(kani::any()),
        5 => SqlValue::Float(kani::any()),
        6 => SqlValue::Real(kani::any()),
        7 => SqlValue::Double(kani::any()),
        _ => SqlValue::Unsigned(kani::any()),      // not a WHERE truth value anywhere: must be an error everywhere
    }
}
fn dec(r: Result<bool, ExecutorError>) -> u8 { match r { Ok(true) => 1, Ok(false) => 0, Err(e) => { std::mem::forget(e); 2 } } }

/// the reference decision, pinned against the statement: TRUE or non-zero number keeps, NULL/FALSE/0 drops, other values are errors
#[kani::proof]
#[kani::stub(alloc::fmt::format, fmt_stub)]
fn e_truthy_reference_decision() {
    let v = any_where_value();
    let want: u8 = match &v {
        SqlValue::Boolean(b) => *b as u8,
        SqlValue::Null => 0,
        SqlValue::Integer(n) => (*n != 0) as u8,
        SqlValue::Smallint(n) => (*n != 0) as u8,
        SqlValue::Bigint(n) => (*n != 0) as u8,
        SqlValue::Float(f) | SqlValue::Real(f) => (*f != 0.0) as u8,
        SqlValue::Double(f) => (*f != 0.0) as u8,
        _ => 2,
    };
    assert!(dec(is_truthy_combined(&v)) == want, "E-truthy#reference_decision");
    assert!(dec(is_truthy_basic(&v)) == want, "E-truthy#basic_equals_combined");
}

macro_rules! same_decision {
    ($name:ident, $lifted:ident) => {
        #[kani::proof]
        #[kani::stub(alloc::fmt::format, fmt_stub)]
        fn $name() {
            let v = any_where_value();
            let reference = dec(is_truthy_combined(&v));
            assert!(dec($lifted(v)) == reference, "E-truthy#same_decision_as_reference");
        }
    };
}
same_decision!(e_truthy_filter_combined, lifted_apply_where_filter_combined);
same_decision!(e_truthy_predicates_ref, lifted_apply_table_local_predicates_ref);
same_decision!(e_truthy_predicates, lifted_apply_table_local_predicates);
same_decision!(e_truthy_predicates_parallel, lifted_apply_predicates_parallel);
same_decision!(e_truthy_index_scan, lifted_apply_where_filter_zerocopy);
same_decision!(e_truthy_index_scan_parallel, lifted_apply_where_filter_zerocopy_parallel);
same_decision!(e_truthy_having, lifted_having);

// ---------------------------------------------------------------------------------------------
// S-cmpsort: compare_sql_values on same-variant values: antisymmetric, transitive, NULL greater than every non-NULL
// ---------------------------------------------------------------------------------------------
fn same_variant(k: u8) -> SqlValue {
    match k {
        0 => SqlValue::Integer(kani::any()),
        1 => SqlValue::Smallint(kani::any()),
        2 => SqlValue::Bigint(kani::any()),
        3 => SqlValue::Unsigned(kani::any()),
        4 => SqlValue::Boolean(kani::any()),
        5 => { let f: f64 = kani::any(); kani::assume(!f.is_nan()); SqlValue::Double(f) }
        6 => { let f: f32 = kani::any(); kani::assume(!f.is_nan()); SqlValue::Real(f) }
        7 => { let f: f32 = kani::any(); kani::assume(!f.is_nan()); SqlValue::Float(f) }
        _ => { let f: f64 = kani::any(); kani::assume(!f.is_nan()); SqlValue::Numeric(f) }
    }
}
macro_rules! cmpsort {
    ($name:ident, $k:expr) => {
        #[kani::proof]
        fn $name() {
            let (a, b, c) = (same_variant($k), same_variant($k), same_variant($k));
            assert!(compare_sql_values(&a, &b) == compare_sql_values(&b, &a).reverse(), "S-cmpsort#antisymmetric");
            if compare_sql_values(&a, &b) != Ordering::Greater && compare_sql_values(&b, &c) != Ordering::Greater {
                assert!(compare_sql_values(&a, &c) != Ordering::Greater, "S-cmpsort#transitive");
            }
            assert!(compare_sql_values(&SqlValue::Null, &a) == Ordering::Greater, "S-cmpsort#null_greatest");
            assert!(compare_sql_values(&a, &SqlValue::Null) == Ordering::Less, "S-cmpsort#null_greatest");
        }
    };
}
cmpsort!(s_cmpsort_integer, 0);
cmpsort!(s_cmpsort_smallint, 1);
cmpsort!(s_cmpsort_bigint, 2);
cmpsort!(s_cmpsort_unsigned, 3);
cmpsort!(s_cmpsort_boolean, 4);
cmpsort!(s_cmpsort_double, 5);
cmpsort!(s_cmpsort_real, 6);
cmpsort!(s_cmpsort_float, 7);
cmpsort!(s_cmpsort_numeric, 8);
#[kani::proof]
fn s_cmpsort_null_null_equal() {
    assert!(compare_sql_values(&SqlValue::Null, &SqlValue::Null) == Ordering::Equal, "S-cmpsort#null_null_equal");
}

/// vacuity canary: MUST FAIL
#[kani::proof]
#[kani::stub(alloc::fmt::format, fmt_stub)]
fn k_canary_must_fail() {
    let v = any_where_value();
    assert!(dec(is_truthy_combined(&v)) == 1, "canary");
}

// concrete-playback replay slot
include!("select_k.playback.rs");
