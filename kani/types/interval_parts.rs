//! Mounted under cfg(kani) at the end of crates/vibesql-types/src/temporal/interval.rs
//! (a child module may name the private fields). No executable code of the crate is touched.
use super::Interval;

/// Build an Interval from its comparison-relevant parts (the `value` text plays no role in
/// Eq/Ord/Hash; it is left empty).
pub(crate) fn from_parts(months: i32, days: i32, microseconds: i64) -> Interval {
    Interval { value: String::new(), months, days, microseconds }
}

pub(crate) fn parts(i: &Interval) -> (i32, i32, i64) {
    (i.months, i.days, i.microseconds)
}

/// T-ord for Interval, structural form: `cmp` is the order induced by a key function into i128
/// (the real, private `cmp_value`, used here as an *uninterpreted* key: whatever it computes,
/// an order of the form K(a).cmp(K(b)) is antisymmetric and transitive because i128's is).
#[kani::proof]
fn t_ord_interval_induced_by_key() {
    let a = from_parts(kani::any(), kani::any(), kani::any());
    let b = from_parts(kani::any(), kani::any(), kani::any());
    assert!(a.cmp(&b) == a.cmp_value().cmp(&b.cmp_value()), "T-ord#interval_cmp_induced_by_key");
    assert!(a.partial_cmp(&b) == Some(a.cmp(&b)), "T-ord#interval_partial_cmp_agrees");
    std::mem::forget(a); std::mem::forget(b);
}
