//! Mounted under cfg(kani) at the end of crates/vibesql-types/src/temporal/interval.rs
//! (a child module may name the private fields). No executable code of the crate is touched.
use super::Interval;

/// Build an Interval from its comparison-relevant parts (the `value` text plays no role in
/// Eq/Ord/Hash; it is left empty).
pub(crate) fn from_parts(months: i32, days: i32, microseconds: i64) -> Interval {
    Interval { value: String::new(), months, days, microseconds }
}

pub(crate) fn parts(i: &Interval) -> (i32, i32, i64) {
    (i.months, i.days, i.microseconds)
}
