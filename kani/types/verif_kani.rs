//! Kani harnesses for vibesql-types (C21: T-eq, T-ord, T-hash). Mounted under cfg(kani) from
//! crates/vibesql-types/src/lib.rs.  Spec predicates never call the function under proof.
#![allow(dead_code)]
use std::cmp::Ordering;
use std::hash::{Hash, Hasher};

use crate::temporal::verif_kani_interval::from_parts;
use crate::{Date, SqlValue, Time, Timestamp};

// ------------------------------------------------------------------------------------------
// generators: every value the type can hold (no constructor invariant is assumed: fields are pub)
// ------------------------------------------------------------------------------------------
pub(crate) fn any_date() -> Date {
    Date { year: kani::any(), month: kani::any(), day: kani::any() }
}
pub(crate) fn any_time() -> Time {
    Time { hour: kani::any(), minute: kani::any(), second: kani::any(), nanosecond: kani::any() }
}
pub(crate) fn any_timestamp() -> Timestamp {
    Timestamp { date: any_date(), time: any_time() }
}
pub(crate) fn any_interval() -> crate::Interval {
    from_parts(kani::any(), kani::any(), kani::any())
}

/// variant index -> value with fully symbolic payload. 0..=12 scalar variants, 13 = Null.
pub(crate) fn scalar_of(tag: u8) -> SqlValue {
    match tag {
        0 => SqlValue::Integer(kani::any()),
        1 => SqlValue::Smallint(kani::any()),
        2 => SqlValue::Bigint(kani::any()),
        3 => SqlValue::Unsigned(kani::any()),
        4 => SqlValue::Numeric(kani::any()),
        5 => SqlValue::Float(kani::any()),
        6 => SqlValue::Real(kani::any()),
        7 => SqlValue::Double(kani::any()),
        8 => SqlValue::Boolean(kani::any()),
        9 => SqlValue::Date(any_date()),
        10 => SqlValue::Time(any_time()),
        11 => SqlValue::Timestamp(any_timestamp()),
        12 => SqlValue::Interval(any_interval()),
        _ => SqlValue::Null,
    }
}
pub(crate) const N_SCALAR_TAGS: u8 = 14;

/// exhaustiveness anchor: a variant added upstream breaks this match at compile time
/// (=> harness compile error => exit 2 "lost anchor", never a silent hole)
pub(crate) fn tag_of(v: &SqlValue) -> u8 {
    match v {
        SqlValue::Integer(_) => 0,
        SqlValue::Smallint(_) => 1,
        SqlValue::Bigint(_) => 2,
        SqlValue::Unsigned(_) => 3,
        SqlValue::Numeric(_) => 4,
        SqlValue::Float(_) => 5,
        SqlValue::Real(_) => 6,
        SqlValue::Double(_) => 7,
        SqlValue::Boolean(_) => 8,
        SqlValue::Date(_) => 9,
        SqlValue::Time(_) => 10,
        SqlValue::Timestamp(_) => 11,
        SqlValue::Interval(_) => 12,
        SqlValue::Null => 13,
        SqlValue::Character(_) => 14,
        SqlValue::Varchar(_) => 15,
    }
}

/// any non-string value, symbolic variant and payload
pub(crate) fn any_scalar() -> SqlValue {
    let t: u8 = kani::any();
    kani::assume(t < N_SCALAR_TAGS);
    scalar_of(t)
}

/// ASCII string of length <= 2 (bound B(2)); std's String Eq/Ord/Hash do the work (trusted)
pub(crate) fn any_short_string() -> String {
    let n: u8 = kani::any();
    kani::assume(n <= 2);
    let mut s = String::new();
    if n >= 1 {
        let c: u8 = kani::any();
        kani::assume(c < 128);
        s.push(c as char);
    }
    if n >= 2 {
        let c: u8 = kani::any();
        kani::assume(c < 128);
        s.push(c as char);
    }
    s
}
pub(crate) fn any_stringy() -> SqlValue {
    if kani::any() { SqlValue::Character(any_short_string()) } else { SqlValue::Varchar(any_short_string()) }
}

// ------------------------------------------------------------------------------------------
// recording hasher: the complete `Hasher::write*` stream. Equal streams => equal hash under
// EVERY Hasher (what HashMap/HashSet/IndexSet rely on).
// ------------------------------------------------------------------------------------------
pub(crate) struct Rec {
    pub buf: [u8; 32],
    pub len: usize,
    pub overflow: bool,
}
impl Rec {
    pub fn new() -> Self { Rec { buf: [0; 32], len: 0, overflow: false } }
    pub fn same(&self, o: &Rec) -> bool {
        if self.overflow || o.overflow || self.len != o.len { return false; }
        let mut i = 0;
        while i < 32 {
            if i < self.len && self.buf[i] != o.buf[i] { return false; }
            i += 1;
        }
        true
    }
}
impl Hasher for Rec {
    fn finish(&self) -> u64 { 0 }
    fn write(&mut self, bytes: &[u8]) {
        let mut i = 0;
        while i < bytes.len() {
            if self.len < 32 { self.buf[self.len] = bytes[i]; self.len += 1; } else { self.overflow = true; }
            i += 1;
        }
    }
}
pub(crate) fn stream(v: &SqlValue) -> Rec { let mut r = Rec::new(); v.hash(&mut r); r }


/// value of variant `tag` (0..=13 scalar/Null, 14 Character, 15 Varchar) with symbolic payload
pub(crate) fn value_of(tag: u8) -> SqlValue {
    match tag {
        14 => SqlValue::Character(any_short_string()),
        15 => SqlValue::Varchar(any_short_string()),
        t => scalar_of(t),
    }
}
/// fixed representative of each variant (concrete payload)
pub(crate) fn rep(tag: u8) -> SqlValue {
    match tag {
        0 => SqlValue::Integer(0),
        1 => SqlValue::Smallint(0),
        2 => SqlValue::Bigint(0),
        3 => SqlValue::Unsigned(0),
        4 => SqlValue::Numeric(0.0),
        5 => SqlValue::Float(0.0),
        6 => SqlValue::Real(0.0),
        7 => SqlValue::Double(0.0),
        8 => SqlValue::Boolean(false),
        9 => SqlValue::Date(Date { year: 0, month: 0, day: 0 }),
        10 => SqlValue::Time(Time { hour: 0, minute: 0, second: 0, nanosecond: 0 }),
        11 => SqlValue::Timestamp(Timestamp { date: Date { year: 0, month: 0, day: 0 }, time: Time { hour: 0, minute: 0, second: 0, nanosecond: 0 } }),
        12 => SqlValue::Interval(from_parts(0, 0, 0)),
        13 => SqlValue::Null,
        14 => SqlValue::Character(String::new()),
        _ => SqlValue::Varchar(String::new()),
    }
}
pub(crate) const N_TAGS: u8 = 16;

fn forget3(a: SqlValue, b: SqlValue, c: SqlValue) { std::mem::forget(a); std::mem::forget(b); std::mem::forget(c); }

// ------------------------------------------------------------------------------------------
// Same-variant laws: three values of ONE variant with fully symbolic payloads.
// The variant split happens outside the solver (one harness per variant); the union is the
// full domain of same-variant triples.
// ------------------------------------------------------------------------------------------
macro_rules! same_variant {
    ($tag:expr, $eq:ident, $ord:ident, $hash:ident) => {
        #[kani::proof]
        fn $eq() {
            let a = value_of($tag); let b = value_of($tag); let c = value_of($tag);
            assert!(a == a, "T-eq#reflexive");
            assert!((a == b) == (b == a), "T-eq#symmetric");
            if a == b && b == c { assert!(a == c, "T-eq#transitive"); }
            forget3(a, b, c);
        }
        #[kani::proof]
        fn $ord() {
            let a = value_of($tag); let b = value_of($tag); let c = value_of($tag);
            assert!(a.cmp(&b) == b.cmp(&a).reverse(), "T-ord#antisymmetric");
            if a.cmp(&b) != Ordering::Greater && b.cmp(&c) != Ordering::Greater {
                assert!(a.cmp(&c) != Ordering::Greater, "T-ord#transitive");
            }
            if a == b { assert!(a.cmp(&b) == Ordering::Equal, "T-ord#eq_implies_cmp_equal"); }
            if $tag != 12 {
                // Interval x Interval is the recorded finding KF-C21-interval (checked separately)
                if a.cmp(&b) == Ordering::Equal { assert!(a == b, "T-ord#cmp_equal_implies_eq"); }
            }
            forget3(a, b, c);
        }
        #[kani::proof]
        #[kani::unwind(34)]
        fn $hash() {
            let a = value_of($tag); let b = value_of($tag);
            let (sa, sb) = (stream(&a), stream(&b));
            assert!(!sa.overflow && !sb.overflow, "recording buffer large enough");
            if a == b { assert!(sa.same(&sb), "T-hash#eq_implies_same_stream"); }
            std::mem::forget(a); std::mem::forget(b);
        }
    };
}
same_variant!(0, t_eq_integer, t_ord_integer, t_hash_integer);
same_variant!(1, t_eq_smallint, t_ord_smallint, t_hash_smallint);
same_variant!(2, t_eq_bigint, t_ord_bigint, t_hash_bigint);
same_variant!(3, t_eq_unsigned, t_ord_unsigned, t_hash_unsigned);
same_variant!(4, t_eq_numeric, t_ord_numeric, t_hash_numeric);
same_variant!(5, t_eq_float, t_ord_float, t_hash_float);
same_variant!(6, t_eq_real, t_ord_real, t_hash_real);
same_variant!(7, t_eq_double, t_ord_double, t_hash_double);
same_variant!(8, t_eq_boolean, t_ord_boolean, t_hash_boolean);
same_variant!(9, t_eq_date, t_ord_date, t_hash_date);
same_variant!(10, t_eq_time, t_ord_time, t_hash_time);
same_variant!(11, t_eq_timestamp, t_ord_timestamp, t_hash_timestamp);
same_variant!(12, t_eq_interval, t_ord_interval, t_hash_interval);
same_variant!(13, t_eq_null, t_ord_null, t_hash_null);
same_variant!(14, t_eq_character_b2, t_ord_character_b2, t_hash_character_b2);
same_variant!(15, t_eq_varchar_b2, t_ord_varchar_b2, t_hash_varchar_b2);

/// #known: the clause excluded above on exactly the excluded class; EXPECTED TO FAIL
/// (e.g. 1 MONTH vs 30 DAY: cmp == Equal, eq == false)
#[kani::proof]
fn t_ord_interval_cmp_equal_implies_eq_known() {
    let a = SqlValue::Interval(any_interval()); let b = SqlValue::Interval(any_interval());
    if a.cmp(&b) == Ordering::Equal { assert!(a == b, "T-ord#cmp_equal_implies_eq"); }
}

// ------------------------------------------------------------------------------------------
// Cross-variant: for values of DIFFERENT variants, eq is false and cmp depends on the two
// variants only (it equals cmp of the representatives).  Together with the laws on the 16
// representatives and the same-variant laws this gives the global laws (lemma L-order-compose,
// proved in Verus: units/L_order_compose.py).
// ------------------------------------------------------------------------------------------
macro_rules! cross_variant {
    ($tag:expr, $name:ident) => {
        #[kani::proof]
        fn $name() {
            let tb: u8 = kani::any();
            kani::assume(tb < N_TAGS && tb != $tag);
            let a = value_of($tag); let b = value_of(tb);
            assert!(!(a == b) && !(b == a), "T-eq#cross_variant_never_equal");
            assert!(a.cmp(&b) == rep($tag).cmp(&rep(tb)), "T-ord#cross_variant_by_variant_only");
            assert!(b.cmp(&a) == rep(tb).cmp(&rep($tag)), "T-ord#cross_variant_by_variant_only");
            std::mem::forget(a); std::mem::forget(b);
        }
    };
}
cross_variant!(0, t_cross_integer);
cross_variant!(1, t_cross_smallint);
cross_variant!(2, t_cross_bigint);
cross_variant!(3, t_cross_unsigned);
cross_variant!(4, t_cross_numeric);
cross_variant!(5, t_cross_float);
cross_variant!(6, t_cross_real);
cross_variant!(7, t_cross_double);
cross_variant!(8, t_cross_boolean);
cross_variant!(9, t_cross_date);
cross_variant!(10, t_cross_time);
cross_variant!(11, t_cross_timestamp);
cross_variant!(12, t_cross_interval);
cross_variant!(13, t_cross_null);
cross_variant!(14, t_cross_character_b2);
cross_variant!(15, t_cross_varchar_b2);

/// laws on the representatives: a strict total order on the 16 variants
#[kani::proof]
fn t_rep_order_is_strict_total() {
    let i: u8 = kani::any(); let j: u8 = kani::any(); let k: u8 = kani::any();
    kani::assume(i < N_TAGS && j < N_TAGS && k < N_TAGS);
    let (a, b, c) = (rep(i), rep(j), rep(k));
    assert!(a.cmp(&b) == b.cmp(&a).reverse(), "T-ord#rep_antisymmetric");
    assert!((a.cmp(&b) == Ordering::Equal) == (i == j), "T-ord#rep_equal_iff_same_variant");
    if a.cmp(&b) == Ordering::Less && b.cmp(&c) == Ordering::Less {
        assert!(a.cmp(&c) == Ordering::Less, "T-ord#rep_transitive");
    }
    forget3(a, b, c);
}

/// vacuity canary: MUST FAIL (distinct values need not hash alike)
#[kani::proof]
#[kani::unwind(34)]
fn t_canary_must_fail() {
    let a = value_of(7); let b = value_of(7);
    assert!(stream(&a).same(&stream(&b)), "canary");
}

/// reachability of every generator arm (thorough tier)
#[kani::proof]
fn t_cover_generator_arms() {
    let t: u8 = kani::any();
    kani::assume(t < N_TAGS);
    let a = value_of(t);
    let t = tag_of(&a);
    kani::cover!(t == 0); kani::cover!(t == 1); kani::cover!(t == 2); kani::cover!(t == 3);
    kani::cover!(t == 4); kani::cover!(t == 5); kani::cover!(t == 6); kani::cover!(t == 7);
    kani::cover!(t == 8); kani::cover!(t == 9); kani::cover!(t == 10); kani::cover!(t == 11);
    kani::cover!(t == 12); kani::cover!(t == 13); kani::cover!(t == 14); kani::cover!(t == 15);
    std::mem::forget(a);
}

/// SqlValue::cmp on two intervals is Interval::cmp (which is induced by a key, see
/// interval_parts.rs::t_ord_interval_induced_by_key); eq => cmp Equal.
#[kani::proof]
fn t_ord_interval_delegates() {
    let (x, y) = (any_interval(), any_interval());
    let direct = x.cmp(&y);
    let a = SqlValue::Interval(x); let b = SqlValue::Interval(y);
    assert!(a.cmp(&b) == direct, "T-ord#interval_delegates_to_key_order");
    if a == b { assert!(a.cmp(&b) == Ordering::Equal, "T-ord#eq_implies_cmp_equal"); }
    std::mem::forget(a); std::mem::forget(b);
}

// concrete-playback replay slot (see lib/kani_run.py: replay); empty except while a counterexample is being replayed
include!("verif_kani.playback.rs");
