//! Kani harnesses for vibesql-types (C21: T-eq, T-ord, T-hash). Mounted under cfg(kani) from
//! crates/vibesql-types/src/lib.rs.  Spec predicates never call the function under proof.
#![allow(dead_code)]
use std::cmp::Ordering;
use std::hash::{Hash, Hasher};

use crate::temporal::interval::verif_kani_interval::from_parts;
use crate::{Date, SqlValue, Time, Timestamp};

// ------------------------------------------------------------------------------------------
// generators: every value the type can hold (no constructor invariant is assumed: fields are pub)
// ------------------------------------------------------------------------------------------
pub(crate) fn any_date() -> Date {
    Date { year: kani::any(), month: kani::any(), day: kani::any() }
}
pub(crate) fn any_time() -> Time {
    Time { hour: kani::any(), minute: kani::any(), second: kani::any(), nanosecond: kani::any() }
}
pub(crate) fn any_timestamp() -> Timestamp {
    Timestamp { date: any_date(), time: any_time() }
}
pub(crate) fn any_interval() -> crate::Interval {
    from_parts(kani::any(), kani::any(), kani::any())
}

/// variant index -> value with fully symbolic payload. 0..=12 scalar variants, 13 = Null.
pub(crate) fn scalar_of(tag: u8) -> SqlValue {
    match tag {
        0 => SqlValue::Integer(kani::any()),
        1 => SqlValue::Smallint(kani::any()),
        2 => SqlValue::Bigint(kani::any()),
        3 => SqlValue::Unsigned(kani::any()),
        4 => SqlValue::Numeric(kani::any()),
        5 => SqlValue::Float(kani::any()),
        6 => SqlValue::Real(kani::any()),
        7 => SqlValue::Double(kani::any()),
        8 => SqlValue::Boolean(kani::any()),
        9 => SqlValue::Date(any_date()),
        10 => SqlValue::Time(any_time()),
        11 => SqlValue::Timestamp(any_timestamp()),
        12 => SqlValue::Interval(any_interval()),
        _ => SqlValue::Null,
    }
}
pub(crate) const N_SCALAR_TAGS: u8 = 14;

/// exhaustiveness anchor: a variant added upstream breaks this match at compile time
/// (=> harness compile error => exit 2 "lost anchor", never a silent hole)
pub(crate) fn tag_of(v: &SqlValue) -> u8 {
    match v {
        SqlValue::Integer(_) => 0,
        SqlValue::Smallint(_) => 1,
        SqlValue::Bigint(_) => 2,
        SqlValue::Unsigned(_) => 3,
        SqlValue::Numeric(_) => 4,
        SqlValue::Float(_) => 5,
        SqlValue::Real(_) => 6,
        SqlValue::Double(_) => 7,
        SqlValue::Boolean(_) => 8,
        SqlValue::Date(_) => 9,
        SqlValue::Time(_) => 10,
        SqlValue::Timestamp(_) => 11,
        SqlValue::Interval(_) => 12,
        SqlValue::Null => 13,
        SqlValue::Character(_) => 14,
        SqlValue::Varchar(_) => 15,
    }
}

/// any non-string value, symbolic variant and payload
pub(crate) fn any_scalar() -> SqlValue {
    let t: u8 = kani::any();
    kani::assume(t < N_SCALAR_TAGS);
    scalar_of(t)
}

/// ASCII string of length <= 2 (bound B(2)); std's String Eq/Ord/Hash do the work (trusted)
pub(crate) fn any_short_string() -> String {
    let n: u8 = kani::any();
    kani::assume(n <= 2);
    let mut s = String::new();
    if n >= 1 {
        let c: u8 = kani::any();
        kani::assume(c < 128);
        s.push(c as char);
    }
    if n >= 2 {
        let c: u8 = kani::any();
        kani::assume(c < 128);
        s.push(c as char);
    }
    s
}
pub(crate) fn any_stringy() -> SqlValue {
    if kani::any() { SqlValue::Character(any_short_string()) } else { SqlValue::Varchar(any_short_string()) }
}

// ------------------------------------------------------------------------------------------
// recording hasher: the complete `Hasher::write*` stream. Equal streams => equal hash under
// EVERY Hasher (what HashMap/HashSet/IndexSet rely on).
// ------------------------------------------------------------------------------------------
pub(crate) struct Rec {
    pub buf: [u8; 48],
    pub len: usize,
    pub overflow: bool,
}
impl Rec {
    pub fn new() -> Self { Rec { buf: [0; 48], len: 0, overflow: false } }
    pub fn same(&self, o: &Rec) -> bool {
        if self.overflow || o.overflow || self.len != o.len { return false; }
        let mut i = 0;
        while i < 48 {
            if i < self.len && self.buf[i] != o.buf[i] { return false; }
            i += 1;
        }
        true
    }
}
impl Hasher for Rec {
    fn finish(&self) -> u64 { 0 }
    fn write(&mut self, bytes: &[u8]) {
        let mut i = 0;
        while i < bytes.len() {
            if self.len < 48 { self.buf[self.len] = bytes[i]; self.len += 1; } else { self.overflow = true; }
            i += 1;
        }
    }
}
fn stream(v: &SqlValue) -> Rec { let mut r = Rec::new(); v.hash(&mut r); r }

// ------------------------------------------------------------------------------------------
// T-eq
// ------------------------------------------------------------------------------------------
#[kani::proof]
fn t_eq_reflexive_scalar() { let a = any_scalar(); assert!(a == a); }

#[kani::proof]
fn t_eq_symmetric_scalar() { let a = any_scalar(); let b = any_scalar(); assert!((a == b) == (b == a)); }

#[kani::proof]
fn t_eq_transitive_scalar() {
    let a = any_scalar(); let b = any_scalar(); let c = any_scalar();
    if a == b && b == c { assert!(a == c); }
}

#[kani::proof]
fn t_eq_laws_string_b2() {
    let a = any_stringy(); let b = any_stringy(); let c = any_stringy();
    assert!(a == a);
    assert!((a == b) == (b == a));
    if a == b && b == c { assert!(a == c); }
    std::mem::forget(a); std::mem::forget(b); std::mem::forget(c);
}

#[kani::proof]
fn t_eq_string_vs_scalar_never_equal() {
    let a = any_stringy(); let b = any_scalar();
    assert!(!(a == b) && !(b == a));
    std::mem::forget(a);
}

// ------------------------------------------------------------------------------------------
// T-ord
// ------------------------------------------------------------------------------------------
#[kani::proof]
fn t_ord_antisymmetric_scalar() {
    let a = any_scalar(); let b = any_scalar();
    assert!(a.cmp(&b) == b.cmp(&a).reverse());
}

#[kani::proof]
fn t_ord_transitive_scalar() {
    let a = any_scalar(); let b = any_scalar(); let c = any_scalar();
    if a.cmp(&b) != Ordering::Greater && b.cmp(&c) != Ordering::Greater {
        assert!(a.cmp(&c) != Ordering::Greater);
    }
    if a.cmp(&b) == Ordering::Equal && b.cmp(&c) == Ordering::Equal {
        assert!(a.cmp(&c) == Ordering::Equal);
    }
}

fn both_interval(a: &SqlValue, b: &SqlValue) -> bool {
    matches!((a, b), (SqlValue::Interval(_), SqlValue::Interval(_)))
}

/// "the total sort order agrees with that equality": cmp == Equal <=> eq, both directions.
/// #main: every pair except Interval x Interval (recorded finding, see KNOWN_FINDINGS.jsonl)
#[kani::proof]
fn t_ord_agrees_with_eq_scalar_main() {
    let a = any_scalar(); let b = any_scalar();
    kani::assume(!both_interval(&a, &b));
    assert!((a.cmp(&b) == Ordering::Equal) == (a == b));
}
/// eq => cmp == Equal holds for intervals too (only the converse is the recorded finding)
#[kani::proof]
fn t_ord_eq_implies_cmp_equal_interval() {
    let a = SqlValue::Interval(any_interval()); let b = SqlValue::Interval(any_interval());
    if a == b { assert!(a.cmp(&b) == Ordering::Equal); }
}
/// #known: the original clause on exactly the excluded class; EXPECTED TO FAIL (1 MONTH vs 30 DAY)
#[kani::proof]
fn t_ord_agrees_with_eq_interval_known() {
    let a = SqlValue::Interval(any_interval()); let b = SqlValue::Interval(any_interval());
    assert!((a.cmp(&b) == Ordering::Equal) == (a == b));
}

#[kani::proof]
fn t_ord_laws_string_b2() {
    let a = any_stringy(); let b = any_stringy(); let c = any_stringy();
    assert!(a.cmp(&b) == b.cmp(&a).reverse());
    if a.cmp(&b) != Ordering::Greater && b.cmp(&c) != Ordering::Greater {
        assert!(a.cmp(&c) != Ordering::Greater);
    }
    assert!((a.cmp(&b) == Ordering::Equal) == (a == b));
    std::mem::forget(a); std::mem::forget(b); std::mem::forget(c);
}

#[kani::proof]
fn t_ord_string_vs_scalar() {
    let a = any_stringy(); let b = any_scalar();
    assert!(a.cmp(&b) == b.cmp(&a).reverse());
    assert!(a.cmp(&b) != Ordering::Equal);
    std::mem::forget(a);
}

// ------------------------------------------------------------------------------------------
// T-hash
// ------------------------------------------------------------------------------------------
#[kani::proof]
fn t_hash_eq_implies_same_stream_scalar() {
    let a = any_scalar(); let b = any_scalar();
    if a == b { assert!(stream(&a).same(&stream(&b))); }
}

#[kani::proof]
fn t_hash_eq_implies_same_stream_string_b2() {
    let a = any_stringy(); let b = any_stringy();
    if a == b { assert!(stream(&a).same(&stream(&b))); }
    std::mem::forget(a); std::mem::forget(b);
}

/// vacuity canary: MUST FAIL (distinct values need not hash alike)
#[kani::proof]
fn t_canary_must_fail() {
    let a = any_scalar(); let b = any_scalar();
    assert!(stream(&a).same(&stream(&b)));
}

/// reachability of every generator arm (thorough tier)
#[kani::proof]
fn t_cover_generator_arms() {
    let a = any_scalar();
    let t = tag_of(&a);
    kani::cover!(t == 0); kani::cover!(t == 1); kani::cover!(t == 2); kani::cover!(t == 3);
    kani::cover!(t == 4); kani::cover!(t == 5); kani::cover!(t == 6); kani::cover!(t == 7);
    kani::cover!(t == 8); kani::cover!(t == 9); kani::cover!(t == 10); kani::cover!(t == 11);
    kani::cover!(t == 12); kani::cover!(t == 13);
}
