#[test]
