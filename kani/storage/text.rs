//! Mounted under cfg(kani) at the end of crates/vibesql-storage/src/table/normalization.rs (child module: private fns visible)
//! N-trunc (C24): truncate_to_char_boundary(s, max) never panics and returns the LONGEST prefix of s that is at most max bytes long and
//! ends on a character boundary - for every valid UTF-8 string of up to 4 bytes (covers 1-, 2-, 3- and 4-byte characters; class B(4))
//! and every usize max.
#![allow(dead_code)]
use super::truncate_to_char_boundary;

#[kani::proof]
#[kani::unwind(6)]
fn n_trunc_longest_fitting_prefix_on_a_char_boundary() {
    let bytes: [u8; 4] = kani::any();
    let len: usize = kani::any();
    kani::assume(len <= 4);
    let max: usize = kani::any();
    if let Ok(s) = core::str::from_utf8(&bytes[..len]) {
        let r = truncate_to_char_boundary(s, max);
        let k = r.len();
        assert!(k <= s.len(), "N-trunc#not_longer_than_input");
        assert!(k <= max, "N-trunc#at_most_max_bytes");
        assert!(s.is_char_boundary(k), "N-trunc#ends_on_a_char_boundary");
        // r is the prefix s[..k]
        let mut i = 0;
        while i < k {
            assert!(r.as_bytes()[i] == s.as_bytes()[i], "N-trunc#is_a_prefix");
            i += 1;
        }
        // longest: every longer candidate that would still fit is not a boundary
        let mut j = k + 1;
        while j <= s.len() && j <= max {
            assert!(!s.is_char_boundary(j), "N-trunc#longest");
            j += 1;
        }
        if max >= s.len() {
            assert!(k == s.len(), "N-trunc#identity_when_it_fits");
        }
    }
}

// N-char (C18, C24): RowNormalizer::normalize_char_value(s, n) - the stored form of a CHAR(n) value - is EXACTLY n bytes long: the longest prefix of s that fits
// on a character boundary, then spaces; and a stored value is a FIXED POINT (normalizing it again - every reload and UPDATE does - changes nothing).
// Every valid UTF-8 string of up to 3 bytes (1-, 2- and 3-byte characters; class B(3 bytes)) and every n <= 4.
#[kani::proof]
#[kani::unwind(6)]
fn n_char_exactly_n_bytes_and_a_fixed_point() {
    let bytes: [u8; 3] = kani::any();
    let len: usize = kani::any();
    kani::assume(len <= 3);
    let n: usize = kani::any();
    kani::assume(n <= 4);
    if let Ok(s) = core::str::from_utf8(&bytes[..len]) {
        let r = super::RowNormalizer::normalize_char_value(s, n);
        assert!(r.len() == n, "N-char#exactly_n_bytes");
        let kept = truncate_to_char_boundary(s, n);
        let mut i = 0;
        while i < n {
            if i < kept.len() {
                assert!(r.as_bytes()[i] == kept.as_bytes()[i], "N-char#starts_with_the_longest_fitting_prefix");
            } else {
                assert!(r.as_bytes()[i] == b' ', "N-char#then_spaces");
            }
            i += 1;
        }
        let r2 = super::RowNormalizer::normalize_char_value(&r, n);
        assert!(r2.len() == n, "N-char#fixed_point_length");
        let mut j = 0;
        while j < n {
            assert!(r2.as_bytes()[j] == r.as_bytes()[j], "N-char#fixed_point");
            j += 1;
        }
    }
}

#[kani::proof]
fn n_trunc_canary_must_fail() {
    let x: u8 = kani::any();
    assert!(x != 7, "canary");
}
