//! Mounted under cfg(kani) at the end of crates/vibesql-storage/src/table/normalization.rs (child module: private fns visible)
//! N-trunc (C24): truncate_to_char_boundary(s, max) never panics and returns the LONGEST prefix of s that is at most max bytes long and
//! ends on a character boundary - for every valid UTF-8 string of up to 4 bytes (covers 1-, 2-, 3- and 4-byte characters; class B(4))
//! and every usize max.
#![allow(dead_code)]
use super::truncate_to_char_boundary;

#[kani::proof]
#[kani::unwind(6)]
fn n_trunc_longest_fitting_prefix_on_a_char_boundary() {
    let bytes: [u8; 4] = kani::any();
    let len: usize = kani::any();
    kani::assume(len <= 4);
    let max: usize = kani::any();
    if let Ok(s) = core::str::from_utf8(&bytes[..len]) {
        let r = truncate_to_char_boundary(s, max);
        let k = r.len();
        assert!(k <= s.len(), "N-trunc#not_longer_than_input");
        assert!(k <= max, "N-trunc#at_most_max_bytes");
        assert!(s.is_char_boundary(k), "N-trunc#ends_on_a_char_boundary");
        // r is the prefix s[..k]
        let mut i = 0;
        while i < k {
            assert!(r.as_bytes()[i] == s.as_bytes()[i], "N-trunc#is_a_prefix");
            i += 1;
        }
        // longest: every longer candidate that would still fit is not a boundary
        let mut j = k + 1;
        while j <= s.len() && j <= max {
            assert!(!s.is_char_boundary(j), "N-trunc#longest");
            j += 1;
        }
        if max >= s.len() {
            assert!(k == s.len(), "N-trunc#identity_when_it_fits");
        }
    }
}

#[kani::proof]
fn n_trunc_canary_must_fail() {
    let x: u8 = kani::any();
    assert!(x != 7, "canary");
}
