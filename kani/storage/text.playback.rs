// (generated at replay time; empty otherwise) concrete-playback tests for the harnesses of this module
