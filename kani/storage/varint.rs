//! Mounted under cfg(kani) at the end of crates/vibesql-storage/src/btree/serialize.rs (child module: private fns visible)
//! B-varint (C17): read_varint(write_varint(x)) == x for all usize, exact consumption; reader total on any bytes.
#![allow(dead_code)]
use std::io::Cursor;

use super::{read_varint, write_varint};

pub(crate) fn fmt_stub(_a: std::fmt::Arguments<'_>) -> String { String::new() }

#[kani::proof]
#[kani::unwind(12)]
#[kani::stub(alloc::fmt::format, fmt_stub)]
fn b_varint_roundtrip_all_usize() {
    let x: usize = kani::any();
    let mut buf = [0u8; 12];
    let n = {
        let mut c = Cursor::new(&mut buf[..]);
        let r = write_varint(&mut c, x);
        assert!(r.is_ok(), "B-varint#write_ok");
        std::mem::forget(r);
        c.position() as usize
    };
    assert!(n >= 1 && n <= 10, "B-varint#length_1_to_10");
    let mut c = Cursor::new(&buf[..]);
    match read_varint(&mut c) {
        Ok(y) => assert!(y == x, "B-varint#roundtrip"),
        Err(e) => { std::mem::forget(e); assert!(false, "B-varint#read_ok"); }
    }
    assert!(c.position() as usize == n, "B-varint#exact_consumption");
}

#[kani::proof]
#[kani::unwind(13)]
#[kani::stub(alloc::fmt::format, fmt_stub)]
fn b_varint_reader_total() {
    let bytes: [u8; 11] = kani::any();
    let len: usize = kani::any();
    kani::assume(len <= 11);
    let mut c = Cursor::new(&bytes[..len]);
    let r = read_varint(&mut c);
    assert!(c.position() as usize <= len, "B-varint#never_reads_past_input");
    assert!(c.position() <= 10, "B-varint#at_most_10_bytes");
    std::mem::forget(r);
}

#[kani::proof]
#[kani::unwind(12)]
#[kani::stub(alloc::fmt::format, fmt_stub)]
fn b_varint_canary_must_fail() {
    let x: usize = kani::any();
    let mut buf = [0u8; 12];
    let mut c = Cursor::new(&mut buf[..]);
    let r = write_varint(&mut c, x);
    std::mem::forget(r);
    assert!(c.position() == 1, "canary");
}

// concrete-playback replay slot (see lib/kani_run.py: replay); empty except while a counterexample is being replayed
include!("varint.playback.rs");
