//! Mounted under cfg(kani) from crates/vibesql-storage/src/lib.rs
//! P-val / P-hdr (C18: round trip of the binary value codec, bitwise) and P-total (C20: readers are total).
#![allow(dead_code)]
use vibesql_types::SqlValue;

use crate::persistence::binary::format::{read_header, write_header, TypeTag};
use crate::persistence::binary::io::*;
use crate::persistence::binary::value::{read_sql_value, write_sql_value};
use crate::StorageError;

/// error paths call format!(); no obligation inspects message text
pub(crate) fn fmt_stub(_a: std::fmt::Arguments<'_>) -> String { String::new() }

fn forget_res<T>(r: Result<T, StorageError>) { std::mem::forget(r); }

// ---------------------------------------------------------------------------------------------
// P-val: read(write(v)) == v bitwise, and exactly the written bytes are consumed.
// One harness per scalar tag (case split outside the solver), full payload domain.
// ---------------------------------------------------------------------------------------------
macro_rules! roundtrip {
    ($name:ident, $size:expr, $mk:expr, $same:expr) => {
        #[kani::proof]
        #[kani::stub(alloc::fmt::format, fmt_stub)]
        fn $name() {
            let v: SqlValue = $mk;
            let mut buf = [0xAAu8; 16];
            let written = {
                let mut w: &mut [u8] = &mut buf[..];
                let r = write_sql_value(&mut w, &v);
                assert!(r.is_ok(), "P-val#write_ok");
                forget_res(r);
                16 - w.len()
            };
            assert!(written == $size, "P-val#encoded_size");
            let mut rd: &[u8] = &buf[..];
            let back = read_sql_value(&mut rd);
            assert!(16 - rd.len() == written, "P-val#exact_consumption");
            match back {
                Ok(b) => { assert!($same(&v, &b), "P-val#roundtrip_bitwise"); }
                Err(e) => { std::mem::forget(e); assert!(false, "P-val#read_ok"); }
            }
        }
    };
}
fn same_bits(a: &SqlValue, b: &SqlValue) -> bool {
    match (a, b) {
        (SqlValue::Null, SqlValue::Null) => true,
        (SqlValue::Smallint(x), SqlValue::Smallint(y)) => x == y,
        (SqlValue::Integer(x), SqlValue::Integer(y)) => x == y,
        (SqlValue::Bigint(x), SqlValue::Bigint(y)) => x == y,
        (SqlValue::Unsigned(x), SqlValue::Unsigned(y)) => x == y,
        (SqlValue::Numeric(x), SqlValue::Numeric(y)) => x.to_bits() == y.to_bits(),
        (SqlValue::Float(x), SqlValue::Float(y)) => x.to_bits() == y.to_bits(),
        (SqlValue::Real(x), SqlValue::Real(y)) => x.to_bits() == y.to_bits(),
        (SqlValue::Double(x), SqlValue::Double(y)) => x.to_bits() == y.to_bits(),
        (SqlValue::Boolean(x), SqlValue::Boolean(y)) => x == y,
        _ => false,
    }
}
roundtrip!(p_val_null, 1, SqlValue::Null, same_bits);
roundtrip!(p_val_smallint, 3, SqlValue::Smallint(kani::any()), same_bits);
roundtrip!(p_val_integer, 9, SqlValue::Integer(kani::any()), same_bits);
roundtrip!(p_val_bigint, 9, SqlValue::Bigint(kani::any()), same_bits);
roundtrip!(p_val_unsigned, 9, SqlValue::Unsigned(kani::any()), same_bits);
roundtrip!(p_val_numeric, 9, SqlValue::Numeric(kani::any()), same_bits);
roundtrip!(p_val_float, 5, SqlValue::Float(kani::any()), same_bits);
roundtrip!(p_val_real, 5, SqlValue::Real(kani::any()), same_bits);
roundtrip!(p_val_double, 9, SqlValue::Double(kani::any()), same_bits);
roundtrip!(p_val_boolean, 2, SqlValue::Boolean(kani::any()), same_bits);

/// TypeTag::from_u8 is the inverse of `as u8` on the 16 tags and an error on the other 240 bytes (all 256 codes)
#[kani::proof]
#[kani::stub(alloc::fmt::format, fmt_stub)]
fn p_val_tag_inverse_all_codes() {
    let t: u8 = kani::any();
    let r = TypeTag::from_u8(t);
    let valid = matches!(t, 0x00..=0x08 | 0x10 | 0x11 | 0x20 | 0x30..=0x33);
    match r {
        Ok(tag) => { assert!(valid, "P-val#tag_unknown_is_error"); assert!(tag as u8 == t, "P-val#tag_inverse"); }
        Err(e) => { std::mem::forget(e); assert!(!valid, "P-val#tag_known_is_ok"); }
    }
}

/// P-hdr: read_header(write_header()) == Ok, 16 bytes, all consumed
#[kani::proof]
#[kani::unwind(18)]
#[kani::stub(alloc::fmt::format, fmt_stub)]
fn p_hdr_roundtrip() {
    let mut buf = [0xAAu8; 24];
    let written = {
        let mut w: &mut [u8] = &mut buf[..];
        let r = write_header(&mut w);
        assert!(r.is_ok(), "P-hdr#write_ok");
        forget_res(r);
        24 - w.len()
    };
    assert!(written == 16, "P-hdr#size_16");
    let mut rd: &[u8] = &buf[..];
    let r = read_header(&mut rd);
    assert!(r.is_ok(), "P-hdr#roundtrip");
    forget_res(r);
    assert!(24 - rd.len() == 16, "P-hdr#exact_consumption");
}

// ---------------------------------------------------------------------------------------------
// P-total: on ARBITRARY bytes of every length 0..=N the fixed-width readers return Ok or Err - no panic,
// no out-of-bounds (Kani checks these on every path), and never read past the input.
// Lengths are concrete (one harness each) - a symbolic length did not finish (DESIGN section 8).
// ---------------------------------------------------------------------------------------------
/// one (tag, length) case: concrete tag and concrete length (case split outside the solver), arbitrary payload bytes
macro_rules! one_len {
    ($tag:expr, $len:expr, $need:expr) => {{
        let mut bytes: [u8; $len] = kani::any();
        bytes[0] = $tag;
        let mut rd: &[u8] = &bytes[..];
        let r = read_sql_value(&mut rd);
        assert!(rd.len() <= $len, "P-total#never_reads_past_input");
        if $len < $need { assert!(r.is_err(), "P-total#truncated_is_error"); } else { assert!(r.is_ok() && rd.len() == $len - $need, "P-total#complete_is_ok_exact_consumption"); }
        forget_res(r);
    }};
}

#[kani::proof]
#[kani::stub(alloc::fmt::format, fmt_stub)]
fn p_total_value_null() {
    one_len!(0x00, 1, 1);
    one_len!(0x00, 2, 1);
}

#[kani::proof]
#[kani::stub(alloc::fmt::format, fmt_stub)]
fn p_total_value_smallint() {
    one_len!(0x01, 1, 3);
    one_len!(0x01, 2, 3);
    one_len!(0x01, 3, 3);
    one_len!(0x01, 4, 3);
}

#[kani::proof]
#[kani::stub(alloc::fmt::format, fmt_stub)]
fn p_total_value_integer() {
    one_len!(0x02, 1, 9);
    one_len!(0x02, 2, 9);
    one_len!(0x02, 3, 9);
    one_len!(0x02, 4, 9);
    one_len!(0x02, 5, 9);
    one_len!(0x02, 6, 9);
    one_len!(0x02, 7, 9);
    one_len!(0x02, 8, 9);
    one_len!(0x02, 9, 9);
    one_len!(0x02, 10, 9);
}

#[kani::proof]
#[kani::stub(alloc::fmt::format, fmt_stub)]
fn p_total_value_bigint() {
    one_len!(0x03, 1, 9);
    one_len!(0x03, 2, 9);
    one_len!(0x03, 3, 9);
    one_len!(0x03, 4, 9);
    one_len!(0x03, 5, 9);
    one_len!(0x03, 6, 9);
    one_len!(0x03, 7, 9);
    one_len!(0x03, 8, 9);
    one_len!(0x03, 9, 9);
    one_len!(0x03, 10, 9);
}

#[kani::proof]
#[kani::stub(alloc::fmt::format, fmt_stub)]
fn p_total_value_unsigned() {
    one_len!(0x04, 1, 9);
    one_len!(0x04, 2, 9);
    one_len!(0x04, 3, 9);
    one_len!(0x04, 4, 9);
    one_len!(0x04, 5, 9);
    one_len!(0x04, 6, 9);
    one_len!(0x04, 7, 9);
    one_len!(0x04, 8, 9);
    one_len!(0x04, 9, 9);
    one_len!(0x04, 10, 9);
}

#[kani::proof]
#[kani::stub(alloc::fmt::format, fmt_stub)]
fn p_total_value_numeric() {
    one_len!(0x05, 1, 9);
    one_len!(0x05, 2, 9);
    one_len!(0x05, 3, 9);
    one_len!(0x05, 4, 9);
    one_len!(0x05, 5, 9);
    one_len!(0x05, 6, 9);
    one_len!(0x05, 7, 9);
    one_len!(0x05, 8, 9);
    one_len!(0x05, 9, 9);
    one_len!(0x05, 10, 9);
}

#[kani::proof]
#[kani::stub(alloc::fmt::format, fmt_stub)]
fn p_total_value_float() {
    one_len!(0x06, 1, 5);
    one_len!(0x06, 2, 5);
    one_len!(0x06, 3, 5);
    one_len!(0x06, 4, 5);
    one_len!(0x06, 5, 5);
    one_len!(0x06, 6, 5);
}

#[kani::proof]
#[kani::stub(alloc::fmt::format, fmt_stub)]
fn p_total_value_real() {
    one_len!(0x07, 1, 5);
    one_len!(0x07, 2, 5);
    one_len!(0x07, 3, 5);
    one_len!(0x07, 4, 5);
    one_len!(0x07, 5, 5);
    one_len!(0x07, 6, 5);
}

#[kani::proof]
#[kani::stub(alloc::fmt::format, fmt_stub)]
fn p_total_value_double() {
    one_len!(0x08, 1, 9);
    one_len!(0x08, 2, 9);
    one_len!(0x08, 3, 9);
    one_len!(0x08, 4, 9);
    one_len!(0x08, 5, 9);
    one_len!(0x08, 6, 9);
    one_len!(0x08, 7, 9);
    one_len!(0x08, 8, 9);
    one_len!(0x08, 9, 9);
    one_len!(0x08, 10, 9);
}

#[kani::proof]
#[kani::stub(alloc::fmt::format, fmt_stub)]
fn p_total_value_boolean() {
    one_len!(0x20, 1, 2);
    one_len!(0x20, 2, 2);
    one_len!(0x20, 3, 2);
}

macro_rules! total_header {
    ($name:ident, $len:expr) => {
        #[kani::proof]
        #[kani::unwind(18)]
        #[kani::stub(alloc::fmt::format, fmt_stub)]
        #[kani::stub(alloc::string::String::from_utf8_lossy, lossy_stub)]
        fn $name() {
            let bytes: [u8; $len] = kani::any();
            let mut rd: &[u8] = &bytes[..];
            let r = read_header(&mut rd);
            if $len < 16 { assert!(r.is_err(), "P-total#short_header_is_error"); }
            forget_res(r);
        }
    };
}
pub(crate) fn lossy_stub(_v: &[u8]) -> std::borrow::Cow<'_, str> { std::borrow::Cow::Borrowed("") }
total_header!(p_total_header_len0, 0);
total_header!(p_total_header_len4, 4);
total_header!(p_total_header_len5, 5);
total_header!(p_total_header_len6, 6);
total_header!(p_total_header_len7, 7);
total_header!(p_total_header_len15, 15);
total_header!(p_total_header_len16, 16);
total_header!(p_total_header_len17, 17);

/// vacuity canary: MUST FAIL (not every byte string decodes)
#[kani::proof]
#[kani::stub(alloc::fmt::format, fmt_stub)]
fn p_canary_must_fail() {
    let mut bytes: [u8; 5] = kani::any();
    bytes[0] = 0x02;
    let mut rd: &[u8] = &bytes[..];
    let r = read_sql_value(&mut rd);
    assert!(r.is_ok(), "canary");
    forget_res(r);
}

// concrete-playback replay slot (see lib/kani_run.py: replay); empty except while a counterexample is being replayed
include!("persist.playback.rs");
