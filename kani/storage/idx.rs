//! Mounted under cfg(kani) from crates/vibesql-storage/src/database/indexes/mod.rs
//! I-norm (normalize_for_comparison) and I-succ (range_bounds successor functions), C02/C24.
#![allow(dead_code)]
use std::cmp::Ordering;

use vibesql_types::SqlValue;

use super::range_bounds::{calculate_next_value, smart_increment_value, try_increment_sqlvalue};
use super::value_normalization::normalize_for_comparison;

fn dbl(v: &SqlValue) -> f64 {
    match v { SqlValue::Double(d) => *d, _ => { kani::assert(false, "normalised numeric must be Double"); 0.0 } }
}

// ---------------------------------------------------------------------------------------------
// I-norm: every numeric variant normalises to Double; order is preserved (weakly); NaN-free inputs
// stay NaN-free; exact for integers of magnitude <= 2^53 (injective there).
// One harness per numeric variant (case split outside the solver), full payload domain.
// ---------------------------------------------------------------------------------------------
macro_rules! norm_int {
    ($name:ident, $ctor:path, $ty:ty) => {
        #[kani::proof]
        fn $name() {
            let a: $ty = kani::any(); let b: $ty = kani::any();
            let na = dbl(&normalize_for_comparison(&$ctor(a)));
            let nb = dbl(&normalize_for_comparison(&$ctor(b)));
            assert!(!na.is_nan() && !nb.is_nan(), "I-norm#no_nan");
            if a <= b { assert!(na <= nb, "I-norm#monotone"); }
            if a < b && (a as i128) >= -(1i128 << 53) && (b as i128) <= (1i128 << 53) { assert!(na < nb, "I-norm#strict_on_exact_range"); }
            if (a as i128) >= -(1i128 << 53) && (a as i128) <= (1i128 << 53) { assert!(na as i128 == a as i128, "I-norm#exact_on_exact_range"); }
        }
    };
}
norm_int!(i_norm_integer, SqlValue::Integer, i64);
norm_int!(i_norm_smallint, SqlValue::Smallint, i16);
norm_int!(i_norm_bigint, SqlValue::Bigint, i64);
norm_int!(i_norm_unsigned, SqlValue::Unsigned, u64);

// Recorded finding KF-C02-f64-index-keys: index-independent results need DIFFERENT integers to get DIFFERENT keys on the whole i64 domain
// (otherwise `n = 9007199254740993` through an index also returns 9007199254740992, `n > 9007199254740992` loses 9007199254740993, and
// index order is not the column order). Strictness holds only up to 2^53 (harnesses above); this harness demands it everywhere and FAILS.
#[kani::proof]
fn i_norm_bigint_strict_on_full_domain() {
    let a: i64 = kani::any(); let b: i64 = kani::any();
    let na = dbl(&normalize_for_comparison(&SqlValue::Bigint(a)));
    let nb = dbl(&normalize_for_comparison(&SqlValue::Bigint(b)));
    if a < b { assert!(na < nb, "I-norm#strict_on_full_domain"); }
}

macro_rules! norm_f32 {
    ($name:ident, $ctor:path) => {
        #[kani::proof]
        fn $name() {
            let a: f32 = kani::any(); let b: f32 = kani::any();
            let na = dbl(&normalize_for_comparison(&$ctor(a)));
            let nb = dbl(&normalize_for_comparison(&$ctor(b)));
            assert!(na.is_nan() == a.is_nan(), "I-norm#nan_preserved");
            if a < b { assert!(na < nb, "I-norm#strictly_monotone"); }
            if a == b { assert!(na == nb, "I-norm#eq_preserved"); }
        }
    };
}
norm_f32!(i_norm_float, SqlValue::Float);
norm_f32!(i_norm_real, SqlValue::Real);

macro_rules! norm_f64 {
    ($name:ident, $ctor:path) => {
        #[kani::proof]
        fn $name() {
            let a: f64 = kani::any();
            let na = dbl(&normalize_for_comparison(&$ctor(a)));
            assert!(na.to_bits() == a.to_bits(), "I-norm#identity_on_f64");
        }
    };
}
norm_f64!(i_norm_double, SqlValue::Double);
norm_f64!(i_norm_numeric, SqlValue::Numeric);

#[kani::proof]
fn i_norm_non_numeric_unchanged() {
    let b: bool = kani::any();
    assert!(normalize_for_comparison(&SqlValue::Boolean(b)) == SqlValue::Boolean(b), "I-norm#non_numeric_identity");
    assert!(normalize_for_comparison(&SqlValue::Null) == SqlValue::Null, "I-norm#non_numeric_identity");
    let d = vibesql_types::Date { year: kani::any(), month: kani::any(), day: kani::any() };
    assert!(normalize_for_comparison(&SqlValue::Date(d)) == SqlValue::Date(d), "I-norm#non_numeric_identity");
}

// ---------------------------------------------------------------------------------------------
// I-succ. Callers (range_scan) pass NORMALISED values: Double or a non-numeric variant.
// The contract is the one range_scan relies on when it turns `> v` into `>= succ(v)` and `<= v`
// into `< succ(v)` on composite keys:   Some(n)  =>  n > v  and nothing lies strictly between.
// ---------------------------------------------------------------------------------------------
#[kani::proof]
fn i_succ_try_increment_double_is_exact_successor() {
    let v: f64 = kani::any();
    let x: f64 = kani::any();
    match try_increment_sqlvalue(&SqlValue::Double(v)) {
        Some(SqlValue::Double(n)) => {
            assert!(n > v, "I-succ#strictly_greater");
            assert!(!(v < x && x < n), "I-succ#nothing_strictly_between");
        }
        Some(_) => assert!(false, "I-succ#same_variant"),
        // None only where no finite successor exists
        None => assert!(v.is_nan() || v.is_infinite() || v == f64::MAX, "I-succ#none_only_at_top"),
    }
}
#[kani::proof]
fn i_succ_smart_increment_double_is_exact_successor() {
    let v: f64 = kani::any();
    let x: f64 = kani::any();
    match smart_increment_value(&SqlValue::Double(v)) {
        Some(SqlValue::Double(n)) => {
            assert!(n > v, "I-succ#strictly_greater");
            assert!(!(v < x && x < n), "I-succ#nothing_strictly_between");
        }
        Some(_) => assert!(false, "I-succ#same_variant"),
        None => assert!(v.is_nan() || v.is_infinite() || v == f64::MAX, "I-succ#none_only_at_top"),
    }
}
macro_rules! succ_f32 {
    ($name:ident, $ctor:path) => {
        #[kani::proof]
        fn $name() {
            let v: f32 = kani::any();
            let x: f32 = kani::any();
            match try_increment_sqlvalue(&$ctor(v)) {
                Some($ctor(n)) => {
                    assert!(n > v, "I-succ#strictly_greater");
                    assert!(!(v < x && x < n), "I-succ#nothing_strictly_between");
                }
                Some(_) => assert!(false, "I-succ#same_variant"),
                None => assert!(v.is_nan() || v.is_infinite() || v == f32::MAX, "I-succ#none_only_at_top"),
            }
        }
    };
}
succ_f32!(i_succ_try_increment_float, SqlValue::Float);
succ_f32!(i_succ_try_increment_real, SqlValue::Real);
#[kani::proof]
fn i_succ_try_increment_numeric() {
    let v: f64 = kani::any();
    let x: f64 = kani::any();
    match try_increment_sqlvalue(&SqlValue::Numeric(v)) {
        Some(SqlValue::Numeric(n)) => {
            assert!(n > v, "I-succ#strictly_greater");
            assert!(!(v < x && x < n), "I-succ#nothing_strictly_between");
        }
        Some(_) => assert!(false, "I-succ#same_variant"),
        None => assert!(v.is_nan() || v.is_infinite() || v == f64::MAX, "I-succ#none_only_at_top"),
    }
}
macro_rules! succ_int {
    ($name:ident, $ctor:path, $ty:ty) => {
        #[kani::proof]
        fn $name() {
            let v: $ty = kani::any();
            match try_increment_sqlvalue(&$ctor(v)) {
                Some($ctor(n)) => assert!(v < <$ty>::MAX && n == v + 1, "I-succ#integer_plus_one"),
                Some(_) => assert!(false, "I-succ#same_variant"),
                None => assert!(v == <$ty>::MAX, "I-succ#none_only_at_top"),
            }
            // smart_increment_value -> calculate_next_value on integer variants. Callers (range_scan) only pass NORMALISED
            // values (numerics are Double), so integer variants never reach it from a statement; the `i + 1` at MAX is a
            // unit-level observation (DESIGN.md section 9 #8), stated here as the precondition v < MAX.
            if v < <$ty>::MAX {
                match smart_increment_value(&$ctor(v)) {
                    Some($ctor(n)) => assert!(n == v + 1, "I-succ#integer_plus_one"),
                    _ => assert!(false, "I-succ#same_variant"),
                }
            }
        }
    };
}
succ_int!(i_succ_integer, SqlValue::Integer, i64);
succ_int!(i_succ_smallint, SqlValue::Smallint, i16);
succ_int!(i_succ_bigint, SqlValue::Bigint, i64);
succ_int!(i_succ_unsigned, SqlValue::Unsigned, u64);

#[kani::proof]
fn i_succ_boolean_null_temporal() {
    assert!(try_increment_sqlvalue(&SqlValue::Boolean(false)) == Some(SqlValue::Boolean(true)), "I-succ#boolean");
    assert!(try_increment_sqlvalue(&SqlValue::Boolean(true)).is_none(), "I-succ#boolean");
    assert!(try_increment_sqlvalue(&SqlValue::Null).is_none(), "I-succ#null_none");
    let d = vibesql_types::Date { year: kani::any(), month: kani::any(), day: kani::any() };
    assert!(try_increment_sqlvalue(&SqlValue::Date(d)).is_none(), "I-succ#temporal_none");
    assert!(smart_increment_value(&SqlValue::Date(d)).is_none(), "I-succ#temporal_none");
    assert!(calculate_next_value(&SqlValue::Null).is_none(), "I-succ#null_none");
}

/// calculate_next_value on the values range_scan passes (normalised: Double). It is used as the EXCLUSIVE upper bound
/// of an equality-prefix scan [v, next): next must be strictly greater than v (otherwise the scan is empty).
/// Domain: finite |v| < 2^53 (beyond it v + 1.0 == v: unit-level observation recorded in DESIGN.md, DiskBacked path only).
#[kani::proof]
fn i_succ_calculate_next_double_strictly_greater() {
    let v: f64 = kani::any();
    kani::assume(v.is_finite() && v.abs() < 9007199254740992.0);
    match calculate_next_value(&SqlValue::Double(v)) {
        Some(SqlValue::Double(n)) => assert!(n > v && n.is_finite(), "I-succ#next_strictly_greater"),
        _ => assert!(false, "I-succ#same_variant"),
    }
}

/// vacuity canary: MUST FAIL
#[kani::proof]
fn i_canary_must_fail() {
    let v: f64 = kani::any();
    assert!(try_increment_sqlvalue(&SqlValue::Double(v)).is_some(), "canary");
}

// concrete-playback replay slot (see lib/kani_run.py: replay); empty except while a counterexample is being replayed
include!("idx.playback.rs");
