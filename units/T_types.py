"""T-eq / T-ord / T-hash : laws of the real `impl PartialEq/Ord/Hash for SqlValue` (+ Interval), in place (Kani)."""
NAME = 'T-laws'
PROPERTIES = ['C21', 'C07']
ENGINE = 'kani'
CLASS = 'C'
CRATE = 'vibesql-types'
MODULE = 'verif_kani'
UNWIND = 4
HARNESS_FILE = 'kani/types/verif_kani.rs'
DOC = 'eq is an equivalence, cmp a total preorder agreeing with eq, equal values produce identical Hasher write streams'

FUNCTIONS = [
    dict(file='crates/vibesql-types/src/sql_value/comparison.rs', path='impl PartialEq for SqlValue::fn eq'),
    dict(file='crates/vibesql-types/src/sql_value/comparison.rs', path='impl PartialOrd for SqlValue::fn partial_cmp'),
    dict(file='crates/vibesql-types/src/sql_value/comparison.rs', path='impl Ord for SqlValue::fn cmp'),
    dict(file='crates/vibesql-types/src/sql_value/hash.rs', path='impl Hash for SqlValue::fn hash'),
    dict(file='crates/vibesql-types/src/temporal/interval.rs', path='impl Interval::fn cmp_value'),
    dict(file='crates/vibesql-types/src/temporal/interval.rs', path='impl Ord for Interval::fn cmp'),
    dict(file='crates/vibesql-types/src/temporal/interval.rs', path='impl PartialEq for Interval::fn eq'),
    dict(file='crates/vibesql-types/src/temporal/interval.rs', path='impl std::hash::Hash for Interval::fn hash'),
    dict(file='crates/vibesql-types/src/temporal/date.rs', path='impl Ord for Date::fn cmp'),
    dict(file='crates/vibesql-types/src/temporal/time.rs', path='impl Ord for Time::fn cmp'),
    dict(file='crates/vibesql-types/src/temporal/timestamp.rs', path='impl Ord for Timestamp::fn cmp'),
]

VARIANTS = ['integer', 'smallint', 'bigint', 'unsigned', 'numeric', 'float', 'real', 'double', 'boolean',
            'date', 'time', 'timestamp', 'interval', 'null', 'character_b2', 'varchar_b2']
HARNESSES = {}
for v in VARIANTS:
    cls = 'B(2)' if v.endswith('_b2') else 'C'
    HARNESSES['t_eq_' + v] = dict(fn='SqlValue::eq', clause='equivalence[%s]' % v, cls=cls)
    if v != 'interval':
        HARNESSES['t_ord_' + v] = dict(fn='SqlValue::cmp', clause='total_preorder_agreeing_with_eq[%s]' % v, cls=cls)
    HARNESSES['t_hash_' + v] = dict(fn='SqlValue::hash', clause='eq_implies_same_stream[%s]' % v, cls=cls)
    HARNESSES['t_cross_' + v] = dict(fn='SqlValue::cmp', clause='cross_variant_never_equal_and_ordered_by_variant[%s]' % v, cls=cls)
HARNESSES['t_rep_order_is_strict_total'] = dict(fn='SqlValue::cmp', clause='variant_order_strict_total')
HARNESSES['t_ord_interval_delegates'] = dict(fn='SqlValue::cmp', clause='interval_delegates_to_key_order')
HARNESSES['temporal::interval::verif_kani_interval::t_ord_interval_induced_by_key'] = dict(fn='Interval::cmp', clause='induced_by_key_function')
HARNESSES['t_ord_interval_cmp_equal_implies_eq_known'] = dict(fn='SqlValue::cmp', clause='cmp_equal_implies_eq[interval]', known='KF-C21-interval-ord-vs-eq')
HARNESSES['t_canary_must_fail'] = dict(fn='canary', clause='must_fail', canary=True)
HARNESSES_THOROUGH = {
    't_cover_generator_arms': dict(fn='generators', clause='every_variant_reachable', cover=True),
}
TRUSTED = [
    "std: String/str Eq/Ord/Hash, i128/u8/Ordering impls, mem::discriminant Hash (elementwise / documented behaviour)",
    "Vec<SqlValue> Eq/Ord/Hash are std's elementwise impls over the element laws proved here",
    "string payloads bounded to ASCII length <= 2 (class B(2)); all scalar payloads unbounded (full machine domain)",
    "lemma L-order-compose (same-variant laws + variant-only cross order + strict order on representatives => global laws) is argued in DESIGN.md 5/C21",
    "Interval order: cmp is K(a).cmp(K(b)) for the real key function; antisymmetry/transitivity follow from i128's total order (std)",
]
