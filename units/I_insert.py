NAME = 'I-insert'
PROPERTIES = ['C02', 'C10', 'C15']
ENGINE = 'verus'
CLASS = 'U'
DOC = ('Operations::insert_row (storage database/operations.rs), the storage step of every single-row INSERT: the user-defined UNIQUE indexes are checked '
       'BEFORE the table is touched; the row goes into the table the name resolves to; the CREATE INDEX indexes (and the spatial ones) are then maintained '
       'with the row AS THE TABLE STORES IT (normalized) at the position the row received - the row count before the insert; a failed check or insert '
       'leaves indexes and table as they were.')

TEMPLATE = r'''
use vstd::prelude::*;
verus! {

#[verifier::external_body] pub struct Row { r: u8 }
impl Row { #[verifier::external_body] pub fn clone(&self) -> (r: Row) ensures r == *self { unimplemented!() } }
#[verifier::external_body] pub struct StorageError { e: u8 }
#[verifier::external_body] pub struct TableSchema { t: u8 }
#[verifier::external_body] pub struct Str { s: u8 }
#[verifier::external_body] pub struct Catalog { c: u8 }
impl Catalog {
    pub uninterp spec fn schema_of(&self, name: &str) -> Option<TableSchema>;
    #[verifier::external_body] pub fn get_table(&self, name: &str) -> (r: Option<&TableSchema>)
        ensures (r is Some) == (self.schema_of(name) is Some), r matches Some(s) ==> *s == self.schema_of(name)->Some_0 { unimplemented!() }
}
/// the form in which the table stores a row (VARCHAR truncation, CHAR padding); None: the table rejects the row
pub uninterp spec fn stored_form(row: Row) -> Option<Row>;

// HashMap<String, Table>, through the entry the table name resolves to (R12: Verus has no `&mut` returns)
#[verifier::external_body] pub struct Tables { t: u8 }
impl Tables {
    /// rows of the table `table_name` resolves to (None: no such table)
    pub uninterp spec fn rows_of(&self, catalog: &Catalog, table_name: &str) -> Option<Seq<Row>>;
    // the name normalisation + direct / schema-qualified lookup at the top of insert_row
    #[verifier::external_body]
    pub fn resolve(&self, catalog: &Catalog, table_name: &str) -> (r: Result<Str, StorageError>)
        ensures (r is Ok) == (self.rows_of(catalog, table_name) is Some) { unimplemented!() }
    #[verifier::external_body]
    pub fn row_count(&self, catalog: &Catalog, table_name: &str) -> (r: usize)
        requires self.rows_of(catalog, table_name) is Some, ensures r == self.rows_of(catalog, table_name)->Some_0.len() { unimplemented!() }
    // table.insert(row): normalizes, validates the table-level constraints, appends (unit K-table / K-pk side)
    #[verifier::external_body]
    pub fn insert(&mut self, catalog: &Catalog, table_name: &str, row: Row) -> (r: Result<(), StorageError>)
        requires old(self).rows_of(catalog, table_name) is Some,
        ensures
            r is Ok ==> stored_form(row) is Some && final(self).rows_of(catalog, table_name) == Some(old(self).rows_of(catalog, table_name)->Some_0.push(stored_form(row)->Some_0)),
            r is Err ==> final(self).rows_of(catalog, table_name) == old(self).rows_of(catalog, table_name)
    { unimplemented!() }
    // table.scan().get(i).cloned().unwrap_or(row)
    #[verifier::external_body]
    pub fn row_at_or(&self, catalog: &Catalog, table_name: &str, i: usize, row: Row) -> (r: Row)
        requires self.rows_of(catalog, table_name) is Some,
        ensures r == (if (i as int) < self.rows_of(catalog, table_name)->Some_0.len() { self.rows_of(catalog, table_name)->Some_0[i as int] } else { row })
    { unimplemented!() }
}

// IndexManager (user-defined B-tree indexes): the maintenance calls it has received, as a ghost log  (what a call does: unit I-maint)
#[verifier::external_body] pub struct IndexManager { m: u8 }
impl IndexManager {
    pub uninterp spec fn inserts(&self) -> Seq<(Row, usize)>;
    /// would a user-defined UNIQUE index reject this row?
    pub uninterp spec fn unique_ok(&self, row: Row) -> bool;
    #[verifier::external_body]
    pub fn check_unique_constraints_for_insert(&self, table_name: &str, schema: &TableSchema, row: &Row) -> (r: Result<(), StorageError>)
        ensures (r is Ok) == self.unique_ok(*row) { unimplemented!() }
    #[verifier::external_body]
    pub fn add_to_indexes_for_insert(&mut self, table_name: &str, schema: &TableSchema, row: &Row, row_index: usize)
        ensures final(self).inserts() == old(self).inserts().push((*row, row_index)) { unimplemented!() }
}

pub struct Operations { pub index_manager: IndexManager, pub spatial: u8 }
impl Operations {
    #[verifier::external_body]
    fn update_spatial_indexes_for_insert(&mut self, catalog: &Catalog, table_name: &str, row: &Row, row_index: usize)
        ensures final(self).index_manager == old(self).index_manager { unimplemented!() }

//@@ insert_row
}

fn canary_insert(ops: &mut Operations, catalog: &Catalog, tables: &mut Tables, table_name: &str, row: Row)
{
    let r = ops.insert_row(catalog, tables, table_name, row);
    assert(false); // CANARY
}

}
fn main() {}
'''

ITEMS = {
    'insert_row': dict(
        file='crates/vibesql-storage/src/database/operations.rs', path='impl Operations::fn insert_row', ret='res',
        rewrites=[
            ('re', r'vibesql_catalog::Catalog', 'Catalog', None),
            ('re', r'tables: &mut HashMap<String, Table>', 'tables: &mut Tables', 1),
            # R12: the lookup of the table the name resolves to, and every use of the `&mut Table` it returns, through the map entry
            ('re', r'(?s)// Normalize table name for lookup.*?let table = if let Some\(tbl\) = tables\.get_mut\(&normalized_name\) \{.*?\n        \};', 'let resolved__ = tables.resolve(catalog, table_name)?;', 1),
            ('re', r'\btable\.row_count\(\)', 'tables.row_count(catalog, table_name)', None),
            ('re', r'\btable\.insert\(', 'tables.insert(catalog, table_name, ', None),
            ('re', r'\btable\.scan\(\)\.get\((\w+)\)\.cloned\(\)\.unwrap_or\((\w+)\)', r'tables.row_at_or(catalog, table_name, \1, \2)', None),
        ],
        contract='''
        ensures
            res is Err ==> final(self).index_manager.inserts() == old(self).index_manager.inserts()
                && (old(tables).rows_of(catalog, table_name) is Some ==> final(tables).rows_of(catalog, table_name) == old(tables).rows_of(catalog, table_name)),
            res matches Ok(i) ==> ({
                let before = old(tables).rows_of(catalog, table_name);
                &&& before is Some && stored_form(row) is Some
                &&& i == before->Some_0.len()                                                          // the position the row received
                &&& final(tables).rows_of(catalog, table_name) == Some(before->Some_0.push(stored_form(row)->Some_0))
                &&& (catalog.schema_of(table_name) is Some ==> old(self).index_manager.unique_ok(row))   // checked before the table was touched
                // the user-defined indexes are maintained with the row AS STORED, at that position
                &&& (catalog.schema_of(table_name) is Some ==> final(self).index_manager.inserts() == old(self).index_manager.inserts().push((stored_form(row)->Some_0, i)))
            }),
'''),
}

OBLIGATIONS = {
    'insert_row': ['post:unique_indexes_checked_first__indexes_maintained_with_the_stored_row_at_its_position__failure_changes_nothing'],
}
CANARIES = ['canary_insert']
TRUSTED = [
    'R12: `tables.get_mut(..)` returns `&mut Table`, which this Verus cannot express: the name normalisation + lookup block becomes Tables::resolve (Ok <=> the name resolves), and table.row_count() / table.insert(..) / table.scan().get(i).cloned().unwrap_or(row) become operations on the entry the name resolves to (external_body Tables::row_count, Tables::insert - append of the STORED FORM of the row or an error that changes nothing -, Tables::row_at_or - the row at a position)',
    'external_body IndexManager::check_unique_constraints_for_insert (uninterpreted unique_ok), add_to_indexes_for_insert (its effect on each index: unit I-maint; here a ghost log of (row, position) calls), Operations::update_spatial_indexes_for_insert (does not touch the B-tree index manager), Catalog::get_table',
    'Row, StorageError, TableSchema, Str, Catalog, Tables opaque; stored_form = RowNormalizer::normalize_and_validate uninterpreted',
    'insert_rows_batch is NOT under contract (same shape in a loop; on a storage error it leaves a prefix of the batch inserted - observed, DESIGN 9b); check_unique_constraints_for_insert sees the row as handed in - the executors normalize before calling (fix ff7104d3)',
]
