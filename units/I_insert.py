NAME = 'I-insert'
PROPERTIES = ['C02', 'C10', 'C15']
ENGINE = 'verus'
CLASS = 'U'
DOC = ('Operations::{insert_row, insert_rows_batch} (storage database/operations.rs), the storage step of every INSERT (batch: each clause for every row of the batch, in order, and a failed batch changes nothing). insert_row, the storage step of every single-row INSERT: the user-defined UNIQUE indexes are checked '
       'BEFORE the table is touched; the row goes into the table the name resolves to; the CREATE INDEX indexes (and the spatial ones) are then maintained '
       'with the row AS THE TABLE STORES IT (normalized) at the position the row received - the row count before the insert; a failed check or insert '
       'leaves indexes and table as they were.')

TEMPLATE = r'''
use vstd::prelude::*;
verus! {

#[verifier::external_body] pub struct Row { r: u8 }
impl Row { #[verifier::external_body] pub fn clone(&self) -> (r: Row) ensures r == *self { unimplemented!() } }
#[verifier::external_body] pub struct StorageError { e: u8 }
#[verifier::external_body] pub struct TableSchema { t: u8 }
#[verifier::external_body] pub struct Str { s: u8 }
#[verifier::external_body] pub struct Catalog { c: u8 }
impl Catalog {
    pub uninterp spec fn schema_of(&self, name: &str) -> Option<TableSchema>;
    #[verifier::external_body] pub fn get_table(&self, name: &str) -> (r: Option<&TableSchema>)
        ensures (r is Some) == (self.schema_of(name) is Some), r matches Some(s) ==> *s == self.schema_of(name)->Some_0 { unimplemented!() }
}
/// the form in which the table stores a row (VARCHAR truncation, CHAR padding); None: the table rejects the row
pub uninterp spec fn stored_form(row: Row) -> Option<Row>;

// HashMap<String, Table>, through the entry the table name resolves to (R12: Verus has no `&mut` returns)
#[verifier::external_body] pub struct Tables { t: u8 }
impl Tables {
    /// rows of the table `table_name` resolves to (None: no such table)
    pub uninterp spec fn rows_of(&self, catalog: &Catalog, table_name: &str) -> Option<Seq<Row>>;
    // the name normalisation + direct / schema-qualified lookup at the top of insert_row
    #[verifier::external_body]
    pub fn resolve(&self, catalog: &Catalog, table_name: &str) -> (r: Result<Str, StorageError>)
        ensures (r is Ok) == (self.rows_of(catalog, table_name) is Some) { unimplemented!() }
    #[verifier::external_body]
    pub fn row_count(&self, catalog: &Catalog, table_name: &str) -> (r: usize)
        requires self.rows_of(catalog, table_name) is Some, ensures r == self.rows_of(catalog, table_name)->Some_0.len() { unimplemented!() }
    // table.insert(row): normalizes, validates the table-level constraints, appends (unit K-table / K-pk side)
    #[verifier::external_body]
    pub fn insert(&mut self, catalog: &Catalog, table_name: &str, row: Row) -> (r: Result<(), StorageError>)
        requires old(self).rows_of(catalog, table_name) is Some,
        ensures
            r is Ok ==> stored_form(row) is Some && final(self).rows_of(catalog, table_name) == Some(old(self).rows_of(catalog, table_name)->Some_0.push(stored_form(row)->Some_0)),
            r is Err ==> final(self).rows_of(catalog, table_name) == old(self).rows_of(catalog, table_name) && stored_form(row) is None    // unit K-table insert: the only failure is a row without a stored form
    { unimplemented!() }
    // table.normalize_row(row): the stored form of the row, or the error insert would report (unit K-table side: RowNormalizer)
    #[verifier::external_body]
    pub fn normalize_row(&self, catalog: &Catalog, table_name: &str, row: Row) -> (r: Result<Row, StorageError>)
        requires self.rows_of(catalog, table_name) is Some,
        ensures (r is Ok) == (stored_form(row) is Some), r matches Ok(x) ==> x == stored_form(row)->Some_0
    { unimplemented!() }
    // table.scan().get(i).unwrap_or(row)
    #[verifier::external_body]
    pub fn row_ref_at_or<'a>(&'a self, catalog: &Catalog, table_name: &str, i: usize, row: &'a Row) -> (r: &'a Row)
        requires self.rows_of(catalog, table_name) is Some,
        ensures *r == (if (i as int) < self.rows_of(catalog, table_name)->Some_0.len() { self.rows_of(catalog, table_name)->Some_0[i as int] } else { *row })
    { unimplemented!() }
    // table.scan().get(i).cloned().unwrap_or(row)
    #[verifier::external_body]
    pub fn row_at_or(&self, catalog: &Catalog, table_name: &str, i: usize, row: Row) -> (r: Row)
        requires self.rows_of(catalog, table_name) is Some,
        ensures r == (if (i as int) < self.rows_of(catalog, table_name)->Some_0.len() { self.rows_of(catalog, table_name)->Some_0[i as int] } else { row })
    { unimplemented!() }
}

// IndexManager (user-defined B-tree indexes): the maintenance calls it has received, as a ghost log  (what a call does: unit I-maint)
#[verifier::external_body] pub struct IndexManager { m: u8 }
impl IndexManager {
    pub uninterp spec fn inserts(&self) -> Seq<(Row, usize)>;
    /// would a user-defined UNIQUE index reject this row?
    pub uninterp spec fn unique_ok(&self, row: Row) -> bool;
    #[verifier::external_body]
    pub fn check_unique_constraints_for_insert(&self, table_name: &str, schema: &TableSchema, row: &Row) -> (r: Result<(), StorageError>)
        ensures (r is Ok) == self.unique_ok(*row) { unimplemented!() }
    #[verifier::external_body]
    pub fn add_to_indexes_for_insert(&mut self, table_name: &str, schema: &TableSchema, row: &Row, row_index: usize)
        ensures final(self).inserts() == old(self).inserts().push((*row, row_index)) { unimplemented!() }
}

pub struct Operations { pub index_manager: IndexManager, pub spatial: u8 }
impl Operations {
    #[verifier::external_body]
    fn update_spatial_indexes_for_insert(&mut self, catalog: &Catalog, table_name: &str, row: &Row, row_index: usize)
        ensures final(self).index_manager == old(self).index_manager { unimplemented!() }

//@@ insert_row

//@@ insert_rows_batch
}
/// every row of the batch has a stored form
pub open spec fn all_storable(rows: Seq<Row>) -> bool { forall|j: int| 0 <= j < rows.len() ==> stored_form(#[trigger] rows[j]) is Some }
/// the table contents after the first n rows of the batch went in: each appended in its STORED form
pub open spec fn appended(before: Seq<Row>, rows: Seq<Row>, n: int) -> Seq<Row> decreases n {
    if n <= 0 { before } else { appended(before, rows, n - 1).push(stored_form(rows[n - 1])->Some_0) }
}
/// the maintenance log after the first n rows of the batch were indexed: (stored row, position it received), in order
pub open spec fn logged(log: Seq<(Row, usize)>, rows: Seq<Row>, base: int, n: int) -> Seq<(Row, usize)> decreases n {
    if n <= 0 { log } else { logged(log, rows, base, n - 1).push((stored_form(rows[n - 1])->Some_0, (base + n - 1) as usize)) }
}
proof fn lemma_appended(before: Seq<Row>, rows: Seq<Row>, n: int)
    requires 0 <= n <= rows.len(),
    ensures appended(before, rows, n).len() == before.len() + n,
            forall|j: int| 0 <= j < before.len() ==> appended(before, rows, n)[j] == before[j],
            forall|j: int| 0 <= j < n ==> appended(before, rows, n)[before.len() + j] == stored_form(rows[j])->Some_0,
    decreases n,
{
    if n > 0 { lemma_appended(before, rows, n - 1); }
}


fn canary_insert(ops: &mut Operations, catalog: &Catalog, tables: &mut Tables, table_name: &str, row: Row)
{
    let r = ops.insert_row(catalog, tables, table_name, row);
    assert(false); // CANARY
}

}
fn main() {}
'''

ITEMS = {
    'insert_row': dict(
        file='crates/vibesql-storage/src/database/operations.rs', path='impl Operations::fn insert_row', ret='res',
        rewrites=[
            ('re', r'vibesql_catalog::Catalog', 'Catalog', None),
            ('re', r'tables: &mut HashMap<String, Table>', 'tables: &mut Tables', 1),
            # R12: the lookup of the table the name resolves to, and every use of the `&mut Table` it returns, through the map entry
            ('re', r'(?s)// Normalize table name for lookup.*?let table = if let Some\(tbl\) = tables\.get_mut\(&normalized_name\) \{.*?\n        \};', 'let resolved__ = tables.resolve(catalog, table_name)?;', 1),
            ('re', r'\btable\.row_count\(\)', 'tables.row_count(catalog, table_name)', None),
            ('re', r'\btable\.insert\(', 'tables.insert(catalog, table_name, ', None),
            ('re', r'\btable\.scan\(\)\.get\((\w+)\)\.cloned\(\)\.unwrap_or\((\w+)\)', r'tables.row_at_or(catalog, table_name, \1, \2)', None),
        ],
        contract='''
        ensures
            res is Err ==> final(self).index_manager.inserts() == old(self).index_manager.inserts()
                && (old(tables).rows_of(catalog, table_name) is Some ==> final(tables).rows_of(catalog, table_name) == old(tables).rows_of(catalog, table_name)),
            res matches Ok(i) ==> ({
                let before = old(tables).rows_of(catalog, table_name);
                &&& before is Some && stored_form(row) is Some
                &&& i == before->Some_0.len()                                                          // the position the row received
                &&& final(tables).rows_of(catalog, table_name) == Some(before->Some_0.push(stored_form(row)->Some_0))
                &&& (catalog.schema_of(table_name) is Some ==> old(self).index_manager.unique_ok(row))   // checked before the table was touched
                // the user-defined indexes are maintained with the row AS STORED, at that position
                &&& (catalog.schema_of(table_name) is Some ==> final(self).index_manager.inserts() == old(self).index_manager.inserts().push((stored_form(row)->Some_0, i)))
            }),
'''),
}

ITEMS['insert_rows_batch'] = dict(
        file='crates/vibesql-storage/src/database/operations.rs', path='impl Operations::fn insert_rows_batch', ret='res',
        rewrites=[
            ('re', r'vibesql_catalog::Catalog', 'Catalog', None),
            ('re', r'tables: &mut HashMap<String, Table>', 'tables: &mut Tables', 1),
            ('re', r'(?s)// Normalize table name for lookup.*?let table = if let Some\(tbl\) = tables\.get_mut\(&normalized_name\) \{.*?\n        \};', 'let resolved__ = tables.resolve(catalog, table_name)?; let ghost before__ = tables.rows_of(catalog, table_name)->Some_0; let ghost log0__ = self.index_manager.inserts();', 1),
            ('re', r'\btable\.row_count\(\)', 'tables.row_count(catalog, table_name)', None),
            ('re', r'\btable\.insert\(', 'tables.insert(catalog, table_name, ', None),
            ('re', r'\btable\.normalize_row\(', 'tables.normalize_row(catalog, table_name, ', None),
            ('re', r'\btable\.scan\(\)\.get\((\w+)\)\.unwrap_or\((\w+)\)', r'tables.row_ref_at_or(catalog, table_name, \1, \2)', None),
            ('re', r'let mut row_indices = Vec::with_capacity\(rows\.len\(\)\);', 'let mut row_indices: Vec<usize> = Vec::with_capacity(rows.len());', 1),
            # R10
            ('re', r'for row in &rows \{', 'let mut ri__: usize = 0; while ri__ < rows.len() { let row = &rows[ri__]; ri__ = ri__ + 1;', 3),
            ('re', r'for \(i, row\) in rows\.iter\(\)\.enumerate\(\) \{', 'let mut ei__: usize = 0; while ei__ < rows.len() { let row = &rows[ei__]; let i = ei__; ei__ = ei__ + 1;', 1),
        ],
        loops={0: '''
            invariant ri__ <= rows@.len(), tables.rows_of(catalog, table_name) == Some(before__), self.index_manager.inserts() == log0__, *tables == *old(tables),
                forall|j: int| 0 <= j < ri__ ==> stored_form(#[trigger] rows@[j]) is Some,
            decreases rows@.len() - ri__,
''', 1: '''
            invariant ri__ <= rows@.len(), tables.rows_of(catalog, table_name) == Some(before__), self.index_manager.inserts() == log0__, *tables == *old(tables), *self == *old(self),
                forall|j: int| 0 <= j < ri__ ==> old(self).index_manager.unique_ok(#[trigger] rows@[j]),
            decreases rows@.len() - ri__,
''', 2: '''
            invariant ri__ <= rows@.len(), all_storable(rows@), self.index_manager.inserts() == log0__,
                tables.rows_of(catalog, table_name) == Some(appended(before__, rows@, ri__ as int)),
                row_indices@.len() == ri__, forall|j: int| 0 <= j < ri__ ==> (#[trigger] row_indices@[j]) == before__.len() + j,
            decreases rows@.len() - ri__,
''', 3: '''
            invariant ei__ <= rows@.len(), all_storable(rows@),
                tables.rows_of(catalog, table_name) == Some(appended(before__, rows@, rows@.len() as int)),
                row_indices@.len() == rows@.len(), forall|j: int| 0 <= j < rows@.len() ==> (#[trigger] row_indices@[j]) == before__.len() + j,
                self.index_manager.inserts() == logged(log0__, rows@, before__.len() as int, ei__ as int),
            decreases rows@.len() - ei__,
'''},
        proofs=[('@loop2', 'proof { lemma_appended(before__, rows@, ri__ as int); }'),
                ('@loop3', 'proof { lemma_appended(before__, rows@, rows@.len() as int); }'),
                ('@afterloop0', 'proof { assert(all_storable(rows@)); }')],
        contract='''
        ensures
            // a failed batch changes NOTHING: no row stays behind unindexed
            res is Err ==> final(self).index_manager.inserts() == old(self).index_manager.inserts()
                && (old(tables).rows_of(catalog, table_name) is Some ==> final(tables).rows_of(catalog, table_name) == old(tables).rows_of(catalog, table_name)),
            res matches Ok(v) ==> rows@.len() > 0 ==> ({
                let before = old(tables).rows_of(catalog, table_name);
                &&& before is Some && all_storable(rows@)
                &&& v@.len() == rows@.len() && forall|j: int| 0 <= j < rows@.len() ==> (#[trigger] v@[j]) == before->Some_0.len() + j      // the positions the rows received
                &&& final(tables).rows_of(catalog, table_name) == Some(appended(before->Some_0, rows@, rows@.len() as int))            // each row appended in its STORED form, in order
                &&& (catalog.schema_of(table_name) is Some ==> forall|j: int| 0 <= j < rows@.len() ==> old(self).index_manager.unique_ok(#[trigger] rows@[j]))
                // the user-defined indexes are maintained with every row AS STORED at the position it received, in order
                &&& (catalog.schema_of(table_name) is Some ==> final(self).index_manager.inserts() == logged(old(self).index_manager.inserts(), rows@, before->Some_0.len() as int, rows@.len() as int))
            }),
''')

OBLIGATIONS = {
    'insert_row': ['post:unique_indexes_checked_first__indexes_maintained_with_the_stored_row_at_its_position__failure_changes_nothing'],
    'insert_rows_batch': ['post:all_rows_checked_before_any_is_inserted__each_indexed_as_stored_at_its_position__a_failed_batch_changes_nothing', 'proof:loop_invariants_and_termination', 'safety:index_in_bounds'],
    'lemma_appended': ['post:shape_of_the_appended_rows'],
}
CANARIES = ['canary_insert']
TRUSTED = [
    'R12: `tables.get_mut(..)` returns `&mut Table`, which this Verus cannot express: the name normalisation + lookup block becomes Tables::resolve (Ok <=> the name resolves), and table.row_count() / table.insert(..) / table.scan().get(i).cloned().unwrap_or(row) become operations on the entry the name resolves to (external_body Tables::row_count, Tables::insert - append of the STORED FORM of the row or an error that changes nothing -, Tables::row_at_or - the row at a position)',
    'external_body IndexManager::check_unique_constraints_for_insert (uninterpreted unique_ok), add_to_indexes_for_insert (its effect on each index: unit I-maint; here a ghost log of (row, position) calls), Operations::update_spatial_indexes_for_insert (does not touch the B-tree index manager), Catalog::get_table',
    'Row, StorageError, TableSchema, Str, Catalog, Tables opaque; stored_form = RowNormalizer::normalize_and_validate uninterpreted',
    'insert_rows_batch: every row is checked (stored form exists, unique indexes accept it) before any is inserted, so a failed batch changes nothing (fix 1 of DESIGN 9c: it used to leave the rows before the rejected one inserted and unindexed); duplicates INSIDE one batch are not seen by check_unique_constraints_for_insert (each row is checked against the indexes as they were: the executors track keys within a statement, unit N-track); check_unique_constraints_for_insert sees the row as handed in - the executors normalize before calling (fix ff7104d3)',
    'external_body Tables::normalize_row (Table::normalize_row: Ok iff the row has a stored form), row_ref_at_or (table.scan().get(i).unwrap_or(row)); Tables::insert fails ONLY for a row without a stored form (proved for Table::insert in unit K-table); R10 rewrites of the four loops over the batch',
]
