NAME = 'S-project'
PROPERTIES = ['C08', 'C01']
ENGINE = 'verus'
CLASS = 'U'
DOC = ('SelectExecutor::apply_eager_projection (executor select/executor/nonagg/materialized.rs), the end of every non-aggregate SELECT with DISTINCT or a set '
       'operation: every (already sorted) row is projected, in order; DISTINCT is then applied to the projected rows - all of them, by the function that '
       'keeps each distinct row once - and LIMIT / OFFSET last, unless a set operation follows.')

TEMPLATE = r'''
use vstd::prelude::*;
verus! {

#[verifier::external_body] pub struct Row { r: u8 }
#[verifier::external_body] pub struct SortKeys { k: u8 }
#[verifier::external_body] pub struct ExecutorError { e: u8 }
#[verifier::external_body] pub struct Opq { o: u8 }
#[verifier::external_body] pub struct SelectItem { s: u8 }
#[verifier::external_body] pub struct CombinedSchema { s: u8 }
#[verifier::external_body] pub struct WindowMapping { w: u8 }
#[verifier::external_body] pub struct Evaluator { e: u8 }
impl Evaluator { #[verifier::external_body] pub fn clear_cse_cache(&self) { unimplemented!() } }
pub type RowWithSortKeys = (Row, Option<SortKeys>);
// vibesql_ast::SelectStmt reduced to the fields read here (R2)
pub struct SelectStmt { pub select_list: Vec<SelectItem>, pub distinct: bool, pub set_operation: Option<Opq>, pub limit: Option<usize>, pub offset: Option<usize> }

pub uninterp spec fn projected(row: Row, items: Seq<SelectItem>) -> Option<Row>;
pub uninterp spec fn distinct(rows: Seq<Row>) -> Seq<Row>;
pub uninterp spec fn limited(rows: Seq<Row>, limit: Option<usize>, offset: Option<usize>) -> Seq<Row>;
/// the first n input rows, projected, in order
pub open spec fn project_all(input: Seq<RowWithSortKeys>, items: Seq<SelectItem>, n: int) -> Seq<Row>
    decreases n
{
    if n <= 0 { Seq::empty() } else { project_all(input, items, n - 1).push(projected(input[n - 1].0, items)->Some_0) }
}
#[verifier::external_body]
fn project_row_combined(row: &Row, items: &Vec<SelectItem>, ev: &Evaluator, schema: &CombinedSchema, wm: &Option<WindowMapping>, pool: &Opq) -> (r: Result<Row, ExecutorError>)
    ensures r matches Ok(x) ==> projected(*row, items@) == Some(x), r is Err ==> projected(*row, items@) is None { unimplemented!() }
#[verifier::external_body] fn apply_distinct(rows: Vec<Row>) -> (r: Vec<Row>) ensures r@ == distinct(rows@) { unimplemented!() }
#[verifier::external_body] fn apply_limit_offset(rows: Vec<Row>, limit: Option<usize>, offset: Option<usize>) -> (r: Vec<Row>) ensures r@ == limited(rows@, limit, offset) { unimplemented!() }
#[verifier::external_body] fn row_memory_of(r: &Row) -> (m: usize) { unimplemented!() }
#[verifier::external_body] fn row_clone(r: &Row) -> (c: Row) ensures c == *r { unimplemented!() }

pub struct SelectExecutor { pub pool: Opq }
impl SelectExecutor {
    #[verifier::external_body] fn check_timeout(&self) -> (r: Result<(), ExecutorError>) { unimplemented!() }
    #[verifier::external_body] fn track_memory_allocation(&self, m: usize) -> (r: Result<(), ExecutorError>) { unimplemented!() }
    // self.database.query_buffer_pool().get_row_buffer(n): an EMPTY vector with capacity
    #[verifier::external_body] fn get_row_buffer(&self, n: usize) -> (r: Vec<Row>) ensures r@.len() == 0 { unimplemented!() }

//@@ apply_eager_projection
}

fn canary_project(ex: &SelectExecutor, stmt: &SelectStmt, rows: Vec<RowWithSortKeys>, s: &CombinedSchema, ev: &Evaluator, wm: &Option<WindowMapping>)
{
    let r = ex.apply_eager_projection(stmt, rows, s, ev, wm);
    assert(false); // CANARY
}

}
fn main() {}
'''

ITEMS = {
    'apply_eager_projection': dict(
        file='crates/vibesql-executor/src/select/executor/nonagg/materialized.rs', path="impl SelectExecutor<'_>::fn apply_eager_projection", ret='res',
        rewrites=[
            ('re', r'vibesql_ast::SelectStmt', 'SelectStmt', None), ('re', r'crate::schema::CombinedSchema', 'CombinedSchema', None),
            ('re', r'CombinedExpressionEvaluator', 'Evaluator', None), ('re', r'Option<HashMap<WindowFunctionKey, usize>>', 'Option<WindowMapping>', None),
            ('re', r'vibesql_storage::Row', 'Row', None),
            ('re', r'(?s)self\s*\.database\s*\.query_buffer_pool\(\)\s*\.get_row_buffer\((.*?)\)', r'self.get_row_buffer(\1)', None),
            ('re', r'self\.database\.query_buffer_pool\(\)', '&self.pool', None),
            ('re', r'for \(row, _\) in result_rows \{', 'let mut ri__: usize = 0; while ri__ < result_rows.len() { let row = row_clone(&result_rows[ri__].0); ri__ = ri__ + 1;', 1),
            ('re', r'(?s)std::mem::size_of::<Row>\(\)\s*\+ std::mem::size_of_val\(projected_row\.values\.as_slice\(\)\)', 'row_memory_of(&projected_row)', None),
        ],
        loops={0: '''
            invariant
                ri__ <= result_rows@.len(),
                projected_rows@ =~= project_all(result_rows@, stmt.select_list@, ri__ as int),
            decreases result_rows@.len() - ri__,
'''},
        contract='''
        ensures
            res matches Ok(out) ==> ({
                let p = project_all(result_rows@, stmt.select_list@, result_rows@.len() as int);
                let d = if stmt.distinct { distinct(p) } else { p };
                out@ == (if stmt.set_operation is Some { d } else { limited(d, stmt.limit, stmt.offset) })
            }),
'''),
}

OBLIGATIONS = {
    'apply_eager_projection': ['post:every_row_projected_in_order__then_distinct_over_all_projected_rows__then_limit_offset', 'proof:loop_invariant_and_termination', 'safety:index_in_bounds'],
}
CANARIES = ['canary_project']
TRUSTED = [
    'external_body, each an UNINTERPRETED DETERMINISTIC function: project_row_combined (projected), apply_distinct (distinct: each distinct row once - unit S-setops), apply_limit_offset (limited - unit S-limit); get_row_buffer returns an EMPTY vector (QueryBufferPool: capacity only); check_timeout / track_memory_allocation / clear_cse_cache: no effect on the result; row_memory_of = the size_of arithmetic; row_clone = the move of the row out of the consumed vector',
    'Row, SortKeys, ExecutorError, SelectItem, CombinedSchema, WindowMapping (HashMap<WindowFunctionKey, usize>), Evaluator, Opq opaque; SelectStmt reduced to select_list / distinct / set_operation / limit / offset - a body that reads another field of the statement no longer extracts (undecided, not an alarm)',
    'R10 rewrite of `for (row, _) in result_rows` (consuming) into an index loop',
    'apply_lazy_projection (no DISTINCT, no set operation: LIMIT / OFFSET before projection, through an iterator) and the sorting before this function (apply_sorting: unit S-orderby for the comparator) are not under this contract',
]
