NAME = 'X-sp'
PROPERTIES = ['C14', 'C13']
ENGINE = 'verus'
CLASS = 'U'
DOC = ('TransactionManager::{begin_transaction, commit_transaction, rollback_transaction} (BEGIN snapshots catalog and tables as they are; ROLLBACK puts back exactly that snapshot; COMMIT only ends the transaction) and TransactionManager::{record_change, create_savepoint, rollback_to_savepoint, release_savepoint} against the savepoint stack of the '
       'property: rollback to s returns exactly the changes made after s, truncates the log to s, keeps s alive and destroys later savepoints; '
       's is the MOST RECENT savepoint of that name; RELEASE removes only that savepoint and touches no change; no panic (drain in bounds).')

TEMPLATE = r'''
#![feature(allocator_api)]
use vstd::prelude::*;
verus! {

// std Vec capacity management: no effect on the contents (documented behaviour)
pub assume_specification<T, A: std::alloc::Allocator> [std::vec::Vec::<T, A>::shrink_to_fit] (v: &mut std::vec::Vec<T, A>)
    ensures final(v)@ == old(v)@;

// R2: opaque leaf types
#[verifier::external_body] pub struct Name { s: String }            // String savepoint name, with equality
#[verifier::external_body] pub struct TransactionChange { c: u8 }   // recorded change (Insert/Update/Delete of a Row): opaque here
#[verifier::external_body] pub struct Catalog { c: u8 }
impl Catalog { #[verifier::external_body] pub fn clone(&self) -> (r: Catalog) ensures r == *self { unimplemented!() } }
#[verifier::external_body] pub struct TableMap { m: u8 }            // HashMap<String, Table> snapshot
impl TableMap { #[verifier::external_body] pub fn clone(&self) -> (r: TableMap) ensures r == *self { unimplemented!() } }
#[verifier::external_body] pub struct Msg { m: u8 }
pub enum StorageError { TransactionError(Msg) }
// R5: error message construction
#[verifier::external_body] fn err_msg() -> (r: Msg) { unimplemented!() }

spec fn is_last_pos(v: Seq<Savepoint>, name: Name, i: int) -> bool {
    0 <= i < v.len() && v[i].name == name && forall|j: int| i < j < v.len() ==> v[j].name != name
}
spec fn is_first_pos(v: Seq<Savepoint>, name: Name, i: int) -> bool {
    0 <= i < v.len() && v[i].name == name && forall|j: int| 0 <= j < i ==> v[j].name != name
}
spec fn has_name(v: Seq<Savepoint>, name: Name) -> bool { exists|j: int| 0 <= j < v.len() && v[j].name == name }

// R4: savepoints.iter().rposition(|sp| sp.name == name)  /  .position(..)
#[verifier::external_body]
fn rposition_name(v: &Vec<Savepoint>, name: &Name) -> (r: Option<usize>)
    ensures match r {
        Some(i) => is_last_pos(v@, *name, i as int) && v@.len() <= usize::MAX,
        None => forall|j: int| 0 <= j < v@.len() ==> v@[j].name != *name,
    }
{ unimplemented!() }
#[verifier::external_body]
fn position_name(v: &Vec<Savepoint>, name: &Name) -> (r: Option<usize>)
    ensures match r {
        Some(i) => is_first_pos(v@, *name, i as int) && v@.len() <= usize::MAX,
        None => forall|j: int| 0 <= j < v@.len() ==> v@[j].name != *name,
    }
{ unimplemented!() }
// R4: changes.drain(i..).collect()   (std: panics if i > len -> precondition)
#[verifier::external_body]
fn drain_from(v: &mut Vec<TransactionChange>, i: usize) -> (r: Vec<TransactionChange>)
    requires i <= old(v)@.len()
    ensures r@ == old(v)@.subrange(i as int, old(v)@.len() as int), final(v)@ == old(v)@.subrange(0, i as int)
{ unimplemented!() }

//@@ Savepoint

//@@ TransactionState

//@@ TransactionManager

// ---------------- the abstract state: the change log and the savepoint stack -------------------------------
spec fn active(s: TransactionState) -> bool { s is Active }
spec fn sps(s: TransactionState) -> Seq<Savepoint> {
    match s { TransactionState::Active { savepoints, .. } => savepoints@, TransactionState::None => Seq::empty() }
}
spec fn chs(s: TransactionState) -> Seq<TransactionChange> {
    match s { TransactionState::Active { changes, .. } => changes@, TransactionState::None => Seq::empty() }
}
/// everything except the log and the stack is untouched
spec fn same_frame(a: TransactionState, b: TransactionState) -> bool {
    match (a, b) {
        (TransactionState::None, TransactionState::None) => true,
        (TransactionState::Active { id: i1, original_catalog: c1, original_tables: t1, .. },
         TransactionState::Active { id: i2, original_catalog: c2, original_tables: t2, .. }) => i1 == i2 && c1 == c2 && t1 == t2,
        _ => false,
    }
}
/// representation invariant: snapshot indices are monotone and inside the log (makes drain panic-free and rollback meaningful)
spec fn wf(s: TransactionState) -> bool {
    &&& forall|i: int| 0 <= i < sps(s).len() ==> (#[trigger] sps(s)[i]).snapshot_index <= chs(s).len()
    &&& forall|i: int, j: int| 0 <= i < j < sps(s).len() ==> (#[trigger] sps(s)[i]).snapshot_index <= (#[trigger] sps(s)[j]).snapshot_index
}

impl TransactionManager {
//@@ record_change

//@@ create_savepoint

//@@ rollback_to_savepoint

//@@ release_savepoint

//@@ begin_transaction

//@@ commit_transaction

//@@ rollback_transaction
}

fn canary_rollback(tm: &mut TransactionManager, name: Name)
    requires wf(old(tm).transaction_state)
{
    let r = tm.rollback_to_savepoint(name);
    assert(false); // CANARY
}
fn canary_create(tm: &mut TransactionManager, name: Name)
    requires wf(old(tm).transaction_state)
{
    let r = tm.create_savepoint(name);
    assert(false); // CANARY
}

}
fn main() {}
'''

_F = 'crates/vibesql-storage/src/database/transactions.rs'
_WF_LOCAL = '''assert(forall|i: int| 0 <= i < savepoints@.len() ==> (#[trigger] savepoints@[i]).snapshot_index <= changes@.len());
                    assert(forall|i: int, j: int| 0 <= i < j < savepoints@.len() ==> (#[trigger] savepoints@[i]).snapshot_index <= (#[trigger] savepoints@[j]).snapshot_index);'''
_ERR = ('re', r'StorageError::TransactionError\(\s*(?:"[^"]*"\.to_string\(\)|format!\("[^"]*"(?:,\s*\w+)*\))\s*\)', 'StorageError::TransactionError(err_msg())', None)


def _pos_stub(m):
    """savepoints.iter().position|rposition(|sp| sp.name == name).ok_or_else(|| err)? -> match on the corresponding stub (R4 + R7)"""
    return 'match %s_name(savepoints, &name) { Some(i) => i, None => return Err(%s) }' % (m.group(1), 'StorageError::TransactionError(err_msg())')


_POS = ('refn', r'savepoints\s*\.iter\(\)\s*\.(position|rposition)\(\|sp\| sp\.name == name\)\s*\.ok_or_else\(\|\| \{\s*StorageError::TransactionError\(err_msg\(\)\)\s*\}\)\?', _pos_stub, 1)

_TXRW = [('re', r'vibesql_catalog::Catalog', 'Catalog', None), ('re', r'HashMap<String, Table>', 'TableMap', None), _ERR]

ITEMS = {
    'Savepoint': dict(file=_F, path='struct Savepoint', rewrites=[('re', r'\bString\b', 'Name', 1)]),
    'TransactionState': dict(file=_F, path='enum TransactionState', rewrites=[
        ('lit', 'vibesql_catalog::Catalog', 'Catalog', 1), ('lit', 'HashMap<String, Table>', 'TableMap', 1)]),
    'TransactionManager': dict(file=_F, path='struct TransactionManager'),
    'begin_transaction': dict(file=_F, path='impl TransactionManager::fn begin_transaction', ret='r', rewrites=_TXRW, contract='''
    requires old(self).next_transaction_id < u64::MAX,      // machine arithmetic: the id counter is incremented unchecked
    ensures
        // BEGIN snapshots the catalog and every table AS THEY ARE, with an empty savepoint stack and an empty change log; a nested BEGIN is refused and changes nothing
        r is Ok <==> old(self).transaction_state is None,
        r is Ok ==> (final(self).transaction_state matches TransactionState::Active { original_catalog, original_tables, savepoints, changes, .. }
                        && original_catalog == *catalog && original_tables == *tables && savepoints@.len() == 0 && changes@.len() == 0),
        r is Err ==> final(self).transaction_state == old(self).transaction_state,
'''),
    'commit_transaction': dict(file=_F, path='impl TransactionManager::fn commit_transaction', ret='r', rewrites=_TXRW, contract='''
    ensures
        r is Ok <==> old(self).transaction_state is Active,
        r is Ok ==> final(self).transaction_state is None,
        r is Err ==> final(self).transaction_state == old(self).transaction_state,
'''),
    'rollback_transaction': dict(file=_F, path='impl TransactionManager::fn rollback_transaction', ret='r', rewrites=_TXRW, contract='''
    ensures
        // ROLLBACK puts back EXACTLY the catalog and the tables snapshotted at BEGIN and ends the transaction; without a transaction nothing changes
        r is Ok <==> old(self).transaction_state is Active,
        old(self).transaction_state matches TransactionState::Active { original_catalog, original_tables, .. }
            ==> *final(catalog) == original_catalog && *final(tables) == original_tables && final(self).transaction_state is None,
        r is Err ==> *final(catalog) == *old(catalog) && *final(tables) == *old(tables) && final(self).transaction_state == old(self).transaction_state,
'''),
    'record_change': dict(file=_F, path='impl TransactionManager::fn record_change',
                          proofs=[('after:changes.push(change);', 'proof { assert(forall|i: int| 0 <= i < sps(old(self).transaction_state).len() ==> (#[trigger] sps(old(self).transaction_state)[i]).snapshot_index <= changes@.len()); }')],
                          contract='''
    requires wf(old(self).transaction_state),
    ensures
        wf(final(self).transaction_state), same_frame(old(self).transaction_state, final(self).transaction_state),
        sps(final(self).transaction_state) == sps(old(self).transaction_state),
        active(old(self).transaction_state) ==> chs(final(self).transaction_state) == chs(old(self).transaction_state).push(change),
        !active(old(self).transaction_state) ==> chs(final(self).transaction_state) == chs(old(self).transaction_state),
'''),
    'create_savepoint': dict(file=_F, path='impl TransactionManager::fn create_savepoint', ret='r',
                             rewrites=[('lit', 'name: String', 'name: Name', 1), _ERR],
                             proofs=[('after:savepoints.push(savepoint);', 'proof {\n let o = sps(old(self).transaction_state);\n assert(forall|i: int| 0 <= i < o.len() ==> savepoints@[i] == o[i]);\n ' + _WF_LOCAL + '\n}')],
                             contract='''
    requires wf(old(self).transaction_state),
    ensures
        wf(final(self).transaction_state), same_frame(old(self).transaction_state, final(self).transaction_state),
        chs(final(self).transaction_state) == chs(old(self).transaction_state),
        r is Ok <==> active(old(self).transaction_state),
        r is Ok ==> sps(final(self).transaction_state) == sps(old(self).transaction_state).push(Savepoint { name: name, snapshot_index: chs(old(self).transaction_state).len() as usize }),
        r is Err ==> sps(final(self).transaction_state) == sps(old(self).transaction_state),
'''),
    'rollback_to_savepoint': dict(file=_F, path='impl TransactionManager::fn rollback_to_savepoint', ret='r',
                                  rewrites=[('lit', 'name: String', 'name: Name', 1), _ERR, _POS,
                                            ('re', r'changes\.drain\(([^;]*?)\.\.\)\.collect\(\)', r'drain_from(changes, \1)', 1)],
                                  proofs=[('after:let snapshot_index = savepoints[savepoint_idx].snapshot_index;',
                                           'proof { let o = sps(old(self).transaction_state); assert(savepoints@ == o); assert(o[savepoint_idx as int].snapshot_index <= chs(old(self).transaction_state).len()); }'),
                                          ('after:re:savepoints\\.truncate\\([^;]*\\);',
                                           'proof {\n let o = sps(old(self).transaction_state);\n assert(forall|i: int| 0 <= i < savepoints@.len() ==> savepoints@[i] == o[i]);\n ' + _WF_LOCAL + '\n assert(is_last_pos(o, name, savepoint_idx as int));\n}')],
                                  contract='''
    requires wf(old(self).transaction_state),
    ensures
        wf(final(self).transaction_state), same_frame(old(self).transaction_state, final(self).transaction_state),
        r is Ok <==> (active(old(self).transaction_state) && has_name(sps(old(self).transaction_state), name)),
        // s = the MOST RECENT savepoint of that name: exactly the changes made after s are returned for undo, the log is cut back to s,
        // s stays alive, later savepoints are destroyed
        r is Ok ==> exists|p: int| is_last_pos(sps(old(self).transaction_state), name, p) && {
            let idx = sps(old(self).transaction_state)[p].snapshot_index as int;
            &&& r->Ok_0@ == chs(old(self).transaction_state).subrange(idx, chs(old(self).transaction_state).len() as int)
            &&& chs(final(self).transaction_state) == chs(old(self).transaction_state).subrange(0, idx)
            &&& sps(final(self).transaction_state) == sps(old(self).transaction_state).subrange(0, p + 1)
        },
        r is Err ==> (sps(final(self).transaction_state) == sps(old(self).transaction_state) && chs(final(self).transaction_state) == chs(old(self).transaction_state)),
'''),
    'release_savepoint': dict(file=_F, path='impl TransactionManager::fn release_savepoint', ret='r',
                              rewrites=[('lit', 'name: String', 'name: Name', 1), _ERR, _POS],
                              proofs=[('after:re:savepoints\\.remove\\([^;]*\\);',
                                       'proof {\n let o = sps(old(self).transaction_state);\n let c = chs(old(self).transaction_state);\n'
                                       ' assert(forall|i: int| 0 <= i < savepoints@.len() ==> savepoints@[i] == (if i < savepoint_idx { o[i] } else { o[i + 1] }));\n'
                                       ' assert(forall|i: int| 0 <= i < savepoints@.len() ==> (#[trigger] savepoints@[i]).snapshot_index <= c.len());\n'
                                       ' assert(forall|i: int, j: int| 0 <= i < j < savepoints@.len() ==> (#[trigger] savepoints@[i]).snapshot_index <= (#[trigger] savepoints@[j]).snapshot_index);\n'
                                       ' assert(is_last_pos(o, name, savepoint_idx as int));\n}')],
                              contract='''
    requires wf(old(self).transaction_state),
    ensures
        wf(final(self).transaction_state), same_frame(old(self).transaction_state, final(self).transaction_state),
        // RELEASE changes no data: the change log is untouched
        chs(final(self).transaction_state) == chs(old(self).transaction_state),
        r is Ok <==> (active(old(self).transaction_state) && has_name(sps(old(self).transaction_state), name)),
        r is Ok ==> exists|p: int| is_last_pos(sps(old(self).transaction_state), name, p) && sps(final(self).transaction_state) == sps(old(self).transaction_state).remove(p),
        r is Err ==> sps(final(self).transaction_state) == sps(old(self).transaction_state),
'''),
}

OBLIGATIONS = {
    'record_change': ['post:appends_to_log_only', 'safety:no_panic'],
    'create_savepoint': ['post:pushes_savepoint_at_current_log_length', 'safety:no_panic'],
    'rollback_to_savepoint': ['post:undo_suffix_log_truncated_s_stays_alive_later_destroyed_most_recent_name', 'safety:drain_in_bounds_no_overflow'],
    'release_savepoint': ['post:removes_only_that_savepoint_log_untouched', 'safety:no_panic'],
    'begin_transaction': ['post:snapshot_of_catalog_and_tables_as_they_are__empty_stack_and_log__nested_begin_refused', 'safety:id_counter'],
    'commit_transaction': ['post:ends_the_transaction__nothing_else'],
    'rollback_transaction': ['post:catalog_and_tables_are_exactly_the_snapshot_of_begin__transaction_ended'],
}
CANARIES = ['canary_rollback', 'canary_create']
TRUSTED = [
    'external_body Name / TransactionChange / Catalog / TableMap / Msg: opaque leaf types (String, Row-carrying change, snapshots); Catalog::clone / TableMap::clone are copies (derive(Clone) of the catalog and of HashMap<String, Table>: ASSUMED to copy everything observable)',
    'begin_transaction requires next_transaction_id < u64::MAX (machine arithmetic: `+= 1` unchecked)',
    'external_body err_msg: error message text',
    'external_body rposition_name / position_name: Iterator::rposition / position with the closure |sp| sp.name == name (std documented behaviour)',
    'external_body drain_from: Vec::drain(i..).collect() (std documented behaviour; its panic is the precondition i <= len)',
    'vstd specs: Vec::push, len, truncate, remove, index, clear',
    'assume_specification std::vec::Vec::<T, A>::shrink_to_fit: capacity management does not change the contents',
    'that every DML executor records its changes, and Database::undo_change, are not covered by this unit (see DESIGN 5/C14)',
]
