import importlib.util as _ilu
import os as _os
_spec = _ilu.spec_from_file_location('_ast_common', _os.path.join(_os.path.dirname(_os.path.abspath(__file__)), '_ast_common.py'))
_ast = _ilu.module_from_spec(_spec)
_spec.loader.exec_module(_ast)

NAME = 'D-set'
PROPERTIES = ['C09']
ENGINE = 'verus'
CLASS = 'U'
DOC = ('ValueUpdater::apply_assignments (update/value_updater.rs) and Row::set: the SET list of UPDATE is applied with TWO-PHASE semantics - every '
       'assigned expression is evaluated on the ORIGINAL row (so `SET a = b, b = a` swaps), assignments are applied in order (a later assignment '
       'to the same column wins), DEFAULT yields the column default literal or NULL, every other column is unchanged, and the reported set of '
       'changed columns is exactly the set of assigned columns.')

TEMPLATE = r'''
#![feature(allocator_api)]
#![feature(sized_hierarchy)]
use vstd::prelude::*;
verus! {
''' + _ast.AST_PREAMBLE + r'''
impl Str {
    #[verifier::external_body] pub fn clone(&self) -> (r: Str) ensures r == *self { unimplemented!() }
}
#[verifier::external_body] pub struct ExecutorError { e: u8 }
pub enum StorageError { ColumnIndexOutOfBounds { index: usize }, Other }

//@@ Assignment

// vibesql_storage::Row (values) with the real `set`
pub struct Row { pub values: Vec<SqlValue> }
impl Row {
    #[verifier::external_body] pub fn clone(&self) -> (r: Row) ensures r == *self { unimplemented!() }
//@@ row_set
}
// catalog::ColumnSchema / TableSchema reduced to what the function reads (R2)
pub struct ColumnSchema { pub name: Str, pub default_value: Option<Expression> }
pub struct TableSchema { pub columns: Vec<ColumnSchema> }
impl TableSchema {
    pub uninterp spec fn col_index(&self, name: Str) -> Option<usize>;
    #[verifier::external_body]
    pub fn get_column_index(&self, name: &Str) -> (r: Option<usize>)
        ensures r == self.col_index(*name), r is Some ==> r.unwrap() < self.columns@.len()
    { unimplemented!() }
}
pub struct ExpressionEvaluator { pub o: u8 }
pub uninterp spec fn eval_spec(ev: &ExpressionEvaluator, e: Expression, row: Row) -> Result<SqlValue, ExecutorError>;
impl ExpressionEvaluator {
    #[verifier::external_body]
    pub fn eval(&self, e: &Expression, row: &Row) -> (r: Result<SqlValue, ExecutorError>) ensures r == eval_spec(self, *e, *row) { unimplemented!() }
}
// `.ok_or_else(|| ExecutorError::ColumnNotFound { .. })`
#[verifier::external_body]
fn col_or_err(c: Option<usize>) -> (r: Result<usize, ExecutorError>) ensures c is Some ==> r == Ok::<usize, ExecutorError>(c.unwrap()), c is None ==> r is Err { unimplemented!() }
// `.map_err(|e| ExecutorError::StorageError(e.to_string()))`
#[verifier::external_body]
fn storage_err(r: Result<(), StorageError>) -> (o: Result<(), ExecutorError>) ensures (o is Ok) == (r is Ok) { unimplemented!() }
#[verifier::external_body] fn unsupported() -> (r: ExecutorError) { unimplemented!() }
// std HashSet<usize>
#[verifier::external_body] pub struct ColSet { s: u8 }
impl ColSet {
    pub uninterp spec fn view(&self) -> Set<usize>;
    #[verifier::external_body] pub fn new() -> (r: ColSet) ensures r.view() == Set::<usize>::empty() { unimplemented!() }
    #[verifier::external_body] pub fn insert(&mut self, c: usize) -> (b: bool) ensures final(self).view() == old(self).view().insert(c) { unimplemented!() }
}

pub struct ValueUpdater<'a> { pub schema: &'a TableSchema, pub evaluator: &'a ExpressionEvaluator, pub table_name: &'a str }

/// the value an assignment gives its column: DEFAULT -> the column's default literal (NULL without a default), anything else -> the
/// expression evaluated on the ORIGINAL row
pub open spec fn assigned_value(s: &TableSchema, ev: &ExpressionEvaluator, a: Assignment, orig: Row, c: usize) -> Result<SqlValue, ExecutorError> {
    match a.value {
        Expression::Default => match s.columns@[c as int].default_value {
            Some(Expression::Literal(lit)) => Ok(lit),
            Some(_) => Err(arbitrary()),
            None => Ok(SqlValue::Null),
        },
        other => eval_spec(ev, other, orig),
    }
}
/// the row after the first n assignments (in order; each value computed from the original row)
pub open spec fn after(s: &TableSchema, ev: &ExpressionEvaluator, asg: Seq<Assignment>, orig: Row, n: int) -> Seq<SqlValue> decreases n {
    if n <= 0 { orig.values@ } else {
        let c = s.col_index(asg[n - 1].column).unwrap();
        after(s, ev, asg, orig, n - 1).update(c as int, assigned_value(s, ev, asg[n - 1], orig, c)->Ok_0)
    }
}
pub open spec fn assigned_cols(s: &TableSchema, asg: Seq<Assignment>, n: int) -> Set<usize> decreases n {
    if n <= 0 { Set::empty() } else { assigned_cols(s, asg, n - 1).insert(s.col_index(asg[n - 1].column).unwrap()) }
}

impl<'a> ValueUpdater<'a> {
//@@ apply_assignments
}

fn canary_set<'a>(u: &ValueUpdater<'a>, row: &Row, asg: &[Assignment])
{
    let r = u.apply_assignments(row, asg);
    assert(false); // CANARY
}

}
fn main() {}
'''

_F = 'crates/vibesql-executor/src/update/value_updater.rs'
ITEMS = dict(_ast.AST_ITEMS)
ITEMS.update({
    'Assignment': dict(file='crates/vibesql-ast/src/dml.rs', path='struct Assignment', rewrites=[('re', r'\bString\b', 'Str', None)]),
    'row_set': dict(file='crates/vibesql-storage/src/row.rs', path='impl Row::fn set', ret='r',
        rewrites=[('re', r'crate::StorageError', 'StorageError', None), ('re', r'self\.values\[index\] = value;', 'self.values.set(index, value);', 1)],
        contract='''
        ensures
            r is Ok <==> index < old(self).values@.len(),
            r is Ok ==> final(self).values@ == old(self).values@.update(index as int, value),
            r is Err ==> final(self).values@ == old(self).values@,
'''),
    'apply_assignments': dict(
        file=_F, path="impl<'a> ValueUpdater<'a>::fn apply_assignments", ret='res',
        rewrites=[('re', r'vibesql_storage::Row', 'Row', None), ('re', r'vibesql_ast::Expression', 'Expression', None), ('re', r'vibesql_types::SqlValue', 'SqlValue', None),
                  ('re', r'HashSet<usize>', 'ColSet', None), ('re', r'HashSet::new\(\)', 'ColSet::new()', 1),
                  ('re', r'for assignment in assignments \{', 'let mut ai__: usize = 0; while ai__ < assignments.len() { let assignment = &assignments[ai__]; ai__ = ai__ + 1;', 1),
                  ('re', r'(?s)self\.schema\.get_column_index\(&assignment\.column\)\.ok_or_else\(\|\| \{\s*ExecutorError::ColumnNotFound \{.*?\}\s*\}\)\?', 'col_or_err(self.schema.get_column_index(&assignment.column))?', 1),
                  ('re', r'(?s)return Err\(ExecutorError::UnsupportedExpression\(format!\(.*?\)\)\)', 'return Err(unsupported())', 1),
                  ('re', r'(?s)new_row\s*\.set\(col_index, new_value\)\s*\.map_err\(\|e\| ExecutorError::StorageError\(e\.to_string\(\)\)\)\?', 'storage_err(new_row.set(col_index, new_value))?', 1)],
        loops={0: '''
            invariant
                ai__ <= assignments@.len(), new_row.values@.len() == original_row.values@.len(),
                forall|k: int| 0 <= k < ai__ ==> self.schema.col_index((#[trigger] assignments@[k]).column) is Some
                    && assigned_value(self.schema, self.evaluator, assignments@[k], *original_row, self.schema.col_index(assignments@[k].column).unwrap()) is Ok,
                new_row.values@ == after(self.schema, self.evaluator, assignments@, *original_row, ai__ as int),
                changed_columns.view() == assigned_cols(self.schema, assignments@, ai__ as int),
            decreases assignments@.len() - ai__,
'''},
        contract='''
        ensures
            res matches Ok((row, changed)) ==> ({
                let n = assignments@.len() as int;
                // two-phase semantics: every value is computed from the ORIGINAL row, assignments applied in order, other columns untouched
                &&& row.values@ == after(self.schema, self.evaluator, assignments@, *original_row, n)
                &&& changed.view() == assigned_cols(self.schema, assignments@, n)
                &&& forall|k: int| 0 <= k < n ==> self.schema.col_index((#[trigger] assignments@[k]).column) is Some
            }),
'''),
})

OBLIGATIONS = {
    'set': ['post:updates_exactly_one_position_or_fails_without_change', 'safety:index_in_bounds'],
    'apply_assignments': ['post:values_from_the_original_row__in_order__other_columns_untouched__changed_set_exact', 'safety:index_in_bounds', 'proof:loop_invariant'],
}
CANARIES = ['canary_set']
TRUSTED = list(_ast.AST_TRUSTED) + [
    'external_body ExpressionEvaluator::eval: uninterpreted DETERMINISTIC function of (expression, row); Row::clone / Str::clone are copies',
    'external_body TableSchema::get_column_index (result is a valid column position), col_or_err / storage_err / unsupported (Option::ok_or_else, Result::map_err, error construction; ExecutorError opaque), ColSet (std HashSet<usize>: new, insert)',
    'ColumnSchema / TableSchema reduced to the fields read here (name, default_value; columns)',
    'R10 rewrite (slice form) of `for assignment in assignments`; values[index] = value -> values.set(index, value)',
    'the UPDATE executor around it (row selection: units D-pk / E-truthy; constraint re-validation; index maintenance: K-table) is not under this contract',
]
