NAME = 'K-uqcreate'
PROPERTIES = ['C10', 'C15']
ENGINE = 'verus'
CLASS = 'U'
DOC = ('IndexManager::create_index (storage database/indexes/index_maintenance.rs), the check a UNIQUE index passes before it is registered and built: the creation is refused '
       'EXACTLY when two rows of the table share a NULL-free key (key = the indexed columns of the row, prefix-truncated and normalized like the stored keys) - an accepted UNIQUE index '
       'starts over duplicate-free rows; a non-unique index is not checked.')

TEMPLATE = r'''
use vstd::prelude::*;
verus! {

#[verifier::external_body] pub struct SqlValue { v: u8 }
#[verifier::external_body] pub struct Str { s: u8 }
#[verifier::external_body] pub struct StorageError { e: u8 }
pub type Key = Seq<SqlValue>;
pub struct Row { pub values: Vec<SqlValue> }
pub struct IndexColumn { pub column_name: Str, pub prefix_length: Option<u64> }
pub uninterp spec fn is_null(v: SqlValue) -> bool;
pub open spec fn key_has_null(k: Key) -> bool { exists|j: int| 0 <= j < k.len() && is_null(#[trigger] k[j]) }
#[verifier::external_body] fn has_null(k: &Vec<SqlValue>) -> (r: bool) ensures r == key_has_null(k@) { unimplemented!() }   // key_values.contains(&SqlValue::Null)
/// the index key of a row: component j = norm(trunc(row[column_indices[j]], columns[j].prefix_length))   (the closure: same two functions as the stored keys, unit I-maint)
pub uninterp spec fn zkey(column_indices: Seq<usize>, columns: Seq<IndexColumn>, row: Row) -> Key;
// column_indices.iter().zip(columns.iter()).map(|(&idx, col)| normalize(truncate(&row.values[idx], col.prefix_length))).collect()
#[verifier::external_body]
fn build_key_zip(column_indices: &Vec<usize>, columns: &Vec<IndexColumn>, row: &Row) -> (r: Vec<SqlValue>)
    requires forall|j: int| 0 <= j < column_indices@.len() ==> (#[trigger] column_indices@[j]) < row.values@.len(),    // row.values[idx] panics otherwise
    ensures r@ == zkey(column_indices@, columns@, *row)
{ unimplemented!() }
// std::collections::BTreeSet<Vec<SqlValue>>
#[verifier::external_body] pub struct KeySet { s: u8 }
impl KeySet {
    pub uninterp spec fn view(&self) -> Set<Key>;
    #[verifier::external_body] pub fn new() -> (r: KeySet) ensures r.view() == Set::<Key>::empty() { unimplemented!() }
    #[verifier::external_body] pub fn insert(&mut self, k: Vec<SqlValue>) -> (r: bool)
        ensures r == !old(self).view().contains(k@), final(self).view() == old(self).view().insert(k@) { unimplemented!() }
}
#[verifier::external_body] fn unique_violation(index_name: &Str, table_name: &Str) -> (r: StorageError) { unimplemented!() }

/// rows a < b share a NULL-free key
pub open spec fn dup_pair(column_indices: Seq<usize>, columns: Seq<IndexColumn>, rows: Seq<Row>, a: int, b: int) -> bool {
    !key_has_null(zkey(column_indices, columns, rows[a])) && zkey(column_indices, columns, rows[a]) == zkey(column_indices, columns, rows[b])
}
/// two of the first n rows share a NULL-free key
pub open spec fn has_dup(column_indices: Seq<usize>, columns: Seq<IndexColumn>, rows: Seq<Row>, n: int) -> bool {
    exists|a: int, b: int| #![trigger dup_pair(column_indices, columns, rows, a, b)] 0 <= a < b < n && dup_pair(column_indices, columns, rows, a, b)
}

//@@ unique_check

fn canary_check(unique: bool, column_indices: &Vec<usize>, columns: &Vec<IndexColumn>, table_rows: &[Row], index_name: &Str, table_name: &Str)
    requires forall|i: int, j: int| 0 <= i < table_rows@.len() && 0 <= j < column_indices@.len() ==> (#[trigger] column_indices@[j]) < (#[trigger] table_rows@[i]).values@.len(),
{
    let r = unique_check(unique, column_indices, columns, table_rows, index_name, table_name);
    assert(false); // CANARY
}

}
fn main() {}
'''

ITEMS = {
    'unique_check': dict(
        file='crates/vibesql-storage/src/database/indexes/index_maintenance.rs', path='impl IndexManager::fn create_index', ret='res',
        fragment=dict(kind='stmt', index=0, **{'from': r'if unique \{\s*let mut seen'},
                      sig='fn unique_check(unique: bool, column_indices: &Vec<usize>, columns: &Vec<IndexColumn>, table_rows: &[Row], index_name: &Str, table_name: &Str) -> Result<(), StorageError>',
                      tail='Ok(())'),
        elide=[dict(kind='closure', index=0, expect_params='(&idx, col)', to='ZKEY__')],
        rewrites=[
            ('re', r'let mut seen: std::collections::BTreeSet<Vec<SqlValue>> = std::collections::BTreeSet::new\(\);', 'let mut seen: KeySet = KeySet::new();', 1),
            ('re', r'for row in table_rows \{', 'let mut ri__: usize = 0; while ri__ < table_rows.len() { let row = &table_rows[ri__]; ri__ = ri__ + 1;', 1),
            ('re', r'(?s)column_indices\s*\.iter\(\)\s*\.zip\(columns\.iter\(\)\)\s*\.map\(ZKEY__\)\s*\.collect\(\)', 'build_key_zip(column_indices, columns, row)', 1),
            ('re', r'key_values\.contains\(&SqlValue::Null\)', 'has_null(&key_values)', 1),
            ('re', r'(?s)Err\(StorageError::UniqueConstraintViolation\(format!\((?:[^()]|\([^()]*\))*\)\)\)', 'Err(unique_violation(index_name, table_name))', 1),
        ],
        loops={0: '''
            invariant ri__ <= table_rows@.len(), unique,
                forall|i: int, j: int| 0 <= i < table_rows@.len() && 0 <= j < column_indices@.len() ==> (#[trigger] column_indices@[j]) < (#[trigger] table_rows@[i]).values@.len(),
                // seen = the NULL-free keys of the rows visited, and no two visited rows share one
                forall|k: Key| #![trigger seen.view().contains(k)] seen.view().contains(k) <==> (!key_has_null(k) && exists|a: int| 0 <= a < ri__ && #[trigger] zkey(column_indices@, columns@, table_rows@[a]) == k),
                !has_dup(column_indices@, columns@, table_rows@, ri__ as int),
            decreases table_rows@.len() - ri__,
'''},
        proofs=[('@loop0', 'let ghost i0__ = ri__ as int; let ghost seen0__ = seen.view();'),
                ('re:return Err\\(', '''proof {
                    let kk = zkey(column_indices@, columns@, table_rows@[i0__]);
                    assert(seen0__.contains(kk));
                    let a = choose|a: int| 0 <= a < i0__ && #[trigger] zkey(column_indices@, columns@, table_rows@[a]) == kk;
                    assert(0 <= a < i0__ < table_rows@.len() && dup_pair(column_indices@, columns@, table_rows@, a, i0__));
                }''')],
        contract='''
    requires forall|i: int, j: int| 0 <= i < table_rows@.len() && 0 <= j < column_indices@.len() ==> (#[trigger] column_indices@[j]) < (#[trigger] table_rows@[i]).values@.len(),
    ensures
        // a UNIQUE index is refused EXACTLY when two rows share a NULL-free key; a non-unique index is never refused here
        (res is Err) <==> (unique && has_dup(column_indices@, columns@, table_rows@, table_rows@.len() as int)),
'''),
}
OBLIGATIONS = {
    'unique_check': ['post:refused_exactly_when_two_rows_share_a_null_free_key', 'proof:loop_invariant_and_termination', 'safety:column_position_in_bounds'],
}
CANARIES = ['canary_check']
TRUSTED = [
    'R6 (fragment kind stmt): the `if unique { .. }` statement of IndexManager::create_index is lifted (fall-through value Ok(())); NOT under contract: what follows it - registration of the metadata, the choice of backend, the build of the in-memory map (same key closure; unit I-resolve: built from the rows of the resolved table) and of the disk-backed tree',
    'R6b (elide): the key closure `|(&idx, col)| normalize(truncate(&row.values[idx], col.prefix_length))` inside the loop is replaced by build_key_zip (external_body: `column_indices.iter().zip(columns.iter()).map(closure).collect()`, zkey uninterpreted; requires the column positions to exist in the row)',
    'external_body KeySet (std BTreeSet<Vec<SqlValue>>: insert returns whether the key was new), has_null (`contains(&SqlValue::Null)`, is_null uninterpreted), unique_violation (the error with its format! text); SqlValue, Str, StorageError opaque; Row / IndexColumn reduced',
]
