NAME = 'K-replace'
PROPERTIES = ['C10']
ENGINE = 'verus'
CLASS = 'U'
DOC = ('handle_replace_conflicts (executor insert/replace.rs), the conflict detection of REPLACE INTO: the head of the function builds one match entry PER '
       'CONSTRAINT, at the constraint\'s own position (the projected new values, or None when they hold a NULL), and the `conflicts` closure handed to '
       'delete_where answers TRUE for exactly the stored rows that collide with the new row on the PRIMARY KEY or on a NULL-free UNIQUE key (declared UNIQUE constraints and user-defined UNIQUE indexes alike) - so every '
       'row that would make the inserted row a duplicate is removed, and no other row is.')

TEMPLATE = r'''
use vstd::prelude::*;
verus! {

#[verifier::external_body] pub struct Val { v: u8 }
pub enum SqlValue { Null, V(Val) }
impl SqlValue {
    #[verifier::external_body] pub fn clone(&self) -> (r: SqlValue) ensures r == *self { unimplemented!() }
}
pub struct Row { pub values: Vec<SqlValue> }

/// the values of the columns idx, in that order
pub open spec fn proj(vals: Seq<SqlValue>, idx: Seq<usize>) -> Seq<SqlValue> { Seq::new(idx.len(), |j: int| vals[idx[j] as int]) }
pub open spec fn has_null(s: Seq<SqlValue>) -> bool { exists|i: int| 0 <= i < s.len() && s[i] is Null }
pub open spec fn idx_ok(idx: Seq<usize>, n: int) -> bool { forall|j: int| 0 <= j < idx.len() ==> (#[trigger] idx[j]) < n }
// idx.iter().map(|&idx| vals[idx].clone()).collect()
#[verifier::external_body]
fn project(vals: &[SqlValue], idx: &Vec<usize>) -> (r: Vec<SqlValue>)
    requires idx_ok(idx@, vals@.len() as int),          // vals[idx] panics otherwise
    ensures r@ == proj(vals@, idx@)
{ unimplemented!() }
// v.contains(&SqlValue::Null)
#[verifier::external_body]
fn contains_null(v: &Vec<SqlValue>) -> (r: bool) ensures r == has_null(v@) { unimplemented!() }
// Vec<SqlValue> == Vec<SqlValue>
#[verifier::external_body]
fn vec_eq(a: &Vec<SqlValue>, b: &Vec<SqlValue>) -> (r: bool) ensures r == (a@ == b@) { unimplemented!() }
// unique_matches.get(i).and_then(|v| v.as_ref())
#[verifier::external_body]
fn opt_at(v: &Vec<Option<Vec<SqlValue>>>, i: usize) -> (r: Option<&Vec<SqlValue>>)
    ensures
        i >= v@.len() ==> r is None,
        i < v@.len() ==> (v@[i as int] is None ==> r is None) && (v@[i as int] is Some ==> r == Some(&v@[i as int]->Some_0))
{ unimplemented!() }

#[verifier::external_body] pub struct TableSchema { t: u8 }
impl TableSchema {
    pub uninterp spec fn pk(&self) -> Option<Seq<usize>>;
    pub uninterp spec fn uqs(&self) -> Seq<Seq<usize>>;
    #[verifier::external_body]
    pub fn get_primary_key_indices(&self) -> (r: Option<Vec<usize>>)
        ensures (r is Some) == (self.pk() is Some), r matches Some(v) ==> v@ == self.pk()->Some_0 { unimplemented!() }
    #[verifier::external_body]
    pub fn get_unique_constraint_indices(&self) -> (r: Vec<Vec<usize>>)
        ensures r@.len() == self.uqs().len(), forall|c: int| 0 <= c < r@.len() ==> (#[trigger] r@[c])@ == self.uqs()[c] { unimplemented!() }
    /// every constraint column is a column of the table
    pub open spec fn cols_ok(&self, n: int) -> bool {
        &&& (self.pk() matches Some(p) ==> idx_ok(p, n))
        &&& forall|c: int| 0 <= c < self.uqs().len() ==> idx_ok(#[trigger] self.uqs()[c], n)
    }
}

#[verifier::external_body] pub struct Database { d: u8 }
/// column positions of the user-defined UNIQUE indexes of the table (insert/constraints.rs unique_index_columns; prefix indexes excepted)
pub uninterp spec fn ix_cols(db: &Database, table_name: &str) -> Seq<Seq<usize>>;
#[verifier::external_body]
fn unique_index_columns(db: &Database, schema: &TableSchema, table_name: &str) -> (r: Vec<Vec<usize>>)
    ensures r@.len() == ix_cols(db, table_name).len(), forall|c: int| 0 <= c < r@.len() ==> (#[trigger] r@[c])@ == ix_cols(db, table_name)[c] { unimplemented!() }
// Vec::extend
#[verifier::external_body]
fn vv_extend(a: &mut Vec<Vec<usize>>, b: Vec<Vec<usize>>) ensures final(a)@ == old(a)@ + b@ { unimplemented!() }
/// every key REPLACE has to respect: the declared UNIQUE constraints followed by the user-defined UNIQUE indexes
pub open spec fn all_uqs(schema: &TableSchema, db: &Database, table_name: &str) -> Seq<Seq<usize>> { schema.uqs() + ix_cols(db, table_name) }

/// SQL: a stored row makes the new row a duplicate iff they agree on the PRIMARY KEY or on a UNIQUE key that holds no NULL
pub open spec fn collides(row_vals: Seq<SqlValue>, new_vals: Seq<SqlValue>, pk: Option<Seq<usize>>, uqs: Seq<Seq<usize>>) -> bool {
    ||| (pk matches Some(p) && proj(row_vals, p) == proj(new_vals, p))
    ||| exists|c: int| 0 <= c < uqs.len() && !has_null(proj(new_vals, #[trigger] uqs[c])) && proj(row_vals, uqs[c]) == proj(new_vals, uqs[c])
}
/// what the head of handle_replace_conflicts hands to the closure: one entry per constraint, at the constraint's position
pub open spec fn matches_ok(pk_match: Option<Vec<SqlValue>>, unique_matches: Seq<Option<Vec<SqlValue>>>, new_vals: Seq<SqlValue>, pk: Option<Seq<usize>>, uqs: Seq<Seq<usize>>) -> bool {
    &&& (pk_match is Some) == (pk is Some)
    &&& (pk_match matches Some(m) ==> m@ == proj(new_vals, pk->Some_0))
    &&& unique_matches.len() == uqs.len()
    &&& forall|c: int| 0 <= c < uqs.len() ==> (
            if has_null(proj(new_vals, uqs[c])) { (#[trigger] unique_matches[c]) is None }
            else { unique_matches[c] is Some && unique_matches[c]->Some_0@ == proj(new_vals, uqs[c]) })
}

//@@ build_matches

//@@ conflicts

fn canary_build(db: &Database, t: &str, schema: &TableSchema, row_values: &[SqlValue])
    requires schema.cols_ok(row_values@.len() as int), forall|c: int| 0 <= c < ix_cols(db, t).len() ==> idx_ok(#[trigger] ix_cols(db, t)[c], row_values@.len() as int),
{
    let r = build_matches(db, t, schema, row_values);
    assert(false); // CANARY
}

}
fn main() {}
'''

_F = 'crates/vibesql-executor/src/insert/replace.rs'


def _proj(m):
    src = m.group(2)
    return 'project(%s, %s)' % ('row_values' if src == 'row_values' else 'row.values.as_slice()', m.group(1))


_RW = [('re', r'vibesql_types::SqlValue', 'SqlValue', None), ('re', r'vibesql_storage::Row', 'Row', None),
       ('refn', r'(\w+)\.iter\(\)\.map\(\|&idx\| (row_values|row\.values)\[idx\]\.clone\(\)\)\.collect\(\)', _proj, None)]

ITEMS = {
    'build_matches': dict(
        file=_F, path='fn handle_replace_conflicts', ret='r',
        fragment=dict(kind='prefix', index=0, until=r'\n\s*// Delete conflicting rows using delete_where',
                      sig='fn build_matches(db: &Database, table_name: &str, schema: &TableSchema, row_values: &[SqlValue]) -> (Option<Vec<SqlValue>>, Vec<Option<Vec<SqlValue>>>)',
                      tail='(pk_match, unique_matches)'),
        rewrites=_RW + [
            ('re', r'for unique_indices in unique_constraint_indices\.iter\(\) \{', 'let mut ui__: usize = 0; while ui__ < unique_constraint_indices.len() { let unique_indices = &unique_constraint_indices[ui__]; ui__ = ui__ + 1;', 1),
            ('re', r'unique_values\.contains\(&SqlValue::Null\)', 'contains_null(&unique_values)', 1),
            ('re', r'unique_constraint_indices\.extend\(super::constraints::unique_index_columns\(db, schema, table_name\)\);', 'vv_extend(&mut unique_constraint_indices, unique_index_columns(db, schema, table_name));', None)],
        loops={0: '''
        invariant
            ui__ <= unique_constraint_indices@.len(), unique_matches@.len() == ui__,
            unique_constraint_indices@.len() == all_uqs(schema, db, table_name).len(),
            forall|c: int| 0 <= c < unique_constraint_indices@.len() ==> (#[trigger] unique_constraint_indices@[c])@ == all_uqs(schema, db, table_name)[c],
            schema.cols_ok(row_values@.len() as int) && (forall|c: int| 0 <= c < ix_cols(db, table_name).len() ==> idx_ok(#[trigger] ix_cols(db, table_name)[c], row_values@.len() as int)),
            forall|c: int| 0 <= c < ui__ ==> (
                if has_null(proj(row_values@, all_uqs(schema, db, table_name)[c])) { (#[trigger] unique_matches@[c]) is None }
                else { unique_matches@[c] is Some && unique_matches@[c]->Some_0@ == proj(row_values@, all_uqs(schema, db, table_name)[c]) }),
        decreases unique_constraint_indices@.len() - ui__,
'''},
        contract='''
    requires schema.cols_ok(row_values@.len() as int) && (forall|c: int| 0 <= c < ix_cols(db, table_name).len() ==> idx_ok(#[trigger] ix_cols(db, table_name)[c], row_values@.len() as int)),
    ensures matches_ok(r.0, r.1@, row_values@, schema.pk(), all_uqs(schema, db, table_name)),
'''),
    'conflicts': dict(
        file=_F, path='fn handle_replace_conflicts', ret='r',
        fragment=dict(kind='closure', index=3, expect_params='row: &vibesql_storage::Row',
                      sig='fn conflicts(row: &Row, pk_match: &Option<Vec<SqlValue>>, pk_indices: &Option<Vec<usize>>, unique_constraint_indices: &Vec<Vec<usize>>, '
                          'unique_matches: &Vec<Option<Vec<SqlValue>>>, Ghost(new_vals): Ghost<Seq<SqlValue>>, Ghost(pk): Ghost<Option<Seq<usize>>>, Ghost(uqs): Ghost<Seq<Seq<usize>>>) -> bool'),
        rewrites=_RW + [
            ('re', r'for \(constraint_idx, unique_indices\) in unique_constraint_indices\.iter\(\)\.enumerate\(\) \{',
             'let mut ci__: usize = 0; while ci__ < unique_constraint_indices.len() { let constraint_idx = ci__; let unique_indices = &unique_constraint_indices[ci__]; ci__ = ci__ + 1;', 1),
            ('re', r'unique_matches\.get\(constraint_idx\)\.and_then\(\|v\| v\.as_ref\(\)\)', 'opt_at(unique_matches, constraint_idx)', 1),
            ('re', r'&row_pk_values == pk_values', 'vec_eq(&row_pk_values, pk_values)', 1),
            ('re', r'row_unique_values == \*unique_values', 'vec_eq(&row_unique_values, unique_values)', 1)],
        loops={0: '''
            invariant
                ci__ <= unique_constraint_indices@.len(),
                unique_constraint_indices@.len() == uqs.len(),
                forall|c: int| 0 <= c < unique_constraint_indices@.len() ==> (#[trigger] unique_constraint_indices@[c])@ == uqs[c],
                forall|c: int| 0 <= c < uqs.len() ==> idx_ok(#[trigger] uqs[c], row.values@.len() as int),
                matches_ok(*pk_match, unique_matches@, new_vals, pk, uqs),
                forall|c: int| 0 <= c < ci__ ==> !(!has_null(proj(new_vals, #[trigger] uqs[c])) && proj(row.values@, uqs[c]) == proj(new_vals, uqs[c])),
            decreases unique_constraint_indices@.len() - ci__,
'''},
        contract='''
    requires
        matches_ok(*pk_match, unique_matches@, new_vals, pk, uqs),
        (pk_indices is Some) == (pk is Some), pk_indices matches Some(v) ==> v@ == pk->Some_0,
        unique_constraint_indices@.len() == uqs.len(),
        forall|c: int| 0 <= c < unique_constraint_indices@.len() ==> (#[trigger] unique_constraint_indices@[c])@ == uqs[c],
        pk matches Some(p) ==> idx_ok(p, row.values@.len() as int),
        forall|c: int| 0 <= c < uqs.len() ==> idx_ok(#[trigger] uqs[c], row.values@.len() as int),
    ensures
        r == collides(row.values@, new_vals, pk, uqs),
'''),
}

OBLIGATIONS = {
    'build_matches': ['post:one_match_entry_per_constraint_at_its_position__none_iff_the_new_values_hold_a_null', 'safety:constraint_columns_in_bounds', 'proof:loop_invariant_and_termination'],
    'conflicts': ['post:true_exactly_for_rows_colliding_on_the_primary_key_or_a_null_free_unique_key', 'safety:constraint_columns_in_bounds', 'proof:loop_invariant_and_termination'],
}
CANARIES = ['canary_build']
TRUSTED = [
    'R6: the head of handle_replace_conflicts (the statements before "// Delete conflicting rows", fragment kind prefix, returning the two locals it builds) and the `conflicts` closure (closure #3, its captured variables as parameters; new_vals / pk / uqs are ghost parameters naming what the captured values stand for) are lifted; NOT under contract: get_table_mut, delete_where(|row| conflicts(row) ..) (Table::delete_where itself: unit K-table), recording the deletions',
    'external_body project (iter().map(|&idx| vals[idx].clone()).collect(): REQUIRES the indices in bounds), contains_null (Vec::contains(&Null)), vec_eq (Vec == Vec), opt_at (get(i).and_then(|v| v.as_ref())), SqlValue::clone; SqlValue = Null | V(opaque), equality structural (SqlValue::eq: unit T-laws)',
    'external_body TableSchema::get_primary_key_indices / get_unique_constraint_indices: uninterpreted pk() / uqs(); unique_index_columns (the column sets of the user-defined UNIQUE indexes: uninterpreted ix_cols - fix c1df84f2 made REPLACE respect them too), vv_extend (Vec::extend), Database opaque; precondition cols_ok (every constraint column is a column of the row) from the catalog',
    'R10 rewrites of the two `for` loops (iter() / iter().enumerate()) into index loops',
    'that REPLACE then inserts the new row through the ordinary INSERT path (constraints re-checked there: units K-pk, K-rowval) is outside this unit',
]
