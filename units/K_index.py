import json
NAME = 'K-index'
PROPERTIES = ['C10', 'C09', 'C15']
ENGINE = 'verus'
CLASS = 'U'
DOC = ('IndexManager (storage/table/indexes.rs), the hash indexes behind PRIMARY KEY / UNIQUE enforcement and the UPDATE / DELETE primary-key fast path, on the REAL code '
       '(this Verus accepts `if let Some(ref mut ..)`, Vec::get_mut and `&mut v[i]`): update_for_insert / update_for_update / update_for_delete / update_selective have their EXACT '
       'effect on every map (key bound / unbound, NULL-holding UNIQUE keys never stored, selective update touches exactly the listed indexes), clear empties them, and after '
       'rebuild every map is exactly "key -> position of the last row with that key" (THE MIRROR; loop invariant + induction lemma). C15: IndexManager::new makes one '
       'empty map per constraint; update_for_insert KEEPS THE MIRROR when the row goes to position rows.len(); update_for_update and update_selective keep it when the '
       'table is duplicate-free, old_row is the row at that position and the new keys are held by no other row (update_selective: and every index it is not told to '
       'update has an unchanged key - get_affected_indexes names exactly the indexes with a changed column); stated as postconditions of the real functions, '
       'quantified over every row vector the maps mirror.')

TEMPLATE = r'''
use vstd::prelude::*;
verus! {

#[verifier::external_body] pub struct Val { v: u8 }
pub enum SqlValue { Null, V(Val) }
pub type Key = Seq<SqlValue>;
pub struct Row { pub values: Vec<SqlValue> }

pub open spec fn proj(vals: Seq<SqlValue>, idx: Seq<usize>) -> Key { Seq::new(idx.len(), |j: int| vals[idx[j] as int]) }
pub open spec fn key_has_null(k: Key) -> bool { exists|j: int| 0 <= j < k.len() && #[trigger] k[j] is Null }
// idx.iter().map(|&i| row.values[i].clone()).collect()   (indexing out of range panics: precondition)
#[verifier::external_body]
fn project(vals: &Vec<SqlValue>, idx: &[usize]) -> (r: Vec<SqlValue>)
    requires forall|j: int| 0 <= j < idx@.len() ==> (#[trigger] idx@[j]) < vals@.len()
    ensures r@ == proj(vals@, idx@)
{ unimplemented!() }
#[verifier::external_body] fn has_null(k: &Vec<SqlValue>) -> (r: bool) ensures r == key_has_null(k@) { unimplemented!() }
#[verifier::external_body] fn key_ne(a: &Vec<SqlValue>, b: &Vec<SqlValue>) -> (r: bool) ensures r == (a@ != b@) { unimplemented!() }
#[verifier::external_body] fn key_eq(a: &Vec<SqlValue>, b: &Vec<SqlValue>) -> (r: bool) ensures r == (a@ == b@) { unimplemented!() }
// std::collections::HashSet<usize> (the changed columns of an UPDATE): an abstract set
#[verifier::external_body] pub struct ColSet { c: u8 }
impl ColSet { pub uninterp spec fn view(&self) -> Set<usize>; }
/// some column of the key is in the set
pub open spec fn touches(idx: Seq<usize>, ch: Set<usize>) -> bool { exists|j: int| 0 <= j < idx.len() && ch.contains(#[trigger] idx[j]) }
// cols.iter().any(|idx| changed_columns.contains(idx))
#[verifier::external_body] fn any_in(idx: &[usize], ch: &ColSet) -> (r: bool) ensures r == touches(idx@, ch.view()) { unimplemented!() }

pub struct TableSchema { pub o: u8 }
impl TableSchema {
    pub uninterp spec fn pk(&self) -> Option<Seq<usize>>;
    pub uninterp spec fn uniques(&self) -> Seq<Seq<usize>>;
    pub uninterp spec fn ncols(&self) -> usize;
    pub open spec fn wf(&self) -> bool {
        (self.pk() matches Some(p) ==> forall|j: int| 0 <= j < p.len() ==> (#[trigger] p[j]) < self.ncols())
        && forall|c: int, j: int| 0 <= c < self.uniques().len() && 0 <= j < self.uniques()[c].len() ==> (#[trigger] self.uniques()[c][j]) < self.ncols()
    }
    // schema.primary_key.is_some()  /  schema.unique_constraints.len()   (get_primary_key_indices is `primary_key.as_ref().map(..)`, get_unique_constraint_indices maps unique_constraints one to one)
    #[verifier::external_body] pub fn has_primary_key(&self) -> (r: bool) ensures r == (self.pk() is Some) { unimplemented!() }
    #[verifier::external_body] pub fn unique_constraint_count(&self) -> (r: usize) ensures r == self.uniques().len() { unimplemented!() }
    #[verifier::external_body]
    pub fn get_primary_key_indices(&self) -> (r: Option<Vec<usize>>) ensures (r is Some) == (self.pk() is Some), r is Some ==> r.unwrap()@ == self.pk().unwrap() { unimplemented!() }
    #[verifier::external_body]
    pub fn get_unique_constraint_indices(&self) -> (r: Vec<Vec<usize>>)
        ensures r@.len() == self.uniques().len(), forall|c: int| 0 <= c < r@.len() ==> (#[trigger] r@[c])@ == self.uniques()[c] { unimplemented!() }
}
// std HashMap<Vec<SqlValue>, usize>: an abstract finite map from keys to row positions
#[verifier::external_body] pub struct KeyPosMap { m: u8 }
impl KeyPosMap {
    pub uninterp spec fn view(&self) -> Map<Key, usize>;
    #[verifier::external_body] pub fn insert(&mut self, k: Vec<SqlValue>, v: usize) -> (r: Option<usize>) ensures final(self).view() == old(self).view().insert(k@, v) { unimplemented!() }
    #[verifier::external_body] pub fn remove(&mut self, k: &Vec<SqlValue>) -> (r: Option<usize>) ensures final(self).view() == old(self).view().remove(k@) { unimplemented!() }
    #[verifier::external_body] pub fn clear(&mut self) ensures final(self).view() == Map::<Key, usize>::empty() { unimplemented!() }
    #[verifier::external_body] pub fn new() -> (r: KeyPosMap) ensures r.view() == Map::<Key, usize>::empty() { unimplemented!() }
}
// (0..n).map(|_| HashMap::new()).collect()
#[verifier::external_body] fn empty_maps(n: usize) -> (r: Vec<KeyPosMap>)
    ensures r@.len() == n, forall|c: int| 0 <= c < n ==> (#[trigger] r@[c]).view() == Map::<Key, usize>::empty() { unimplemented!() }


pub open spec fn uq_del(m: Map<Key, usize>, k: Key) -> Map<Key, usize> { if key_has_null(k) { m } else { m.remove(k) } }
pub open spec fn pk_upd(m: Map<Key, usize>, ko: Key, kn: Key, pos: usize) -> Map<Key, usize> { if ko != kn { m.remove(ko).insert(kn, pos) } else { m } }
pub open spec fn uq_upd(m: Map<Key, usize>, ko: Key, kn: Key, pos: usize) -> Map<Key, usize> {
    let m1 = if ko != kn && !key_has_null(ko) { m.remove(ko) } else { m };
    if !key_has_null(kn) { m1.insert(kn, pos) } else { m1 }
}

//@@ IndexType
/// the effect of the first n entries of an `affected` list on the primary-key map / on unique map c (each listed index gets the update_for_update effect)
pub open spec fn sel_pk(m: Map<Key, usize>, aff: Seq<IndexType>, n: int, ko: Key, kn: Key, pos: usize) -> Map<Key, usize> decreases n {
    if n <= 0 { m } else {
        let prev = sel_pk(m, aff, n - 1, ko, kn, pos);
        if aff[n - 1] is PrimaryKey { pk_upd(prev, ko, kn, pos) } else { prev }
    }
}
pub open spec fn sel_uq(m: Map<Key, usize>, c: int, aff: Seq<IndexType>, n: int, ko: Key, kn: Key, pos: usize) -> Map<Key, usize> decreases n {
    if n <= 0 { m } else {
        let prev = sel_uq(m, c, aff, n - 1, ko, kn, pos);
        if aff[n - 1] == IndexType::UniqueConstraint(c as usize) { uq_upd(prev, ko, kn, pos) } else { prev }
    }
}
pub struct IndexManager { pub primary_key_index: Option<KeyPosMap>, pub unique_indexes: Vec<KeyPosMap> }

/// the position of the LAST row among the first n whose key (under idx) is k; rows whose key holds a NULL are skipped when skip_null
pub open spec fn last_pos(rows: Seq<Row>, idx: Seq<usize>, skip_null: bool, k: Key, n: int) -> Option<usize> decreases n {
    if n <= 0 { None }
    else if proj(rows[n - 1].values@, idx) == k && !(skip_null && key_has_null(k)) { Some((n - 1) as usize) }
    else { last_pos(rows, idx, skip_null, k, n - 1) }
}
/// map m is exactly "key -> position of the last row with that key" over the first n rows
pub open spec fn mirrors(m: Map<Key, usize>, rows: Seq<Row>, idx: Seq<usize>, skip_null: bool, n: int) -> bool {
    forall|k: Key| #![trigger m.dom().contains(k)] #![trigger last_pos(rows, idx, skip_null, k, n)]
        (m.dom().contains(k) == (last_pos(rows, idx, skip_null, k, n) is Some)) && (m.dom().contains(k) ==> m[k] == last_pos(rows, idx, skip_null, k, n).unwrap())
}
impl IndexManager {
    /// shape: a primary-key map iff the schema has a primary key (IndexManager::new); any number of unique maps
    pub open spec fn shaped(&self, s: &TableSchema) -> bool { (self.primary_key_index is Some) ==> (s.pk() is Some) }
    /// THE MIRROR INVARIANT over the first n rows: the primary-key map and every unique map hold exactly the keys of those rows
    pub open spec fn synced_n(&self, s: &TableSchema, rows: Seq<Row>, n: int) -> bool {
        (self.primary_key_index matches Some(pk) ==> s.pk() is Some && mirrors(pk.view(), rows, s.pk().unwrap(), false, n))
        && forall|c: int| 0 <= c < self.unique_indexes@.len() && c < s.uniques().len() ==> mirrors((#[trigger] self.unique_indexes@[c]).view(), rows, s.uniques()[c], true, n)
    }
    /// one map per constraint: a primary-key map iff the schema has a primary key, as many unique maps as unique constraints (IndexManager::new; kept by every operation)
    pub open spec fn complete(&self, s: &TableSchema) -> bool { (self.primary_key_index is Some) == (s.pk() is Some) && self.unique_indexes@.len() == s.uniques().len() }
    pub open spec fn rows_ok(s: &TableSchema, rows: Seq<Row>) -> bool { forall|i: int| 0 <= i < rows.len() ==> (#[trigger] rows[i]).values@.len() == s.ncols() }

}
proof fn lemma_insert_step(m: Map<Key, usize>, rows: Seq<Row>, idx: Seq<usize>, skip_null: bool, n: int)
    requires 0 <= n < rows.len(), n <= usize::MAX, mirrors(m, rows, idx, skip_null, n)
    ensures
        ({ let k = proj(rows[n].values@, idx);
           mirrors(if skip_null && key_has_null(k) { m } else { m.insert(k, n as usize) }, rows, idx, skip_null, n + 1) })
{
    let k0 = proj(rows[n].values@, idx);
    let m2 = if skip_null && key_has_null(k0) { m } else { m.insert(k0, n as usize) };
    assert forall|k: Key| (m2.dom().contains(k) == (last_pos(rows, idx, skip_null, k, n + 1) is Some))
        && (m2.dom().contains(k) ==> m2[k] == last_pos(rows, idx, skip_null, k, n + 1).unwrap()) by {
        assert(m.dom().contains(k) == (last_pos(rows, idx, skip_null, k, n) is Some));
    }
}
proof fn lemma_empty_mirrors(rows: Seq<Row>, idx: Seq<usize>, skip_null: bool)
    ensures mirrors(Map::<Key, usize>::empty(), rows, idx, skip_null, 0)
{}
/// a key that the index stores (unique-constraint maps skip keys holding a NULL)
pub open spec fn counted(k: Key, skip_null: bool) -> bool { !(skip_null && key_has_null(k)) }
pub open spec fn keyof(rows: Seq<Row>, idx: Seq<usize>, j: int) -> Key { proj(rows[j].values@, idx) }
/// no two rows hold the same stored key (what PRIMARY KEY / UNIQUE enforcement maintains: C10)
pub open spec fn dupfree(rows: Seq<Row>, idx: Seq<usize>, skip_null: bool) -> bool {
    forall|i: int, j: int| 0 <= i < j < rows.len() && counted(keyof(rows, idx, i), skip_null) ==> keyof(rows, idx, i) != keyof(rows, idx, j)
}
/// the key `kn` about to be written at position i is held by no OTHER row (what the uniqueness check before the write establishes)
pub open spec fn fresh(rows: Seq<Row>, idx: Seq<usize>, skip_null: bool, i: int, kn: Key) -> bool {
    counted(kn, skip_null) ==> forall|j: int| 0 <= j < rows.len() && j != i ==> keyof(rows, idx, j) != kn
}
/// the list names the primary-key index / unique index c among its first n entries
pub open spec fn lists_pk(aff: Seq<IndexType>, n: int) -> bool { exists|j: int| 0 <= j < n && (#[trigger] aff[j]) is PrimaryKey }
pub open spec fn lists_uq(aff: Seq<IndexType>, c: int, n: int) -> bool { exists|j: int| 0 <= j < n && (#[trigger] aff[j]) == IndexType::UniqueConstraint(c as usize) }
/// a listed index receives the update effect exactly once however often it is listed; an unlisted one none
proof fn lemma_sel_pk(m: Map<Key, usize>, aff: Seq<IndexType>, n: int, ko: Key, kn: Key, pos: usize)
    requires 0 <= n <= aff.len(),
    ensures sel_pk(m, aff, n, ko, kn, pos) == (if lists_pk(aff, n) { pk_upd(m, ko, kn, pos) } else { m }),
    decreases n,
{
    if n > 0 {
        lemma_sel_pk(m, aff, n - 1, ko, kn, pos);
        let u = pk_upd(m, ko, kn, pos);
        assert(pk_upd(u, ko, kn, pos) =~= u);
        if aff[n - 1] is PrimaryKey { assert(lists_pk(aff, n)); }
        else if lists_pk(aff, n) { let j = choose|j: int| 0 <= j < n && (#[trigger] aff[j]) is PrimaryKey; assert(j < n - 1); assert(lists_pk(aff, n - 1)); }
        if lists_pk(aff, n - 1) { let j = choose|j: int| 0 <= j < n - 1 && (#[trigger] aff[j]) is PrimaryKey; assert(lists_pk(aff, n)); }
    }
}
proof fn lemma_sel_uq(m: Map<Key, usize>, c: int, aff: Seq<IndexType>, n: int, ko: Key, kn: Key, pos: usize)
    requires 0 <= n <= aff.len(),
    ensures sel_uq(m, c, aff, n, ko, kn, pos) == (if lists_uq(aff, c, n) { uq_upd(m, ko, kn, pos) } else { m }),
    decreases n,
{
    if n > 0 {
        lemma_sel_uq(m, c, aff, n - 1, ko, kn, pos);
        let u = uq_upd(m, ko, kn, pos);
        assert(uq_upd(u, ko, kn, pos) =~= u);
        let t = IndexType::UniqueConstraint(c as usize);
        if aff[n - 1] == t { assert(lists_uq(aff, c, n)); }
        else if lists_uq(aff, c, n) { let j = choose|j: int| 0 <= j < n && (#[trigger] aff[j]) == t; assert(j < n - 1); assert(lists_uq(aff, c, n - 1)); }
        if lists_uq(aff, c, n - 1) { let j = choose|j: int| 0 <= j < n - 1 && (#[trigger] aff[j]) == t; assert(lists_uq(aff, c, n)); }
    }
}

impl IndexManager {
    /// no two rows share a stored key of ANY constraint (what PRIMARY KEY / UNIQUE enforcement maintains: C10)
    pub open spec fn all_dupfree(s: &TableSchema, rows: Seq<Row>) -> bool {
        (s.pk() matches Some(p) ==> dupfree(rows, p, false))
        && forall|c: int| 0 <= c < s.uniques().len() ==> dupfree(rows, #[trigger] s.uniques()[c], true)
    }
    /// the keys of the values about to be written at position i are held by no other row (what the uniqueness check before the write establishes)
    pub open spec fn all_fresh(s: &TableSchema, rows: Seq<Row>, i: int, vals: Seq<SqlValue>) -> bool {
        (s.pk() matches Some(p) ==> fresh(rows, p, false, i, proj(vals, p)))
        && forall|c: int| 0 <= c < s.uniques().len() ==> fresh(rows, #[trigger] s.uniques()[c], true, i, proj(vals, s.uniques()[c]))
    }
    /// every constraint index the list does NOT name has the same key in the old and the new values
    pub open spec fn unlisted_same(s: &TableSchema, aff: Seq<IndexType>, ov: Seq<SqlValue>, nv: Seq<SqlValue>) -> bool {
        (s.pk() matches Some(p) ==> lists_pk(aff, aff.len() as int) || proj(ov, p) == proj(nv, p))
        && forall|c: int| 0 <= c < s.uniques().len() ==> lists_uq(aff, c, aff.len() as int) || proj(ov, #[trigger] s.uniques()[c]) == proj(nv, s.uniques()[c])
    }
    /// the list names exactly the constraint indexes with a column in `ch`
    pub open spec fn covers(s: &TableSchema, ch: Set<usize>, aff: Seq<IndexType>) -> bool {
        (s.pk() matches Some(p) ==> (lists_pk(aff, aff.len() as int) <==> touches(p, ch)))
        && (s.pk() is None ==> !lists_pk(aff, aff.len() as int))
        && forall|c: int| 0 <= c < s.uniques().len() ==> (lists_uq(aff, c, aff.len() as int) <==> touches(#[trigger] s.uniques()[c], ch))
    }
}
/// TAKING THE LAST ROW OUT keeps the mirror when its key is unbound (no position shifts) - on a duplicate-free table
proof fn lemma_delete_last_keeps_mirror(m: Map<Key, usize>, rows: Seq<Row>, idx: Seq<usize>, skip_null: bool)
    requires rows.len() >= 1, rows.len() <= usize::MAX, mirrors(m, rows, idx, skip_null, rows.len() as int), dupfree(rows, idx, skip_null),
    ensures
        ({ let k = keyof(rows, idx, rows.len() - 1);
           mirrors(if skip_null && key_has_null(k) { m } else { m.remove(k) }, rows.drop_last(), idx, skip_null, rows.len() - 1) }),
{
    let n = rows.len() as int; let k0 = keyof(rows, idx, n - 1); let r2 = rows.drop_last();
    let m2 = if skip_null && key_has_null(k0) { m } else { m.remove(k0) };
    assert forall|j: int| 0 <= j < n - 1 implies keyof(rows, idx, j) == keyof(r2, idx, j) by {}
    assert forall|k: Key| #![trigger m2.dom().contains(k)] #![trigger last_pos(r2, idx, skip_null, k, n - 1)]
        (m2.dom().contains(k) == (last_pos(r2, idx, skip_null, k, n - 1) is Some)) && (m2.dom().contains(k) ==> m2[k] == last_pos(r2, idx, skip_null, k, n - 1).unwrap()) by {
        lemma_last_pos_agree(rows, r2, idx, skip_null, k, n - 1);
        assert(m.dom().contains(k) == (last_pos(rows, idx, skip_null, k, n) is Some));
        lemma_last_pos(rows, idx, skip_null, k, n);
        lemma_last_pos(rows, idx, skip_null, k, n - 1);
        if k == k0 && counted(k0, skip_null) {
            // no other row holds k0 (duplicate-free): nothing is left under it
            lemma_last_pos_none(rows, idx, skip_null, k, n - 1);
        }
    }
}
proof fn lemma_remove_dupfree(rows: Seq<Row>, idx: Seq<usize>, skip_null: bool, p: int)
    requires 0 <= p < rows.len(), dupfree(rows, idx, skip_null),
    ensures dupfree(rows.remove(p), idx, skip_null),
{
    let r2 = rows.remove(p);
    assert forall|a: int, b: int| 0 <= a < b < r2.len() && counted(keyof(r2, idx, a), skip_null) implies keyof(r2, idx, a) != keyof(r2, idx, b) by {
        let a0 = if a < p { a } else { a + 1 }; let b0 = if b < p { b } else { b + 1 };
        assert(keyof(r2, idx, a) == keyof(rows, idx, a0)); assert(keyof(r2, idx, b) == keyof(rows, idx, b0));
    }
}
/// TAKING A ROW OUT keeps the table duplicate-free; the empty table is duplicate-free
proof fn lemma_all_remove_dupfree(s: &TableSchema, rows: Seq<Row>, p: int)
    requires 0 <= p < rows.len(), IndexManager::all_dupfree(s, rows),
    ensures IndexManager::all_dupfree(s, rows.remove(p)),
{
    if s.pk() is Some { lemma_remove_dupfree(rows, s.pk().unwrap(), false, p); }
    assert forall|c: int| 0 <= c < s.uniques().len() implies dupfree(rows.remove(p), #[trigger] s.uniques()[c], true) by { lemma_remove_dupfree(rows, s.uniques()[c], true, p); }
}
proof fn lemma_all_empty_dupfree(s: &TableSchema)
    ensures IndexManager::all_dupfree(s, Seq::<Row>::empty()),
{}
/// what one more entry does to "the list names ..."
proof fn lemma_push_lists(aff: Seq<IndexType>, t: IndexType)
    ensures
        lists_pk(aff.push(t), aff.len() as int + 1) == (lists_pk(aff, aff.len() as int) || t is PrimaryKey),
        forall|c: int| #![trigger lists_uq(aff.push(t), c, aff.len() as int + 1)] lists_uq(aff.push(t), c, aff.len() as int + 1) == (lists_uq(aff, c, aff.len() as int) || t == IndexType::UniqueConstraint(c as usize)),
{
    let a2 = aff.push(t); let n = aff.len() as int;
    if lists_pk(aff, n) { let j = choose|j: int| 0 <= j < n && (#[trigger] aff[j]) is PrimaryKey; assert(a2[j] is PrimaryKey); }
    if t is PrimaryKey { assert(a2[n] is PrimaryKey); }
    if lists_pk(a2, n + 1) { let j = choose|j: int| 0 <= j < n + 1 && (#[trigger] a2[j]) is PrimaryKey; if j < n { assert(aff[j] is PrimaryKey); } }
    assert forall|c: int| lists_uq(a2, c, n + 1) == (lists_uq(aff, c, n) || t == IndexType::UniqueConstraint(c as usize)) by {
        let u = IndexType::UniqueConstraint(c as usize);
        if lists_uq(aff, c, n) { let j = choose|j: int| 0 <= j < n && (#[trigger] aff[j]) == u; assert(a2[j] == u); }
        if t == u { assert(a2[n] == u); }
        if lists_uq(a2, c, n + 1) { let j = choose|j: int| 0 <= j < n + 1 && (#[trigger] a2[j]) == u; if j < n { assert(aff[j] == u); } }
    }
}
/// values that differ only in the columns of `ch` have the same key under every column list that avoids `ch`
proof fn lemma_untouched_same_key(idx: Seq<usize>, ch: Set<usize>, ov: Seq<SqlValue>, nv: Seq<SqlValue>)
    requires !touches(idx, ch), ov.len() == nv.len(), forall|j: int| 0 <= j < idx.len() ==> (#[trigger] idx[j]) < ov.len(),
             forall|x: int| 0 <= x < ov.len() && !ch.contains(x as usize) ==> ov[x] == nv[x],
    ensures proj(ov, idx) == proj(nv, idx),
{
    assert forall|j: int| 0 <= j < idx.len() implies proj(ov, idx)[j] == proj(nv, idx)[j] by { assert(!ch.contains(idx[j])); }
    assert(proj(ov, idx) =~= proj(nv, idx));
}
/// get_affected_indexes + "changed_columns holds every column that differs" => update_selective skips only indexes whose key is unchanged
proof fn lemma_covers_unlisted_same(s: &TableSchema, ch: Set<usize>, aff: Seq<IndexType>, ov: Seq<SqlValue>, nv: Seq<SqlValue>)
    requires s.wf(), IndexManager::covers(s, ch, aff), ov.len() == s.ncols(), nv.len() == s.ncols(),
             forall|x: int| 0 <= x < ov.len() && !ch.contains(x as usize) ==> ov[x] == nv[x],
    ensures IndexManager::unlisted_same(s, aff, ov, nv),
{
    if s.pk() is Some && !lists_pk(aff, aff.len() as int) { lemma_untouched_same_key(s.pk().unwrap(), ch, ov, nv); }
    assert forall|c: int| 0 <= c < s.uniques().len() implies lists_uq(aff, c, aff.len() as int) || proj(ov, #[trigger] s.uniques()[c]) == proj(nv, s.uniques()[c]) by {
        if !lists_uq(aff, c, aff.len() as int) { lemma_untouched_same_key(s.uniques()[c], ch, ov, nv); }
    }
}
proof fn lemma_last_pos(rows: Seq<Row>, idx: Seq<usize>, skip_null: bool, k: Key, n: int)
    requires 0 <= n <= rows.len() <= usize::MAX,
    ensures
        match last_pos(rows, idx, skip_null, k, n) {
            Some(p) => 0 <= p < n && keyof(rows, idx, p as int) == k && counted(k, skip_null) && forall|j: int| p < j < n ==> keyof(rows, idx, j) != k,
            None => forall|j: int| 0 <= j < n ==> !(keyof(rows, idx, j) == k && counted(k, skip_null)),
        },
    decreases n,
{
    if n > 0 { lemma_last_pos(rows, idx, skip_null, k, n - 1); }
}
/// the converse: a position p holding k with no later holder IS last_pos
proof fn lemma_last_pos_is(rows: Seq<Row>, idx: Seq<usize>, skip_null: bool, k: Key, n: int, p: int)
    requires 0 <= p < n <= rows.len() <= usize::MAX, keyof(rows, idx, p) == k, counted(k, skip_null), forall|j: int| p < j < n ==> keyof(rows, idx, j) != k,
    ensures last_pos(rows, idx, skip_null, k, n) == Some(p as usize),
    decreases n,
{
    if n - 1 > p { assert(keyof(rows, idx, n - 1) != k); lemma_last_pos_is(rows, idx, skip_null, k, n - 1, p); }
}
proof fn lemma_last_pos_none(rows: Seq<Row>, idx: Seq<usize>, skip_null: bool, k: Key, n: int)
    requires 0 <= n <= rows.len() <= usize::MAX, forall|j: int| 0 <= j < n ==> !(keyof(rows, idx, j) == k && counted(k, skip_null)),
    ensures last_pos(rows, idx, skip_null, k, n) is None,
    decreases n,
{
    if n > 0 { assert(!(keyof(rows, idx, n - 1) == k && counted(k, skip_null))); lemma_last_pos_none(rows, idx, skip_null, k, n - 1); }
}


proof fn lemma_last_pos_agree(rows: Seq<Row>, rows2: Seq<Row>, idx: Seq<usize>, skip_null: bool, k: Key, n: int)
    requires 0 <= n <= rows.len(), n <= rows2.len(), forall|j: int| 0 <= j < n ==> keyof(rows, idx, j) == keyof(rows2, idx, j),
    ensures last_pos(rows, idx, skip_null, k, n) == last_pos(rows2, idx, skip_null, k, n),
    decreases n,
{
    if n > 0 { assert(keyof(rows, idx, n - 1) == keyof(rows2, idx, n - 1)); lemma_last_pos_agree(rows, rows2, idx, skip_null, k, n - 1); }
}
/// INSERT KEEPS THE MIRROR: appending a row and binding its key to the position it receives
proof fn lemma_insert_keeps_mirror(m: Map<Key, usize>, rows: Seq<Row>, idx: Seq<usize>, skip_null: bool, r: Row)
    requires rows.len() < usize::MAX, mirrors(m, rows, idx, skip_null, rows.len() as int),
    ensures
        ({ let k = proj(r.values@, idx);
           mirrors(if skip_null && key_has_null(k) { m } else { m.insert(k, rows.len() as usize) }, rows.push(r), idx, skip_null, rows.len() as int + 1) }),
{
    let rows2 = rows.push(r); let n = rows.len() as int;
    assert forall|k: Key| #![trigger m.dom().contains(k)] #![trigger last_pos(rows2, idx, skip_null, k, n)]
        (m.dom().contains(k) == (last_pos(rows2, idx, skip_null, k, n) is Some)) && (m.dom().contains(k) ==> m[k] == last_pos(rows2, idx, skip_null, k, n).unwrap()) by {
        lemma_last_pos_agree(rows, rows2, idx, skip_null, k, n);
        assert(m.dom().contains(k) == (last_pos(rows, idx, skip_null, k, n) is Some));
    }
    lemma_insert_step(m, rows2, idx, skip_null, n);
}
proof fn lemma_push_dupfree(rows: Seq<Row>, idx: Seq<usize>, skip_null: bool, r: Row)
    requires dupfree(rows, idx, skip_null), fresh(rows, idx, skip_null, rows.len() as int, proj(r.values@, idx)),
    ensures dupfree(rows.push(r), idx, skip_null),
{
    let rows2 = rows.push(r);
    assert forall|a: int, b: int| 0 <= a < b < rows2.len() && counted(keyof(rows2, idx, a), skip_null) implies keyof(rows2, idx, a) != keyof(rows2, idx, b) by {
        assert(keyof(rows2, idx, a) == keyof(rows, idx, a));
        if b < rows.len() { assert(keyof(rows2, idx, b) == keyof(rows, idx, b)); }
    }
}
/// A WRITE THAT LEAVES THE KEY AS IT WAS keeps the mirror (an index update_selective does not touch)
proof fn lemma_same_key_keeps_mirror(m: Map<Key, usize>, rows: Seq<Row>, idx: Seq<usize>, skip_null: bool, i: int, nr: Row)
    requires 0 <= i < rows.len(), mirrors(m, rows, idx, skip_null, rows.len() as int), keyof(rows, idx, i) == proj(nr.values@, idx),
    ensures mirrors(m, rows.update(i, nr), idx, skip_null, rows.len() as int), dupfree(rows, idx, skip_null) ==> dupfree(rows.update(i, nr), idx, skip_null),
{
    let rows2 = rows.update(i, nr); let n = rows.len() as int;
    assert forall|j: int| 0 <= j < n implies keyof(rows, idx, j) == keyof(rows2, idx, j) by {}
    assert forall|k: Key| #![trigger m.dom().contains(k)] #![trigger last_pos(rows2, idx, skip_null, k, n)]
        (m.dom().contains(k) == (last_pos(rows2, idx, skip_null, k, n) is Some)) && (m.dom().contains(k) ==> m[k] == last_pos(rows2, idx, skip_null, k, n).unwrap()) by {
        lemma_last_pos_agree(rows, rows2, idx, skip_null, k, n);
        assert(m.dom().contains(k) == (last_pos(rows, idx, skip_null, k, n) is Some));
    }
    if dupfree(rows, idx, skip_null) {
        assert forall|a: int, b: int| 0 <= a < b < rows2.len() && counted(keyof(rows2, idx, a), skip_null) implies keyof(rows2, idx, a) != keyof(rows2, idx, b) by {
            assert(keyof(rows2, idx, a) == keyof(rows, idx, a)); assert(keyof(rows2, idx, b) == keyof(rows, idx, b));
        }
    }
}

/// UPDATE KEEPS THE MIRROR: on a duplicate-free table whose map mirrors the rows, writing `nr` at position i (its key fresh) and giving the map
/// the update_for_update effect leaves the map mirroring the new rows, which are duplicate-free again
proof fn lemma_update_keeps_mirror(m: Map<Key, usize>, rows: Seq<Row>, idx: Seq<usize>, skip_null: bool, i: int, nr: Row)
    requires
        0 <= i < rows.len(), rows.len() <= usize::MAX,
        mirrors(m, rows, idx, skip_null, rows.len() as int), dupfree(rows, idx, skip_null),
        fresh(rows, idx, skip_null, i, proj(nr.values@, idx)),
    ensures
        ({ let ko = keyof(rows, idx, i); let kn = proj(nr.values@, idx);
           let m2 = if skip_null { uq_upd(m, ko, kn, i as usize) } else { pk_upd(m, ko, kn, i as usize) };
           mirrors(m2, rows.update(i, nr), idx, skip_null, rows.len() as int) }),
{
    let ko = keyof(rows, idx, i); let kn = proj(nr.values@, idx);
    let n = rows.len() as int;
    let rows2 = rows.update(i, nr);
    let m2 = if skip_null { uq_upd(m, ko, kn, i as usize) } else { pk_upd(m, ko, kn, i as usize) };
    assert forall|j: int| 0 <= j < n implies keyof(rows2, idx, j) == (if j == i { kn } else { keyof(rows, idx, j) }) by {}
    assert forall|k: Key| #![trigger m2.dom().contains(k)] #![trigger last_pos(rows2, idx, skip_null, k, n)] (m2.dom().contains(k) == (last_pos(rows2, idx, skip_null, k, n) is Some))
        && (m2.dom().contains(k) ==> m2[k] == last_pos(rows2, idx, skip_null, k, n).unwrap()) by {
        lemma_last_pos(rows, idx, skip_null, k, n);
        assert(m.dom().contains(k) == (last_pos(rows, idx, skip_null, k, n) is Some));
        if k == kn && counted(kn, skip_null) {
            lemma_last_pos_is(rows2, idx, skip_null, k, n, i);
        } else if k == ko && ko != kn {
            // ko is held by no row of rows2: position i now holds kn, and no other row held ko (duplicate-free)
            lemma_last_pos_none(rows2, idx, skip_null, k, n);
        } else {
            match last_pos(rows, idx, skip_null, k, n) {
                Some(p) => { lemma_last_pos_is(rows2, idx, skip_null, k, n, p as int); }
                None => { lemma_last_pos_none(rows2, idx, skip_null, k, n); }
            }
        }
    }
    assert(mirrors(m2, rows2, idx, skip_null, n));
}
/// ... and the rows stay duplicate-free
proof fn lemma_update_dupfree(rows: Seq<Row>, idx: Seq<usize>, skip_null: bool, i: int, nr: Row)
    requires 0 <= i < rows.len(), dupfree(rows, idx, skip_null), fresh(rows, idx, skip_null, i, proj(nr.values@, idx)),
    ensures dupfree(rows.update(i, nr), idx, skip_null),
{
    let rows2 = rows.update(i, nr); let kn = proj(nr.values@, idx);
    assert forall|a: int, b: int| 0 <= a < b < rows2.len() && counted(keyof(rows2, idx, a), skip_null) implies keyof(rows2, idx, a) != keyof(rows2, idx, b) by {
        assert(keyof(rows2, idx, a) == (if a == i { kn } else { keyof(rows, idx, a) }));
        assert(keyof(rows2, idx, b) == (if b == i { kn } else { keyof(rows, idx, b) }));
    }
}
impl IndexManager {

//@@ new

//@@ update_for_insert

//@@ update_for_update

//@@ update_for_delete

//@@ get_affected_indexes

//@@ update_selective

//@@ rebuild

//@@ clear
}

fn canary_rebuild(im: &mut IndexManager, s: &TableSchema, rows: &[Row])
    requires s.wf(), old(im).shaped(s), IndexManager::rows_ok(s, rows@)
{
    im.rebuild(s, rows);
    assert(false); // CANARY
}
fn canary_mirror(im: &mut IndexManager, s: &TableSchema, o: &Row, n: &Row, i: usize, Ghost(rows): Ghost<Seq<Row>>)
    requires s.wf(), o.values@.len() == s.ncols(), n.values@.len() == s.ncols(), old(im).shaped(s),
             old(im).synced_n(s, rows, rows.len() as int), rows.len() <= usize::MAX, (i as int) < rows.len(), rows[i as int].values@ == o.values@,
             IndexManager::all_dupfree(s, rows), IndexManager::all_fresh(s, rows, i as int, n.values@)
{
    im.update_for_update(s, o, n, i);
    assert(im.synced_n(s, rows.update(i as int, *n), rows.len() as int));
    assert(false); // CANARY
}
fn canary_affected(im: &IndexManager, s: &TableSchema, ch: &ColSet)
    requires s.wf()
{
    let a = im.get_affected_indexes(s, ch);
    assert(false); // CANARY
}
fn canary_selective(im: &mut IndexManager, s: &TableSchema, o: &Row, n: &Row, i: usize, a: &[IndexType])
    requires s.wf(), o.values@.len() == s.ncols(), n.values@.len() == s.ncols(), old(im).shaped(s)
{
    im.update_selective(s, o, n, i, a);
    assert(false); // CANARY
}

}
fn main() {}
'''

_F = 'crates/vibesql-storage/src/table/indexes.rs'
def _key_cmp(m):
    """`a_values == / != b_values` on key vectors -> key_eq / key_ne (SqlValue has no PartialEq in the verified text)"""
    return ('key_eq' if m.group(2) == '==' else 'key_ne') + '(&%s, &%s)' % (m.group(1), m.group(3))


_RW = [
    ('re', r'vibesql_catalog::TableSchema', 'TableSchema', None),
    # R4: key projection (iterator chain) / membership / inequality of keys
    ('re', r'(?s)let (\w+): Vec<SqlValue> =\s*(\w+)\.iter\(\)\.map\(\|&idx\| (\w+)\.values\[idx\]\.clone\(\)\)\.collect\(\);', r'let \1: Vec<SqlValue> = project(&\3.values, \2.as_slice());', None),
    ('re', r'(\w+)\.contains\(&SqlValue::Null\)', r'has_null(&\1)', None),
    ('refn', r'\b(\w+_values) (==|!=) (\w+_values)\b', _key_cmp, None),
    # R10 loops
    ('re', r'for \(constraint_idx, unique_indices\) in unique_constraint_indices\.iter\(\)\.enumerate\(\) \{', 'let mut ci__: usize = 0; while ci__ < unique_constraint_indices.len() { let unique_indices = &unique_constraint_indices[ci__]; let constraint_idx = ci__; ci__ = ci__ + 1;', None),
    ('re', r'for \(row_index, row\) in rows\.iter\(\)\.enumerate\(\) \{', 'let mut ri__: usize = 0; while ri__ < rows.len() { let row = &rows[ri__]; let row_index = ri__; ri__ = ri__ + 1;', None),
    ('re', r'for unique_index in &mut self\.unique_indexes \{', 'let ghost pk_after = self.primary_key_index; let mut ui__: usize = 0; while ui__ < self.unique_indexes.len() { let unique_index = &mut self.unique_indexes[ui__]; ui__ = ui__ + 1;', None),
    ('re', r'for index_type in affected_indexes \{', 'let mut ai__: usize = 0; while ai__ < affected_indexes.len() { let index_type = &affected_indexes[ai__]; ai__ = ai__ + 1;', None),
]
_SNAP = ('let unique_constraint_indices = schema.get_unique_constraint_indices();', 'let ghost pk_after = self.primary_key_index;')
import os
_P = json.load(open(os.path.join(os.path.dirname(os.path.abspath(__file__)), '_k_index_parts.json')))

_ANTE_UPD = ('old(self).synced_n(schema, rows, rows.len() as int) && rows.len() <= usize::MAX && (row_index as int) < rows.len() && rows[row_index as int].values@ == old_row.values@ '
             '&& IndexManager::all_dupfree(schema, rows) && IndexManager::all_fresh(schema, rows, row_index as int, new_row.values@)')
_CONS_UPD = ('final(self).synced_n(schema, rows.update(row_index as int, *new_row), rows.len() as int) && IndexManager::all_dupfree(schema, rows.update(row_index as int, *new_row))')
# C15: the maintenance calls KEEP the mirror (these are the contracts unit K-table assumes of IndexManager)
_C_INS = _P['C']['update_for_insert'] + """
            // APPEND KEEPS THE MIRROR (C15): the maps mirror `rows`, the row goes to position rows.len()
            forall|rows: Seq<Row>| #![trigger old(self).synced_n(schema, rows, rows.len() as int)]
                old(self).synced_n(schema, rows, rows.len() as int) && rows.len() < usize::MAX && row_index == rows.len()
                ==> final(self).synced_n(schema, rows.push(*row), rows.len() as int + 1)
                    && (IndexManager::all_dupfree(schema, rows) && IndexManager::all_fresh(schema, rows, rows.len() as int, row.values@) ==> IndexManager::all_dupfree(schema, rows.push(*row))),
"""
_C_UPD = _P['C']['update_for_update'] + """
            // WRITE-IN-PLACE KEEPS THE MIRROR (C15): maps mirror the duplicate-free `rows`, old_row is the row at row_index, the new row's keys are held by no other row
            forall|rows: Seq<Row>| #![trigger old(self).synced_n(schema, rows, rows.len() as int)]
                %s
                ==> %s,
""" % (_ANTE_UPD, _CONS_UPD)
_C_SEL = _P['C']['update_selective'] + """
            // ... and so does the selective update, provided every index it is NOT told to update has an unchanged key
            forall|rows: Seq<Row>| #![trigger old(self).synced_n(schema, rows, rows.len() as int)]
                %s && IndexManager::unlisted_same(schema, affected_indexes@, old_row.values@, new_row.values@)
                ==> %s,
""" % (_ANTE_UPD, _CONS_UPD)
_PF_INS = """
proof {
    assert forall|rows: Seq<Row>| #![trigger old(self).synced_n(schema, rows, rows.len() as int)]
        old(self).synced_n(schema, rows, rows.len() as int) && rows.len() < usize::MAX && row_index == rows.len()
        implies self.synced_n(schema, rows.push(*row), rows.len() as int + 1)
            && (IndexManager::all_dupfree(schema, rows) && IndexManager::all_fresh(schema, rows, rows.len() as int, row.values@) ==> IndexManager::all_dupfree(schema, rows.push(*row))) by {
        let rows2 = rows.push(*row);
        if old(self).primary_key_index is Some { lemma_insert_keeps_mirror(old(self).primary_key_index.unwrap().view(), rows, schema.pk().unwrap(), false, *row); }
        assert forall|c: int| 0 <= c < self.unique_indexes@.len() && c < schema.uniques().len() implies mirrors((#[trigger] self.unique_indexes@[c]).view(), rows2, schema.uniques()[c], true, rows.len() as int + 1) by {
            lemma_insert_keeps_mirror(old(self).unique_indexes@[c].view(), rows, schema.uniques()[c], true, *row);
        }
        if IndexManager::all_dupfree(schema, rows) && IndexManager::all_fresh(schema, rows, rows.len() as int, row.values@) {
            if schema.pk() is Some { lemma_push_dupfree(rows, schema.pk().unwrap(), false, *row); }
            assert forall|c: int| 0 <= c < schema.uniques().len() implies dupfree(rows2, #[trigger] schema.uniques()[c], true) by { lemma_push_dupfree(rows, schema.uniques()[c], true, *row); }
        }
    }
}
"""
_PF_UPD = """
proof {
    assert forall|rows: Seq<Row>| #![trigger old(self).synced_n(schema, rows, rows.len() as int)]
        %s
        implies %s by {
        let i = row_index as int; let rows2 = rows.update(i, *new_row);
        if old(self).primary_key_index is Some { lemma_update_keeps_mirror(old(self).primary_key_index.unwrap().view(), rows, schema.pk().unwrap(), false, i, *new_row); }
        assert forall|c: int| 0 <= c < self.unique_indexes@.len() && c < schema.uniques().len() implies mirrors((#[trigger] self.unique_indexes@[c]).view(), rows2, schema.uniques()[c], true, rows.len() as int) by {
            lemma_update_keeps_mirror(old(self).unique_indexes@[c].view(), rows, schema.uniques()[c], true, i, *new_row);
        }
        if schema.pk() is Some { lemma_update_dupfree(rows, schema.pk().unwrap(), false, i, *new_row); }
        assert forall|c: int| 0 <= c < schema.uniques().len() implies dupfree(rows2, #[trigger] schema.uniques()[c], true) by { lemma_update_dupfree(rows, schema.uniques()[c], true, i, *new_row); }
    }
}
""" % (_ANTE_UPD.replace('old(self).synced_n', 'old(self).synced_n'), _CONS_UPD.replace('final(self)', 'self'))
_PF_SEL = """
proof {
    assert forall|rows: Seq<Row>| #![trigger old(self).synced_n(schema, rows, rows.len() as int)]
        %s && IndexManager::unlisted_same(schema, affected_indexes@, old_row.values@, new_row.values@)
        implies %s by {
        let i = row_index as int; let rows2 = rows.update(i, *new_row); let aff = affected_indexes@; let na = aff.len() as int;
        if old(self).primary_key_index is Some {
            let p = schema.pk().unwrap(); let m = old(self).primary_key_index.unwrap().view();
            lemma_sel_pk(m, aff, na, proj(old_row.values@, p), proj(new_row.values@, p), row_index);
            if lists_pk(aff, na) { lemma_update_keeps_mirror(m, rows, p, false, i, *new_row); } else { lemma_same_key_keeps_mirror(m, rows, p, false, i, *new_row); }
        }
        assert forall|c: int| 0 <= c < self.unique_indexes@.len() && c < schema.uniques().len() implies mirrors((#[trigger] self.unique_indexes@[c]).view(), rows2, schema.uniques()[c], true, rows.len() as int) by {
            let p = schema.uniques()[c]; let m = old(self).unique_indexes@[c].view();
            lemma_sel_uq(m, c, aff, na, proj(old_row.values@, p), proj(new_row.values@, p), row_index);
            if lists_uq(aff, c, na) { lemma_update_keeps_mirror(m, rows, p, true, i, *new_row); } else { lemma_same_key_keeps_mirror(m, rows, p, true, i, *new_row); }
        }
        if schema.pk() is Some { lemma_update_dupfree(rows, schema.pk().unwrap(), false, i, *new_row); }
        assert forall|c: int| 0 <= c < schema.uniques().len() implies dupfree(rows2, #[trigger] schema.uniques()[c], true) by { lemma_update_dupfree(rows, schema.uniques()[c], true, i, *new_row); }
    }
}
""" % (_ANTE_UPD, _CONS_UPD.replace('final(self)', 'self'))

_C_DEL = _P['C']['update_for_delete'] + """
            // TAKING THE LAST ROW OUT KEEPS THE MIRROR (C15): no position shifts, unbinding its keys is all there is to do - on a duplicate-free table
            forall|rows: Seq<Row>| #![trigger old(self).synced_n(schema, rows, rows.len() as int)]
                old(self).synced_n(schema, rows, rows.len() as int) && rows.len() >= 1 && rows.len() <= usize::MAX && rows[rows.len() - 1].values@ == row.values@ && IndexManager::all_dupfree(schema, rows)
                ==> final(self).synced_n(schema, rows.drop_last(), rows.len() - 1),
"""
_PF_DEL = """
proof {
    assert forall|rows: Seq<Row>| #![trigger old(self).synced_n(schema, rows, rows.len() as int)]
        old(self).synced_n(schema, rows, rows.len() as int) && rows.len() >= 1 && rows.len() <= usize::MAX && rows[rows.len() - 1].values@ == row.values@ && IndexManager::all_dupfree(schema, rows)
        implies self.synced_n(schema, rows.drop_last(), rows.len() - 1) by {
        if old(self).primary_key_index is Some { lemma_delete_last_keeps_mirror(old(self).primary_key_index.unwrap().view(), rows, schema.pk().unwrap(), false); }
        assert forall|c: int| 0 <= c < self.unique_indexes@.len() && c < schema.uniques().len() implies mirrors((#[trigger] self.unique_indexes@[c]).view(), rows.drop_last(), schema.uniques()[c], true, rows.len() - 1) by {
            lemma_delete_last_keeps_mirror(old(self).unique_indexes@[c].view(), rows, schema.uniques()[c], true);
        }
    }
}
"""

ITEMS = {
    'IndexType': dict(file=_F, path='enum IndexType'),
    'new': dict(file=_F, path='impl IndexManager::fn new', ret='res', rewrites=_RW + [
            ('re', r'schema\.primary_key\.is_some\(\)', 'schema.has_primary_key()', 1),
            ('re', r'\(0\.\.schema\.unique_constraints\.len\(\)\)\.map\(\|_\| HashMap::new\(\)\)\.collect\(\)', 'empty_maps(schema.unique_constraint_count())', 1),
            ('re', r'Some\(HashMap::new\(\)\)', 'Some(KeyPosMap::new())', 1)],
        proofs=[('@tail', 'proof { assert forall|c: int| 0 <= c < unique_indexes@.len() implies mirrors((#[trigger] unique_indexes@[c]).view(), Seq::<Row>::empty(), schema.uniques()[c], true, 0) by { lemma_empty_mirrors(Seq::<Row>::empty(), schema.uniques()[c], true); } if schema.pk() is Some { lemma_empty_mirrors(Seq::<Row>::empty(), schema.pk().unwrap(), false); } }')],
        contract='''
        ensures res.complete(schema), res.shaped(schema), res.synced_n(schema, Seq::<Row>::empty(), 0),    // one EMPTY map per constraint
'''),
    'update_for_insert': dict(file=_F, path='impl IndexManager::fn update_for_insert', rewrites=_RW, loops={0: _P['L']['update_for_insert']}, proofs=[_SNAP, ('@afterloop0', _PF_INS)], contract=_C_INS),
    'update_for_update': dict(file=_F, path='impl IndexManager::fn update_for_update', rewrites=_RW, loops={0: _P['L']['update_for_update']}, proofs=[_SNAP, ('@afterloop0', _PF_UPD)], contract=_C_UPD),
    'update_for_delete': dict(file=_F, path='impl IndexManager::fn update_for_delete', rewrites=_RW, loops={0: _P['L']['update_for_delete']}, proofs=[_SNAP, ('@afterloop0', _PF_DEL)], contract=_C_DEL),
    'get_affected_indexes': dict(file=_F, path='impl IndexManager::fn get_affected_indexes', ret='res', rewrites=_RW + [
            ('re', r'&HashSet<usize>', '&ColSet', 1),
            ('re', r'(\w+)\.iter\(\)\.any\(\|(\w+)\| changed_columns\.contains\(\2\)\)', r'any_in(\1.as_slice(), changed_columns)', 2),
            ('re', r'let mut affected = Vec::new\(\);', 'let mut affected: Vec<IndexType> = Vec::new();', 1)],
        loops={0: """
            invariant
                ci__ <= unique_constraint_indices@.len(), unique_constraint_indices@.len() == schema.uniques().len(),
                forall|c: int| 0 <= c < unique_constraint_indices@.len() ==> (#[trigger] unique_constraint_indices@[c])@ == schema.uniques()[c],
                schema.pk() matches Some(p) ==> (lists_pk(affected@, affected@.len() as int) <==> touches(p, changed_columns.view())),
                schema.pk() is None ==> !lists_pk(affected@, affected@.len() as int),
                forall|c: int| #![trigger schema.uniques()[c]] #![trigger lists_uq(affected@, c, affected@.len() as int)] 0 <= c < schema.uniques().len() ==> (lists_uq(affected@, c, affected@.len() as int) <==> (c < ci__ && touches(schema.uniques()[c], changed_columns.view()))),
            decreases unique_constraint_indices@.len() - ci__,
"""},
        proofs=[('affected.push(IndexType::PrimaryKey);', 'proof { lemma_push_lists(affected@, IndexType::PrimaryKey); }'),
                ('@loop0', 'let ghost aff0 = affected@;'),
                ('after:affected.push(IndexType::UniqueConstraint(constraint_idx));', '''proof {
                    lemma_push_lists(aff0, IndexType::UniqueConstraint(constraint_idx));
                    assert(affected@ == aff0.push(IndexType::UniqueConstraint(constraint_idx)));
                    assert forall|c: int| #![trigger schema.uniques()[c]] #![trigger lists_uq(affected@, c, affected@.len() as int)] 0 <= c < schema.uniques().len()
                        implies (lists_uq(affected@, c, affected@.len() as int) <==> (c < ci__ && touches(schema.uniques()[c], changed_columns.view()))) by {
                        let uc = schema.uniques()[c];
                        assert(lists_uq(aff0.push(IndexType::UniqueConstraint(constraint_idx)), c, aff0.len() as int + 1) == (lists_uq(aff0, c, aff0.len() as int) || IndexType::UniqueConstraint(constraint_idx) == IndexType::UniqueConstraint(c as usize)));
                    }
                }''')],
        contract="""
        requires schema.wf()
        ensures IndexManager::covers(schema, changed_columns.view(), res@),   // the list names EXACTLY the constraint indexes with a changed column
"""),
    'update_selective': dict(file=_F, path='impl IndexManager::fn update_selective', rewrites=_RW, loops={0: _P['L']['update_selective']}, proofs=[('@afterloop0', _PF_SEL)], contract=_C_SEL),
    'rebuild': dict(file=_F, path='impl IndexManager::fn rebuild', rewrites=_RW, loops={0: _P['L']['rebuild']},
                    proofs=[('after:self.clear();', _P['p1']), ('@loop0', 'let ghost before = *self;'), ('after:self.update_for_insert(schema, row, row_index);', _P['p2'])],
                    contract=_P['C']['rebuild']),
    'clear': dict(file=_F, path='impl IndexManager::fn clear', rewrites=_RW, loops={0: _P['L']['clear']}, contract=_P['C']['clear']),
}

OBLIGATIONS = {
    'update_for_insert': ['post:key_bound_to_the_row_position_in_every_map__null_unique_keys_not_stored__append_keeps_the_mirror', 'safety:index_in_bounds', 'proof:loop_invariant'],
    'update_for_update': ['post:old_key_unbound_if_changed__new_key_bound__null_unique_keys_not_stored__write_in_place_keeps_the_mirror', 'proof:loop_invariant'],
    'update_for_delete': ['post:key_unbound_in_every_map__taking_the_last_row_out_keeps_the_mirror', 'proof:loop_invariant'],
    'update_selective': ['post:exactly_the_listed_indexes_get_the_update_effect__mirror_kept_when_unlisted_keys_are_unchanged', 'proof:loop_invariant'],
    'rebuild': ['post:every_map_is_key_to_position_of_the_last_row_with_that_key', 'proof:loop_invariant'],
    'clear': ['post:every_map_empty', 'proof:loop_invariant'],
    'new': ['post:one_empty_map_per_constraint'],
    'get_affected_indexes': ['post:the_list_names_exactly_the_constraint_indexes_with_a_changed_column', 'proof:loop_invariant'],
    'lemma_insert_step': ['post:mirror_extends_by_one_row'], 'lemma_empty_mirrors': ['post:empty_map_mirrors_no_rows'],
    'lemma_last_pos': ['post:last_pos_characterised'], 'lemma_last_pos_is': ['post:a_last_holder_is_last_pos'], 'lemma_last_pos_none': ['post:no_holder_no_last_pos'],
    'lemma_last_pos_agree': ['post:last_pos_depends_on_the_keys_only'],
    'lemma_insert_keeps_mirror': ['post:append_keeps_the_mirror'], 'lemma_push_dupfree': ['post:append_of_a_fresh_key_keeps_duplicate_freedom'],
    'lemma_same_key_keeps_mirror': ['post:a_write_that_leaves_the_key_keeps_the_mirror'],
    'lemma_update_keeps_mirror': ['post:update_effect_on_a_duplicate_free_mirrored_table_with_a_fresh_new_key_keeps_the_mirror'],
    'lemma_update_dupfree': ['post:write_of_a_fresh_key_keeps_duplicate_freedom'],
    'lemma_remove_dupfree': ['post:removal_keeps_duplicate_freedom'], 'lemma_delete_last_keeps_mirror': ['post:unbinding_the_key_of_the_last_row_keeps_the_mirror_of_the_shorter_table'], 'lemma_all_remove_dupfree': ['post:removal_keeps_duplicate_freedom_for_every_constraint'],
    'lemma_all_empty_dupfree': ['post:empty_table_is_duplicate_free'],
    'lemma_sel_pk': ['post:listed_index_gets_the_effect_once_however_often_listed'], 'lemma_sel_uq': ['post:listed_index_gets_the_effect_once_however_often_listed'],
    'lemma_push_lists': ['post:one_more_entry'], 'lemma_untouched_same_key': ['post:untouched_columns_same_key'],
    'lemma_covers_unlisted_same': ['post:unlisted_indexes_have_unchanged_keys_when_changed_columns_is_complete'],
}
CANARIES = ['canary_rebuild', 'canary_selective', 'canary_mirror', 'canary_affected']
TRUSTED = [
    'external_body Val opaque; SqlValue collapsed to Null | V(payload); Row reduced to its values',
    'external_body project / has_null / key_ne / key_eq: the key projection iterator chain `ix.iter().map(|&i| row.values[i].clone()).collect()`, `k.contains(&SqlValue::Null)`, `a != b` on key vectors (structural equality: Eq of SqlValue, unit T-laws)',
    'external_body KeyPosMap (insert, remove, clear): std HashMap<Vec<SqlValue>, usize> as an abstract finite map; TableSchema::get_primary_key_indices / get_unique_constraint_indices return the uninterpreted position lists pk / uniques',
    'preconditions: the constraint positions exist in the rows (schema.wf, row width = column count) and shaped: a primary-key map exists only if the schema has a primary key (established by IndexManager::new, kept by every operation)',
    'C15: mirror preservation is conditional on (a) all_dupfree: no two rows share a stored PRIMARY KEY / UNIQUE key, and (b) all_fresh: the keys about to be written are held by no other row - both are what PRIMARY KEY / UNIQUE enforcement in the executors establishes (C10 units K-pk, K-rowval, N-track), NOT proved here; lemma_update_keeps_mirror fails without either (checked when the unit was built)',
    'update_selective keeps the mirror only if `changed_columns` holds every column in which the new row differs from the old one (lemma_covers_unlisted_same): that the UPDATE executor computes such a set is NOT under contract',
    'external_body ColSet (HashSet<usize> as an abstract set), any_in (`cols.iter().any(|i| changed_columns.contains(i))`), empty_maps (`(0..n).map(|_| HashMap::new()).collect()`), KeyPosMap::new, TableSchema::has_primary_key / unique_constraint_count (`schema.primary_key.is_some()`, `schema.unique_constraints.len()`; assumed consistent with get_primary_key_indices / get_unique_constraint_indices, which map those two fields one to one)',
    'machine arithmetic: row vectors of at most usize::MAX rows (rows.len() <= usize::MAX, < usize::MAX before an append)',
]
