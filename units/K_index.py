import json
NAME = 'K-index'
PROPERTIES = ['C10', 'C09']
ENGINE = 'verus'
CLASS = 'U'
DOC = ('IndexManager (storage/table/indexes.rs), the hash indexes behind PRIMARY KEY / UNIQUE enforcement and the UPDATE / DELETE primary-key fast path, on the REAL code '
       '(this Verus accepts `if let Some(ref mut ..)`, Vec::get_mut and `&mut v[i]`): update_for_insert / update_for_update / update_for_delete / update_selective have their EXACT '
       'effect on every map (key bound / unbound, NULL-holding UNIQUE keys never stored, selective update touches exactly the listed indexes), clear empties them, and after '
       'rebuild every map is exactly "key -> position of the last row with that key" (THE MIRROR; loop invariant + induction lemma).')

TEMPLATE = r'''
use vstd::prelude::*;
verus! {

#[verifier::external_body] pub struct Val { v: u8 }
pub enum SqlValue { Null, V(Val) }
pub type Key = Seq<SqlValue>;
pub struct Row { pub values: Vec<SqlValue> }

pub open spec fn proj(vals: Seq<SqlValue>, idx: Seq<usize>) -> Key { Seq::new(idx.len(), |j: int| vals[idx[j] as int]) }
pub open spec fn key_has_null(k: Key) -> bool { exists|j: int| 0 <= j < k.len() && #[trigger] k[j] is Null }
// idx.iter().map(|&i| row.values[i].clone()).collect()   (indexing out of range panics: precondition)
#[verifier::external_body]
fn project(vals: &Vec<SqlValue>, idx: &[usize]) -> (r: Vec<SqlValue>)
    requires forall|j: int| 0 <= j < idx@.len() ==> (#[trigger] idx@[j]) < vals@.len()
    ensures r@ == proj(vals@, idx@)
{ unimplemented!() }
#[verifier::external_body] fn has_null(k: &Vec<SqlValue>) -> (r: bool) ensures r == key_has_null(k@) { unimplemented!() }
#[verifier::external_body] fn key_ne(a: &Vec<SqlValue>, b: &Vec<SqlValue>) -> (r: bool) ensures r == (a@ != b@) { unimplemented!() }
#[verifier::external_body] fn key_eq(a: &Vec<SqlValue>, b: &Vec<SqlValue>) -> (r: bool) ensures r == (a@ == b@) { unimplemented!() }

pub struct TableSchema { pub o: u8 }
impl TableSchema {
    pub uninterp spec fn pk(&self) -> Option<Seq<usize>>;
    pub uninterp spec fn uniques(&self) -> Seq<Seq<usize>>;
    pub uninterp spec fn ncols(&self) -> usize;
    pub open spec fn wf(&self) -> bool {
        (self.pk() matches Some(p) ==> forall|j: int| 0 <= j < p.len() ==> (#[trigger] p[j]) < self.ncols())
        && forall|c: int, j: int| 0 <= c < self.uniques().len() && 0 <= j < self.uniques()[c].len() ==> (#[trigger] self.uniques()[c][j]) < self.ncols()
    }
    #[verifier::external_body]
    pub fn get_primary_key_indices(&self) -> (r: Option<Vec<usize>>) ensures (r is Some) == (self.pk() is Some), r is Some ==> r.unwrap()@ == self.pk().unwrap() { unimplemented!() }
    #[verifier::external_body]
    pub fn get_unique_constraint_indices(&self) -> (r: Vec<Vec<usize>>)
        ensures r@.len() == self.uniques().len(), forall|c: int| 0 <= c < r@.len() ==> (#[trigger] r@[c])@ == self.uniques()[c] { unimplemented!() }
}
// std HashMap<Vec<SqlValue>, usize>: an abstract finite map from keys to row positions
#[verifier::external_body] pub struct KeyPosMap { m: u8 }
impl KeyPosMap {
    pub uninterp spec fn view(&self) -> Map<Key, usize>;
    #[verifier::external_body] pub fn insert(&mut self, k: Vec<SqlValue>, v: usize) -> (r: Option<usize>) ensures final(self).view() == old(self).view().insert(k@, v) { unimplemented!() }
    #[verifier::external_body] pub fn remove(&mut self, k: &Vec<SqlValue>) -> (r: Option<usize>) ensures final(self).view() == old(self).view().remove(k@) { unimplemented!() }
    #[verifier::external_body] pub fn clear(&mut self) ensures final(self).view() == Map::<Key, usize>::empty() { unimplemented!() }
}


pub open spec fn uq_del(m: Map<Key, usize>, k: Key) -> Map<Key, usize> { if key_has_null(k) { m } else { m.remove(k) } }
pub open spec fn pk_upd(m: Map<Key, usize>, ko: Key, kn: Key, pos: usize) -> Map<Key, usize> { if ko != kn { m.remove(ko).insert(kn, pos) } else { m } }
pub open spec fn uq_upd(m: Map<Key, usize>, ko: Key, kn: Key, pos: usize) -> Map<Key, usize> {
    let m1 = if ko != kn && !key_has_null(ko) { m.remove(ko) } else { m };
    if !key_has_null(kn) { m1.insert(kn, pos) } else { m1 }
}

//@@ IndexType
/// the effect of the first n entries of an `affected` list on the primary-key map / on unique map c (each listed index gets the update_for_update effect)
pub open spec fn sel_pk(m: Map<Key, usize>, aff: Seq<IndexType>, n: int, ko: Key, kn: Key, pos: usize) -> Map<Key, usize> decreases n {
    if n <= 0 { m } else {
        let prev = sel_pk(m, aff, n - 1, ko, kn, pos);
        if aff[n - 1] is PrimaryKey { pk_upd(prev, ko, kn, pos) } else { prev }
    }
}
pub open spec fn sel_uq(m: Map<Key, usize>, c: int, aff: Seq<IndexType>, n: int, ko: Key, kn: Key, pos: usize) -> Map<Key, usize> decreases n {
    if n <= 0 { m } else {
        let prev = sel_uq(m, c, aff, n - 1, ko, kn, pos);
        if aff[n - 1] == IndexType::UniqueConstraint(c as usize) { uq_upd(prev, ko, kn, pos) } else { prev }
    }
}
pub struct IndexManager { pub primary_key_index: Option<KeyPosMap>, pub unique_indexes: Vec<KeyPosMap> }

/// the position of the LAST row among the first n whose key (under idx) is k; rows whose key holds a NULL are skipped when skip_null
pub open spec fn last_pos(rows: Seq<Row>, idx: Seq<usize>, skip_null: bool, k: Key, n: int) -> Option<usize> decreases n {
    if n <= 0 { None }
    else if proj(rows[n - 1].values@, idx) == k && !(skip_null && key_has_null(k)) { Some((n - 1) as usize) }
    else { last_pos(rows, idx, skip_null, k, n - 1) }
}
/// map m is exactly "key -> position of the last row with that key" over the first n rows
pub open spec fn mirrors(m: Map<Key, usize>, rows: Seq<Row>, idx: Seq<usize>, skip_null: bool, n: int) -> bool {
    forall|k: Key| #![trigger m.dom().contains(k)] #![trigger last_pos(rows, idx, skip_null, k, n)]
        (m.dom().contains(k) == (last_pos(rows, idx, skip_null, k, n) is Some)) && (m.dom().contains(k) ==> m[k] == last_pos(rows, idx, skip_null, k, n).unwrap())
}
impl IndexManager {
    /// shape: a primary-key map iff the schema has a primary key (IndexManager::new); any number of unique maps
    pub open spec fn shaped(&self, s: &TableSchema) -> bool { (self.primary_key_index is Some) ==> (s.pk() is Some) }
    /// THE MIRROR INVARIANT over the first n rows: the primary-key map and every unique map hold exactly the keys of those rows
    pub open spec fn synced_n(&self, s: &TableSchema, rows: Seq<Row>, n: int) -> bool {
        (self.primary_key_index matches Some(pk) ==> s.pk() is Some && mirrors(pk.view(), rows, s.pk().unwrap(), false, n))
        && forall|c: int| 0 <= c < self.unique_indexes@.len() && c < s.uniques().len() ==> mirrors((#[trigger] self.unique_indexes@[c]).view(), rows, s.uniques()[c], true, n)
    }
    pub open spec fn rows_ok(s: &TableSchema, rows: Seq<Row>) -> bool { forall|i: int| 0 <= i < rows.len() ==> (#[trigger] rows[i]).values@.len() == s.ncols() }

}
proof fn lemma_insert_step(m: Map<Key, usize>, rows: Seq<Row>, idx: Seq<usize>, skip_null: bool, n: int)
    requires 0 <= n < rows.len(), n <= usize::MAX, mirrors(m, rows, idx, skip_null, n)
    ensures
        ({ let k = proj(rows[n].values@, idx);
           mirrors(if skip_null && key_has_null(k) { m } else { m.insert(k, n as usize) }, rows, idx, skip_null, n + 1) })
{
    let k0 = proj(rows[n].values@, idx);
    let m2 = if skip_null && key_has_null(k0) { m } else { m.insert(k0, n as usize) };
    assert forall|k: Key| (m2.dom().contains(k) == (last_pos(rows, idx, skip_null, k, n + 1) is Some))
        && (m2.dom().contains(k) ==> m2[k] == last_pos(rows, idx, skip_null, k, n + 1).unwrap()) by {
        assert(m.dom().contains(k) == (last_pos(rows, idx, skip_null, k, n) is Some));
    }
}
proof fn lemma_empty_mirrors(rows: Seq<Row>, idx: Seq<usize>, skip_null: bool)
    ensures mirrors(Map::<Key, usize>::empty(), rows, idx, skip_null, 0)
{}
impl IndexManager {

//@@ update_for_insert

//@@ update_for_update

//@@ update_for_delete

//@@ update_selective

//@@ rebuild

//@@ clear
}

fn canary_rebuild(im: &mut IndexManager, s: &TableSchema, rows: &[Row])
    requires s.wf(), old(im).shaped(s), IndexManager::rows_ok(s, rows@)
{
    im.rebuild(s, rows);
    assert(false); // CANARY
}
fn canary_selective(im: &mut IndexManager, s: &TableSchema, o: &Row, n: &Row, i: usize, a: &[IndexType])
    requires s.wf(), o.values@.len() == s.ncols(), n.values@.len() == s.ncols(), old(im).shaped(s)
{
    im.update_selective(s, o, n, i, a);
    assert(false); // CANARY
}

}
fn main() {}
'''

_F = 'crates/vibesql-storage/src/table/indexes.rs'
def _key_cmp(m):
    """`a_values == / != b_values` on key vectors -> key_eq / key_ne (SqlValue has no PartialEq in the verified text)"""
    return ('key_eq' if m.group(2) == '==' else 'key_ne') + '(&%s, &%s)' % (m.group(1), m.group(3))


_RW = [
    ('re', r'vibesql_catalog::TableSchema', 'TableSchema', None),
    # R4: key projection (iterator chain) / membership / inequality of keys
    ('re', r'(?s)let (\w+): Vec<SqlValue> =\s*(\w+)\.iter\(\)\.map\(\|&idx\| (\w+)\.values\[idx\]\.clone\(\)\)\.collect\(\);', r'let \1: Vec<SqlValue> = project(&\3.values, \2.as_slice());', None),
    ('re', r'(\w+)\.contains\(&SqlValue::Null\)', r'has_null(&\1)', None),
    ('refn', r'\b(\w+_values) (==|!=) (\w+_values)\b', _key_cmp, None),
    # R10 loops
    ('re', r'for \(constraint_idx, unique_indices\) in unique_constraint_indices\.iter\(\)\.enumerate\(\) \{', 'let mut ci__: usize = 0; while ci__ < unique_constraint_indices.len() { let unique_indices = &unique_constraint_indices[ci__]; let constraint_idx = ci__; ci__ = ci__ + 1;', None),
    ('re', r'for \(row_index, row\) in rows\.iter\(\)\.enumerate\(\) \{', 'let mut ri__: usize = 0; while ri__ < rows.len() { let row = &rows[ri__]; let row_index = ri__; ri__ = ri__ + 1;', None),
    ('re', r'for unique_index in &mut self\.unique_indexes \{', 'let ghost pk_after = self.primary_key_index; let mut ui__: usize = 0; while ui__ < self.unique_indexes.len() { let unique_index = &mut self.unique_indexes[ui__]; ui__ = ui__ + 1;', None),
    ('re', r'for index_type in affected_indexes \{', 'let mut ai__: usize = 0; while ai__ < affected_indexes.len() { let index_type = &affected_indexes[ai__]; ai__ = ai__ + 1;', None),
]
_SNAP = ('let unique_constraint_indices = schema.get_unique_constraint_indices();', 'let ghost pk_after = self.primary_key_index;')
import os
_P = json.load(open(os.path.join(os.path.dirname(os.path.abspath(__file__)), '_k_index_parts.json')))

ITEMS = {
    'IndexType': dict(file=_F, path='enum IndexType'),
    'update_for_insert': dict(file=_F, path='impl IndexManager::fn update_for_insert', rewrites=_RW, loops={0: _P['L']['update_for_insert']}, proofs=[_SNAP], contract=_P['C']['update_for_insert']),
    'update_for_update': dict(file=_F, path='impl IndexManager::fn update_for_update', rewrites=_RW, loops={0: _P['L']['update_for_update']}, proofs=[_SNAP], contract=_P['C']['update_for_update']),
    'update_for_delete': dict(file=_F, path='impl IndexManager::fn update_for_delete', rewrites=_RW, loops={0: _P['L']['update_for_delete']}, proofs=[_SNAP], contract=_P['C']['update_for_delete']),
    'update_selective': dict(file=_F, path='impl IndexManager::fn update_selective', rewrites=_RW, loops={0: _P['L']['update_selective']}, contract=_P['C']['update_selective']),
    'rebuild': dict(file=_F, path='impl IndexManager::fn rebuild', rewrites=_RW, loops={0: _P['L']['rebuild']},
                    proofs=[('after:self.clear();', _P['p1']), ('@loop0', 'let ghost before = *self;'), ('after:self.update_for_insert(schema, row, row_index);', _P['p2'])],
                    contract=_P['C']['rebuild']),
    'clear': dict(file=_F, path='impl IndexManager::fn clear', rewrites=_RW, loops={0: _P['L']['clear']}, contract=_P['C']['clear']),
}

OBLIGATIONS = {
    'update_for_insert': ['post:key_bound_to_the_row_position_in_every_map__null_unique_keys_not_stored', 'safety:index_in_bounds', 'proof:loop_invariant'],
    'update_for_update': ['post:old_key_unbound_if_changed__new_key_bound__null_unique_keys_not_stored', 'proof:loop_invariant'],
    'update_for_delete': ['post:key_unbound_in_every_map', 'proof:loop_invariant'],
    'update_selective': ['post:exactly_the_listed_indexes_get_the_update_effect', 'proof:loop_invariant'],
    'rebuild': ['post:every_map_is_key_to_position_of_the_last_row_with_that_key', 'proof:loop_invariant'],
    'clear': ['post:every_map_empty', 'proof:loop_invariant'],
    'lemma_insert_step': ['post:mirror_extends_by_one_row'], 'lemma_empty_mirrors': ['post:empty_map_mirrors_no_rows'],
}
CANARIES = ['canary_rebuild', 'canary_selective']
TRUSTED = [
    'external_body Val opaque; SqlValue collapsed to Null | V(payload); Row reduced to its values',
    'external_body project / has_null / key_ne / key_eq: the key projection iterator chain `ix.iter().map(|&i| row.values[i].clone()).collect()`, `k.contains(&SqlValue::Null)`, `a != b` on key vectors (structural equality: Eq of SqlValue, unit T-laws)',
    'external_body KeyPosMap (insert, remove, clear): std HashMap<Vec<SqlValue>, usize> as an abstract finite map; TableSchema::get_primary_key_indices / get_unique_constraint_indices return the uninterpreted position lists pk / uniques',
    'preconditions: the constraint positions exist in the rows (schema.wf, row width = column count) and shaped: a primary-key map exists only if the schema has a primary key (IndexManager::new, not under contract: closure / range iterator)',
    'get_affected_indexes (iterator any / HashSet::contains) is not under contract: that the list passed to update_selective names every index whose columns changed is NOT proved',
    'the mirror is stated for rebuild (and clear); that update_for_update on a SYNCED, DUPLICATE-FREE table keeps the mirror follows from its exact effect but is not machine-checked here',
]
