"""E-truthy (lifted WHERE decision tables) and S-cmpsort (compare_sql_values) - Kani, in place, select::filter mount."""
NAME = 'E-truthy'
PROPERTIES = ['C06', 'C09', 'C08', 'C07']
ENGINE = 'kani'
CLASS = 'C'
CRATE = 'vibesql-executor'
MODULE = 'select::filter::verif_kani_select'
UNWIND = 4
HARNESS_FILE = 'kani/executor/select_k.rs'
DOC = ('every site that turns a WHERE / HAVING value into keep/drop (seven inline match tables, lifted mechanically - six WHERE sites and the HAVING table of execute_with_aggregation - plus is_truthy_basic which UPDATE/DELETE now call) '
       'makes the same decision as is_truthy_combined on every boolean/NULL/numeric value; compare_sql_values is a total preorder with NULL greatest')
_S = 'crates/vibesql-executor/src/select/'
FUNCTIONS = [
    dict(file=_S + 'filter.rs', path='fn is_truthy_combined'),
    dict(file=_S + 'filter.rs', path='fn is_truthy_basic'),
    dict(file=_S + 'grouping/aggregates.rs', path='fn compare_sql_values'),
]


def _frag(sig_name, scrut, index=0):
    return dict(kind='match', index=index, expect_scrutinee=scrut, scrutinee='v',
                sig='pub(crate) fn %s(v: vibesql_types::SqlValue) -> Result<bool, ExecutorError>' % sig_name, wrap='Ok(%s)')


LIFT = dict(out='kani/executor/lifted_gen.rs', items={
    'lifted_apply_where_filter_combined': dict(file=_S + 'filter.rs', path='fn apply_where_filter_combined',
                                               fragment=_frag('lifted_apply_where_filter_combined', 'evaluator.eval(where_expr, &row)?')),
    'lifted_apply_table_local_predicates_ref': dict(file=_S + 'scan/predicates.rs', path='fn apply_table_local_predicates_ref',
                                                    fragment=_frag('lifted_apply_table_local_predicates_ref', 'evaluator.eval(&combined_where, row)?')),
    'lifted_apply_table_local_predicates': dict(file=_S + 'scan/predicates.rs', path='fn apply_table_local_predicates',
                                                fragment=_frag('lifted_apply_table_local_predicates', 'evaluator.eval(&combined_where, &row)?')),
    'lifted_apply_predicates_parallel': dict(file=_S + 'scan/predicates.rs', path='fn apply_predicates_parallel',
                                             fragment=_frag('lifted_apply_predicates_parallel', 'thread_evaluator.eval(&where_expr_arc, &row)?')),
    'lifted_apply_where_filter_zerocopy': dict(file=_S + 'scan/index_scan/execution.rs', path='fn apply_where_filter_zerocopy',
                                               fragment=_frag('lifted_apply_where_filter_zerocopy', 'evaluator.eval(&combined_where, row_ref)?')),
    'lifted_apply_where_filter_zerocopy_parallel': dict(file=_S + 'scan/index_scan/execution.rs', path='fn apply_where_filter_zerocopy_parallel',
                                                        fragment=_frag('lifted_apply_where_filter_zerocopy_parallel', 'thread_evaluator.eval(&where_expr_arc, row_ref)?')),
    # the HAVING decision table of execute_with_aggregation (4th match of the function)
    'lifted_having': dict(file=_S + 'executor/aggregation/mod.rs', path="impl SelectExecutor<'_>::fn execute_with_aggregation",
                          fragment=_frag('lifted_having', 'having_result', 3)),
})
_T = ['C06', 'C09']
HARNESSES = {
    'e_truthy_reference_decision': dict(fn='is_truthy_combined/is_truthy_basic', clause='true_or_nonzero_keeps.null_false_zero_drops.others_error', props=_T),
    'e_truthy_filter_combined': dict(fn='apply_where_filter_combined/match#0', clause='same_decision_as_reference', props=_T),
    'e_truthy_predicates_ref': dict(fn='apply_table_local_predicates_ref/match#0', clause='same_decision_as_reference', props=_T),
    'e_truthy_predicates': dict(fn='apply_table_local_predicates/match#0', clause='same_decision_as_reference', props=_T),
    'e_truthy_predicates_parallel': dict(fn='apply_predicates_parallel/match#0', clause='same_decision_as_reference', props=_T),
    'e_truthy_index_scan': dict(fn='apply_where_filter_zerocopy/match#0', clause='same_decision_as_reference', props=_T),
    'e_truthy_index_scan_parallel': dict(fn='apply_where_filter_zerocopy_parallel/match#0', clause='same_decision_as_reference', props=_T),
    'e_truthy_having': dict(fn='execute_with_aggregation/match#3 (HAVING)', clause='same_decision_as_reference', props=['C06', 'C07']),
    's_cmpsort_null_null_equal': dict(fn='compare_sql_values', clause='null_null_equal', props=['C08']),
    'k_canary_must_fail': dict(fn='canary', clause='must_fail', canary=True),
}
for _v in ['integer', 'smallint', 'bigint', 'unsigned', 'boolean', 'double', 'real', 'float', 'numeric']:
    HARNESSES['s_cmpsort_' + _v] = dict(fn='compare_sql_values', clause='total_preorder_null_greatest[%s]' % _v, props=['C08'])
TRUSTED = [
    'kani::stub alloc::fmt::format -> empty String on error paths',
    'R6: the inline `match <evaluator.eval(..)?> { .. }` tables are lifted by replacing the scrutinee with a parameter and wrapping the match in Ok(..) (lib/lift.py, regenerated each run)',
    'string / temporal WHERE values are not generated (they allocate); every such value is an error at every site by the wildcard arm',
    'compare_sql_values: same-variant operands, NaN excluded (partial_cmp None => Equal makes NaN and mixed variants non-transitive: unit-level observation, DESIGN 9 #7)',
    'the join ON tables (nested_loop.rs, join/mod.rs) are not compared: they reject numeric truth values by design of that code (DESIGN 9 #31)',
]
