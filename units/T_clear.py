NAME = 'T-clear'
PROPERTIES = ['C15', 'C02']
ENGINE = 'verus'
CLASS = 'U'
DOC = ('execute_truncate (executor truncate/core.rs: TRUNCATE TABLE) and execute_truncate (executor delete/executor.rs: the DELETE-without-WHERE fast path): '
       'the table is emptied by ONE Table::clear (which empties the PRIMARY KEY / UNIQUE hash indexes with it: unit K-table) and the user-defined (CREATE INDEX) '
       'indexes of that table are rebuilt DIRECTLY afterwards, before anything else touches the database - whatever the outcome of the statement; the reported '
       'count is the row count before. Stated over the trace of storage operations.')

TEMPLATE = r'''
use vstd::prelude::*;
verus! {

#[verifier::external_body] pub struct ExecutorError { e: u8 }
/// the storage operations a statement performs, in order
pub enum Ev {
    /// Table::clear on the named table (rows and hash indexes emptied: unit K-table)
    Clear(Seq<char>),
    /// Database::rebuild_indexes(table) (the user-defined indexes rebuilt from the table's rows: unit I-resolve)
    Rebuild(Seq<char>),
}
#[verifier::external_body] pub struct Database { d: u8 }
impl Database {
    pub uninterp spec fn trace(&self) -> Seq<Ev>;
    pub uninterp spec fn rows_in(&self, t: Seq<char>) -> int;
    // database.get_table_mut(table_name).ok_or_else(|| TableNotFound(..))?   (R12: the `&mut Table` it returns is used through the three operations below)
    #[verifier::external_body]
    pub fn require_table(&self, t: &str) -> (r: Result<(), ExecutorError>) { unimplemented!() }
    #[verifier::external_body]
    pub fn tbl_row_count(&self, t: &str) -> (r: usize) ensures r == self.rows_in(t@) { unimplemented!() }
    #[verifier::external_body]
    pub fn tbl_clear(&mut self, t: &str) ensures final(self).trace() == old(self).trace().push(Ev::Clear(t@)) { unimplemented!() }
    #[verifier::external_body]
    pub fn rebuild_indexes(&mut self, t: &str) ensures final(self).trace() == old(self).trace().push(Ev::Rebuild(t@)) { unimplemented!() }
}
// resets catalog sequences only: no table, no index is touched
#[verifier::external_body]
fn reset_auto_increment_sequences(database: &mut Database, t: &str) -> (r: Result<(), ExecutorError>)
    ensures final(database).trace() == old(database).trace() { unimplemented!() }

//@@ truncate_table
//@@ delete_all

fn canary_truncate(database: &mut Database, t: &str)
{
    let r = truncate_table(database, t);
    assert(false); // CANARY
}

}
fn main() {}
'''

_RW = [
    ('re', r'(?s)let table = database\s*\.get_table_mut\(table_name\)\s*\.ok_or_else\(\|\| ExecutorError::TableNotFound\(table_name\.to_string\(\)\)\)\?;', 'database.require_table(table_name)?;', 1),
    ('re', r'\btable\.row_count\(\)', 'database.tbl_row_count(table_name)', 1),
    ('re', r'\btable\.clear\(\);', 'database.tbl_clear(table_name);', 1),
]
_CONTRACT = '''
    ensures
        // whatever the outcome: if the table was touched at all it was emptied ONCE and its user-defined indexes were rebuilt directly afterwards, and nothing else happened
        final(database).trace() == old(database).trace()
            || final(database).trace() == old(database).trace().push(Ev::Clear(table_name@)).push(Ev::Rebuild(table_name@)),
        res matches Ok(n) ==> final(database).trace() == old(database).trace().push(Ev::Clear(table_name@)).push(Ev::Rebuild(table_name@)) && n == old(database).rows_in(table_name@),
'''
ITEMS = {
    'truncate_table': dict(file='crates/vibesql-executor/src/truncate/core.rs', path='fn execute_truncate', ret='res', rewrites=_RW + [('re', r'fn execute_truncate\(', 'fn truncate_table(', 1)], contract=_CONTRACT),
    'delete_all': dict(file='crates/vibesql-executor/src/delete/executor.rs', path='fn execute_truncate', ret='res', rewrites=_RW + [('re', r'fn execute_truncate\(', 'fn delete_all(', 1)], contract=_CONTRACT),
}
OBLIGATIONS = {
    'truncate_table': ['post:one_clear_then_the_rebuild_of_the_user_defined_indexes__count_is_the_row_count_before'],
    'delete_all': ['post:one_clear_then_the_rebuild_of_the_user_defined_indexes__count_is_the_row_count_before'],
}
CANARIES = ['canary_truncate']
TRUSTED = [
    'the contract is over a TRACE of storage operations (ghost sequence Database::trace): external_body tbl_clear (Table::clear through get_table_mut - R12; what it does to rows and hash indexes: unit K-table), rebuild_indexes (unit I-resolve), tbl_row_count, require_table (get_table_mut(..).ok_or_else(..)?), reset_auto_increment_sequences (touches catalog sequences only: assumed to leave tables and indexes alone)',
    'NOT under contract: when the executors choose these paths (privileges, triggers, foreign keys: truncate_validation.rs, DeleteExecutor::execute_internal), TRUNCATE .. CASCADE (execute_truncate_cascade calls execute_truncate per table), the transaction log (a truncation records no change: observed, DESIGN 9b)',
    'ExecutorError opaque; table names as `&str` (their view is the character sequence)',
]
