NAME = 'I-multi'
PROPERTIES = ['C02', 'C08']
ENGINE = 'verus'
CLASS = 'U'
DOC = ('IndexData::multi_lookup and IndexData::prefix_multi_lookup (storage database/indexes/point_lookup.rs, prefix_match.rs), the index side of '
       '`col IN (v1, v2, ...)`: the listed values are NORMALIZED like the stored keys and then reduced to a strictly ascending sequence of distinct '
       'keys with the same elements, and the result is the concatenation, in that key order, of the position lists of those keys. Hence (lemma) on '
       'a well-formed index every row position is returned at most once - also for `IN (5, 5.0)`, whose two values normalize to one key - and '
       'exactly the rows whose key is a listed value are returned, in ascending key order.')

TEMPLATE = r'''
use vstd::prelude::*;
verus! {

#[verifier::external_body] pub struct Val { v: u8 }
pub enum SqlValue { Null, V(Val) }
impl SqlValue {
    #[verifier::external_body] pub fn clone(&self) -> (r: SqlValue) ensures r == *self { unimplemented!() }
}
#[verifier::external_body] pub struct Opq { o: u8 }
pub type Key = Seq<SqlValue>;
/// normalize_for_comparison, per value (every numeric -> Double; order-preserving: unit I-kernels)
pub uninterp spec fn norm(v: SqlValue) -> SqlValue;
pub open spec fn norm_seq(s: Seq<SqlValue>) -> Seq<SqlValue> { Seq::new(s.len(), |j: int| norm(s[j])) }
/// SqlValue::cmp (Ord), a total order (laws: unit T-laws)
pub uninterp spec fn sv_le(a: SqlValue, b: SqlValue) -> bool;
pub open spec fn sv_lt(a: SqlValue, b: SqlValue) -> bool { sv_le(a, b) && a != b }
#[verifier::external_body]
pub proof fn sv_total_order()
    ensures
        forall|a: SqlValue| sv_le(a, a),
        forall|a: SqlValue, b: SqlValue| sv_le(a, b) || sv_le(b, a),
        forall|a: SqlValue, b: SqlValue| sv_le(a, b) && sv_le(b, a) ==> a == b,
        forall|a: SqlValue, b: SqlValue, c: SqlValue| sv_le(a, b) && sv_le(b, c) ==> sv_le(a, c),
{}
pub open spec fn sorted(s: Seq<SqlValue>) -> bool { forall|i: int, j: int| 0 <= i < j < s.len() ==> sv_le(s[i], s[j]) }
pub open spec fn strictly_sorted(s: Seq<SqlValue>) -> bool { forall|i: int, j: int| 0 <= i < j < s.len() ==> sv_lt(s[i], s[j]) }
pub open spec fn same_elems(a: Seq<SqlValue>, b: Seq<SqlValue>) -> bool { forall|x: SqlValue| a.contains(x) <==> b.contains(x) }

// values.iter().map(normalize_for_comparison).collect()
#[verifier::external_body]
fn normalize_all(values: &[SqlValue]) -> (r: Vec<SqlValue>) ensures r@ == norm_seq(values@) { unimplemented!() }
// Vec::<SqlValue>::sort() (by Ord)
#[verifier::external_body]
fn vec_sort(v: &mut Vec<SqlValue>) ensures sorted(final(v)@), final(v)@.len() == old(v)@.len(), same_elems(final(v)@, old(v)@) { unimplemented!() }
/// Vec::dedup: removes consecutive repeated elements
pub open spec fn dedup_adj(s: Seq<SqlValue>) -> Seq<SqlValue>
    decreases s.len()
{
    if s.len() <= 1 { s } else if s[s.len() - 2] == s.last() { dedup_adj(s.drop_last()) } else { dedup_adj(s.drop_last()).push(s.last()) }
}
#[verifier::external_body]
fn vec_dedup(v: &mut Vec<SqlValue>) ensures final(v)@ == dedup_adj(old(v)@) { unimplemented!() }
/// first occurrences, in list order (the HashSet::insert-filter idiom)
pub open spec fn first_occ(s: Seq<SqlValue>) -> Seq<SqlValue>
    decreases s.len()
{
    if s.len() == 0 { s } else if first_occ(s.drop_last()).contains(s.last()) { first_occ(s.drop_last()) } else { first_occ(s.drop_last()).push(s.last()) }
}
// let mut seen = HashSet::..; v.into_iter().filter(|k| seen.insert(k.clone())).collect()
#[verifier::external_body]
fn dedup_first_occurrences(v: Vec<SqlValue>) -> (r: Vec<SqlValue>) ensures r@ == first_occ(v@) { unimplemented!() }
#[verifier::external_body]
fn vec1(x: SqlValue) -> (r: Vec<SqlValue>) ensures r@ == seq![x] { unimplemented!() }
// Vec::extend(&Vec<usize>) / Vec::extend(Vec<usize>)
#[verifier::external_body]
fn vec_extend(v: &mut Vec<usize>, src: &Vec<usize>) ensures final(v)@ == old(v)@ + src@ { unimplemented!() }

/// dedup of a SORTED sequence: strictly ascending, same elements
proof fn lemma_dedup_sorted(s: Seq<SqlValue>)
    requires sorted(s),
    ensures
        strictly_sorted(dedup_adj(s)),
        same_elems(dedup_adj(s), s),
        s.len() > 0 ==> dedup_adj(s).len() > 0 && dedup_adj(s).last() == s.last(),
    decreases s.len(),
{
    sv_total_order();
    if s.len() <= 1 {
    } else {
        let t = s.drop_last();
        assert forall|i: int, j: int| 0 <= i < j < t.len() implies sv_le(t[i], t[j]) by { assert(t[i] == s[i] && t[j] == s[j]); }
        lemma_dedup_sorted(t);
        let d = dedup_adj(t);
        let n = s.len() as int;
        assert(t.last() == s[n - 2]);
        assert forall|x: SqlValue| s.contains(x) <==> (t.contains(x) || x == s.last()) by {
            if s.contains(x) {
                let i = choose|i: int| 0 <= i < s.len() && s[i] == x;
                if i < n - 1 { assert(t[i] == x); }
            }
            if t.contains(x) {
                let i = choose|i: int| 0 <= i < t.len() && t[i] == x;
                assert(s[i] == x);
            }
            if x == s.last() { assert(s[n - 1] == x); }
        }
        assert(t.contains(t.last())) by { assert(t[t.len() - 1] == t.last()); }
        if s[n - 2] == s.last() {
            assert(dedup_adj(s) == d);
        } else {
            let r = d.push(s.last());
            assert(dedup_adj(s) == r);
            assert forall|i: int, j: int| 0 <= i < j < r.len() implies sv_lt(r[i], r[j]) by {
                if j < d.len() {
                    assert(r[i] == d[i] && r[j] == d[j]);
                } else {
                    assert(r[j] == s.last());
                    assert(r[i] == d[i]);
                    assert(d.contains(d[i]));
                    assert(t.contains(d[i]));
                    let k = choose|k: int| 0 <= k < t.len() && t[k] == d[i];
                    assert(s[k] == d[i]);
                    assert(sv_le(s[k], s[n - 1]));
                    // d[i] <= d.last() == s[n-2] <= s.last(), and s[n-2] != s.last()
                    if i < d.len() - 1 { assert(sv_lt(d[i], d[d.len() - 1])); }
                    assert(sv_le(d[i], s[n - 2]));
                    assert(sv_le(s[n - 2], s[n - 1]));
                }
            }
            assert forall|x: SqlValue| r.contains(x) <==> s.contains(x) by {
                if r.contains(x) {
                    let i = choose|i: int| 0 <= i < r.len() && r[i] == x;
                    if i < d.len() { assert(d[i] == x); assert(d.contains(x)); }
                }
                if d.contains(x) {
                    let i = choose|i: int| 0 <= i < d.len() && d[i] == x;
                    assert(r[i] == x);
                }
                if x == s.last() { assert(r[r.len() - 1] == x); }
            }
        }
    }
}

// ---------------- the index: (normalized) key -> row positions ---------------------------------------------------
pub type Ix = Map<Key, Seq<usize>>;
pub open spec fn rows_of(m: Ix, k: SqlValue) -> Seq<usize> { if m.dom().contains(seq![k]) { m[seq![k]] } else { Seq::empty() } }
/// position lists of the first n keys of ks, in that order
pub open spec fn concat_lookup(m: Ix, ks: Seq<SqlValue>, n: int) -> Seq<usize>
    decreases n
{
    if n <= 0 { Seq::empty() } else { concat_lookup(m, ks, n - 1) + rows_of(m, ks[n - 1]) }
}
/// the keys that are looked up for an IN list: strictly ascending, distinct, exactly the normalized list values
pub open spec fn lookup_keys(ks: Seq<SqlValue>, values: Seq<SqlValue>) -> bool { strictly_sorted(ks) && same_elems(ks, norm_seq(values)) }

// BTreeMap<Vec<SqlValue>, Vec<usize>>
#[verifier::external_body] pub struct KeyMap { m: u8 }
impl KeyMap {
    pub uninterp spec fn view(&self) -> Ix;
    #[verifier::external_body]
    pub fn get(&self, k: &Vec<SqlValue>) -> (r: Option<&Vec<usize>>)
        ensures r is Some <==> self.view().dom().contains(k@), r matches Some(v) ==> v@ == self.view()[k@] { unimplemented!() }
}
// Arc<Mutex<BTreeIndex>>: lock, then BTreeIndex::multi_lookup (disk I/O may fail)
#[verifier::external_body] pub struct SharedTree { t: u8 }
#[verifier::external_body] pub struct TreeGuard { g: u8 }
impl SharedTree { pub uninterp spec fn view(&self) -> Ix; }
/// keys[i] == [ks[i]]
pub open spec fn wraps(keys: Seq<Vec<SqlValue>>, ks: Seq<SqlValue>) -> bool { keys.len() == ks.len() && forall|i: int| 0 <= i < ks.len() ==> (#[trigger] keys[i])@ == seq![ks[i]] }
impl TreeGuard {
    pub uninterp spec fn view(&self) -> Ix;
    #[verifier::external_body]
    pub fn multi_lookup(&self, keys: &Vec<Vec<SqlValue>>) -> (r: Result<Vec<usize>, Opq>)
        ensures r matches Ok(ids) ==> forall|ks: Seq<SqlValue>| wraps(keys@, ks) ==> ids@ == concat_lookup(self.view(), ks, ks.len() as int) { unimplemented!() }
}
#[verifier::external_body]
fn acquire_btree_lock(t: &SharedTree) -> (r: Result<TreeGuard, Opq>) ensures r matches Ok(g) ==> g.view() == t.view() { unimplemented!() }
// unique_keys.into_iter().map(|v| vec![v]).collect()
#[verifier::external_body]
fn wrap_keys(ks: Vec<SqlValue>) -> (r: Vec<Vec<SqlValue>>) ensures wraps(r@, ks@) { unimplemented!() }
// .unwrap_or_else(|_| vec![])
#[verifier::external_body]
fn ok_or_empty(r: Result<Vec<usize>, Opq>) -> (o: Vec<usize>) ensures r matches Ok(v) ==> o == v, r is Err ==> o@.len() == 0 { unimplemented!() }
fn empty_rows() -> (o: Vec<usize>) ensures o@.len() == 0 { Vec::new() }

pub enum IndexData { InMemory { data: KeyMap }, DiskBacked { btree: SharedTree, page_manager: Opq } }
impl IndexData {
    pub open spec fn ix(&self) -> Ix { match self { IndexData::InMemory { data } => data.view(), IndexData::DiskBacked { btree, .. } => btree.view() } }
    /// range_scan(Some(v), Some(v), true, true): the rows whose FIRST key column equals norm(v) (prefix match; range_scan normalizes its bounds)
    pub uninterp spec fn prefix_rows(&self, k: SqlValue) -> Seq<usize>;
    #[verifier::external_body]
    pub fn range_scan(&self, start: Option<&SqlValue>, end: Option<&SqlValue>, inclusive_start: bool, inclusive_end: bool) -> (r: Vec<usize>)
        ensures (start is Some && end is Some && *start->Some_0 == *end->Some_0 && inclusive_start && inclusive_end) ==> r@ == self.prefix_rows(norm(*start->Some_0)) { unimplemented!() }
    pub open spec fn concat_prefix(&self, ks: Seq<SqlValue>, n: int) -> Seq<usize>
        decreases n
    {
        if n <= 0 { Seq::empty() } else { self.concat_prefix(ks, n - 1) + self.prefix_rows(ks[n - 1]) }
    }

//@@ multi_lookup

//@@ prefix_multi_lookup
}

// ---------------- consequence: no row position twice -------------------------------------------------------------
/// a well-formed index: every position is listed once, under one key (maintained by IndexManager: unit K-index `mirrors`)
pub open spec fn wf_index(m: Ix) -> bool {
    &&& forall|k: Key| #[trigger] m.dom().contains(k) ==> m[k].no_duplicates()
    &&& forall|k1: Key, k2: Key, i: int, j: int| m.dom().contains(k1) && m.dom().contains(k2) && k1 != k2 && 0 <= i < m[k1].len() && 0 <= j < m[k2].len()
            ==> #[trigger] m[k1][i] != #[trigger] m[k2][j]
}
proof fn lemma_each_row_once(m: Ix, ks: Seq<SqlValue>, n: int)
    requires wf_index(m), strictly_sorted(ks), 0 <= n <= ks.len(),
    ensures
        concat_lookup(m, ks, n).no_duplicates(),
        forall|p: usize| concat_lookup(m, ks, n).contains(p) <==> exists|j: int| 0 <= j < n && #[trigger] rows_of(m, ks[j]).contains(p),
    decreases n,
{
    if n > 0 {
        lemma_each_row_once(m, ks, n - 1);
        let a = concat_lookup(m, ks, n - 1);
        let b = rows_of(m, ks[n - 1]);
        let c = concat_lookup(m, ks, n);
        assert(c == a + b);
        assert(b.no_duplicates());
        assert forall|p: usize| c.contains(p) <==> (a.contains(p) || b.contains(p)) by {
            if c.contains(p) {
                let i = choose|i: int| 0 <= i < c.len() && c[i] == p;
                if i < a.len() { assert(a[i] == p); } else { assert(b[i - a.len()] == p); }
            }
            if a.contains(p) { let i = choose|i: int| 0 <= i < a.len() && a[i] == p; assert(c[i] == p); }
            if b.contains(p) { let i = choose|i: int| 0 <= i < b.len() && b[i] == p; assert(c[i + a.len()] == p); }
        }
        assert forall|i: int, j: int| 0 <= i < a.len() && 0 <= j < b.len() implies a[i] != b[j] by {
            assert(a.contains(a[i]));
            let q = choose|q: int| 0 <= q < n - 1 && #[trigger] rows_of(m, ks[q]).contains(a[i]);
            let rq = rows_of(m, ks[q]);
            let x = choose|x: int| 0 <= x < rq.len() && rq[x] == a[i];
            assert(sv_lt(ks[q], ks[n - 1]));
            assert(seq![ks[q]] != seq![ks[n - 1]]) by { assert(seq![ks[q]][0] == ks[q]); assert(seq![ks[n - 1]][0] == ks[n - 1]); }
            assert(m[seq![ks[q]]][x] != m[seq![ks[n - 1]]][j]);
        }
        assert forall|i: int, j: int| 0 <= i < j < c.len() implies c[i] != c[j] by {
            if j < a.len() { assert(c[i] == a[i] && c[j] == a[j]); }
            else if i >= a.len() { assert(c[i] == b[i - a.len()] && c[j] == b[j - a.len()]); }
            else { assert(c[i] == a[i] && c[j] == b[j - a.len()]); }
        }
        assert forall|p: usize| c.contains(p) <==> exists|j: int| 0 <= j < n && #[trigger] rows_of(m, ks[j]).contains(p) by {
            if c.contains(p) {
                if a.contains(p) {
                    let j = choose|j: int| 0 <= j < n - 1 && #[trigger] rows_of(m, ks[j]).contains(p);
                    assert(0 <= j < n && rows_of(m, ks[j]).contains(p));
                } else {
                    assert(rows_of(m, ks[n - 1]).contains(p));
                }
            }
            if exists|j: int| 0 <= j < n && #[trigger] rows_of(m, ks[j]).contains(p) {
                let j = choose|j: int| 0 <= j < n && #[trigger] rows_of(m, ks[j]).contains(p);
                if j < n - 1 { assert(a.contains(p)); } else { assert(b.contains(p)); }
            }
        }
    } else {
        assert(concat_lookup(m, ks, n) =~= Seq::<usize>::empty());
    }
}
/// THE C08/C02 clause for IN through a single-column index: every position at most once
proof fn lemma_in_list_no_duplicate_rows(ix: IndexData, values: Seq<SqlValue>, r: Seq<usize>)
    requires
        wf_index(ix.ix()),
        exists|ks: Seq<SqlValue>| #[trigger] lookup_keys(ks, values) && r == concat_lookup(ix.ix(), ks, ks.len() as int),
    ensures
        r.no_duplicates(),
        forall|p: usize| r.contains(p) ==> exists|i: int| 0 <= i < values.len() && #[trigger] rows_of(ix.ix(), norm(values[i])).contains(p),
{
    let ks = choose|ks: Seq<SqlValue>| lookup_keys(ks, values) && r == concat_lookup(ix.ix(), ks, ks.len() as int);
    lemma_each_row_once(ix.ix(), ks, ks.len() as int);
    assert forall|p: usize| r.contains(p) implies exists|i: int| 0 <= i < values.len() && #[trigger] rows_of(ix.ix(), norm(values[i])).contains(p) by {
        let j = choose|j: int| 0 <= j < ks.len() && #[trigger] rows_of(ix.ix(), ks[j]).contains(p);
        assert(ks.contains(ks[j]));
        assert(norm_seq(values).contains(ks[j]));
        let i = choose|i: int| 0 <= i < norm_seq(values).len() && norm_seq(values)[i] == ks[j];
        assert(rows_of(ix.ix(), norm(values[i])).contains(p));
    }
}

fn canary_multi(ix: &IndexData, values: &[SqlValue])
{
    let r = ix.multi_lookup(values);
    assert(false); // CANARY
}
fn canary_prefix(ix: &IndexData, values: &[SqlValue])
    requires forall|v: SqlValue| norm(norm(v)) == norm(v),
{
    let r = ix.prefix_multi_lookup(values);
    assert(false); // CANARY
}
proof fn canary_lemma(ix: IndexData, values: Seq<SqlValue>, r: Seq<usize>)
    requires wf_index(ix.ix()), exists|ks: Seq<SqlValue>| #[trigger] lookup_keys(ks, values) && r == concat_lookup(ix.ix(), ks, ks.len() as int),
{
    assert(false); // CANARY
}

}
fn main() {}
'''

_SORT = ('re', r'unique_(keys|values)\.sort\(\);', r'vec_sort(&mut unique_\1);', None)
_DEDUP = ('re', r'unique_(keys|values)\.dedup\(\);', r'let ghost d0__ = unique_\1@; vec_dedup(&mut unique_\1); proof { if sorted(d0__) { lemma_dedup_sorted(d0__); } }', None)
_NORM = ('re', r'values\.iter\(\)\.map\(normalize_for_comparison\)\.collect\(\)', 'normalize_all(values)', None)
# the order-preserving HashSet dedup idiom (a std shape the sort + dedup could be swapped for): recognised so that it FAILS the key-order obligation instead of losing the anchor
_SEEN = ('re', r'let mut seen = std::collections::HashSet::(?:new\(\)|with_capacity\([^;]*\));', '', None)
_FILT = ('re', r'(?s)values\s*\.iter\(\)\s*\.map\(normalize_for_comparison\)\s*\.filter\(\|(\w+)\| seen\.insert\(\1\.clone\(\)\)\)\s*\.collect\(\)', 'dedup_first_occurrences(normalize_all(values))', None)
ITEMS = {
    'multi_lookup': dict(
        file='crates/vibesql-storage/src/database/indexes/point_lookup.rs', path='impl IndexData::fn multi_lookup', ret='r',
        rewrites=[_SEEN, _FILT, _NORM, _SORT, _DEDUP,
                  ('re', r'log::warn!\((?:[^()]|\([^()]*\))*\);', '', None),
                  ('re', r'for key in unique_keys \{', 'let mut ki__: usize = 0; while ki__ < unique_keys.len() { let key = unique_keys[ki__].clone(); ki__ = ki__ + 1;', 1),
                  ('re', r'vec!\[key\]', 'vec1(key)', 1),
                  ('re', r'matching_row_indices\.extend\(row_indices\);', 'vec_extend(&mut matching_row_indices, row_indices);', 1),
                  ('re', r'(?s)unique_keys\s*\.into_iter\(\)\s*\.map\(\|v\| vec!\[v\]\)\s*\.collect\(\)', 'wrap_keys(unique_keys)', 1),
                  ('re', r'let keys: Vec<Vec<SqlValue>> = ', 'let ghost ks0__ = unique_keys@; proof { assert(lookup_keys(ks0__, values@)); } let keys: Vec<Vec<SqlValue>> = ', 1),
                  ('re', r'guard\.multi_lookup\(&keys\)\.unwrap_or_else\(\|_\| vec!\[\]\)', 'ok_or_empty(guard.multi_lookup(&keys))', 1),
                  ('re', r'(?s)(Err\(e\) => \{\s*(?://[^\n]*\n\s*)*)vec!\[\]', r'\1empty_rows()', 1)],
        loops={0: '''
                    invariant
                        ki__ <= unique_keys@.len(),
                        matching_row_indices@ == concat_lookup(data.view(), unique_keys@, ki__ as int),
                    decreases unique_keys@.len() - ki__,
'''},
        proofs=[('@afterloop0', 'proof { assert(lookup_keys(unique_keys@, values@)); }')],
        contract='''
        ensures
            // in memory: exactly the position lists of the distinct normalized keys, in ascending key order
            (self is InMemory) ==> exists|ks: Seq<SqlValue>| #[trigger] lookup_keys(ks, values@) && r@ == concat_lookup(self.ix(), ks, ks.len() as int),
            // on disk: the same, or nothing at all after an I/O / lock failure
            (self is DiskBacked) ==> r@.len() == 0 || exists|ks: Seq<SqlValue>| #[trigger] lookup_keys(ks, values@) && r@ == concat_lookup(self.ix(), ks, ks.len() as int),
'''),
    'prefix_multi_lookup': dict(
        file='crates/vibesql-storage/src/database/indexes/prefix_match.rs', path='impl IndexData::fn prefix_multi_lookup', ret='r',
        rewrites=[_SEEN, _FILT, _NORM, _SORT, _DEDUP,
                  ('re', r'for value in &unique_values \{', 'proof { assert forall|i: int| 0 <= i < unique_values@.len() implies norm(#[trigger] unique_values@[i]) == unique_values@[i] by { assert(unique_values@.contains(unique_values@[i])); assert(norm_seq(values@).contains(unique_values@[i])); let j = choose|j: int| 0 <= j < norm_seq(values@).len() && norm_seq(values@)[j] == unique_values@[i]; assert(unique_values@[i] == norm(values@[j])); } } let mut ki__: usize = 0; while ki__ < unique_values.len() { let value = &unique_values[ki__]; ki__ = ki__ + 1;', 1),
                  ('re', r'matching_row_indices\.extend\(range_indices\);', 'vec_extend(&mut matching_row_indices, &range_indices);', 1)],
        loops={0: '''
            invariant
                ki__ <= unique_values@.len(),
                forall|i: int| 0 <= i < unique_values@.len() ==> norm(#[trigger] unique_values@[i]) == unique_values@[i],
                matching_row_indices@ == self.concat_prefix(unique_values@, ki__ as int),
            decreases unique_values@.len() - ki__,
'''},
        proofs=[('@afterloop0', 'proof { assert(lookup_keys(unique_values@, values@)); }')],
        contract='''
        requires
            forall|v: SqlValue| norm(norm(v)) == norm(v),      // normalize_for_comparison is idempotent (unit I-kernels)
        ensures
            exists|ks: Seq<SqlValue>| #[trigger] lookup_keys(ks, values@) && r@ == self.concat_prefix(ks, ks.len() as int),
'''),
}

OBLIGATIONS = {
    'multi_lookup': ['post:distinct_normalized_keys_in_ascending_order_each_looked_up_once', 'proof:looked_up_keys_are_the_distinct_normalized_values_ascending__loop_invariant__termination', 'safety:index_in_bounds'],
    'prefix_multi_lookup': ['post:distinct_normalized_keys_in_ascending_order_each_prefix_scanned_once', 'proof:looked_up_keys_are_the_distinct_normalized_values_ascending__loop_invariant__termination'],
    'lemma_dedup_sorted': ['lemma:dedup_of_a_sorted_sequence_is_strictly_ascending_with_the_same_elements'],
    'lemma_each_row_once': ['lemma:concatenation_over_distinct_keys_of_a_well_formed_index_has_no_duplicates'],
    'lemma_in_list_no_duplicate_rows': ['post:in_list_through_the_index_returns_every_row_at_most_once_and_only_rows_of_listed_values'],
}
CANARIES = ['canary_multi', 'canary_prefix', 'canary_lemma']
TRUSTED = [
    'SqlValue abstract (Null | V(opaque)); norm = normalize_for_comparison uninterpreted, idempotent (assumed here; unit I-kernels); sv_le = SqlValue::cmp assumed a total order (external_body proof fn sv_total_order; the laws are the subject of unit T-laws)',
    'external_body std stand-ins with their documented meaning: normalize_all (iter().map(normalize_for_comparison).collect()), vec_sort (Vec::sort: sorted, same elements), vec_dedup (Vec::dedup: consecutive repeats removed, spec dedup_adj), dedup_first_occurrences (the HashSet::insert-filter idiom: first occurrences in list order - recognised only so that swapping it in fails the key-order obligation), vec1 (vec![x]), vec_extend (Vec::extend), wrap_keys (into_iter().map(|v| vec![v]).collect()), ok_or_empty (Result::unwrap_or_else(|_| vec![])), SqlValue::clone',
    'external_body types KeyMap, SharedTree, TreeGuard, Opq (error / page-manager payloads), Val (opaque value); external_body KeyMap::get (BTreeMap::get on Vec<SqlValue> keys), acquire_btree_lock, TreeGuard::multi_lookup (disk B+tree: concatenation of the position lists of the given keys in the given order - assumed contract, not verified)',
    'external_body IndexData::range_scan for start == end, both inclusive: the rows whose first key column equals the normalized bound (prefix_rows, uninterpreted) - range_scan itself (BTreeMap::range) is not under contract',
    'R10 rewrite of the two `for` loops into index loops; log::warn! dropped',
    'wf_index (every position listed once, under one key) is the hypothesis of the no-duplicates lemma; it is what IndexManager maintenance establishes (unit K-index: mirrors)',
]
