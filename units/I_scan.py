import re as _re

NAME = 'I-scan'
PROPERTIES = ['C02', 'C08', 'C24']
ENGINE = 'verus'
CLASS = 'U'
DOC = ('IndexData::range_scan, in-memory arm (storage database/indexes/range_scan.rs) - the function behind every index range / equality / BETWEEN '
       'predicate: for every index whose keys have at least one column it returns, in ascending key order, the position lists of EXACTLY those keys '
       'whose FIRST column lies within the (normalized) bounds - the equality-prefix path, the empty / inverted range exits, the multi-column path '
       '(successor bounds, with the first-column check where a bound value has no successor) and the single-column path - and BTreeMap::range is '
       'never called with bounds it panics on.')

TEMPLATE = r'''
use vstd::prelude::*;
verus! {

#[verifier::external_body] pub struct SqlValue { v: u8 }
impl SqlValue {
    #[verifier::external_body] pub fn clone(&self) -> (r: SqlValue) ensures r == *self { unimplemented!() }
}
#[verifier::external_body] pub struct Opq { o: u8 }
pub type Key = Seq<SqlValue>;
/// normalize_for_comparison (every numeric -> Double; order-preserving: unit I-kernels)
pub uninterp spec fn norm(v: SqlValue) -> SqlValue;
/// SqlValue::cmp (Ord), a total order (laws: unit T-laws); == and > on SqlValue agree with it on normalized values
pub uninterp spec fn sv_le(a: SqlValue, b: SqlValue) -> bool;
pub open spec fn sv_lt(a: SqlValue, b: SqlValue) -> bool { sv_le(a, b) && a != b }
#[verifier::external_body]
pub proof fn sv_total_order()
    ensures
        forall|a: SqlValue| sv_le(a, a),
        forall|a: SqlValue, b: SqlValue| sv_le(a, b) || sv_le(b, a),
        forall|a: SqlValue, b: SqlValue| sv_le(a, b) && sv_le(b, a) ==> a == b,
        forall|a: SqlValue, b: SqlValue, c: SqlValue| sv_le(a, b) && sv_le(b, c) ==> sv_le(a, c),
{}
#[verifier::external_body] fn sv_eq(a: &SqlValue, b: &SqlValue) -> (r: bool) ensures r == (*a == *b) { unimplemented!() }
#[verifier::external_body] fn sv_gt(a: &SqlValue, b: &SqlValue) -> (r: bool) ensures r == sv_lt(*b, *a) { unimplemented!() }
#[verifier::external_body] fn slice_eq(a: &[SqlValue], b: &[SqlValue]) -> (r: bool) ensures r == (a@ == b@) { unimplemented!() }
#[verifier::external_body] fn opt_norm(v: Option<&SqlValue>) -> (r: Option<SqlValue>)
    ensures v is Some ==> r == Some(norm(*v->Some_0)), v is None ==> r is None { unimplemented!() }
#[verifier::external_body] fn vec_first(v: &Vec<SqlValue>) -> (r: Option<&SqlValue>)
    ensures v@.len() == 0 ==> r is None, v@.len() > 0 ==> r == Some(&v@[0]) { unimplemented!() }
#[verifier::external_body] fn vec1(x: SqlValue) -> (r: Vec<SqlValue>) ensures r@ == seq![x] { unimplemented!() }
#[verifier::external_body] fn vec_extend(v: &mut Vec<usize>, src: &Vec<usize>) ensures final(v)@ == old(v)@ + src@ { unimplemented!() }

/// n is the successor of v: nothing lies strictly between them
pub open spec fn is_succ(v: SqlValue, n: SqlValue) -> bool { sv_lt(v, n) && forall|x: SqlValue| sv_lt(v, x) ==> sv_le(n, x) }
// range_bounds.rs (exact successor of the float variants: unit I-kernels; strings: s + "\0"; FALSE -> TRUE)
#[verifier::external_body] fn smart_increment_value(v: &SqlValue) -> (r: Option<SqlValue>) ensures r matches Some(n) ==> is_succ(*v, n) { unimplemented!() }
#[verifier::external_body] fn try_increment_sqlvalue(v: &SqlValue) -> (r: Option<SqlValue>) ensures r matches Some(n) ==> is_succ(*v, n) { unimplemented!() }

pub enum Bound<T> { Included(T), Excluded(T), Unbounded }

// ---------------- lexicographic order of keys (Vec<SqlValue>: Ord) -------------------------------------------------
pub open spec fn key_lt(a: Key, b: Key) -> bool
    decreases a.len()
{
    if b.len() == 0 { false } else if a.len() == 0 { true } else if a[0] == b[0] { key_lt(a.drop_first(), b.drop_first()) } else { sv_lt(a[0], b[0]) }
}
pub open spec fn key_le(a: Key, b: Key) -> bool { a =~= b || key_lt(a, b) }
/// [v] against a non-empty key
proof fn lemma_singleton_order(v: SqlValue, k: Key)
    requires k.len() >= 1,
    ensures
        key_lt(seq![v], k) <==> (sv_lt(v, k[0]) || (v == k[0] && k.len() > 1)),
        key_lt(k, seq![v]) <==> sv_lt(k[0], v),
        key_le(seq![v], k) <==> sv_le(v, k[0]),
{
    sv_total_order();
    let s = seq![v];
    assert(s[0] == v && s.len() == 1);
    assert(s.drop_first().len() == 0);
    if v == k[0] {
        assert(key_lt(s, k) == key_lt(s.drop_first(), k.drop_first()));
        assert(k.drop_first().len() == k.len() - 1);
        assert(key_lt(k, s) == key_lt(k.drop_first(), s.drop_first()));
        if k.len() == 1 { assert(s =~= k); }
    }
}

// ---------------- the index: BTreeMap<Vec<SqlValue>, Vec<usize>> as its ascending entry list --------------------
pub struct Entry { pub key: Vec<SqlValue>, pub rows: Vec<usize> }
#[verifier::external_body] pub struct KeyMap { m: u8 }
pub open spec fn in_lo(lo: Bound<&[SqlValue]>, k: Key) -> bool {
    match lo { Bound::Included(s) => key_le(s@, k), Bound::Excluded(s) => key_lt(s@, k), Bound::Unbounded => true }
}
pub open spec fn in_hi(hi: Bound<&[SqlValue]>, k: Key) -> bool {
    match hi { Bound::Included(s) => key_le(k, s@), Bound::Excluded(s) => key_lt(k, s@), Bound::Unbounded => true }
}
/// the entries of es whose key lies within the bounds, in the same order
pub open spec fn sel(es: Seq<Entry>, lo: Bound<&[SqlValue]>, hi: Bound<&[SqlValue]>) -> Seq<Entry>
    decreases es.len()
{
    if es.len() == 0 { Seq::empty() } else {
        let p = sel(es.drop_last(), lo, hi);
        if in_lo(lo, es.last().key@) && in_hi(hi, es.last().key@) { p.push(es.last()) } else { p }
    }
}
/// BTreeMap::range panics "if range start > end" and "if range start == end and both bounds are Excluded"
pub open spec fn range_ok(lo: Bound<&[SqlValue]>, hi: Bound<&[SqlValue]>) -> bool {
    match (lo, hi) {
        (Bound::Unbounded, _) => true,
        (_, Bound::Unbounded) => true,
        (Bound::Excluded(a), Bound::Excluded(b)) => key_lt(a@, b@),
        (Bound::Included(a), Bound::Included(b)) => key_le(a@, b@),
        (Bound::Included(a), Bound::Excluded(b)) => key_le(a@, b@),
        (Bound::Excluded(a), Bound::Included(b)) => key_le(a@, b@),
    }
}
impl KeyMap {
    /// all entries in ascending key order
    pub uninterp spec fn entries(&self) -> Seq<Entry>;
    /// every key has the same number (>= 1) of columns; ascending, distinct keys
    pub open spec fn wf(&self) -> bool {
        &&& forall|i: int| 0 <= i < self.entries().len() ==> (#[trigger] self.entries()[i]).key@.len() >= 1
        &&& forall|i: int, j: int| 0 <= i < self.entries().len() && 0 <= j < self.entries().len() ==> (#[trigger] self.entries()[i]).key@.len() == (#[trigger] self.entries()[j]).key@.len()
        &&& forall|i: int, j: int| 0 <= i < j < self.entries().len() ==> key_lt((#[trigger] self.entries()[i]).key@, (#[trigger] self.entries()[j]).key@)
    }
    // data.keys().next().is_some_and(|k| k.len() > 1)
    #[verifier::external_body]
    pub fn first_key_multi(&self) -> (r: bool) ensures r == (self.entries().len() > 0 && self.entries()[0].key@.len() > 1) { unimplemented!() }
    // data.range::<[SqlValue], _>((lo, hi)) collected
    #[verifier::external_body]
    pub fn range_vec(&self, lo: Bound<&[SqlValue]>, hi: Bound<&[SqlValue]>) -> (r: Vec<Entry>)
        requires range_ok(lo, hi),
        ensures r@ == sel(self.entries(), lo, hi),
    { unimplemented!() }
}

// ---------------- specification of range_scan ---------------------------------------------------------------------
/// the first column f of a key lies within the requested bounds (s, e already normalized)
pub open spec fn first_ok(s: Option<SqlValue>, e: Option<SqlValue>, is: bool, ie: bool, f: SqlValue) -> bool {
    &&& (s matches Some(sv) ==> (if is { sv_le(sv, f) } else { sv_lt(sv, f) }))
    &&& (e matches Some(ev) ==> (if ie { sv_le(f, ev) } else { sv_lt(f, ev) }))
}
/// position lists of the entries whose first key column is within the bounds, in entry (= ascending key) order
pub open spec fn flat_sel(es: Seq<Entry>, s: Option<SqlValue>, e: Option<SqlValue>, is: bool, ie: bool) -> Seq<usize>
    decreases es.len()
{
    if es.len() == 0 { Seq::empty() } else {
        let p = flat_sel(es.drop_last(), s, e, is, ie);
        if first_ok(s, e, is, ie, es.last().key@[0]) { p + es.last().rows@ } else { p }
    }
}
pub open spec fn opt_norm_spec(v: Option<&SqlValue>) -> Option<SqlValue> { match v { Some(x) => Some(norm(*x)), None => None } }

//@@ LEMMAS

#[verifier::external_body]
fn disk_range_scan(btree: &Opq, start: Option<&SqlValue>, end: Option<&SqlValue>, inclusive_start: bool, inclusive_end: bool) -> (r: Vec<usize>) { unimplemented!() }

pub enum IndexData { InMemory { data: KeyMap }, DiskBacked { btree: Opq, page_manager: Opq } }
impl IndexData {
//@@ range_scan
}

fn canary_scan(ix: &IndexData, start: Option<&SqlValue>, end: Option<&SqlValue>, is: bool, ie: bool)
    requires ix matches IndexData::InMemory { data } ==> data.wf(),
{
    let r = ix.range_scan(start, end, is, ie);
    assert(false); // CANARY
}

}
fn main() {}
'''

LEMMAS = r'''
pub open spec fn sorted_nonempty(es: Seq<Entry>) -> bool {
    &&& forall|i: int| 0 <= i < es.len() ==> (#[trigger] es[i]).key@.len() >= 1
    &&& forall|i: int, j: int| 0 <= i < j < es.len() ==> key_lt((#[trigger] es[i]).key@, (#[trigger] es[j]).key@)
}
/// first columns never decrease along an ascending entry list
proof fn lemma_first_cols_ascend(es: Seq<Entry>, i: int, j: int)
    requires sorted_nonempty(es), 0 <= i <= j < es.len(),
    ensures sv_le(es[i].key@[0], es[j].key@[0]),
{
    sv_total_order();
    if i < j { assert(key_lt(es[i].key@, es[j].key@)); }
}
/// sel keeps order and membership: every selected entry is an entry of es within the bounds
proof fn lemma_sel_sub(es: Seq<Entry>, lo: Bound<&[SqlValue]>, hi: Bound<&[SqlValue]>)
    requires sorted_nonempty(es),
    ensures
        sorted_nonempty(sel(es, lo, hi)),
        forall|i: int| 0 <= i < sel(es, lo, hi).len() ==> es.contains(#[trigger] sel(es, lo, hi)[i]) && in_lo(lo, sel(es, lo, hi)[i].key@) && in_hi(hi, sel(es, lo, hi)[i].key@),
    decreases es.len(),
{
    if es.len() > 0 {
        let t = es.drop_last();
        assert forall|i: int| 0 <= i < t.len() implies (#[trigger] t[i]).key@.len() >= 1 by { assert(t[i] == es[i]); }
        assert forall|i: int, j: int| 0 <= i < j < t.len() implies key_lt((#[trigger] t[i]).key@, (#[trigger] t[j]).key@) by { assert(t[i] == es[i] && t[j] == es[j]); }
        lemma_sel_sub(t, lo, hi);
        let p = sel(t, lo, hi);
        let r = sel(es, lo, hi);
        assert forall|i: int| 0 <= i < p.len() implies es.contains(#[trigger] p[i]) by {
            assert(t.contains(p[i]));
            let q = choose|q: int| 0 <= q < t.len() && t[q] == p[i];
            assert(es[q] == p[i]);
        }
        if in_lo(lo, es.last().key@) && in_hi(hi, es.last().key@) {
            assert(r == p.push(es.last()));
            assert(es.contains(es.last())) by { assert(es[es.len() - 1] == es.last()); }
            assert forall|i: int, j: int| 0 <= i < j < r.len() implies key_lt((#[trigger] r[i]).key@, (#[trigger] r[j]).key@) by {
                if j < p.len() { assert(r[i] == p[i] && r[j] == p[j]); }
                else {
                    assert(r[i] == p[i] && r[j] == es.last());
                    assert(t.contains(p[i]));
                    let q = choose|q: int| 0 <= q < t.len() && t[q] == p[i];
                    assert(es[q] == p[i]);
                    assert(key_lt(es[q].key@, es[es.len() - 1].key@));
                }
            }
            assert forall|i: int| 0 <= i < r.len() implies es.contains(#[trigger] r[i]) && in_lo(lo, r[i].key@) && in_hi(hi, r[i].key@) && r[i].key@.len() >= 1 by {
                if i < p.len() { assert(r[i] == p[i]); } else { assert(r[i] == es.last()); }
            }
        } else {
            assert(r == p);
        }
    }
}
/// (A) if every entry whose first column is within the requested bounds is within the BTreeMap bounds, selecting first does not change the result
proof fn lemma_sel_complete(es: Seq<Entry>, lo: Bound<&[SqlValue]>, hi: Bound<&[SqlValue]>, s: Option<SqlValue>, e: Option<SqlValue>, is: bool, ie: bool)
    requires forall|i: int| 0 <= i < es.len() && first_ok(s, e, is, ie, (#[trigger] es[i]).key@[0]) ==> in_lo(lo, es[i].key@) && in_hi(hi, es[i].key@),
    ensures flat_sel(sel(es, lo, hi), s, e, is, ie) == flat_sel(es, s, e, is, ie),
    decreases es.len(),
{
    if es.len() > 0 {
        let t = es.drop_last();
        assert forall|i: int| 0 <= i < t.len() && first_ok(s, e, is, ie, (#[trigger] t[i]).key@[0]) implies in_lo(lo, t[i].key@) && in_hi(hi, t[i].key@) by { assert(t[i] == es[i]); }
        lemma_sel_complete(t, lo, hi, s, e, is, ie);
        let p = sel(t, lo, hi);
        assert(es[es.len() - 1] == es.last());
        if in_lo(lo, es.last().key@) && in_hi(hi, es.last().key@) {
            let r = p.push(es.last());
            assert(sel(es, lo, hi) == r);
            assert(r.drop_last() =~= p);
            assert(r.last() == es.last());
        }
    }
}
/// (B) entries from position n on that are all outside the requested bounds contribute nothing
proof fn lemma_tail_outside(es: Seq<Entry>, n: int, s: Option<SqlValue>, e: Option<SqlValue>, is: bool, ie: bool)
    requires 0 <= n <= es.len(), forall|i: int| n <= i < es.len() ==> !first_ok(s, e, is, ie, (#[trigger] es[i]).key@[0]),
    ensures flat_sel(es, s, e, is, ie) == flat_sel(es.take(n), s, e, is, ie),
    decreases es.len() - n,
{
    if n == es.len() {
        assert(es.take(n) =~= es);
    } else {
        let t = es.drop_last();
        assert forall|i: int| n <= i < t.len() implies !first_ok(s, e, is, ie, (#[trigger] t[i]).key@[0]) by { assert(t[i] == es[i]); }
        lemma_tail_outside(t, n, s, e, is, ie);
        assert(t.take(n) =~= es.take(n));
        assert(es[es.len() - 1] == es.last());
    }
}
/// no first column can lie within contradictory bounds
proof fn lemma_none_inside(es: Seq<Entry>, s: Option<SqlValue>, e: Option<SqlValue>, is: bool, ie: bool)
    requires forall|f: SqlValue| !first_ok(s, e, is, ie, f),
    ensures flat_sel(es, s, e, is, ie) =~= Seq::<usize>::empty(),
    decreases es.len(),
{
    if es.len() > 0 { lemma_none_inside(es.drop_last(), s, e, is, ie); }
}
/// one more entry of the prefix
proof fn lemma_flat_step(es: Seq<Entry>, n: int, s: Option<SqlValue>, e: Option<SqlValue>, is: bool, ie: bool)
    requires 0 <= n < es.len(),
    ensures flat_sel(es.take(n + 1), s, e, is, ie) == (if first_ok(s, e, is, ie, es[n].key@[0]) { flat_sel(es.take(n), s, e, is, ie) + es[n].rows@ } else { flat_sel(es.take(n), s, e, is, ie) }),
{
    let u = es.take(n + 1);
    assert(u.drop_last() =~= es.take(n));
    assert(u.last() == es[n]);
}
'''
TEMPLATE = TEMPLATE.replace('//@@ LEMMAS', LEMMAS)


_P = 'normalized_start, normalized_end, inclusive_start, inclusive_end'
_E = 'data.entries()'

_PRE_OK = ['', r"""proof {
    sv_total_order();
    if start_key is Some && end_key is Some { lemma_singleton_order(start_key->Some_0.0@[0], end_key->Some_0.0@); }
}""", r"""proof {
    sv_total_order();
    if start_key is Some && end_key is Some { lemma_singleton_order(start_key->Some_0@[0], end_key->Some_0@); }
}"""]
_PRE = [r"""proof {
    sv_total_order();
    lemma_sel_sub(%(E)s, start_bound, Bound::Unbounded);
    assert forall|i: int| 0 <= i < %(E)s.len() && first_ok(%(P)s, (#[trigger] %(E)s[i]).key@[0]) implies in_lo(start_bound, %(E)s[i].key@) && in_hi(Bound::<&[SqlValue]>::Unbounded, %(E)s[i].key@) by {
        lemma_singleton_order(*start_val, %(E)s[i].key@);
    }
    lemma_sel_complete(%(E)s, start_bound, Bound::Unbounded, %(P)s);
    assert forall|i: int| 0 <= i < ents__@.len() implies sv_le(*start_val, (#[trigger] ents__@[i]).key@[0]) by {
        lemma_singleton_order(*start_val, ents__@[i].key@);
    }
}""", r"""proof {
    sv_total_order();
    lemma_sel_sub(%(E)s, start_bound, end_bound);
    assert forall|i: int| 0 <= i < %(E)s.len() && first_ok(%(P)s, (#[trigger] %(E)s[i]).key@[0]) implies in_lo(start_bound, %(E)s[i].key@) && in_hi(end_bound, %(E)s[i].key@) by {
        let k = %(E)s[i].key@;
        if start_key is Some { lemma_singleton_order(start_key->Some_0.0@[0], k); }
        if end_key is Some { lemma_singleton_order(end_key->Some_0.0@[0], k); }
    }
    lemma_sel_complete(%(E)s, start_bound, end_bound, %(P)s);
    assert forall|i: int| 0 <= i < ents__@.len() && normalized_start is Some implies sv_le(normalized_start->Some_0, (#[trigger] ents__@[i]).key@[0]) by {
        if start_key is Some { lemma_singleton_order(start_key->Some_0.0@[0], ents__@[i].key@); }
    }
}""", r"""proof {
    sv_total_order();
    lemma_sel_sub(%(E)s, start_bound, end_bound);
    assert forall|i: int| 0 <= i < %(E)s.len() implies (first_ok(%(P)s, (#[trigger] %(E)s[i]).key@[0]) <==> (in_lo(start_bound, %(E)s[i].key@) && in_hi(end_bound, %(E)s[i].key@))) by {
        let k = %(E)s[i].key@;
        if normalized_start is Some || normalized_end is Some { assert(%(E)s[0].key@.len() <= 1); assert(k.len() == 1); }
        if normalized_start is Some { lemma_singleton_order(normalized_start->Some_0, k); }
        if normalized_end is Some { lemma_singleton_order(normalized_end->Some_0, k); assert(seq![normalized_end->Some_0][0] == normalized_end->Some_0); }
    }
    lemma_sel_complete(%(E)s, start_bound, end_bound, %(P)s);
    assert forall|i: int| 0 <= i < ents__@.len() implies first_ok(%(P)s, (#[trigger] ents__@[i]).key@[0]) by {
        assert(%(E)s.contains(ents__@[i]));
        let q = choose|q: int| 0 <= q < %(E)s.len() && %(E)s[q] == ents__@[i];
        assert(first_ok(%(P)s, %(E)s[q].key@[0]));
    }
}"""]
_PRE = [t % dict(E=_E, P=_P) for t in _PRE]
_STEP = 'proof { sv_total_order(); lemma_flat_step(ents__@, nd__, %s); nd__ = nd__ + 1; }' % _P
_BRK = ('proof { sv_total_order(); let b__ = ri__ as int - 1; '
        'assert forall|j: int| b__ <= j < ents__@.len() implies !first_ok(%(P)s, (#[trigger] ents__@[j]).key@[0]) by { lemma_first_cols_ascend(ents__@, b__, j); } '
        'lemma_tail_outside(ents__@, b__, %(P)s); nd__ = ents__@.len() as int; assert(ents__@.take(nd__) =~= ents__@); }') % dict(P=_P)
_NONE = 'proof { sv_total_order(); lemma_none_inside(%s, opt_norm_spec(start), opt_norm_spec(end), inclusive_start, inclusive_end); }' % _E   # parameters only: valid wherever the guard stands


class _Nth:
    """refn helper: the k-th match gets the k-th text"""
    def __init__(self, fn):
        self.k, self.fn = 0, fn

    def __call__(self, m):
        r = self.fn(self.k, m)
        self.k += 1
        return r


def _loop(k, m):
    # for (K, R) in data.range::<[SqlValue], _>((LO, HI)) {   ->   index loop over the collected entries (R10) + the proof steps of loop k
    kv, rv, lo, hi = m.group(1), m.group(2), m.group(3), m.group(4)
    return ('%s let ents__ = data.range_vec(%s, %s); %s let ghost mut nd__: int = 0; let mut ri__: usize = 0; '
            'while ri__ < ents__.len() { let %s = &ents__[ri__].key; let %s = &ents__[ri__].rows; ri__ = ri__ + 1;' % (_PRE_OK[k], lo, hi, _PRE[k], kv, rv))


ITEMS = {
    'range_scan': dict(
        file='crates/vibesql-storage/src/database/indexes/range_scan.rs', path='impl IndexData::fn range_scan', ret='r',
        rewrites=[
            ('re', r'use std::ops::Bound;', '', 1),
            ('re', r'(?s)IndexData::DiskBacked \{ btree, \.\. \} => \{.*\}(\s*\}\s*\}\s*)$', r'IndexData::DiskBacked { btree, .. } => disk_range_scan(btree, start, end, inclusive_start, inclusive_end),\1', 1),
            ('re', r'(start|end)\.map\(normalize_for_comparison\)', r'opt_norm(\1)', 2),
            ('re', r'data\.keys\(\)\.next\(\)\.is_some_and\(\|k\| k\.len\(\) > 1\)', 'data.first_key_multi()', 1),
            ('refn', r'for \((\w+), (\w+)\) in data\.range::<\[SqlValue\], _>\(\((\w+), ([\w:]+)\)\) \{', _Nth(_loop), 3),
            ('re', r'matching_row_indices\.extend\(row_indices\);', 'vec_extend(&mut matching_row_indices, row_indices); ' + _STEP, 3),
            ('re', r'\bcontinue;', '{ ' + _STEP + ' continue; }', None),
            ('re', r'\bbreak;', '{ ' + _BRK + ' break; }', None),
            ('refn', r'return Vec::new\(\);', _Nth(lambda k, m: '{ ' + (_NONE if k < 2 else _NONE.replace('proof { ', 'proof { assert(start_slice@[0] == end_slice@[0]); ', 1)) + ' return Vec::new(); }'), 4),
            ('re', r'key_values\.first\(\)', 'vec_first(key_values)', None),
            ('re', r'\bstart_val == end_val\b', 'sv_eq(start_val, end_val)', None),
            ('re', r'&key_values\[0\] != start_val', '!sv_eq(&key_values[0], start_val)', None),
            ('re', r'\bstart_val > end_val\b', 'sv_gt(start_val, end_val)', None),
            ('re', r'\bfirst == (start_val|end_val)\b', r'sv_eq(first, \1)', None),
            ('re', r'\bfirst > end_val\b', 'sv_gt(first, end_val)', None),
            ('re', r'\bstart_slice == end_slice\b', 'slice_eq(start_slice, end_slice)', None),
            ('re', r'vec!\[(v\.clone\(\)|incremented|start_val\.clone\(\))\]', r'vec1(\1)', None),
            # Option::map / and_then with a closure -> match (R13)
            ('re', r'(?s)let start_key = normalized_start\.as_ref\(\)\.map\(\|v\| \{(.*?)\n {24}\}\);', r'let start_key = match normalized_start.as_ref() { Some(v) => Some({\1}), None => None };', 1),
            ('re', r'(?s)let end_key = normalized_end\.as_ref\(\)\.and_then\(\|v\| \{(.*?)\n {24}\}\);', r'let end_key = match normalized_end.as_ref() { Some(v) => {\1}, None => None };', 1),
            ('re', r'try_increment_sqlvalue\(v\)\.map\(\|incremented\| \((vec1\(incremented\)), false\)\)', r'(match try_increment_sqlvalue(v) { Some(incremented) => Some((\1, false)), None => None })', 1),
            ('re', r'normalized_(start|end)\.as_ref\(\)\.map\(\|v\| vec1\(v\.clone\(\)\)\)', r'(match normalized_\1.as_ref() { Some(v) => Some(vec1(v.clone())), None => None })', 2),
        ],
        loops={0: """
                            invariant_except_break nd__ == ri__ as int,
                            invariant
                                ri__ <= ents__@.len(), 0 <= nd__ <= ents__@.len(),
                                matching_row_indices@ == flat_sel(ents__@.take(nd__), %(P)s),
                                sorted_nonempty(ents__@),
                                normalized_start == Some(*start_val), normalized_end == Some(*end_val), *start_val == *end_val, inclusive_start, inclusive_end,
                                forall|i: int| 0 <= i < ents__@.len() ==> sv_le(*start_val, (#[trigger] ents__@[i]).key@[0]),
                            ensures nd__ == ents__@.len(),
                            decreases ents__@.len() - ri__,
""" % dict(P=_P), 1: """
                            invariant_except_break nd__ == ri__ as int,
                            invariant
                                ri__ <= ents__@.len(), 0 <= nd__ <= ents__@.len(),
                                matching_row_indices@ == flat_sel(ents__@.take(nd__), %(P)s),
                                sorted_nonempty(ents__@),
                                normalized_start is Some ==> forall|i: int| 0 <= i < ents__@.len() ==> sv_le(normalized_start->Some_0, (#[trigger] ents__@[i]).key@[0]),
                            ensures nd__ == ents__@.len(),
                            decreases ents__@.len() - ri__,
""" % dict(P=_P), 2: """
                    invariant
                        ri__ <= ents__@.len(), nd__ == ri__ as int,
                        matching_row_indices@ == flat_sel(ents__@.take(nd__), %(P)s),
                        forall|i: int| 0 <= i < ents__@.len() ==> first_ok(%(P)s, (#[trigger] ents__@[i]).key@[0]),
                    decreases ents__@.len() - ri__,
""" % dict(P=_P)},
        proofs=[('@afterloop0', 'proof { assert(ents__@.take(ents__@.len() as int) =~= ents__@); }'),
                ('@afterloop1', 'proof { assert(ents__@.take(ents__@.len() as int) =~= ents__@); }'),
                ('@afterloop2', 'proof { assert(ents__@.take(ents__@.len() as int) =~= ents__@); }')],
        contract='''
        requires
            self matches IndexData::InMemory { data } ==> data.wf(),
        ensures
            self matches IndexData::InMemory { data } ==>
                r@ == flat_sel(data.entries(), opt_norm_spec(start), opt_norm_spec(end), inclusive_start, inclusive_end),
'''),
}

OBLIGATIONS = {
    'range_scan': ['post:exactly_the_keys_whose_first_column_is_within_the_bounds_in_ascending_key_order', 'safety:btreemap_range_never_panics_index_in_bounds', 'proof:loop_invariants_and_termination'],
    'lemma_singleton_order': ['lemma:one_column_bound_against_a_key_compares_by_the_first_column'],
    'lemma_first_cols_ascend': ['lemma:first_columns_never_decrease_along_ascending_keys'],
    'lemma_sel_sub': ['lemma:btreemap_range_result_is_an_ordered_sublist_within_the_bounds'],
    'lemma_sel_complete': ['lemma:selecting_by_btreemap_bounds_loses_no_key_within_the_requested_bounds'],
    'lemma_tail_outside': ['lemma:entries_after_the_break_point_contribute_nothing'],
    'lemma_flat_step': ['lemma:prefix_step'],
    'lemma_none_inside': ['lemma:contradictory_bounds_select_nothing'],
}
CANARIES = ['canary_scan']
TRUSTED = [
    'SqlValue fully opaque (external_body); norm = normalize_for_comparison uninterpreted; sv_le = SqlValue::cmp assumed a total order (external_body proof fn sv_total_order; laws: unit T-laws - antisymmetry with respect to == fails for INTERVAL values, known finding KF-C21, which are outside this claim); external_body sv_eq / sv_gt / slice_eq: ==, > on normalized SqlValues and == on key slices agree with that order',
    'external_body smart_increment_value / try_increment_sqlvalue: a returned value is the EXACT successor (nothing strictly between) - proved for the float variants in unit I-kernels, assumed for strings (s + NUL) and FALSE -> TRUE; the integer variants (+1, unchecked) do not occur after normalization',
    'external_body KeyMap (BTreeMap<Vec<SqlValue>, Vec<usize>>) seen as its ascending entry list entries(); range_vec = BTreeMap::range collected: REQUIRES the documented no-panic condition (start <= end, not both Excluded and equal), ENSURES exactly the entries within the bounds in order (spec sel); first_key_multi = keys().next().is_some_and(|k| k.len() > 1)',
    'key order: the lexicographic order key_lt / key_le DEFINED here over sv_le is what Vec<SqlValue>: Ord implements (std); precondition wf: every key has the same number (>= 1) of columns and entries() is strictly ascending (BTreeMap invariant; column count from the index definition)',
    'external_body opt_norm (Option::map(normalize_for_comparison)), vec1 (vec![x]), vec_first (slice::first), vec_extend (Vec::extend), SqlValue::clone; Bound re-declared with the shape of std::ops::Bound',
    'R10: the three `for (k, rows) in data.range(..)` loops become index loops over the collected entries; R13: Option::map / and_then with a closure written as a match; the proof steps (ghost counter nd__, lemma calls) are spliced in by the rewrites next to vec_extend / continue / break / return Vec::new()',
    'the DiskBacked arm is replaced by an opaque call (disk_range_scan over the opaque type Opq): NOT under contract - its exclusive-start fallback for values without a successor has no first-column check (observed, DESIGN 9b)',
    'that the executor passes the bounds extract_range_predicate produced, and that the positions index the rows of the same table state, is outside this unit (units I-range, K-undo / I-resolve)',
]
