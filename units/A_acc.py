NAME = 'A-acc'
PROPERTIES = ['C07', 'C01']
ENGINE = 'verus'
CLASS = 'U'
DOC = ('AggregateAccumulator::{accumulate, finalize} as a STEP contract over an arbitrary pre-state: accumulate(v) is the fold step of the SQL '
       'definition (COUNT counts non-NULL, SUM/AVG add non-NULL numerics, MIN/MAX keep the extreme of non-NULL comparable values, DISTINCT variants '
       'act once per distinct value), finalize is COUNT n / NULL iff nothing was accumulated. "For any input multiset" follows by induction (lemma).')

TEMPLATE = r'''
use vstd::prelude::*;
verus! {

#[derive(PartialEq, Eq, Structural)]
pub enum Ordering { Less, Equal, Greater }

// R2: SqlValue collapsed to the variants these functions construct or inspect; every other variant is the opaque payload `Other`
#[verifier::external_body] pub struct Val { v: u64 }
pub enum SqlValue { Null, Integer(i64), Other(Val) }
impl SqlValue {
    pub open spec fn is_null_spec(&self) -> bool { *self is Null }
    #[verifier::when_used_as_spec(is_null_spec)]
    pub fn is_null(&self) -> (r: bool) ensures r == (*self is Null) { matches!(self, SqlValue::Null) }
    #[verifier::external_body]
    pub fn clone(&self) -> (r: SqlValue) ensures r == *self { unimplemented!() }
}
// Option<SqlValue>::clone().unwrap_or(d)
#[verifier::external_body]
fn opt_clone_unwrap_or(o: &Option<SqlValue>, d: SqlValue) -> (r: SqlValue) ensures r == (if *o is Some { o.unwrap() } else { d }) { unimplemented!() }

// helper functions of aggregates.rs as uninterpreted functions (their own contracts: Kani unit A-helpers / S-cmpsort)
pub uninterp spec fn numeric(v: SqlValue) -> bool;
pub uninterp spec fn comparable(v: SqlValue) -> bool;
pub uninterp spec fn add(a: SqlValue, b: SqlValue) -> SqlValue;
pub uninterp spec fn div(a: SqlValue, n: int) -> SqlValue;
pub uninterp spec fn cmp_spec(a: SqlValue, b: SqlValue) -> Ordering;
#[verifier::external_body] fn is_numeric_value(v: &SqlValue) -> (r: bool) ensures r == numeric(*v) { unimplemented!() }
#[verifier::external_body] fn is_comparable_value(v: &SqlValue) -> (r: bool) ensures r == comparable(*v) { unimplemented!() }
#[verifier::external_body] fn add_sql_values(a: &SqlValue, b: &SqlValue) -> (r: SqlValue) ensures r == add(*a, *b) { unimplemented!() }
#[verifier::external_body] fn divide_sql_value(a: &SqlValue, n: i64) -> (r: SqlValue) ensures r == div(*a, n as int) { unimplemented!() }
#[verifier::external_body] fn compare_sql_values(a: &SqlValue, b: &SqlValue) -> (r: Ordering) ensures r == cmp_spec(*a, *b) { unimplemented!() }

// Option<HashSet<SqlValue>> as ONE abstract value: None, or a finite set (key model: Eq/Hash laws of SqlValue, unit T-laws / C21).
// `seen.as_mut().unwrap()` panics on None: that panic is the precondition of contains/insert.
#[verifier::external_body] pub struct SeenSet { s: Vec<u8> }
impl SeenSet {
    pub uninterp spec fn some(&self) -> bool;
    pub uninterp spec fn set(&self) -> Set<SqlValue>;
    #[verifier::external_body]
    pub fn contains(&self, v: &SqlValue) -> (r: bool) requires self.some() ensures r == self.set().contains(*v) { unimplemented!() }
    #[verifier::external_body]
    pub fn insert(&mut self, v: SqlValue) requires old(self).some()
        ensures final(self).some(), final(self).set() == old(self).set().insert(v), old(self).set().finite() ==> final(self).set().finite()
    { unimplemented!() }
}

//@@ AggregateAccumulator

// ---------------- representation invariant and the SQL fold step ---------------------------------------
spec fn seen_of(a: AggregateAccumulator) -> SeenSet {
    match a {
        AggregateAccumulator::Count { seen, .. } => seen, AggregateAccumulator::Sum { seen, .. } => seen, AggregateAccumulator::Avg { seen, .. } => seen,
        AggregateAccumulator::Min { seen, .. } => seen, AggregateAccumulator::Max { seen, .. } => seen,
    }
}
spec fn distinct_of(a: AggregateAccumulator) -> bool {
    match a {
        AggregateAccumulator::Count { distinct, .. } => distinct, AggregateAccumulator::Sum { distinct, .. } => distinct, AggregateAccumulator::Avg { distinct, .. } => distinct,
        AggregateAccumulator::Min { distinct, .. } => distinct, AggregateAccumulator::Max { distinct, .. } => distinct,
    }
}
spec fn count_of(a: AggregateAccumulator) -> int {
    match a { AggregateAccumulator::Count { count, .. } => count as int, AggregateAccumulator::Sum { count, .. } => count as int, AggregateAccumulator::Avg { count, .. } => count as int, _ => 0 }
}
/// established by AggregateAccumulator::new: DISTINCT accumulators carry a set
spec fn wf(a: AggregateAccumulator) -> bool {
    (distinct_of(a) ==> seen_of(a).some()) && count_of(a) < i64::MAX
}
/// does this input value take part in the aggregate at all? (NULLs never do; DISTINCT: only the first occurrence)
spec fn takes_part(a: AggregateAccumulator, v: SqlValue) -> bool {
    !(v is Null) && (distinct_of(a) ==> !seen_of(a).set().contains(v)) && match a {
        AggregateAccumulator::Count { .. } => true,
        AggregateAccumulator::Sum { .. } | AggregateAccumulator::Avg { .. } => numeric(v),
        AggregateAccumulator::Min { .. } | AggregateAccumulator::Max { .. } => comparable(v),
    }
}
/// the SQL fold step on the aggregate's value (count / running sum / running extreme)
spec fn step_ok(a: AggregateAccumulator, v: SqlValue, b: AggregateAccumulator) -> bool {
    match (a, b) {
        (AggregateAccumulator::Count { count: c0, .. }, AggregateAccumulator::Count { count: c1, .. }) =>
            c1 == (if takes_part(a, v) { c0 + 1 } else { c0 as int }),
        (AggregateAccumulator::Sum { sum: s0, count: c0, .. }, AggregateAccumulator::Sum { sum: s1, count: c1, .. }) =>
            if takes_part(a, v) { s1 == add(s0, v) && c1 == c0 + 1 } else { s1 == s0 && c1 == c0 },
        (AggregateAccumulator::Avg { sum: s0, count: c0, .. }, AggregateAccumulator::Avg { sum: s1, count: c1, .. }) =>
            if takes_part(a, v) { s1 == add(s0, v) && c1 == c0 + 1 } else { s1 == s0 && c1 == c0 },
        (AggregateAccumulator::Min { value: m0, .. }, AggregateAccumulator::Min { value: m1, .. }) =>
            if takes_part(a, v) { m1 == (if m0 is None || cmp_spec(v, m0.unwrap()) == Ordering::Less { Some(v) } else { m0 }) } else { m1 == m0 },
        (AggregateAccumulator::Max { value: m0, .. }, AggregateAccumulator::Max { value: m1, .. }) =>
            if takes_part(a, v) { m1 == (if m0 is None || cmp_spec(v, m0.unwrap()) == Ordering::Greater { Some(v) } else { m0 }) } else { m1 == m0 },
        _ => false,   // the aggregate never changes its kind
    }
}
/// DISTINCT bookkeeping: the set grows by exactly the values that took part; the flag never changes
spec fn seen_ok(a: AggregateAccumulator, v: SqlValue, b: AggregateAccumulator) -> bool {
    distinct_of(b) == distinct_of(a) && (distinct_of(a) ==>
        seen_of(b).some() && seen_of(b).set() == (if takes_part(a, v) { seen_of(a).set().insert(v) } else { seen_of(a).set() }))
}

impl AggregateAccumulator {
//@@ accumulate

//@@ finalize
}

// ---------------- "for any input": COUNT(x) over a whole input sequence, by induction over the step contract -------------
spec fn nonnull_count(s: Seq<SqlValue>) -> int decreases s.len() {
    if s.len() == 0 { 0 } else { nonnull_count(s.drop_last()) + (if s.last() is Null { 0int } else { 1int }) }
}
/// any sequence of states related by the step contract, starting from COUNT 0 (non-DISTINCT), ends with the number of non-NULL inputs
proof fn lemma_count_is_number_of_non_null(states: Seq<AggregateAccumulator>, input: Seq<SqlValue>)
    requires
        states.len() == input.len() + 1,
        states[0] matches AggregateAccumulator::Count { count, distinct, .. } && count == 0 && !distinct,
        forall|i: int| 0 <= i < input.len() ==> step_ok(#[trigger] states[i], input[i], states[i + 1]) && seen_ok(states[i], input[i], states[i + 1]),
    ensures
        states.last() matches AggregateAccumulator::Count { count, .. } && count == nonnull_count(input),
    decreases input.len()
{
    if input.len() > 0 {
        let n = input.len() as int;
        lemma_count_is_number_of_non_null(states.drop_last(), input.drop_last());
        assert(states.drop_last().last() == states[n - 1]);
        assert(step_ok(states[n - 1], input[n - 1], states[n]));
        assert(seen_ok(states[n - 2 + 1], input[n - 1], states[n]));
        assert forall|i: int| 0 <= i < n - 1 implies !distinct_of(#[trigger] states[i + 1]) by { lemma_not_distinct(states, input, i + 1); }
        lemma_not_distinct(states, input, n - 1);
    }
}
proof fn lemma_not_distinct(states: Seq<AggregateAccumulator>, input: Seq<SqlValue>, k: int)
    requires
        states.len() == input.len() + 1, 0 <= k <= input.len(), !distinct_of(states[0]),
        forall|i: int| 0 <= i < input.len() ==> step_ok(#[trigger] states[i], input[i], states[i + 1]) && seen_ok(states[i], input[i], states[i + 1]),
    ensures !distinct_of(states[k])
    decreases k
{
    if k > 0 { lemma_not_distinct(states, input, k - 1); assert(seen_ok(states[k - 1], input[k - 1], states[k])); }
}

fn canary_accumulate(a: &mut AggregateAccumulator, v: &SqlValue)
    requires wf(*old(a))
{
    a.accumulate(v);
    assert(false); // CANARY
}
fn canary_finalize(a: &AggregateAccumulator)
{
    let r = a.finalize();
    assert(false); // CANARY
}

}
fn main() {}
'''

_F = 'crates/vibesql-executor/src/select/grouping/aggregates.rs'
_TY = [('re', r'Option<HashSet<vibesql_types::SqlValue>>', 'SeenSet', None), ('re', r'vibesql_types::SqlValue', 'SqlValue', None)]
ITEMS = {
    'AggregateAccumulator': dict(file=_F, path='enum AggregateAccumulator', rewrites=_TY),
    'accumulate': dict(
        file=_F, path='impl AggregateAccumulator::fn accumulate',
        rewrites=_TY + [
            # `seen.as_mut().unwrap()`: the Option<HashSet> is one abstract SeenSet whose operations require "is Some" (the unwrap panic as precondition)
            ('re', r'let seen_set = seen\.as_mut\(\)\.unwrap\(\);', 'let seen_set = seen;', 5),
        ],
        contract='''
    requires wf(*old(self)),
    ensures
        step_ok(*old(self), *value, *final(self)),
        seen_ok(*old(self), *value, *final(self)),
        distinct_of(*final(self)) ==> seen_of(*final(self)).some(),
'''),
    'finalize': dict(
        file=_F, path='impl AggregateAccumulator::fn finalize', ret='r',
        rewrites=_TY + [('re', r'value\.clone\(\)\.unwrap_or\(SqlValue::Null\)', 'opt_clone_unwrap_or(value, SqlValue::Null)', 2)],
        contract='''
    ensures
        match *self {
            AggregateAccumulator::Count { count, .. } => r == SqlValue::Integer(count),                       // COUNT is never NULL
            AggregateAccumulator::Sum { sum, count, .. } => r == (if count == 0 { SqlValue::Null } else { sum }),   // NULL iff nothing accumulated
            AggregateAccumulator::Avg { sum, count, .. } => r == (if count == 0 { SqlValue::Null } else { div(sum, count as int) }),
            AggregateAccumulator::Min { value, .. } => r == (if value is None { SqlValue::Null } else { value.unwrap() }),
            AggregateAccumulator::Max { value, .. } => r == (if value is None { SqlValue::Null } else { value.unwrap() }),
        },
'''),
}

OBLIGATIONS = {
    'accumulate': ['post:sql_fold_step_count_sum_avg_min_max_distinct', 'safety:no_overflow_no_unwrap_on_none'],
    'finalize': ['post:count_never_null_others_null_iff_empty', 'safety:no_panic'],
    'lemma_count_is_number_of_non_null': ['post:count_over_any_input_sequence'],
    'lemma_not_distinct': ['post:distinct_flag_constant'],
}
CANARIES = ['canary_accumulate', 'canary_finalize']
TRUSTED = [
    'external_body Val: every SqlValue variant other than Null/Integer is an opaque payload (the functions only call is_null/clone on values)',
    'external_body SqlValue::clone, opt_clone_unwrap_or: Clone is a copy; Option::clone().unwrap_or',
    'external_body is_numeric_value / is_comparable_value / add_sql_values / divide_sql_value / compare_sql_values: uninterpreted (contracts: Kani units E-ops, S-cmpsort)',
    'external_body SeenSet (contains, insert): Option<HashSet<SqlValue>> as an abstract optional set; key model = Eq/Hash laws of SqlValue (unit T-laws, C21)',
    'precondition wf: DISTINCT accumulators carry Some(set) (established by AggregateAccumulator::new) and count < i64::MAX',
    'GROUP BY key hashing (group_rows), execute_with_aggregation (one row for empty input), combine() are not under contract',
]
