NAME = 'P-alloc'
PROPERTIES = ['C20', 'C18']
ENGINE = 'verus'
CLASS = 'U'
DOC = ('read_string / write_string of the binary format over an abstract reader: read_string is total (Ok or Err, no panic), consumes exactly 4 + len bytes '
       'on success, returns the bytes written by write_string, and never requests an allocation larger than the remaining input (an up-front '
       'vec![0; n] is only admissible with n <= remaining: that precondition IS the property).')

TEMPLATE = r'''
use vstd::prelude::*;
verus! {

// std::io::Read over a byte source: the view is the bytes not yet consumed
#[verifier::external_body] pub struct Reader { r: Vec<u8> }
impl View for Reader { type V = Seq<u8>; uninterp spec fn view(&self) -> Seq<u8>; }
#[verifier::external_body] pub struct Msg { m: u8 }
pub enum StorageError { NotImplemented(Msg) }
#[verifier::external_body] fn err_msg() -> (r: Msg) { unimplemented!() }

pub open spec fn le_u32(s: Seq<u8>) -> int { s[0] as int + (s[1] as int) * 256 + (s[2] as int) * 65536 + (s[3] as int) * 16777216 }
pub uninterp spec fn is_utf8(s: Seq<u8>) -> bool;
#[verifier::external_body] pub struct Str { s: String }
impl View for Str { type V = Seq<u8>; uninterp spec fn view(&self) -> Seq<u8>; }

// read_u32 (io.rs, proved total by the Kani unit P-codec): 4 little-endian bytes or an error
#[verifier::external_body]
fn read_u32(reader: &mut Reader) -> (r: Result<u32, StorageError>)
    ensures match r {
        Ok(v) => old(reader)@.len() >= 4 && v as int == le_u32(old(reader)@.subrange(0, 4)) && final(reader)@ == old(reader)@.subrange(4, old(reader)@.len() as int),
        Err(_) => old(reader)@.len() < 4,
    }
{ unimplemented!() }
// R4: reader.take(n).read_to_end(&mut buf).map_err(..)  - reads min(n, remaining) bytes, growing buf as they arrive
#[verifier::external_body]
fn take_read_to_end(reader: &mut Reader, n: u64, buf: &mut Vec<u8>) -> (r: Result<usize, StorageError>)
    ensures match r {
        Ok(k) => k as int == (if (n as int) <= old(reader)@.len() { n as int } else { old(reader)@.len() as int })
            && final(buf)@ == old(buf)@ + old(reader)@.subrange(0, k as int) && final(reader)@ == old(reader)@.subrange(k as int, old(reader)@.len() as int),
        Err(_) => true,
    }
{ unimplemented!() }
// R4: reader.read_exact(&mut buf).map_err(..)
#[verifier::external_body]
fn read_exact_into(reader: &mut Reader, buf: &mut Vec<u8>) -> (r: Result<(), StorageError>)
    ensures final(buf)@.len() == old(buf)@.len(), match r {
        Ok(_) => old(buf)@.len() <= old(reader)@.len() && final(buf)@ == old(reader)@.subrange(0, old(buf)@.len() as int)
            && final(reader)@ == old(reader)@.subrange(old(buf)@.len() as int, old(reader)@.len() as int),
        Err(_) => old(buf)@.len() > old(reader)@.len(),
    }
{ unimplemented!() }
// an up-front zeroed allocation of n bytes: admissible only if the input can still supply n bytes (THE PROPERTY as a precondition)
#[verifier::external_body]
fn vec_zeroed(reader: &Reader, n: usize) -> (r: Vec<u8>)
    requires n <= reader@.len()
    ensures r@.len() == n
{ unimplemented!() }
// R4/R7: String::from_utf8(buf).map_err(..)
#[verifier::external_body]
fn str_from_utf8(v: Vec<u8>) -> (r: Result<Str, StorageError>)
    ensures match r { Ok(s) => s@ == v@ && is_utf8(v@), Err(_) => !is_utf8(v@) }
{ unimplemented!() }

//@@ read_string

fn canary_read_string(reader: &mut Reader)
{
    let r = read_string(reader);
    assert(false); // CANARY
}

}
fn main() {}
'''

_F = 'crates/vibesql-storage/src/persistence/binary/io.rs'
_ERR = ('re', r'StorageError::NotImplemented\(\s*(?:"[^"]*"\.to_string\(\)|format!\("[^"]*"(?:,\s*\w+)*\))\s*,?\s*\)', 'StorageError::NotImplemented(err_msg())', None)
ITEMS = {
    'read_string': dict(
        file=_F, path='fn read_string', ret='res',
        rewrites=[
            ('lit', 'fn read_string<R: Read>(reader: &mut R) -> Result<String, StorageError>', 'fn read_string(reader: &mut Reader) -> Result<Str, StorageError>', 1),
            _ERR,
            # the two ways of filling the buffer (R4 shapes; either may occur)
            ('re', r'reader\s*\.take\(([^()]*)\)\s*\.read_to_end\(&mut (\w+)\)\s*\.map_err\(\|e\| StorageError::NotImplemented\(err_msg\(\)\)\)', r'take_read_to_end(reader, \1, &mut \2)', None),
            ('re', r'reader\s*\.read_exact\(&mut (\w+)\)\s*\.map_err\(\|e\| StorageError::NotImplemented\(err_msg\(\)\)\)', r'read_exact_into(reader, &mut \1)', None),
            ('re', r'vec!\[0u8; ([^\]]+)\]', r'vec_zeroed(reader, \1)', None),
            ('re', r'String::from_utf8\((\w+)\)\s*\.map_err\(\|e\| StorageError::NotImplemented\(err_msg\(\)\)\)', r'str_from_utf8(\1)', 1),
        ],
        contract='''
    ensures match res {
        // exactly the length-prefixed string is consumed and returned
        Ok(s) => old(reader)@.len() >= 4 && old(reader)@.len() >= 4 + le_u32(old(reader)@.subrange(0, 4))
            && s@ == old(reader)@.subrange(4, 4 + le_u32(old(reader)@.subrange(0, 4)))
            && final(reader)@ == old(reader)@.subrange(4 + le_u32(old(reader)@.subrange(0, 4)), old(reader)@.len() as int),
        Err(_) => true,
    },
'''),
}
OBLIGATIONS = {
    'read_string': ['post:consumes_exactly_the_prefixed_string', 'safety:no_panic_no_overflow_allocation_bounded_by_remaining_input'],
}
CANARIES = ['canary_read_string']
TRUSTED = [
    'external_body Reader / read_u32 / take_read_to_end / read_exact_into: std::io::Read over a byte source (documented behaviour); read_u32 itself is proved by Kani unit P-codec',
    'external_body vec_zeroed: vec![0u8; n]; its precondition n <= remaining input is the property "no allocation far beyond the file size"',
    'external_body Str / str_from_utf8 / Msg / err_msg: String::from_utf8, error message text',
    'catalog/data readers that loop on attacker-controlled counts are not under contract',
]
