"""P-val / P-hdr / P-total : binary value codec (Kani, in place)."""
NAME = 'P-codec'
PROPERTIES = ['C18', 'C20']
ENGINE = 'kani'
CLASS = 'C'
CRATE = 'vibesql-storage'
MODULE = 'verif_kani_persist'
UNWIND = 4
HARNESS_FILE = 'kani/storage/persist.rs'
DOC = 'read_sql_value(write_sql_value(v)) == v bitwise with exact consumption for every scalar tag; TypeTag inverse on all 256 codes; header round trip; readers total on truncated/arbitrary bytes'
_F = 'crates/vibesql-storage/src/persistence/binary/'
FUNCTIONS = [
    dict(file=_F + 'value.rs', path='fn write_sql_value'),
    dict(file=_F + 'value.rs', path='fn read_sql_value'),
    dict(file=_F + 'format.rs', path='impl TypeTag::fn from_u8'),
    dict(file=_F + 'format.rs', path='fn write_header'),
    dict(file=_F + 'format.rs', path='fn read_header'),
] + [dict(file=_F + 'io.rs', path='fn %s' % f) for f in
     ['read_u8', 'read_u32', 'write_u32', 'read_u64', 'write_u64', 'read_i16', 'write_i16', 'read_i64', 'write_i64',
      'read_f32', 'write_f32', 'read_f64', 'write_f64', 'read_bool', 'write_bool']]
_TAGS = [('null', 0), ('smallint', 2), ('integer', 8), ('bigint', 8), ('unsigned', 8), ('numeric', 8), ('float', 4), ('real', 4), ('double', 8), ('boolean', 1)]
HARNESSES = {}
# C18
for t, _ in _TAGS:
    HARNESSES['p_val_' + t] = dict(fn='write_sql_value/read_sql_value', clause='roundtrip_bitwise_exact_consumption[%s]' % t, props=['C18'])
HARNESSES['p_val_tag_inverse_all_codes'] = dict(fn='TypeTag::from_u8', clause='inverse_of_as_u8_on_all_256_codes', props=['C18', 'C20'])
HARNESSES['p_hdr_roundtrip'] = dict(fn='write_header/read_header', clause='roundtrip_16_bytes', props=['C18'])
# C20
for t, size in _TAGS:
    HARNESSES['p_total_value_' + t] = dict(fn='read_sql_value', clause='total_no_panic_no_overread_truncated_is_error[%s,len=1..%d]' % (t, size + 2), props=['C20'])
for ln in (0, 4, 5, 6, 7, 15, 16, 17):
    HARNESSES['p_total_header_len%d' % ln] = dict(fn='read_header', clause='total[len=%d]' % ln, props=['C20'])
HARNESSES['p_canary_must_fail'] = dict(fn='canary', clause='must_fail', canary=True)
TRUSTED = [
    'std: impl Read for &[u8] / Write for &mut [u8], to_le_bytes/from_le_bytes',
    'kani::stub alloc::fmt::format -> empty String on error paths (no obligation inspects message text)',
    'strings, temporals (to_string/parse), catalog, rows, JSON, compression: not under contract',
    'P-total: tag and length are case-split into concrete values outside the solver (every scalar tag x every length 1..size+2); payload bytes symbolic',
    'P-total: empty input and unknown-tag inputs to read_sql_value are NOT covered (CBMC does not finish on the early-return path; TypeTag::from_u8 itself is proved total on all 256 codes)',
]
