NAME = 'G-group'
PROPERTIES = ['C07']
ENGINE = 'verus'
CLASS = 'U'
DOC = ('group_rows (select/grouping/hash.rs): GROUP BY is a PARTITION of the input by key - each group holds exactly the input rows whose key '
       'equals the group key (in input order) and is non-empty, no two groups share a key (so NULL keys form ONE group), and every input row\'s key '
       'has its group - for every input and every list of grouping expressions.')

TEMPLATE = r'''
use vstd::prelude::*;
verus! {

#[verifier::external_body] pub struct Val { v: u8 }
pub enum SqlValue { Null, V(Val) }
#[verifier::external_body] pub struct Expression { e: u8 }
#[verifier::external_body] pub struct Row { r: u8 }
impl Row { #[verifier::external_body] pub fn clone(&self) -> (r: Row) ensures r == *self { unimplemented!() } }
#[verifier::external_body] pub struct ExecutorError { e: u8 }
pub type GroupedRows = Vec<(Vec<SqlValue>, Vec<Row>)>;

pub struct CombinedExpressionEvaluator { pub o: u8 }
pub uninterp spec fn eval_spec(ev: &CombinedExpressionEvaluator, e: Expression, row: Row) -> Result<SqlValue, ExecutorError>;
impl CombinedExpressionEvaluator {
    #[verifier::external_body]
    pub fn eval(&self, e: &Expression, row: &Row) -> (r: Result<SqlValue, ExecutorError>) ensures r == eval_spec(self, *e, *row) { unimplemented!() }
    // clears a cache of deterministic sub-expressions: no effect on the value of eval (ASSUMED)
    #[verifier::external_body] pub fn clear_cse_cache(&self) { unimplemented!() }
}
pub struct SelectExecutor { pub o: u8 }
impl SelectExecutor {
    #[verifier::external_body] pub fn check_timeout(&self) -> (r: Result<(), ExecutorError>) { unimplemented!() }
}

/// the GROUP BY key of a row: the values of the grouping expressions (when all evaluate)
pub open spec fn key_of(ev: &CombinedExpressionEvaluator, exprs: Seq<Expression>, row: Row) -> Seq<SqlValue> {
    Seq::new(exprs.len(), |j: int| eval_spec(ev, exprs[j], row)->Ok_0)
}
pub open spec fn key_ok(ev: &CombinedExpressionEvaluator, exprs: Seq<Expression>, row: Row) -> bool {
    forall|j: int| 0 <= j < exprs.len() ==> (#[trigger] eval_spec(ev, exprs[j], row)) is Ok
}
/// the rows among the first n whose key is k, in input order
pub open spec fn rows_with_key(ev: &CombinedExpressionEvaluator, exprs: Seq<Expression>, rows: Seq<Row>, k: Seq<SqlValue>, n: int) -> Seq<Row> decreases n {
    if n <= 0 { Seq::empty() } else if key_of(ev, exprs, rows[n - 1]) == k { rows_with_key(ev, exprs, rows, k, n - 1).push(rows[n - 1]) } else { rows_with_key(ev, exprs, rows, k, n - 1) }
}
// HashMap<Vec<SqlValue>, Vec<Row>> as an abstract map from keys to row sequences (key equality = Eq on Vec<SqlValue>, structural here)
#[verifier::external_body] pub struct GroupMap { m: u8 }
impl GroupMap {
    pub uninterp spec fn view(&self) -> Map<Seq<SqlValue>, Seq<Row>>;
    #[verifier::external_body] pub fn new() -> (r: GroupMap) ensures r.view() == Map::<Seq<SqlValue>, Seq<Row>>::empty() { unimplemented!() }
    // m.entry(key).or_default().push(row)
    #[verifier::external_body] pub fn push_to(&mut self, key: Vec<SqlValue>, row: Row)
        ensures final(self).view() == old(self).view().insert(key@, (if old(self).view().dom().contains(key@) { old(self).view()[key@] } else { Seq::<Row>::empty() }).push(row))
    { unimplemented!() }
    // m.into_iter().collect::<Vec<_>>(): every entry exactly once, in some order
    #[verifier::external_body] pub fn into_vec(self) -> (r: GroupedRows)
        ensures
            forall|j: int| 0 <= j < r@.len() ==> self.view().dom().contains((#[trigger] r@[j]).0@) && r@[j].1@ == self.view()[r@[j].0@],
            forall|i: int, j: int| 0 <= i < j < r@.len() ==> r@[i].0@ != r@[j].0@,
            forall|k: Seq<SqlValue>| self.view().dom().contains(k) ==> exists|j: int| 0 <= j < r@.len() && (#[trigger] r@[j]).0@ == k,
    { unimplemented!() }
}
proof fn lemma_member_nonempty(ev: &CombinedExpressionEvaluator, exprs: Seq<Expression>, rows: Seq<Row>, i: int, n: int)
    requires 0 <= i < n
    ensures rows_with_key(ev, exprs, rows, key_of(ev, exprs, rows[i]), n).len() > 0
    decreases n
{
    if i < n - 1 { lemma_member_nonempty(ev, exprs, rows, i, n - 1); }
}

//@@ group_rows

fn canary_group(rows: &[Row], exprs: &[Expression], ev: &CombinedExpressionEvaluator, ex: &SelectExecutor)
{
    let r = group_rows(rows, exprs, ev, ex);
    assert(false); // CANARY
}

}
fn main() {}
'''

_F = 'crates/vibesql-executor/src/select/grouping/hash.rs'
ITEMS = {
    'group_rows': dict(
        file=_F, path='fn group_rows', ret='res',
        rewrites=[
            ('re', r"fn group_rows<'a>\(", 'fn group_rows(', 1),
            ('re', r'vibesql_storage::Row', 'Row', None), ('re', r'vibesql_types::SqlValue', 'SqlValue', None), ('re', r'vibesql_ast::Expression', 'Expression', None),
            ('re', r'&crate::evaluator::CombinedExpressionEvaluator', '&CombinedExpressionEvaluator', 1), ('re', r"&crate::SelectExecutor<'a>", '&SelectExecutor', 1),
            ('re', r'crate::errors::ExecutorError', 'ExecutorError', 1),
            ('re', r'let estimated_groups = \(rows\.len\(\) / 10\)\.max\(16\);\s*let mut groups_map: HashMap<Vec<SqlValue>, Vec<Row>> =\s*HashMap::with_capacity\(estimated_groups\);', 'let mut groups_map = GroupMap::new();', 1),
            ('re', r'const CHECK_INTERVAL: usize = 1000;\s*', '', 1), ('re', r'\bCHECK_INTERVAL\b', '1000usize', 1),
            # R10 (slice forms)
            ('re', r'for row in rows \{', 'let mut ri__: usize = 0; while ri__ < rows.len() { let row = &rows[ri__]; ri__ = ri__ + 1;', 1),
            ('re', r'for expr in group_by_exprs \{', 'let mut ei__: usize = 0; while ei__ < group_by_exprs.len() { let expr = &group_by_exprs[ei__]; ei__ = ei__ + 1;', 1),
            # R11: in-place update through HashMap::entry
            ('re', r'groups_map\.entry\(key\)\.or_default\(\)\.push\(row\.clone\(\)\);', 'groups_map.push_to(key, row.clone());', 1),
            ('re', r'groups_map\.into_iter\(\)\.collect\(\)', 'groups_map.into_vec()', 1),
        ],
        loops={0: '''
        invariant
            ri__ <= rows@.len(), rows_processed == ri__,
            forall|k: Seq<SqlValue>| #![trigger groups_map.view().dom().contains(k)] groups_map.view().dom().contains(k) == (rows_with_key(evaluator, group_by_exprs@, rows@, k, ri__ as int).len() > 0),
            forall|k: Seq<SqlValue>| #![trigger groups_map.view()[k]] groups_map.view().dom().contains(k) ==> groups_map.view()[k] == rows_with_key(evaluator, group_by_exprs@, rows@, k, ri__ as int),
        decreases rows@.len() - ri__,
''', 1: '''
            invariant
                ei__ <= group_by_exprs@.len(), key@.len() == ei__,
                forall|j: int| 0 <= j < ei__ ==> eval_spec(evaluator, group_by_exprs@[j], *row) == Ok::<SqlValue, ExecutorError>(#[trigger] key@[j]),
            decreases group_by_exprs@.len() - ei__,
'''},
        proofs=[('@afterloop1', 'proof { assert(key@ =~= key_of(evaluator, group_by_exprs@, *row)); }'),
                ('@afterloop0', '''
    proof {
        assert forall|i: int| 0 <= i < rows@.len() implies groups_map.view().dom().contains(key_of(evaluator, group_by_exprs@, rows@[i])) by {
            lemma_member_nonempty(evaluator, group_by_exprs@, rows@, i, rows@.len() as int);
        }
    }
''')],
        contract='''
    ensures
        res matches Ok(g) ==> ({
            let n = rows@.len() as int;
            // each group holds exactly the input rows with its key, in input order, and is not empty
            &&& forall|j: int| 0 <= j < g@.len() ==> (#[trigger] g@[j]).1@ == rows_with_key(evaluator, group_by_exprs@, rows@, g@[j].0@, n) && g@[j].1@.len() > 0
            // exactly one group per distinct key (NULL keys are one group: key equality is Eq on the value vectors)
            &&& forall|i: int, j: int| 0 <= i < j < g@.len() ==> g@[i].0@ != g@[j].0@
            // every input row's key has its group
            &&& forall|i: int| 0 <= i < n ==> exists|j: int| 0 <= j < g@.len() && (#[trigger] g@[j]).0@ == key_of(evaluator, group_by_exprs@, #[trigger] rows@[i])
        }),
'''),
}

OBLIGATIONS = {
    'group_rows': ['post:groups_partition_the_input_by_key__one_group_per_distinct_key__rows_in_input_order', 'safety:no_overflow_index_in_bounds', 'proof:loop_invariants'],
    'lemma_member_nonempty': ['post:a_row_is_in_the_group_of_its_key'],
}
CANARIES = ['canary_group']
TRUSTED = [
    'external_body Val / Expression / Row (clone is a copy) / ExecutorError: opaque; SqlValue collapsed to Null | V(payload)',
    'external_body CombinedExpressionEvaluator::eval: uninterpreted DETERMINISTIC function of (expression, row); clear_cse_cache: ASSUMED not to change the value of eval',
    'external_body SelectExecutor::check_timeout: may return an error at any point (then group_rows returns that error)',
    'external_body GroupMap (new, push_to, into_vec): std HashMap<Vec<SqlValue>, Vec<Row>>; R11: entry(key).or_default().push(row) -> push_to; into_iter().collect() -> every entry once in some order. Key equality is the STRUCTURAL equality of the value vectors: that SqlValue\'s Eq / Hash behave so (NULL = NULL, NaN, -0.0) is unit T-laws (C21, with its recorded finding)',
    'R10 rewrites (slice forms) of `for row in rows` / `for expr in group_by_exprs`; the capacity hint (rows.len() / 10).max(16) is dropped with HashMap::with_capacity',
    'execute_with_aggregation (ONE group for a query without GROUP BY, also on empty input; HAVING) is not under contract',
]
