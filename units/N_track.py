NAME = 'N-track'
PROPERTIES = ['C10']
ENGINE = 'verus'
CLASS = 'U'
DOC = ('execute_insert_internal (executor insert/execution.rs), the statement that files the UNIQUE keys of a validated row for the duplicate check of the LATER '
       'rows of the same INSERT: the key of constraint c is appended to slot c - whatever the keys of the other constraints are (a NULL-holding key is '
       'reported as None and files nothing, but does not shift the slots of the keys after it) - and nothing else changes.')

TEMPLATE = r'''
use vstd::prelude::*;
verus! {

#[verifier::external_body] pub struct SqlValue { v: u8 }
pub type KeyV = Vec<SqlValue>;
/// slot c after filing: the key of constraint c appended when there is one
pub open spec fn filed(before: Seq<Seq<Seq<SqlValue>>>, keys: Seq<Option<KeyV>>, c: int) -> Seq<Seq<SqlValue>> {
    if 0 <= c < keys.len() && keys[c] is Some { before[c].push(keys[c]->Some_0@) } else { before[c] }
}
pub open spec fn slots_view(v: Seq<Vec<KeyV>>) -> Seq<Seq<Seq<SqlValue>>> { Seq::new(v.len(), |c: int| Seq::new(v[c]@.len(), |k: int| v[c]@[k]@)) }
// unique_constraint_values[c].push(values)   (R11: Vec<Vec<..>> element updated in place)
#[verifier::external_body]
fn push_at(slots: &mut Vec<Vec<KeyV>>, c: usize, values: KeyV)
    requires c < old(slots)@.len(),     // indexing panics otherwise
    ensures final(slots)@.len() == old(slots)@.len(),
            slots_view(final(slots)@) == slots_view(old(slots)@).update(c as int, slots_view(old(slots)@)[c as int].push(values@))
{ unimplemented!() }
#[verifier::external_body]
fn take_key(keys: &Vec<Option<KeyV>>, i: usize) -> (r: Option<KeyV>)
    requires i < keys@.len(),
    ensures (r is Some) == (keys@[i as int] is Some), r matches Some(k) ==> k@ == keys@[i as int]->Some_0@
{ unimplemented!() }

//@@ file_unique_keys

fn canary_track(unique_keys: Vec<Option<KeyV>>, slots: &mut Vec<Vec<KeyV>>)
    requires unique_keys@.len() == old(slots)@.len(),
{
    file_unique_keys(unique_keys, slots);
    assert(false); // CANARY
}

}
fn main() {}
'''


def _loop(m):
    # the two std shapes of "for (i, x) in v.into_iter()[.flatten()].enumerate()" by their definitions (R10)
    idx, var, flat = m.group(1), m.group(2), m.group(3)
    if flat:
        # flatten() drops the None elements BEFORE enumerate() numbers the rest
        return ('let mut src__: usize = 0; let mut %s: usize = 0; while src__ < unique_keys.len() { let item__ = take_key(&unique_keys, src__); src__ = src__ + 1; '
                'if item__.is_none() { continue; } let %s = item__.unwrap(); let %s = %s; %s = %s + 1; {' % (idx + '__n', var, idx, idx + '__n', idx + '__n', idx + '__n'))
    return ('let mut src__: usize = 0; while src__ < unique_keys.len() { let %s = src__; let %s = take_key(&unique_keys, src__); src__ = src__ + 1; {' % (idx, var))


ITEMS = {
    'file_unique_keys': dict(
        file='crates/vibesql-executor/src/insert/execution.rs', path='fn execute_insert_internal',
        fragment=dict(kind='stmt', index=0, **{'from': r'for \(constraint_idx, \w+\) in\s+validation_result\.unique_keys'},
                      sig='fn file_unique_keys(unique_keys: Vec<Option<KeyV>>, unique_constraint_values: &mut Vec<Vec<KeyV>>)'),
        rewrites=[
            ('refn', r'for \((\w+), (\w+)\) in\s+validation_result\.unique_keys\.into_iter\(\)(\.flatten\(\))?\.enumerate\(\)\s*\{', _loop, 1),
            ('re', r'unique_constraint_values\[(\w+)\]\.push\((\w+)\);', r'push_at(unique_constraint_values, \1, \2);', None),
            ('re', r'\}\s*$', '} }', 1),
        ],
        loops={0: '''
            invariant
                src__ <= unique_keys@.len(), unique_keys@.len() == old(unique_constraint_values)@.len(), unique_constraint_values@.len() == unique_keys@.len(),
                forall|c: int| 0 <= c < src__ ==> (#[trigger] slots_view(unique_constraint_values@)[c]) == filed(slots_view(old(unique_constraint_values)@), unique_keys@, c),
                forall|c: int| src__ <= c < unique_keys@.len() ==> (#[trigger] slots_view(unique_constraint_values@)[c]) == slots_view(old(unique_constraint_values)@)[c],
            decreases unique_keys@.len() - src__,
'''},
        contract='''
    requires unique_keys@.len() == old(unique_constraint_values)@.len(),     // one slot per UNIQUE constraint: `vec![Vec::new(); n]` before the row loop
    ensures
        final(unique_constraint_values)@.len() == old(unique_constraint_values)@.len(),
        forall|c: int| 0 <= c < unique_keys@.len() ==> (#[trigger] slots_view(final(unique_constraint_values)@)[c]) == filed(slots_view(old(unique_constraint_values)@), unique_keys@, c),
'''),
}

OBLIGATIONS = {
    'file_unique_keys': ['post:the_key_of_constraint_c_is_filed_under_slot_c__nothing_else_changes', 'proof:loop_invariant_and_termination', 'safety:slot_in_bounds'],
}
CANARIES = ['canary_track']
TRUSTED = [
    'R6 (fragment kind stmt): ONE statement of execute_insert_internal - the `for (constraint_idx, ..) in validation_result.unique_keys..` loop - is lifted with its two free variables as parameters; NOT under contract: the rest of the per-row loop (value coercion, normalization before validation - fix ff7104d3 -, RowValidator: units K-rowval / K-pk, the PRIMARY KEY tracking two lines above, the REPLACE / ON DUPLICATE KEY UPDATE dispatch)',
    'R10: `v.into_iter().enumerate()` and `v.into_iter().flatten().enumerate()` are written as the index loops that define them (flatten drops the None elements BEFORE enumerate numbers the rest - recognised so that swapping it in fails the slot obligation instead of losing the anchor); external_body take_key (the element moved out of the consumed vector), push_at (`slots[c].push(values)`: requires c in bounds); SqlValue opaque',
    'precondition: one slot per UNIQUE constraint and one reported key (Some / None) per constraint - `vec![Vec::new(); n]` before the loop and ValidationResult::unique_keys (unit K-rowval)',
]
