NAME = 'I-fetch'
PROPERTIES = ['C02', 'C08']
ENGINE = 'verus'
CLASS = 'U'
DOC = ('execute_index_scan (executor select/scan/index_scan/execution.rs), from the index operation to the end: the row positions come from range_scan with '
       'EXACTLY the bounds of the pushed range, from prefix_multi_lookup (multi-column index) / multi_lookup (single column) with the pushed IN values, or '
       'from the whole index when nothing was pushed; they are put in table order unless index order is claimed; the rows at those positions are fetched, '
       'the WHERE clause is re-applied whenever the decision says so, the sequence is reversed exactly when the claimed order starts with a DESC column, '
       'and the result is flagged "WHERE already applied" only when the re-check was skipped by decision; the ordering claim is passed on only when index order '
       'IS the requested order (index_order_is_requested_order: one direction throughout and, for ASC, no returned row with a NULL in an ORDER BY column).')

TEMPLATE = r'''
use vstd::prelude::*;
verus! {

#[verifier::external_body] pub struct SqlValue { v: u8 }
#[verifier::external_body] pub struct Expression { e: u8 }
#[verifier::external_body] pub struct ExecutorError { e: u8 }
#[verifier::external_body] pub struct Str { s: u8 }
#[verifier::external_body] pub struct Row { r: u8 }
#[verifier::external_body] pub struct CombinedSchema { c: u8 }
#[verifier::external_body] pub struct PredicatePlan { p: u8 }
#[verifier::external_body] pub struct Database { d: u8 }
pub enum OrderDirection { Asc, Desc }
pub type SortCol = (Str, OrderDirection);

//@@ RangePredicate

//@@ IndexPredicate

pub struct IndexColumn { pub column_name: Str, pub prefix_length: Option<u64> }
pub struct IndexMetadata { pub columns: Vec<IndexColumn> }

// ---------------- the index and the table, through uninterpreted deterministic functions --------------------------------
#[verifier::external_body] pub struct IndexData { d: u8 }
impl IndexData {
    pub uninterp spec fn range_rows(&self, s: Option<SqlValue>, e: Option<SqlValue>, is: bool, ie: bool) -> Seq<usize>;
    pub uninterp spec fn in_rows(&self, vals: Seq<SqlValue>) -> Seq<usize>;
    pub uninterp spec fn prefix_in_rows(&self, vals: Seq<SqlValue>) -> Seq<usize>;
    pub uninterp spec fn all_rows(&self) -> Seq<usize>;
    // unit I-scan
    #[verifier::external_body]
    pub fn range_scan(&self, start: Option<&SqlValue>, end: Option<&SqlValue>, inclusive_start: bool, inclusive_end: bool) -> (r: Vec<usize>)
        ensures r@ == self.range_rows(match start { Some(x) => Some(*x), None => None }, match end { Some(x) => Some(*x), None => None }, inclusive_start, inclusive_end)
    { unimplemented!() }
    // unit I-multi
    #[verifier::external_body] pub fn multi_lookup(&self, vals: &Vec<SqlValue>) -> (r: Vec<usize>) ensures r@ == self.in_rows(vals@) { unimplemented!() }
    #[verifier::external_body] pub fn prefix_multi_lookup(&self, vals: &Vec<SqlValue>) -> (r: Vec<usize>) ensures r@ == self.prefix_in_rows(vals@) { unimplemented!() }
    // index_data.values().flatten().collect()
    #[verifier::external_body] pub fn all_positions(&self) -> (r: Vec<usize>) ensures r@ == self.all_rows() { unimplemented!() }
}
pub uninterp spec fn sorted_positions(p: Seq<usize>) -> Seq<usize>;
// Vec::<usize>::sort_unstable
#[verifier::external_body] fn sort_unstable(v: &mut Vec<usize>) ensures final(v)@ == sorted_positions(old(v)@) { unimplemented!() }
#[verifier::external_body] pub struct Table { t: u8 }
impl Table {
    pub uninterp spec fn rows(&self) -> Seq<Row>;
}
/// the rows at the given positions, in that order; positions outside the table are skipped
pub open spec fn fetch(rows: Seq<Row>, pos: Seq<usize>, n: int) -> Seq<Row>
    decreases n
{
    if n <= 0 { Seq::empty() } else { let p = fetch(rows, pos, n - 1); if (pos[n - 1] as int) < rows.len() { p.push(rows[pos[n - 1] as int]) } else { p } }
}
// let all_rows = table.scan(); matching_row_indices.iter().filter_map(|idx| all_rows.get(*idx)).collect()   (as owned rows: the references are cloned at the end)
#[verifier::external_body]
fn fetch_rows(table: &Table, pos: &Vec<usize>) -> (r: Vec<Row>) ensures r@ == fetch(table.rows(), pos@, pos@.len() as int) { unimplemented!() }
pub uninterp spec fn where_kept(rows: Seq<Row>, w: Expression) -> Option<Seq<Row>>;
// PredicatePlan::from_where_clause(..).map_err(..)?  +  apply_where_filter_zerocopy(..)?
#[verifier::external_body]
fn refilter(rows: Vec<Row>, w: &Expression, table_name: &str, database: &Database) -> (r: Result<Vec<Row>, ExecutorError>)
    ensures r matches Ok(v) ==> where_kept(rows@, *w) == Some(v@), r is Err ==> where_kept(rows@, *w) is None { unimplemented!() }
#[verifier::external_body] fn reverse_rows(v: &mut Vec<Row>) ensures final(v)@ == old(v)@.reverse() { unimplemented!() }
// sorted_cols.first() is (_, Desc)
#[verifier::external_body]
fn first_is_desc(cols: &Vec<SortCol>) -> (r: bool) ensures r == (cols@.len() > 0 && cols@[0].1 is Desc) { unimplemented!() }

#[verifier::external_body] pub struct TableSchema { t: u8 }
impl TableSchema {
    pub uninterp spec fn col_index(&self, name: Str) -> Option<usize>;
    #[verifier::external_body] pub fn get_column_index(&self, name: &Str) -> (r: Option<usize>) ensures r == self.col_index(*name) { unimplemented!() }
}
impl Table { pub uninterp spec fn schema_spec(&self) -> TableSchema; }
#[verifier::external_body] fn schema_of(t: &Table) -> (r: &TableSchema) ensures *r == t.schema_spec() { unimplemented!() }
impl Row { pub uninterp spec fn is_null_at(&self, c: usize) -> bool; }
/// ORDER BY cols asks for the order an index delivers (ascending keys, NULL smallest, reversed as a whole for DESC): one direction throughout, and for
/// ASC no returned row with a NULL in an ORDER BY column (ORDER BY puts NULLs last)   -- from the definition of the two orders, not from the code
pub open spec fn order_ok(cols: Seq<SortCol>, rows: Seq<Row>, schema: TableSchema) -> bool {
    cols.len() == 0 || (
        (forall|i: int| 0 <= i < cols.len() ==> (#[trigger] cols[i]).1 == cols[0].1)
        && (cols[0].1 is Desc || forall|i: int| 0 <= i < cols.len() ==> schema.col_index((#[trigger] cols[i]).0) is Some
                && forall|r: int| 0 <= r < rows.len() ==> !(#[trigger] rows[r]).is_null_at(schema.col_index(cols[i].0)->Some_0)))
}
// cols.iter().any(|(_, direction)| direction != first_direction)
#[verifier::external_body]
fn any_direction_differs(cols: &[SortCol], first: &OrderDirection) -> (r: bool) ensures r == exists|i: int| 0 <= i < cols@.len() && (#[trigger] cols@[i]).1 != *first { unimplemented!() }
// rows.iter().any(|row| matches!(row.values.get(c), Some(SqlValue::Null) | None))
#[verifier::external_body]
fn null_at(row: &Row, c: usize) -> (r: bool) ensures r == row.is_null_at(c) { unimplemented!() }
#[verifier::external_body]
fn any_null_at(rows: &[Row], c: usize) -> (r: bool) ensures r == exists|k: int| 0 <= k < rows@.len() && (#[trigger] rows@[k]).is_null_at(c) { unimplemented!() }
#[verifier::external_body] fn dir_is_desc(d: &OrderDirection) -> (r: bool) ensures r == (*d is Desc) { unimplemented!() }

//@@ index_order_is_requested_order

/// super::super::FromResult, reduced to what is decided here
pub struct FromResult { pub rows: Vec<Row>, pub sorted_by: Option<Vec<SortCol>>, pub where_filtered: bool }
impl FromResult {
    fn from_rows(rows: Vec<Row>) -> (r: FromResult) ensures r.rows@ == rows@, r.sorted_by is None, !r.where_filtered { FromResult { rows, sorted_by: None, where_filtered: false } }
    fn from_rows_sorted(rows: Vec<Row>, sorted_by: Vec<SortCol>) -> (r: FromResult) ensures r.rows@ == rows@, r.sorted_by == Some(sorted_by), !r.where_filtered { FromResult { rows, sorted_by: Some(sorted_by), where_filtered: false } }
    fn from_rows_where_filtered(rows: Vec<Row>, sorted_by: Option<Vec<SortCol>>) -> (r: FromResult) ensures r.rows@ == rows@, r.sorted_by == sorted_by, r.where_filtered { FromResult { rows, sorted_by, where_filtered: true } }
}

/// the positions the index delivers for the pushed predicate
pub open spec fn index_positions(ix: &IndexData, p: Option<IndexPredicate>, multi: bool) -> Seq<usize> {
    match p {
        Some(IndexPredicate::Range(r)) => ix.range_rows(r.start, r.end, r.inclusive_start, r.inclusive_end),
        Some(IndexPredicate::In(vals)) => if multi { ix.prefix_in_rows(vals@) } else { ix.in_rows(vals@) },
        None => ix.all_rows(),
    }
}

//@@ scan_tail

fn canary_fetch(table: &Table, index_metadata: &IndexMetadata, index_data: &IndexData, index_predicate: Option<IndexPredicate>, need_where_filter: bool,
                sorted_columns: Option<Vec<SortCol>>, where_clause: Option<&Expression>, table_name: &str, database: &Database)
{
    let r = scan_tail(table, index_metadata, index_data, index_predicate, need_where_filter, sorted_columns, where_clause, table_name, database);
    assert(false); // CANARY
}

}
fn main() {}
'''

_F = 'crates/vibesql-executor/src/select/scan/index_scan/execution.rs'
_P = 'crates/vibesql-executor/src/select/scan/index_scan/predicate.rs'
ITEMS = {
    'RangePredicate': dict(file=_P, path='struct RangePredicate'),
    'IndexPredicate': dict(file=_P, path='enum IndexPredicate'),
    'index_order_is_requested_order': dict(
        file=_F, path='fn index_order_is_requested_order', ret='r',
        rewrites=[('re', r'\(String, vibesql_ast::OrderDirection\)', 'SortCol', None), ('re', r'vibesql_catalog::TableSchema', 'TableSchema', None),
                  ('re', r'cols\.iter\(\)\.any\(\|\(_, direction\)\| direction != first_direction\)', 'any_direction_differs(cols, first_direction)', 1),
                  ('refn', r'\*first_direction == vibesql_ast::OrderDirection::(Desc|Asc)', lambda m: ('' if m.group(1) == 'Desc' else '!') + 'dir_is_desc(first_direction)', 1),
                  ('re', r'for \(column_name, _\) in cols \{', 'let mut ci__: usize = 0; while ci__ < cols.len() { let column_name = &cols[ci__].0; ci__ = ci__ + 1;', 1),
                  ('re', r'(?s)rows\.iter\(\)\.any\(\|row\| matches!\(row\.values\.get\(column_index\), Some\(vibesql_types::SqlValue::Null\) \| None\)\)', 'any_null_at(rows, column_index)', None),
                  # idioms (present or not): the NULL test on ONE row; `let Some(x) = rows.first() else { return V; };` as the match it abbreviates
                  ('re', r'matches!\((\w+)\.values\.get\(column_index\), Some\(vibesql_types::SqlValue::Null\) \| None\)', r'null_at(\1, column_index)', None),
                  ('re', r'(?s)let Some\((\w+)\) = rows\.first\(\) else \{\s*return (\w+);\s*\};', r'if rows.len() == 0 { return \2; } let \1 = &rows[0];', None)],
        loops={0: '''
        invariant
            ci__ <= cols@.len(), cols@.len() > 0, !(cols@[0].1 is Desc),
            forall|i: int| 0 <= i < cols@.len() ==> (#[trigger] cols@[i]).1 == cols@[0].1,
            forall|i: int| 0 <= i < ci__ ==> table_schema.col_index((#[trigger] cols@[i]).0) is Some
                && forall|k: int| 0 <= k < rows@.len() ==> !(#[trigger] rows@[k]).is_null_at(table_schema.col_index(cols@[i].0)->Some_0),
        decreases cols@.len() - ci__,
'''},
        contract='''
    ensures r == order_ok(cols@, rows@, *table_schema),
'''),
    'scan_tail': dict(
        file=_F, path='fn execute_index_scan', ret='res',
        fragment=dict(kind='tail', index=0, **{'from': r'// Determine if this is a multi-column index'},
                      sig='fn scan_tail(table: &Table, index_metadata: &IndexMetadata, index_data: &IndexData, index_predicate: Option<IndexPredicate>, need_where_filter: bool, '
                          'sorted_columns: Option<Vec<SortCol>>, where_clause: Option<&Expression>, table_name: &str, database: &Database) -> Result<FromResult, ExecutorError>'),
        rewrites=[
            ('re', r'(?s)index_data\s*\.values\(\)\s*\.flatten\(\)\s*\.collect\(\)', 'index_data.all_positions()', 1),
            ('re', r'matching_row_indices\.sort_unstable\(\);', 'sort_unstable(&mut matching_row_indices);', 1),
            # table.scan() + the filter_map over references + (at the end) the clone of the surviving references -> owned rows fetched once
            ('re', r'(?s)let all_rows = table\.scan\(\);.*?let row_refs: Vec<&Row> = matching_row_indices\s*\.iter\(\)\s*\.filter_map\(\|idx\| all_rows\.get\(\*idx\)\)\s*\.collect\(\);', 'let row_refs: Vec<Row> = fetch_rows(table, &matching_row_indices);', 1),
            ('re', r'(?s)let effective_name = .*?;\s*let schema = CombinedSchema::from_table\(.*?\);', '', None),
            ('re', r'(?s)let filtered_row_refs: Vec<&Row> = if need_where_filter && where_clause\.is_some\(\) \{.*?apply_where_filter_zerocopy\(\s*row_refs,.*?\)\?\s*\} else \{',
             'let filtered_row_refs: Vec<Row> = if need_where_filter && where_clause.is_some() { refilter(row_refs, where_clause.unwrap(), table_name, database)? } else {', 1),
            ('re', r'(?s)if let Some\(\(_, first_order_direction\)\) = sorted_cols\.first\(\) \{\s*if \*first_order_direction == vibesql_ast::OrderDirection::Desc \{\s*filtered_row_refs\.reverse\(\);\s*\}\s*\}',
             'if first_is_desc(sorted_cols) { reverse_rows(&mut filtered_row_refs); }', 1),
            ('re', r'(?s)let rows: Vec<Row> = filtered_row_refs\s*\.into_iter\(\)\.cloned\(\)\s*\.collect\(\);', 'let rows: Vec<Row> = filtered_row_refs;', 1),
            ('re', r'super::super::FromResult::(from_rows\w*)\(schema, ', r'FromResult::\1(', None),
            ('re', r'&table\.schema\)', 'schema_of(table))', None),
        ],
        contract='''
    ensures
        res matches Ok(out) ==> ({
            let pos0 = index_positions(index_data, index_predicate, index_metadata.columns@.len() > 1);
            let pos = if sorted_columns is None { sorted_positions(pos0) } else { pos0 };
            let fetched = fetch(table.rows(), pos, pos.len() as int);
            let kept = if need_where_filter && where_clause is Some { where_kept(fetched, *where_clause->Some_0) } else { Some(fetched) };
            let desc = sorted_columns matches Some(sc) && sc@.len() > 0 && sc@[0].1 is Desc;
            &&& kept is Some
            &&& out.rows@ == (if desc { kept->Some_0.reverse() } else { kept->Some_0 })
            &&& out.where_filtered == !need_where_filter          // "WHERE already applied" only when the re-check was skipped by decision (unit I-decide)
            // the ordering claim is passed on only when index order IS the requested order (one direction; for ASC no NULL in an ORDER BY column)
            &&& out.sorted_by == (if sorted_columns is Some && !order_ok(sorted_columns->Some_0@, out.rows@, table.schema_spec()) { None } else { sorted_columns })
        }),
'''),
}

OBLIGATIONS = {
    'index_order_is_requested_order': ['post:true_exactly_when_index_order_is_the_requested_order__one_direction__no_null_under_asc', 'proof:loop_invariant_and_termination'],
    'scan_tail': ['post:positions_from_the_pushed_predicate__table_order_unless_sorted__where_reapplied_when_decided__desc_reversal__flags'],
}
CANARIES = ['canary_fetch']
TRUSTED = [
    'R6 (fragment kind tail): the statements of execute_index_scan from "// Determine if this is a multi-column index" to the end are lifted; its parameters are the locals the head builds (unit I-decide: index_predicate, need_where_filter, sorted_columns)',
    'external_body, each an UNINTERPRETED DETERMINISTIC function of its arguments: IndexData::range_scan (unit I-scan), multi_lookup / prefix_multi_lookup (unit I-multi), all_positions (values().flatten().collect()), sort_unstable (Vec::sort_unstable), fetch_rows (table.scan() + iter().filter_map(|idx| all_rows.get(*idx)) - spec fetch: rows at the positions, out-of-table positions skipped), refilter (PredicatePlan::from_where_clause + apply_where_filter_zerocopy: where_kept; decision table: unit E-truthy), reverse_rows (Vec::reverse), first_is_desc (the first claimed column is DESC)',
    'the zero-copy references (Vec<&Row>, cloned at the end) are modelled as owned rows fetched once; schema / effective_name construction dropped; FromResult reduced to rows / sorted_by / where_filtered with its three constructors re-stated (verified against their bodies in select/join/mod.rs by reading)',
    'SqlValue, Expression, ExecutorError, Str, Row (is_null_at: the value at a column is NULL or missing), CombinedSchema, PredicatePlan, Database, Table, TableSchema (get_column_index) opaque; IndexMetadata / IndexColumn reduced; any_direction_differs / any_null_at / null_at (the same NULL-or-missing test on one row, recognised if present) / dir_is_desc = the iter().any closures and the == Desc test of index_order_is_requested_order; schema_of = &table.schema; R10 rewrite of its `for (column_name, _) in cols`',
    'order_ok is the specification of "index order equals ORDER BY order": ORDER BY puts NULLs last in both directions (select/order.rs, unit S-orderby) while the index has NULL as its smallest key',
]
