NAME = 'G-aggtail'
PROPERTIES = ['C07', 'C08']
ENGINE = 'verus'
CLASS = 'U'
DOC = ('SelectExecutor::execute_with_aggregation, from the WHERE filter to the end (executor select/executor/aggregation/mod.rs): the rows that reach '
       'grouping are the FROM rows filtered by the (optimized) WHERE clause - none for a constant-false one; WITHOUT GROUP BY there is exactly ONE group, '
       'also over zero rows (an aggregate query without GROUP BY returns one row); every group whose HAVING value is TRUE contributes exactly one row whose '
       'values are the select-list expressions evaluated over that group, in select-list order; ORDER BY, then DISTINCT, then LIMIT/OFFSET (unless a set '
       'operation follows) are applied to those rows.')

TEMPLATE = r'''
use vstd::prelude::*;
verus! {

#[verifier::external_body] pub struct SqlValue { v: u8 }
#[verifier::external_body] pub struct Expression { e: u8 }
#[verifier::external_body] pub struct ExecutorError { e: u8 }
#[verifier::external_body] pub struct Opq { o: u8 }
#[verifier::external_body] pub struct Str { s: u8 }
#[verifier::external_body] pub struct Row { r: u8 }
impl Row {
    pub uninterp spec fn vals(&self) -> Seq<SqlValue>;
    #[verifier::external_body] pub fn new(v: Vec<SqlValue>) -> (r: Row) ensures r.vals() == v@ { unimplemented!() }
}
pub open spec fn row_vals(rows: Seq<Row>) -> Seq<Seq<SqlValue>> { Seq::new(rows.len(), |i: int| rows[i].vals()) }
pub enum SelectItem { Expression { expr: Expression, alias: Option<Str> }, Wildcard { alias: Opq }, QualifiedWildcard { qualifier: Str, alias: Opq } }
pub struct OrderByItem { pub o: Opq }
// vibesql_ast::SelectStmt reduced to the fields the tail reads (R2)
pub struct SelectStmt {
    pub select_list: Vec<SelectItem>, pub group_by: Option<Vec<Expression>>, pub having: Option<Expression>, pub order_by: Option<Vec<OrderByItem>>,
    pub distinct: bool, pub set_operation: Option<Opq>, pub limit: Option<usize>, pub offset: Option<usize>,
}
pub enum WhereOptimization { AlwaysTrue, AlwaysFalse, Optimized(Expression), Unchanged(Option<Expression>) }
#[verifier::external_body] pub struct CombinedSchema { s: u8 }
#[verifier::external_body] pub struct Evaluator { e: u8 }
impl Evaluator { #[verifier::external_body] pub fn clear_cse_cache(&self) { unimplemented!() } }
#[verifier::external_body] pub struct FromResult { f: u8 }
impl FromResult {
    pub uninterp spec fn rows(&self) -> Seq<Row>;
    #[verifier::external_body] pub fn into_rows(self) -> (r: Vec<Row>) ensures r@ == self.rows() { unimplemented!() }
}
pub type Group = (Vec<SqlValue>, Vec<Row>);

// ---------------- the operations around the tail: uninterpreted, deterministic ---------------------------------------------
pub uninterp spec fn where_filter(rows: Seq<Row>, w: Option<Expression>) -> Option<Seq<Row>>;
pub uninterp spec fn grouping(rows: Seq<Row>, by: Seq<Expression>) -> Option<Seq<(Seq<SqlValue>, Seq<Row>)>>;
pub uninterp spec fn agg_value(e: Expression, rows: Seq<Row>, key: Seq<SqlValue>) -> Option<SqlValue>;
/// keep / drop decision for a HAVING value (TRUE and non-zero numbers keep, FALSE / NULL / zero drop, anything else is an error: unit E-truthy)
pub uninterp spec fn truthy(v: SqlValue) -> Option<bool>;
pub uninterp spec fn expanded(items: Seq<SelectItem>) -> Option<Seq<SelectItem>>;
pub uninterp spec fn ordered(rows: Seq<Row>, stmt: &SelectStmt, items: Seq<SelectItem>) -> Option<Seq<Row>>;
pub uninterp spec fn distinct(rows: Seq<Row>) -> Seq<Row>;
pub uninterp spec fn limited(rows: Seq<Row>, limit: Option<usize>, offset: Option<usize>) -> Seq<Row>;

pub open spec fn groups_view(g: Seq<Group>) -> Seq<(Seq<SqlValue>, Seq<Row>)> { Seq::new(g.len(), |i: int| (g[i].0@, g[i].1@)) }
#[verifier::external_body]
fn apply_where_filter_combined_auto(rows: Vec<Row>, w: Option<&Expression>, ev: &Evaluator, ex: &SelectExecutor) -> (r: Result<Vec<Row>, ExecutorError>)
    ensures r matches Ok(v) ==> where_filter(rows@, match w { Some(e) => Some(*e), None => None }) == Some(v@),
            r is Err ==> where_filter(rows@, match w { Some(e) => Some(*e), None => None }) is None
{ unimplemented!() }
#[verifier::external_body]
fn group_rows(rows: &Vec<Row>, by: &Vec<Expression>, ev: &Evaluator, ex: &SelectExecutor) -> (r: Result<Vec<Group>, ExecutorError>)
    ensures r matches Ok(g) ==> grouping(rows@, by@) == Some(groups_view(g@)), r is Err ==> grouping(rows@, by@) is None
{ unimplemented!() }
// vec![(Vec::new(), filtered_rows)]
#[verifier::external_body]
fn one_group(rows: Vec<Row>) -> (r: Vec<Group>) ensures r@.len() == 1, r@[0].0@ == Seq::<SqlValue>::empty(), r@[0].1@ == rows@ { unimplemented!() }
#[verifier::external_body] fn key_clone(k: &Vec<SqlValue>) -> (r: Vec<SqlValue>) ensures r@ == k@ { unimplemented!() }
#[verifier::external_body] fn rows_clone(k: &Vec<Row>) -> (r: Vec<Row>) ensures r@ == k@ { unimplemented!() }
#[verifier::external_body] fn having_decision(v: SqlValue) -> (r: Result<bool, ExecutorError>)
    ensures r matches Ok(b) ==> truthy(v) == Some(b), r is Err ==> truthy(v) is None { unimplemented!() }
#[verifier::external_body] fn unsupported() -> (r: ExecutorError) { unimplemented!() }
#[verifier::external_body] fn row_memory_of(r: &Row) -> (m: usize) { unimplemented!() }
#[verifier::external_body] fn apply_distinct(rows: Vec<Row>) -> (r: Vec<Row>) ensures r@ == distinct(rows@) { unimplemented!() }
#[verifier::external_body] fn apply_limit_offset(rows: Vec<Row>, limit: Option<usize>, offset: Option<usize>) -> (r: Vec<Row>) ensures r@ == limited(rows@, limit, offset) { unimplemented!() }

// ---------------- what the tail has to return ---------------------------------------------------------------------------
/// the rows that reach grouping
pub open spec fn filtered_spec(w: WhereOptimization, from_rows: Seq<Row>) -> Option<Seq<Row>> {
    match w {
        WhereOptimization::AlwaysTrue => Some(from_rows),
        WhereOptimization::AlwaysFalse => Some(Seq::empty()),
        WhereOptimization::Optimized(e) => where_filter(from_rows, Some(e)),
        WhereOptimization::Unchanged(o) => where_filter(from_rows, o),
    }
}
/// the groups: GROUP BY groups, or ONE group holding every filtered row (also when there is none)
pub open spec fn groups_spec(stmt: &SelectStmt, filtered: Seq<Row>) -> Option<Seq<(Seq<SqlValue>, Seq<Row>)>> {
    match stmt.group_by { Some(by) => grouping(filtered, by@), None => Some(seq![(Seq::<SqlValue>::empty(), filtered)]) }
}
pub open spec fn item_expr(it: SelectItem) -> Expression { it->Expression_expr }
/// values of the first n select items over one group
pub open spec fn group_row(g: (Seq<SqlValue>, Seq<Row>), items: Seq<SelectItem>, n: int) -> Seq<SqlValue>
    decreases n
{
    if n <= 0 { Seq::empty() } else { group_row(g, items, n - 1).push(agg_value(item_expr(items[n - 1]), g.1, g.0)->Some_0) }
}
pub open spec fn having_keeps(stmt: &SelectStmt, g: (Seq<SqlValue>, Seq<Row>)) -> bool {
    match stmt.having { Some(h) => truthy(agg_value(h, g.1, g.0)->Some_0) == Some(true), None => true }
}
/// one row per kept group among the first n groups, in group order
pub open spec fn rows_of_groups(gs: Seq<(Seq<SqlValue>, Seq<Row>)>, items: Seq<SelectItem>, stmt: &SelectStmt, n: int) -> Seq<Seq<SqlValue>>
    decreases n
{
    if n <= 0 { Seq::empty() } else {
        let p = rows_of_groups(gs, items, stmt, n - 1);
        if having_keeps(stmt, gs[n - 1]) { p.push(group_row(gs[n - 1], items, items.len() as int)) } else { p }
    }
}
/// ORDER BY, then DISTINCT, then LIMIT / OFFSET unless a set operation follows
pub open spec fn finish(rows: Seq<Row>, stmt: &SelectStmt, items: Seq<SelectItem>) -> Option<Seq<Row>> {
    let o = match stmt.order_by { Some(_) => ordered(rows, stmt, items), None => Some(rows) };
    match o {
        None => None,
        Some(r1) => {
            let r2 = if stmt.distinct { distinct(r1) } else { r1 };
            Some(if stmt.set_operation is Some { r2 } else { limited(r2, stmt.limit, stmt.offset) })
        }
    }
}

pub struct SelectExecutor { pub o: u8 }
impl SelectExecutor {
    #[verifier::external_body] fn clear_aggregate_cache(&self) { unimplemented!() }
    #[verifier::external_body] fn check_timeout(&self) -> (r: Result<(), ExecutorError>) { unimplemented!() }
    #[verifier::external_body] fn track_memory_allocation(&self, m: usize) -> (r: Result<(), ExecutorError>) { unimplemented!() }
    #[verifier::external_body]
    fn expand_wildcards_for_aggregation(&self, items: &Vec<SelectItem>, schema: &CombinedSchema) -> (r: Result<Vec<SelectItem>, ExecutorError>)
        ensures r matches Ok(v) ==> expanded(items@) == Some(v@), r is Err ==> expanded(items@) is None { unimplemented!() }
    #[verifier::external_body]
    fn evaluate_with_aggregates(&self, e: &Expression, rows: &Vec<Row>, key: &Vec<SqlValue>, ev: &Evaluator) -> (r: Result<SqlValue, ExecutorError>)
        ensures r matches Ok(v) ==> agg_value(*e, rows@, key@) == Some(v), r is Err ==> agg_value(*e, rows@, key@) is None { unimplemented!() }
    #[verifier::external_body]
    fn apply_order_by_to_aggregates(&self, rows: Vec<Row>, stmt: &SelectStmt, order_by: &Vec<OrderByItem>, items: &Vec<SelectItem>) -> (r: Result<Vec<Row>, ExecutorError>)
        ensures r matches Ok(v) ==> ordered(rows@, stmt, items@) == Some(v@), r is Err ==> ordered(rows@, stmt, items@) is None { unimplemented!() }

//@@ aggregate_tail
}

fn canary_tail(ex: &SelectExecutor, stmt: &SelectStmt, w: WhereOptimization, f: FromResult, ev: Evaluator, s: CombinedSchema)
{
    let r = ex.aggregate_tail(stmt, w, f, ev, s);
    assert(false); // CANARY
}

}
fn main() {}
'''

_F = 'crates/vibesql-executor/src/select/executor/aggregation/mod.rs'
_G = 'groups_view(groups@)'
ITEMS = {
    'aggregate_tail': dict(
        file=_F, path="impl SelectExecutor<'_>::fn execute_with_aggregation", ret='res',
        fragment=dict(kind='tail', index=0, **{'from': r'let filtered_rows = match where_optimization \{'},
                      sig='fn aggregate_tail(&self, stmt: &SelectStmt, where_optimization: WhereOptimization, from_result: FromResult, evaluator: Evaluator, schema: CombinedSchema) -> Result<Vec<Row>, ExecutorError>'),
        rewrites=[
            ('re', r'crate::optimizer::WhereOptimization', 'WhereOptimization', None),
            ('re', r'vibesql_ast::SelectItem', 'SelectItem', None),
            ('re', r'vibesql_storage::Row', 'Row', None),
            ('re', r'vec!\[\(Vec::new\(\), filtered_rows\)\]', 'one_group(filtered_rows)', None),
            # R10: consuming loop over the groups / loop over the select items -> index loops
            ('re', r'for \(group_key, group_rows\) in groups \{', 'let mut gi__: usize = 0; while gi__ < groups.len() { let group_key = key_clone(&groups[gi__].0); let group_rows = rows_clone(&groups[gi__].1); gi__ = gi__ + 1;', 1),
            ('re', r'for item in &expanded_select_list \{', 'let mut ii__: usize = 0; while ii__ < expanded_select_list.len() { let item = &expanded_select_list[ii__]; ii__ = ii__ + 1;', 1),
            # the HAVING decision table is compared with the reference decision in unit E-truthy (harness e_truthy_having); here it is one call
            ('re', r'(?s)match having_result \{.*?\n {16}\}', 'having_decision(having_result)?', 1),
            ('re', r'(?s)return Err\(ExecutorError::UnsupportedFeature\(.*?\.to_string\(\),?\s*\)\)', 'return Err(unsupported())', None),
            ('re', r'(?s)std::mem::size_of::<Row>\(\)\s*\+ std::mem::size_of_val\(row\.values\.as_slice\(\)\)', 'row_memory_of(&row)', None),
        ],
        loops={0: '''
            invariant
                gi__ <= groups@.len(),
                expanded(stmt.select_list@) == Some(expanded_select_list@),
                row_vals(result_rows@) =~= rows_of_groups(%(G)s, expanded_select_list@, stmt, gi__ as int),
            decreases groups@.len() - gi__,
''' % dict(G=_G), 1: '''
                invariant
                    ii__ <= expanded_select_list@.len(), 0 < gi__ <= groups@.len(),
                    group_key@ == groups@[gi__ - 1].0@, group_rows@ == groups@[gi__ - 1].1@,
                    aggregate_results@ =~= group_row(%(G)s[gi__ - 1], expanded_select_list@, ii__ as int),
                decreases expanded_select_list@.len() - ii__,
''' % dict(G=_G)},
        proofs=[('let expanded_select_list =', 'proof { assert(filtered_spec(where_optimization, from_result.rows()) == Some(filtered_rows@)); assert(groups_spec(stmt, filtered_rows@) is Some && groups_view(groups@) =~= groups_spec(stmt, filtered_rows@)->Some_0); }'),
                ('@afterloop0', 'let ghost rb__ = result_rows@; proof { assert(row_vals(rb__) =~= rows_of_groups(%s, expanded_select_list@, stmt, groups@.len() as int)); }' % _G)],
        contract='''
        ensures
            res matches Ok(out) ==> ({
                let filtered = filtered_spec(where_optimization, from_result.rows());
                let gs = groups_spec(stmt, filtered->Some_0);
                let items = expanded(stmt.select_list@);
                &&& filtered is Some && gs is Some && items is Some
                &&& exists|rb: Seq<Row>| #[trigger] row_vals(rb) =~= rows_of_groups(gs->Some_0, items->Some_0, stmt, gs->Some_0.len() as int)
                        && finish(rb, stmt, items->Some_0) == Some(out@)
            }),
'''),
}

OBLIGATIONS = {
    'aggregate_tail': ['post:where_filtered_rows__one_group_without_group_by__one_row_per_group_kept_by_having__order_distinct_limit', 'proof:loop_invariants_and_termination', 'safety:index_in_bounds'],
}
CANARIES = ['canary_tail']
TRUSTED = [
    'R6 (fragment kind tail): the statements of execute_with_aggregation from `let filtered_rows = match where_optimization {` to the end are lifted into a method whose parameters are the locals and arguments they read; NOT under contract: the head of the function (the simple COUNT(*) fast path, FROM execution / the one implicit row of SELECT without FROM, evaluator construction, optimize_where_clause)',
    'external_body, each an UNINTERPRETED DETERMINISTIC function of its arguments (Err <=> None): apply_where_filter_combined_auto (where_filter), group_rows (grouping; the partition itself: unit G-group), evaluate_with_aggregates (agg_value; accumulators: unit A-acc), expand_wildcards_for_aggregation (expanded), apply_order_by_to_aggregates (ordered), apply_distinct (distinct; unit S-setops), apply_limit_offset (limited; unit S-limit)',
    'having_decision: the inline HAVING match is replaced by one call with the uninterpreted decision truthy(); the table itself is compared with the reference WHERE decision in unit E-truthy (harness e_truthy_having)',
    'SqlValue, Expression, ExecutorError, Str, Opq, CombinedSchema, Evaluator (clear_cse_cache), FromResult (into_rows), Row (vals; Row::new keeps the values) opaque; SelectStmt / SelectItem / OrderByItem / WhereOptimization reduced to the fields and variants read here; one_group = vec![(Vec::new(), rows)], key_clone / rows_clone = the moves out of the consumed group vector, unsupported = error construction, row_memory_of = the size_of arithmetic; clear_aggregate_cache / check_timeout / track_memory_allocation: no effect on the result',
    'R10 rewrites of `for (group_key, group_rows) in groups` (consuming) and `for item in &expanded_select_list` into index loops',
]
