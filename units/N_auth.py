NAME = 'N-auth'
PROPERTIES = ['C29']
ENGINE = 'verus'
CLASS = 'U'
DOC = ('PasswordStore::verify_md5 / verify_cleartext decision logic with the digests as uninterpreted functions: MD5 verification accepts iff the '
       'user exists with a {MD5} secret and the response is "md5" ++ D(secret, user, salt); cleartext verification accepts iff the user exists with a '
       '$argon2 secret that parses and verifies. All other inputs are rejected.')

TEMPLATE = r'''
use vstd::prelude::*;
verus! {

// R2: str / String -> opaque Str with a Seq<char> view; the methods used carry their std-documented contracts
#[verifier::external_body] pub struct Str { s: String }
impl View for Str { type V = Seq<char>; uninterp spec fn view(&self) -> Seq<char>; }
pub open spec fn is_prefix(p: Seq<char>, s: Seq<char>) -> bool { p.len() <= s.len() && s.subrange(0, p.len() as int) == p }
pub open spec fn strip(p: Seq<char>, s: Seq<char>) -> Seq<char> { s.subrange(p.len() as int, s.len() as int) }
impl Str {
    #[verifier::external_body]
    pub fn strip_prefix(&self, p: &Str) -> (r: Option<&Str>)
        ensures match r { Some(t) => is_prefix(p@, self@) && t@ == strip(p@, self@), None => !is_prefix(p@, self@) }
    { unimplemented!() }
    #[verifier::external_body]
    pub fn starts_with(&self, p: &Str) -> (r: bool) ensures r == is_prefix(p@, self@) { unimplemented!() }
    #[verifier::external_body]
    pub fn eq(&self, o: &Str) -> (r: bool) ensures r == (self@ == o@) { unimplemented!() }
    #[verifier::external_body]
    pub fn ne(&self, o: &Str) -> (r: bool) ensures r == (self@ != o@) { unimplemented!() }
    // further std str methods a change might introduce: specified (identity ones) or left uninterpreted, so that such a change is DECIDED
    // (the postcondition then fails unless the value flow is unchanged) instead of ending in "method not found"
    #[verifier::external_body]
    pub fn trim(&self) -> (r: &Str) ensures r@ == str_trim(self@) { unimplemented!() }
    #[verifier::external_body]
    pub fn trim_start(&self) -> (r: &Str) ensures r@ == str_trim_start(self@) { unimplemented!() }
    #[verifier::external_body]
    pub fn trim_end(&self) -> (r: &Str) ensures r@ == str_trim_end(self@) { unimplemented!() }
    #[verifier::external_body]
    pub fn to_lowercase(&self) -> (r: Str) ensures r@ == str_lower(self@) { unimplemented!() }
    #[verifier::external_body]
    pub fn to_uppercase(&self) -> (r: Str) ensures r@ == str_upper(self@) { unimplemented!() }
    #[verifier::external_body]
    pub fn to_string(&self) -> (r: Str) ensures r@ == self@ { unimplemented!() }
    #[verifier::external_body]
    pub fn as_str(&self) -> (r: &Str) ensures r@ == self@ { unimplemented!() }
    #[verifier::external_body]
    pub fn len(&self) -> (r: usize) ensures r == str_byte_len(self@) { unimplemented!() }
    #[verifier::external_body]
    pub fn is_empty(&self) -> (r: bool) ensures r == (self@.len() == 0) { unimplemented!() }
}
pub uninterp spec fn str_trim(s: Seq<char>) -> Seq<char>;
pub uninterp spec fn str_trim_start(s: Seq<char>) -> Seq<char>;
pub uninterp spec fn str_trim_end(s: Seq<char>) -> Seq<char>;
pub uninterp spec fn str_lower(s: Seq<char>) -> Seq<char>;
pub uninterp spec fn str_upper(s: Seq<char>) -> Seq<char>;
pub uninterp spec fn str_byte_len(s: Seq<char>) -> nat;
// string literals of the code
pub uninterp spec fn LIT_MD5_BRACE() -> Seq<char>;   // "{MD5}"
pub uninterp spec fn LIT_MD5() -> Seq<char>;         // "md5"
pub uninterp spec fn LIT_ARGON2() -> Seq<char>;      // "$argon2"
#[verifier::external_body] fn lit_md5_brace() -> (r: &'static Str) ensures r@ == LIT_MD5_BRACE() { unimplemented!() }
#[verifier::external_body] fn lit_md5() -> (r: &'static Str) ensures r@ == LIT_MD5() { unimplemented!() }
#[verifier::external_body] fn lit_argon2() -> (r: &'static Str) ensures r@ == LIT_ARGON2() { unimplemented!() }
// "{MD5}..." and "$argon2..." are different prefixes (first characters differ)
#[verifier::external_body]
proof fn lit_prefixes_disjoint() ensures forall|s: Seq<char>| !(is_prefix(LIT_MD5_BRACE(), s) && is_prefix(LIT_ARGON2(), s)) {}

proof fn lemma_concat_cancel(p: Seq<char>, x: Seq<char>, y: Seq<char>)
    requires p + x == p + y
    ensures x == y
{
    assert(x =~= (p + x).subrange(p.len() as int, (p + x).len() as int));
    assert(y =~= (p + y).subrange(p.len() as int, (p + y).len() as int));
}

// uninterpreted cryptography
pub uninterp spec fn D(pw: Seq<char>, user: Seq<char>, salt: Seq<u8>) -> Seq<char>;     // hex digest md5(md5(pw ++ user) ++ salt)
pub uninterp spec fn phc_parses(stored: Seq<char>) -> bool;                               // PasswordHash::new succeeds
pub uninterp spec fn argon2_ok(password: Seq<char>, stored: Seq<char>) -> bool;           // Argon2 verification of password against the stored PHC string
#[verifier::external_body]
fn compute_md5_password(password: &Str, username: &Str, salt: &[u8; 4]) -> (r: Str) ensures r@ == D(password@, username@, salt@) { unimplemented!() }
#[verifier::external_body] pub struct ParsedHash { p: u8 }
impl ParsedHash { pub uninterp spec fn of(&self) -> Seq<char>; }
#[verifier::external_body]
fn password_hash_new(stored: &Str) -> (r: Result<ParsedHash, ()>)
    ensures match r { Ok(p) => phc_parses(stored@) && p.of() == stored@, Err(_) => !phc_parses(stored@) }
{ unimplemented!() }
#[verifier::external_body]
fn argon2_verify_is_ok(password: &Str, parsed: &ParsedHash) -> (r: bool) ensures r == argon2_ok(password@, parsed.of()) { unimplemented!() }

// HashMap<String, String> of the store as an abstract map
#[verifier::external_body] pub struct PasswordStore { m: Vec<u8> }
impl PasswordStore {
    pub uninterp spec fn store(&self) -> Map<Seq<char>, Seq<char>>;
    #[verifier::external_body]
    pub fn get_password(&self, username: &Str) -> (r: Option<&Str>)
        ensures match r { Some(s) => self.store().contains_key(username@) && s@ == self.store()[username@], None => !self.store().contains_key(username@) }
    { unimplemented!() }

    // ---- the property, as spec predicates ----
    pub open spec fn md5_accepts(&self, user: Seq<char>, response: Seq<char>, salt: Seq<u8>) -> bool {
        self.store().contains_key(user) && is_prefix(LIT_MD5_BRACE(), self.store()[user])
            && response == LIT_MD5() + D(strip(LIT_MD5_BRACE(), self.store()[user]), user, salt)
    }
    pub open spec fn cleartext_accepts(&self, user: Seq<char>, password: Seq<char>) -> bool {
        self.store().contains_key(user) && is_prefix(LIT_ARGON2(), self.store()[user])
            && phc_parses(self.store()[user]) && argon2_ok(password, self.store()[user])
    }

//@@ verify_cleartext

//@@ verify_md5

//@@ verify_md5__known
}

fn canary_md5(s: &PasswordStore, u: &Str, p: &Str, salt: &[u8; 4])
    requires is_prefix(LIT_MD5(), p@)
{
    let r = s.verify_md5(u, p, salt);
    assert(false); // CANARY
}
fn canary_clear(s: &PasswordStore, u: &Str, p: &Str)
{
    let r = s.verify_cleartext(u, p);
    assert(false); // CANARY
}

}
fn main() {}
'''

_F = 'crates/vibesql-server/src/auth/password.rs'


def _eq_stub(m):
    """`expected == hash_to_compare` / `!=` on strings -> Str::eq / Str::ne"""
    return 'return expected.%s(hash_to_compare);' % ('eq' if m.group(1) == '==' else 'ne')


_MD5_RW = [
    ('lit', 'username: &str, password_hash: &str,', 'username: &Str, password_hash: &Str,', 1),
    ('re', r'warn!\((?:.|\n)*?\);', '', None),                                    # R10: logging only
    ('lit', 'stored.strip_prefix("{MD5}")', 'stored.strip_prefix(lit_md5_brace())', 1),
    ('lit', 'password_hash.strip_prefix("md5")', 'password_hash.strip_prefix(lit_md5())', 1),
    ('refn', r'return expected (==|!=) hash_to_compare;', _eq_stub, 1),
]
ITEMS = {
    'verify_cleartext': dict(
        file=_F, path='impl PasswordStore::fn verify_cleartext', ret='r',
        rewrites=[
            ('lit', 'username: &str, password: &str', 'username: &Str, password: &Str', 1),
            ('re', r'warn!\((?:.|\n)*?\);', '', None),
            ('lit', 'stored.starts_with("$argon2")', 'stored.starts_with(lit_argon2())', 1),
            ('lit', 'stored.starts_with("{MD5}")', 'stored.starts_with(lit_md5_brace())', 1),
            ('lit', 'PasswordHash::new(stored)', 'password_hash_new(stored)', 1),
            ('re', r'Argon2::default\(\)\s*\.verify_password\(password\.as_bytes\(\), &parsed_hash\)\s*\.is_ok\(\)', 'argon2_verify_is_ok(password, &parsed_hash)', 1),
        ],
        contract='''
    ensures r == self.cleartext_accepts(username@, password@),
'''),
    'verify_md5': dict(
        file=_F, path='impl PasswordStore::fn verify_md5', ret='r', rewrites=_MD5_RW,
        proofs=[('@entry', 'proof {\n assert(password_hash@ =~= LIT_MD5() + strip(LIT_MD5(), password_hash@));\n'
                 ' assert forall|x: Seq<char>| (password_hash@ == LIT_MD5() + x) <==> (strip(LIT_MD5(), password_hash@) == x) by {\n'
                 '   if password_hash@ == LIT_MD5() + x { lemma_concat_cancel(LIT_MD5(), x, strip(LIT_MD5(), password_hash@)); }\n }\n}')],
        contract='''
    // #main: responses that carry the "md5" prefix (what every PostgreSQL client sends)
    requires is_prefix(LIT_MD5(), password_hash@),
    ensures r == self.md5_accepts(username@, password_hash@, salt@),
'''),
    'verify_md5__known': dict(
        file=_F, path='impl PasswordStore::fn verify_md5', ret='r',
        rewrites=_MD5_RW + [('lit', 'fn verify_md5(', 'fn verify_md5__known(', 1)],
        contract='''
    // #known: the property on every response (no precondition): EXPECTED TO FAIL - a response WITHOUT the "md5" prefix is accepted
    ensures r == self.md5_accepts(username@, password_hash@, salt@),
'''),
}

OBLIGATIONS = {
    'verify_cleartext': ['post:accepts_iff_user_has_argon2_secret_that_parses_and_verifies', 'safety:no_panic'],
    'verify_md5': ['post:accepts_iff_response_is_md5_digest_of_stored_secret', 'safety:no_panic'],
    'verify_md5__known': ['post:accepts_iff_response_is_md5_digest_of_stored_secret__any_response'],
    'lemma_concat_cancel': ['post:concat_left_cancel'],
}
KNOWN = {'verify_md5__known': 'KF-C29-md5-prefix-optional'}
CANARIES = ['canary_md5', 'canary_clear']
TRUSTED = [
    'external_body Str (strip_prefix, starts_with, eq, ne, trim, trim_start, trim_end, to_lowercase, to_uppercase, to_string, as_str, len, is_empty): std str methods with their documented contracts; string literals as uninterpreted constants',
    'external_body lit_md5_brace / lit_md5 / lit_argon2 and lit_prefixes_disjoint: the three literals of the code',
    'external_body compute_md5_password: uninterpreted digest D (MD5 crate and the hex/concat formatting are not verified)',
    'external_body password_hash_new / argon2_verify_is_ok / ParsedHash: PasswordHash::new and Argon2::verify_password as uninterpreted predicates',
    'external_body PasswordStore::get_password: HashMap lookup as an abstract map',
    'R10: warn!(..) statements removed (logging only)',
    'timing behaviour, password-file loading and the connection state machine are not under contract',
]
