NAME = 'D-apply'
PROPERTIES = ['C09', 'C14', 'C15']
ENGINE = 'verus'
CLASS = 'U'
DOC = ('DeleteExecutor::execute_internal (executor delete/executor.rs), from the collected (position, row) pairs to the end - how a DELETE is APPLIED: the '
       'table loses exactly the rows at the collected positions, in ONE delete_where call over a position predicate; the user-defined indexes are rebuilt '
       'directly afterwards (positions shift), before anything else touches the database; one Delete change is then recorded per collected row, in order, '
       'before the AFTER triggers run; the reported count is the number of rows delete_where removed. Stated over the trace of storage operations.')

TEMPLATE = r'''
use vstd::prelude::*;
verus! {

#[verifier::external_body] pub struct Row { r: u8 }
impl Row { #[verifier::external_body] pub fn clone(&self) -> (r: Row) ensures r == *self { unimplemented!() } }
#[verifier::external_body] pub struct Str { s: u8 }
impl Str { #[verifier::external_body] pub fn clone(&self) -> (r: Str) ensures r == *self { unimplemented!() } }
#[verifier::external_body] pub struct ExecutorError { e: u8 }
#[verifier::external_body] pub struct TriggerContext { t: u8 }
pub struct DeleteStmt { pub table_name: Str }
pub enum TransactionChange { Delete { table_name: Str, row: Row } }

/// the storage operations a statement performs, in order
pub enum Ev {
    /// Table::delete_where over "position is in this set" (removes exactly those rows: unit K-table)
    DeletePositions(Str, Set<usize>),
    /// Database::rebuild_indexes (units I-resolve, K-undo)
    Rebuild(Str),
    /// Database::record_change
    Record(TransactionChange),
    /// a trigger body ran (may do anything)
    Trigger,
    /// Database::update_indexes_for_delete(table, row, position): the row's keys leave the user-defined indexes, NO position is adjusted (unit I-maint delete_step)
    IndexDelete(Str, Row, usize),
}
pub open spec fn pos_set(v: Seq<(usize, Row)>) -> Set<usize> { Seq::new(v.len(), |i: int| v[i].0).to_set() }
/// the Delete records for the first n collected rows, in order
pub open spec fn records(t: Str, v: Seq<(usize, Row)>, n: int) -> Seq<Ev>
    decreases n
{
    if n <= 0 { Seq::empty() } else { records(t, v, n - 1).push(Ev::Record(TransactionChange::Delete { table_name: t, row: v[n - 1].1 })) }
}
/// n trigger events
pub open spec fn triggers(n: int) -> Seq<Ev> decreases n { if n <= 0 { Seq::empty() } else { triggers(n - 1).push(Ev::Trigger) } }

proof fn lemma_triggers(n: int)
    requires n >= 0,
    ensures triggers(n).len() == n, forall|j: int| 0 <= j < n ==> triggers(n)[j] is Trigger,
    decreases n,
{
    if n > 0 { lemma_triggers(n - 1); }
}
proof fn lemma_records_len(t: Str, v: Seq<(usize, Row)>, n: int)
    requires n >= 0,
    ensures records(t, v, n).len() == n,
    decreases n,
{
    if n > 0 { lemma_records_len(t, v, n - 1); }
}
#[verifier::external_body] pub struct PosSet { s: u8 }
impl PosSet { pub uninterp spec fn view(&self) -> Set<usize>; }
// rows_and_indices_to_delete.iter().map(|(idx, _)| *idx).collect::<HashSet<usize>>()
#[verifier::external_body]
fn positions_of(v: &Vec<(usize, Row)>) -> (r: PosSet) ensures r.view() == pos_set(v@) { unimplemented!() }

#[verifier::external_body] pub struct Database { d: u8 }
impl Database {
    pub uninterp spec fn trace(&self) -> Seq<Ev>;
    // get_table_mut(..)? + delete_where(|_row| { position counter; indices_to_delete.contains(&index) })
    #[verifier::external_body]
    pub fn delete_positions(&mut self, t: &Str, pos: &PosSet) -> (r: Result<usize, ExecutorError>)
        ensures r is Ok ==> final(self).trace() == old(self).trace().push(Ev::DeletePositions(*t, pos.view())),
                r is Err ==> final(self).trace() == old(self).trace()
    { unimplemented!() }
    #[verifier::external_body]
    pub fn rebuild_indexes(&mut self, t: &Str) ensures final(self).trace() == old(self).trace().push(Ev::Rebuild(*t)) { unimplemented!() }
    // other storage operations a DELETE might be rewritten to use (idioms recognised below): they leave their own events
    #[verifier::external_body]
    pub fn update_indexes_for_delete(&mut self, t: &Str, row: &Row, row_index: usize) ensures final(self).trace() == old(self).trace().push(Ev::IndexDelete(*t, *row, row_index)) { unimplemented!() }
    // database.get_table(&name).map_or(0, |table| table.row_count())
    #[verifier::external_body]
    pub fn tbl_row_count(&self, t: &Str) -> (r: usize) { unimplemented!() }
    #[verifier::external_body]
    pub fn record_change(&mut self, c: TransactionChange) ensures final(self).trace() == old(self).trace().push(Ev::Record(c)) { unimplemented!() }
}
// crate::TriggerFirer::execute_after_triggers / execute_after_statement_triggers
#[verifier::external_body]
fn after_row_trigger(db: &mut Database, t: &Str, row: &Row) -> (r: Result<(), ExecutorError>)
    ensures final(db).trace() == old(db).trace().push(Ev::Trigger) { unimplemented!() }
#[verifier::external_body]
fn after_statement_trigger(db: &mut Database, t: &Str) -> (r: Result<(), ExecutorError>)
    ensures final(db).trace() == old(db).trace().push(Ev::Trigger) { unimplemented!() }

//@@ apply_delete

fn canary_apply(stmt: &DeleteStmt, database: &mut Database, rows: Vec<(usize, Row)>, tc: Option<&TriggerContext>)
{
    let r = apply_delete(stmt, database, rows, tc);
    assert(false); // CANARY
}

}
fn main() {}
'''

ITEMS = {
    'apply_delete': dict(
        file='crates/vibesql-executor/src/delete/executor.rs', path='impl DeleteExecutor::fn execute_internal', ret='res',
        fragment=dict(kind='tail', index=0, **{'from': r'// Extract just the indices'},
                      sig='fn apply_delete(stmt: &DeleteStmt, database: &mut Database, rows_and_indices_to_delete: Vec<(usize, Row)>, trigger_context: Option<&TriggerContext>) -> Result<usize, ExecutorError>'),
        rewrites=[
            ('re', r'(?s)let indices_to_delete: std::collections::HashSet<usize> =\s*rows_and_indices_to_delete\.iter\(\)\.map\(\|\(idx, _\)\| \*idx\)\.collect\(\);', 'let indices_to_delete = positions_of(&rows_and_indices_to_delete);', 1),
            # R12 + FnMut: get_table_mut + the position-counting closure handed to delete_where -> one operation on the named table
            ('re', r'(?s)let table_mut = database\s*\.get_table_mut\(&stmt\.table_name\)\s*\.ok_or_else\(\|\| ExecutorError::TableNotFound\(stmt\.table_name\.clone\(\)\)\)\?;.*?let deleted_count = table_mut\.delete_where\(\|_row\| \{.*?\n        \}\);',
             'let deleted_count = database.delete_positions(&stmt.table_name, &indices_to_delete)?;', 1),
            ('re', r'vibesql_storage::database::TransactionChange', 'TransactionChange', None),
            # idioms (present or not): row count of the statement's table; a slice-pattern match on the collected rows written as the `if` it abbreviates
            ('re', r'database\.get_table\(&stmt\.table_name\)\.map_or\(0, \|(\w+)\| \1\.row_count\(\)\)', 'database.tbl_row_count(&stmt.table_name)', None),
            ('re', r'(?s)match (\w+)\.as_slice\(\) \{\s*\[\((\w+), (\w+)\)\] if ([^{}]*?) => \{(.*?)\}\s*_ => ([^{}]*?),\s*\}',
             r'if \1.len() == 1 && { let \2 = &\1[0].0; let \3 = &\1[0].1; \4 } { let \2 = &\1[0].0; let \3 = &\1[0].1; \5; } else { \6; }', None),
            ('re', r'for \(_, row\) in &rows_and_indices_to_delete \{', 'let mut di__: usize = 0; while di__ < rows_and_indices_to_delete.len() { let row = &rows_and_indices_to_delete[di__].1; di__ = di__ + 1;', 2),
            ('re', r'(?s)crate::TriggerFirer::execute_after_triggers\(\s*database,\s*&stmt\.table_name,\s*vibesql_ast::TriggerEvent::Delete,\s*Some\(row\),\s*None,\s*\)\?', 'after_row_trigger(database, &stmt.table_name, row)?', 1),
            ('re', r'(?s)crate::TriggerFirer::execute_after_statement_triggers\(\s*database,\s*&stmt\.table_name,\s*vibesql_ast::TriggerEvent::Delete,\s*\)\?', 'after_statement_trigger(database, &stmt.table_name)?', 1),
        ],
        loops={0: '''
            invariant
                di__ <= rows_and_indices_to_delete@.len(),
                database.trace() == old(database).trace().push(Ev::DeletePositions(stmt.table_name, pos_set(rows_and_indices_to_delete@))).push(Ev::Rebuild(stmt.table_name))
                    + records(stmt.table_name, rows_and_indices_to_delete@, di__ as int),
            decreases rows_and_indices_to_delete@.len() - di__,
''', 1: '''
            invariant
                di__ <= rows_and_indices_to_delete@.len(),
                database.trace() == old(database).trace().push(Ev::DeletePositions(stmt.table_name, pos_set(rows_and_indices_to_delete@))).push(Ev::Rebuild(stmt.table_name))
                    + records(stmt.table_name, rows_and_indices_to_delete@, rows_and_indices_to_delete@.len() as int) + triggers(di__ as int),
            decreases rows_and_indices_to_delete@.len() - di__,
'''},
        proofs=[('@afterloop1', 'proof { lemma_triggers(rows_and_indices_to_delete@.len() as int); lemma_records_len(stmt.table_name, rows_and_indices_to_delete@, rows_and_indices_to_delete@.len() as int); }'),
                ('@tail', 'proof { let base__ = old(database).trace().push(Ev::DeletePositions(stmt.table_name, pos_set(rows_and_indices_to_delete@))).push(Ev::Rebuild(stmt.table_name)) + records(stmt.table_name, rows_and_indices_to_delete@, rows_and_indices_to_delete@.len() as int); assert(database.trace().subrange(0, base__.len() as int) =~= base__); }')],
        contract='''
    ensures
        // whatever the outcome, the storage operations start with: ONE deletion of exactly the collected positions, then the rebuild of the indexes
        final(database).trace().len() > old(database).trace().len() ==> ({
            let t = final(database).trace(); let n0 = old(database).trace().len() as int;
            &&& t.subrange(0, n0) == old(database).trace()
            &&& t[n0] == Ev::DeletePositions(stmt.table_name, pos_set(rows_and_indices_to_delete@))
            &&& t.len() > n0 + 1 && t[n0 + 1] == Ev::Rebuild(stmt.table_name)
        }),
        // success: then one Delete record per collected row, in order, and after that only trigger bodies
        res is Ok ==> ({
            let base = old(database).trace().push(Ev::DeletePositions(stmt.table_name, pos_set(rows_and_indices_to_delete@))).push(Ev::Rebuild(stmt.table_name))
                + records(stmt.table_name, rows_and_indices_to_delete@, rows_and_indices_to_delete@.len() as int);
            let t = final(database).trace();
            &&& t.len() >= base.len() && t.subrange(0, base.len() as int) == base
            &&& forall|j: int| base.len() <= j < t.len() ==> t[j] is Trigger
        }),
'''),
}

OBLIGATIONS = {
    'apply_delete': ['post:one_deletion_of_exactly_the_collected_positions_then_index_rebuild_then_one_record_per_row_in_order', 'proof:loop_invariants_and_termination', 'safety:index_in_bounds'],
}
CANARIES = ['canary_apply']
TRUSTED = [
    'R6 (fragment kind tail): the statements of DeleteExecutor::execute_internal from "// Extract just the indices" to the end are lifted; NOT under contract: everything before it - privilege check, the truncate fast path, which rows are collected (row selection: units D-pk / E-truthy), BEFORE triggers, the referential-integrity actions (cascades run BEFORE the deletion and may change the table the positions refer to: observed, DESIGN 9b)',
    'the contract is over a TRACE of storage operations (ghost sequence Database::trace): external_body delete_positions (get_table_mut + Table::delete_where with the position-counting closure `|_row| { let i = counter; counter += 1; set.contains(&i) }` = ONE event DeletePositions(table, positions); that delete_where calls its predicate once per row in position order and removes exactly the rows it accepts is unit K-table), rebuild_indexes (event Rebuild), record_change (event Record), the AFTER triggers (external_body after_row_trigger / after_statement_trigger - event Trigger: a trigger body may do anything to the database); Row::clone / Str::clone are copies; PosSet = HashSet<usize>',
    'idioms recognised if present (each leaves its own trace event, so a DELETE that maintains indexes some other way than by the rebuild fails the contract instead of leaving the unit undecided): external_body update_indexes_for_delete (event IndexDelete), tbl_row_count (`database.get_table(&name).map_or(0, |t| t.row_count())`), and a slice-pattern `match rows.as_slice() { [(a, b)] if C => X, _ => Y }` written as the `if` it abbreviates',
    'positions_of = iter().map(|(idx, _)| *idx).collect::<HashSet<usize>>(); Row / Str / ExecutorError / TriggerContext opaque; DeleteStmt and TransactionChange reduced to what is used; R10 rewrite of the two `for (_, row) in &rows_and_indices_to_delete` loops',
]
