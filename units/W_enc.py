NAME = 'W-enc'
PROPERTIES = ['C28']
ENGINE = 'verus'
CLASS = 'U'
RLIMIT = 60
TIMEOUT = 900
DOC = ('BackendMessage::encode, put_cstring, encode_notice_or_error, TransactionStatus::as_byte: for every message whose fields fit the wire format '
       '(lengths fit i32, counts fit i16, C strings without NUL) the bytes appended are exactly ONE frame: type byte, big-endian i32 length equal to the '
       'number of bytes after the type byte, then the specification serialisation of the fields.  Without that precondition the length/count fields are '
       'silently truncated: recorded finding.')

TEMPLATE = r'''
use vstd::prelude::*;
verus! {

// ---------------- bytes::BytesMut (write side): assumed contracts -----------------------------------------------
#[verifier::external_body]
pub struct BytesMut { v: Vec<u8> }
impl View for BytesMut { type V = Seq<u8>; uninterp spec fn view(&self) -> Seq<u8>; }
#[verifier::opaque]
pub open spec fn be32(x: int) -> Seq<u8> { seq![((x / 16777216) % 256) as u8, ((x / 65536) % 256) as u8, ((x / 256) % 256) as u8, (x % 256) as u8] }
#[verifier::opaque]
pub open spec fn be16(x: int) -> Seq<u8> { seq![((x / 256) % 256) as u8, (x % 256) as u8] }
/// the only facts the proofs need about the big-endian encodings: their lengths (the division/modulo definitions stay hidden from the solver)
proof fn lemma_be_len()
    ensures forall|x: int| (#[trigger] be32(x)).len() == 4, forall|x: int| (#[trigger] be16(x)).len() == 2
{
    reveal(be32); reveal(be16);
}
pub open spec fn u32_of(x: i32) -> int { if x >= 0 { x as int } else { x as int + 0x1_0000_0000 } }
pub open spec fn u16_of(x: i16) -> int { if x >= 0 { x as int } else { x as int + 0x1_0000 } }
impl BytesMut {
    #[verifier::external_body] pub fn put_u8(&mut self, b: u8) ensures final(self)@ == old(self)@.push(b) { unimplemented!() }
    #[verifier::external_body] pub fn put_i32(&mut self, x: i32) ensures final(self)@ == old(self)@ + be32(u32_of(x)) { unimplemented!() }
    #[verifier::external_body] pub fn put_i16(&mut self, x: i16) ensures final(self)@ == old(self)@ + be16(u16_of(x)) { unimplemented!() }
    #[verifier::external_body] pub fn put_slice(&mut self, s: &[u8]) ensures final(self)@ == old(self)@ + s@ { unimplemented!() }
}
// String / &str as an opaque value with a byte view
#[verifier::external_body] pub struct Str { s: String }
impl View for Str { type V = Seq<u8>; uninterp spec fn view(&self) -> Seq<u8>; }
impl Str {
    #[verifier::external_body] pub fn len(&self) -> (r: usize) ensures r == self@.len() { unimplemented!() }
    #[verifier::external_body] pub fn as_bytes(&self) -> (r: &[u8]) ensures r@ == self@ { unimplemented!() }
}
// HashMap<u8, String> of error/notice fields: an (unmodified) map iterates its entries in one fixed order
#[verifier::external_body] pub struct FieldMap { m: u8 }
impl FieldMap {
    pub uninterp spec fn entries(&self) -> Seq<(u8, Str)>;
    #[verifier::external_body] pub fn len(&self) -> (r: usize) ensures r == self.entries().len() { unimplemented!() }
    #[verifier::external_body] pub fn key_at(&self, i: usize) -> (r: u8) requires i < self.entries().len() ensures r == self.entries()[i as int].0 { unimplemented!() }
    #[verifier::external_body] pub fn value_at(&self, i: usize) -> (r: &Str) requires i < self.entries().len() ensures *r == self.entries()[i as int].1 { unimplemented!() }
}

//@@ TransactionStatus

//@@ FieldDescription

//@@ BackendMessage

// ---------------- the PostgreSQL v3 backend frame format as spec functions ---------------------------------------
spec fn no_nul(s: Seq<u8>) -> bool { forall|i: int| 0 <= i < s.len() ==> s[i] != 0 }
spec fn cstr(s: Str) -> Seq<u8> { s@.push(0u8) }
spec fn status_byte(s: TransactionStatus) -> u8 {
    match s { TransactionStatus::Idle => 73u8, TransactionStatus::InTransaction => 84u8, TransactionStatus::FailedTransaction => 69u8 }
}
spec fn field_bytes(f: FieldDescription) -> Seq<u8> {
    cstr(f.name) + be32(u32_of(f.table_oid)) + be16(u16_of(f.column_attr_number)) + be32(u32_of(f.data_type_oid))
        + be16(u16_of(f.data_type_size)) + be32(u32_of(f.type_modifier)) + be16(u16_of(f.format_code))
}
spec fn fields_bytes(fs: Seq<FieldDescription>) -> Seq<u8> decreases fs.len() {
    if fs.len() == 0 { Seq::empty() } else { fields_bytes(fs.drop_last()) + field_bytes(fs.last()) }
}
spec fn value_bytes(v: Option<Vec<u8>>) -> Seq<u8> {
    match v { Some(b) => be32(b@.len() as int) + b@, None => be32(u32_of(-1i32)) }
}
spec fn values_bytes(vs: Seq<Option<Vec<u8>>>) -> Seq<u8> decreases vs.len() {
    if vs.len() == 0 { Seq::empty() } else { values_bytes(vs.drop_last()) + value_bytes(vs.last()) }
}
spec fn entry_bytes(e: (u8, Str)) -> Seq<u8> { seq![e.0] + cstr(e.1) }
spec fn entries_bytes(es: Seq<(u8, Str)>) -> Seq<u8> decreases es.len() {
    if es.len() == 0 { Seq::empty() } else { entries_bytes(es.drop_last()) + entry_bytes(es.last()) }
}
/// everything after the length field
spec fn body(m: BackendMessage) -> Seq<u8> {
    match m {
        BackendMessage::AuthenticationOk => be32(0),
        BackendMessage::AuthenticationCleartextPassword => be32(3),
        BackendMessage::AuthenticationMD5Password { salt } => be32(5) + salt@,
        BackendMessage::ParameterStatus { name, value } => cstr(name) + cstr(value),
        BackendMessage::BackendKeyData { process_id, secret_key } => be32(u32_of(process_id)) + be32(u32_of(secret_key)),
        BackendMessage::ReadyForQuery { status } => seq![status_byte(status)],
        BackendMessage::RowDescription { fields } => be16(fields@.len() as int) + fields_bytes(fields@),
        BackendMessage::DataRow { values } => be16(values@.len() as int) + values_bytes(values@),
        BackendMessage::CommandComplete { tag } => cstr(tag),
        BackendMessage::ErrorResponse { fields } => entries_bytes(fields.entries()).push(0u8),
        BackendMessage::NoticeResponse { fields } => entries_bytes(fields.entries()).push(0u8),
        BackendMessage::EmptyQueryResponse => Seq::empty(),
    }
}
spec fn type_byte(m: BackendMessage) -> u8 {
    match m {
        BackendMessage::AuthenticationOk | BackendMessage::AuthenticationCleartextPassword | BackendMessage::AuthenticationMD5Password { .. } => 82u8,
        BackendMessage::ParameterStatus { .. } => 83u8, BackendMessage::BackendKeyData { .. } => 75u8, BackendMessage::ReadyForQuery { .. } => 90u8,
        BackendMessage::RowDescription { .. } => 84u8, BackendMessage::DataRow { .. } => 68u8, BackendMessage::CommandComplete { .. } => 67u8,
        BackendMessage::ErrorResponse { .. } => 69u8, BackendMessage::NoticeResponse { .. } => 78u8, BackendMessage::EmptyQueryResponse => 73u8,
    }
}
/// ONE frame: type byte, length = number of bytes after the type byte (length field included), body
spec fn frame(m: BackendMessage) -> Seq<u8> { seq![type_byte(m)] + be32((4 + body(m).len()) as int) + body(m) }

/// the message fits the wire format (the protocol's own domain): every length fits its field, C strings carry no NUL
spec fn fields_fit(fs: Seq<FieldDescription>) -> bool { forall|i: int| 0 <= i < fs.len() ==> no_nul((#[trigger] fs[i]).name@) }
spec fn values_fit(vs: Seq<Option<Vec<u8>>>) -> bool { forall|i: int| 0 <= i < vs.len() ==> ((#[trigger] vs[i]) matches Some(b) ==> b@.len() <= 0x7fff_ffff) }
spec fn entries_fit(es: Seq<(u8, Str)>) -> bool { forall|i: int| 0 <= i < es.len() ==> no_nul((#[trigger] es[i]).1@) }
spec fn encodable(m: BackendMessage) -> bool {
    4 + body(m).len() <= 0x7fff_ffff && match m {
        BackendMessage::ParameterStatus { name, value } => no_nul(name@) && no_nul(value@),
        BackendMessage::RowDescription { fields } => fields@.len() <= 0x7fff && fields_fit(fields@),
        BackendMessage::DataRow { values } => values@.len() <= 0x7fff && values_fit(values@),
        BackendMessage::CommandComplete { tag } => no_nul(tag@),
        BackendMessage::ErrorResponse { fields } => entries_fit(fields.entries()),
        BackendMessage::NoticeResponse { fields } => entries_fit(fields.entries()),
        _ => true,
    }
}

proof fn lemma_fields_step(fs: Seq<FieldDescription>, k: int)
    requires 0 <= k < fs.len()
    ensures fields_bytes(fs.subrange(0, k + 1)) == fields_bytes(fs.subrange(0, k)) + field_bytes(fs[k])
{ assert(fs.subrange(0, k + 1).drop_last() =~= fs.subrange(0, k)); }
proof fn lemma_values_step(vs: Seq<Option<Vec<u8>>>, k: int)
    requires 0 <= k < vs.len()
    ensures values_bytes(vs.subrange(0, k + 1)) == values_bytes(vs.subrange(0, k)) + value_bytes(vs[k])
{ assert(vs.subrange(0, k + 1).drop_last() =~= vs.subrange(0, k)); }
proof fn lemma_entries_step(es: Seq<(u8, Str)>, k: int)
    requires 0 <= k < es.len()
    ensures entries_bytes(es.subrange(0, k + 1)) == entries_bytes(es.subrange(0, k)) + entry_bytes(es[k])
{ assert(es.subrange(0, k + 1).drop_last() =~= es.subrange(0, k)); }
proof fn lemma_fields_len_mono(fs: Seq<FieldDescription>, k: int)
    requires 0 <= k <= fs.len()
    ensures fields_bytes(fs.subrange(0, k)).len() <= fields_bytes(fs).len()
    decreases fs.len() - k
{
    if k < fs.len() { lemma_fields_step(fs, k); lemma_fields_len_mono(fs, k + 1); } else { assert(fs.subrange(0, k) =~= fs); }
}
proof fn lemma_values_len_mono(vs: Seq<Option<Vec<u8>>>, k: int)
    requires 0 <= k <= vs.len()
    ensures values_bytes(vs.subrange(0, k)).len() <= values_bytes(vs).len()
    decreases vs.len() - k
{
    if k < vs.len() { lemma_values_step(vs, k); lemma_values_len_mono(vs, k + 1); } else { assert(vs.subrange(0, k) =~= vs); }
}
proof fn lemma_entries_len_mono(es: Seq<(u8, Str)>, k: int)
    requires 0 <= k <= es.len()
    ensures entries_bytes(es.subrange(0, k)).len() <= entries_bytes(es).len()
    decreases es.len() - k
{
    if k < es.len() { lemma_entries_step(es, k); lemma_entries_len_mono(es, k + 1); } else { assert(es.subrange(0, k) =~= es); }
}

impl TransactionStatus {
//@@ as_byte
}

//@@ put_cstring

//@@ encode_notice_or_error

impl BackendMessage {
//@@ encode

//@@ encode__known
}

/// "the length field equals the number of bytes after the type byte": a consequence of the frame definition, stated for the record
proof fn lemma_frame_shape(m: BackendMessage)
    requires encodable(m)
    ensures frame(m).len() == 5 + body(m).len(), frame(m)[0] == type_byte(m), frame(m).subrange(1, 5) == be32((frame(m).len() - 1) as int)
{
    lemma_be_len();
    assert(frame(m).subrange(1, 5) =~= be32((4 + body(m).len()) as int));
}

fn canary_encode(m: &BackendMessage, buf: &mut BytesMut)
    requires encodable(*m)
{
    m.encode(buf);
    assert(false); // CANARY
}

}
fn main() {}
'''

_F = 'crates/vibesql-server/src/protocol/messages.rs'
_STR = ('re', r'\bString\b', 'Str', None)
ITEMS = {
    'TransactionStatus': dict(file=_F, path='enum TransactionStatus'),
    'FieldDescription': dict(file=_F, path='struct FieldDescription', rewrites=[_STR]),
    'BackendMessage': dict(file=_F, path='enum BackendMessage', rewrites=[_STR, ('re', r'HashMap<u8, Str>', 'FieldMap', 2)]),
    'as_byte': dict(file=_F, path='impl TransactionStatus::fn as_byte', ret='r', contract='''
    ensures r == status_byte(*self),
'''),
    'put_cstring': dict(file=_F, path='fn put_cstring', rewrites=[('lit', 's: &str', 's: &Str', 1)], contract='''
    ensures final(buf)@ == old(buf)@ + cstr(*s),
'''),
    'encode_notice_or_error': dict(
        file=_F, path='fn encode_notice_or_error',
        rewrites=[('lit', 'fields: &HashMap<u8, String>', 'fields: &FieldMap', 1),
                  # R8: iteration over the map's entries -> index loops over the (fixed) entry sequence
                  ('lit', 'for (_, value) in fields {', 'for i in 0..fields.len() {\n        let value = fields.value_at(i);', 1),
                  ('lit', 'for (&field_type, value) in fields {', 'for i in 0..fields.len() {\n        let field_type = fields.key_at(i);\n        let value = fields.value_at(i);', 1)],
        proofs=[('@entry', 'proof { lemma_be_len(); }'),
                ('@loop0', 'proof { lemma_be_len(); lemma_entries_step(fields.entries(), i as int); lemma_entries_len_mono(fields.entries(), i as int + 1); }'),
                ('@loop1', 'proof { lemma_be_len(); lemma_entries_step(fields.entries(), i as int); }'),
                ('after:buf.put_i32(len as i32);', 'proof { assert(fields.entries().subrange(0, fields.entries().len() as int) =~= fields.entries()); }')],
        loops={0: '''
        invariant
            len == 5 + entries_bytes(fields.entries().subrange(0, i as int)).len(),
            5 + entries_bytes(fields.entries()).len() <= 0x7fff_ffff,
''', 1: '''
        invariant
            buf@ == old(buf)@ + be32((5 + entries_bytes(fields.entries()).len()) as int) + entries_bytes(fields.entries().subrange(0, i as int)),
'''},
        contract='''
    requires 4 + entries_bytes(fields.entries()).len() + 1 <= 0x7fff_ffff,
    ensures final(buf)@ == old(buf)@ + be32((4 + entries_bytes(fields.entries()).len() + 1) as int) + entries_bytes(fields.entries()).push(0u8),
'''),
    'encode': dict(
        file=_F, path='impl BackendMessage::fn encode',
        rewrites=[('re', r"b'R'", '82u8', 3), ('re', r"b'S'", '83u8', 1), ('re', r"b'K'", '75u8', 1), ('re', r"b'Z'", '90u8', 1), ('re', r"b'T'", '84u8', 1),
                  ('re', r"b'D'", '68u8', 1), ('re', r"b'C'", '67u8', 1), ('re', r"b'E'", '69u8', 1), ('re', r"b'N'", '78u8', 1), ('re', r"b'I'", '73u8', 1),
                  # R8/R9: name the ghost iterator of the four `for x in vec` loops
                  ('lit', 'for field in fields {', 'for field in it: fields {', 2),
                  ('lit', 'for value in values {', 'for value in it: values {', 2)],
        proofs=[('@entry', 'proof { lemma_be_len(); }'),
                ('@loop0', 'proof { lemma_be_len(); lemma_fields_step(fields@, it.index@); lemma_fields_len_mono(fields@, it.index@ + 1);\n'
                           ' assert(*field == fields@[it.index@]); assert(field_bytes(*field).len() == field.name@.len() + 1 + 18); }'),
                ('@loop1', 'proof { lemma_be_len(); lemma_fields_step(fields@, it.index@); assert(*field == fields@[it.index@]); }'),
                ('after:buf.put_i16(field.format_code);',
                 'proof { assert(buf@ =~= old(buf)@ + seq![84u8] + be32((6 + fields_bytes(fields@).len()) as int) + be16(fields@.len() as int) + (fields_bytes(fields@.subrange(0, it.index@)) + field_bytes(*field))); }'),
                ('@afterloop1', 'proof {\n assert(fields@.subrange(0, fields@.len() as int) =~= fields@);\n assert(body(*self) == be16(fields@.len() as int) + fields_bytes(fields@));\n'
                                ' assert(body(*self).len() == 2 + fields_bytes(fields@).len());\n assert(buf@ =~= old(buf)@ + frame(*self));\n}'),
                ('@loop2', 'proof { lemma_be_len(); lemma_values_step(values@, it.index@); lemma_values_len_mono(values@, it.index@ + 1); assert(*value == values@[it.index@]); }'),
                ('@loop3', 'proof { lemma_be_len(); lemma_values_step(values@, it.index@); assert(*value == values@[it.index@]); }'),
                ('@afterloop3', 'proof {\n assert(values@.subrange(0, values@.len() as int) =~= values@);\n assert(body(*self) == be16(values@.len() as int) + values_bytes(values@));\n'
                                ' assert(body(*self).len() == 2 + values_bytes(values@).len());\n assert(buf@ =~= old(buf)@ + frame(*self));\n}'),
                ('after:buf.put_slice(v);',
                 'proof { assert(buf@ =~= old(buf)@ + seq![68u8] + be32((6 + values_bytes(values@).len()) as int) + be16(values@.len() as int) + (values_bytes(values@.subrange(0, it.index@)) + value_bytes(*value))); }'),
                ('after:buf.put_i32(-1); // NULL value',
                 'proof { assert(buf@ =~= old(buf)@ + seq![68u8] + be32((6 + values_bytes(values@).len()) as int) + be16(values@.len() as int) + (values_bytes(values@.subrange(0, it.index@)) + value_bytes(*value))); }'),
                ('after:buf.put_i16(fields.len() as i16);', 'proof { assert(fields@.subrange(0, fields@.len() as int) =~= fields@); }'),
                ('after:buf.put_i16(values.len() as i16);', 'proof { assert(values@.subrange(0, values@.len() as int) =~= values@); }')],
        loops={0: '''
                    invariant
                        len == 6 + fields_bytes(fields@.subrange(0, it.index@)).len(),
                        6 + fields_bytes(fields@).len() <= 0x7fff_ffff,
''', 1: '''
                    invariant
                        fields_fit(fields@),
                        buf@ == old(buf)@ + seq![84u8] + be32((6 + fields_bytes(fields@).len()) as int) + be16(fields@.len() as int) + fields_bytes(fields@.subrange(0, it.index@)),
''', 2: '''
                    invariant
                        len == 6 + values_bytes(values@.subrange(0, it.index@)).len(),
                        6 + values_bytes(values@).len() <= 0x7fff_ffff, values_fit(values@),
''', 3: '''
                    invariant
                        values_fit(values@),
                        buf@ == old(buf)@ + seq![68u8] + be32((6 + values_bytes(values@).len()) as int) + be16(values@.len() as int) + values_bytes(values@.subrange(0, it.index@)),
'''},
        contract='''
    requires encodable(*self),
    ensures final(buf)@ == old(buf)@ + frame(*self),
'''),
}

import copy as _copy
ITEMS['encode__known'] = _copy.deepcopy(ITEMS['encode'])
ITEMS['encode__known']['rewrites'] = ITEMS['encode']['rewrites'] + [('lit', 'fn encode(', 'fn encode__known(', 1)]
ITEMS['encode__known']['contract'] = '''
    // #known: the property on EVERY message (no precondition): EXPECTED TO FAIL - `len as i32`, `len() as i16` silently truncate, NUL inside a C string breaks framing
    ensures final(buf)@ == old(buf)@ + frame(*self),
'''

OBLIGATIONS = {
    'encode__known': ['post:exactly_one_frame__for_every_message'],
    'as_byte': ['post:status_byte'],
    'put_cstring': ['post:bytes_then_nul'],
    'encode_notice_or_error': ['post:length_field_and_entries', 'safety:no_overflow_no_truncation', 'proof:loop_invariants'],
    'encode': ['post:exactly_one_frame_with_correct_length_field_and_field_serialisation', 'safety:no_overflow_no_truncation', 'proof:loop_invariants'],
    'lemma_frame_shape': ['post:length_field_counts_bytes_after_type_byte'],
    'lemma_be_len': ['post:be32_is_4_bytes_be16_is_2_bytes'],
}
KNOWN = {'encode__known': 'KF-C28-length-truncation'}
CANARIES = ['canary_encode']
TRUSTED = [
    'external_body BytesMut (put_u8, put_i32, put_i16, put_slice): documented big-endian append semantics of the bytes crate',
    'external_body Str (len, as_bytes): String/&str as an opaque value with a byte view',
    'external_body FieldMap (len, key_at, value_at, entries): HashMap<u8,String>; an unmodified map iterates its entries in one fixed order (R8 rewrite of the two `for (k, v) in map` loops)',
    'byte-character literals b\'X\' rewritten to their u8 values; the four `for x in vec` loops get a named ghost iterator (R9)',
    'the parse-back clause ("an independent parser recovers the same fields") is represented by frame() being the PostgreSQL v3 format written independently of the code; injectivity of frame() is not proved',
    'message sequencing in connection.rs is not under contract',
]
