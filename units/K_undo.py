NAME = 'K-undo'
PROPERTIES = ['C14', 'C02', 'C15', 'C13']
ENGINE = 'verus'
CLASS = 'U'
DOC = ('Database::{rollback_to_savepoint, undo_change} (storage/database/core.rs): ROLLBACK TO SAVEPOINT applies the INVERSE of every change recorded '
       'since the savepoint, last change first - Insert: take the row out, Update: take the NEW row out and put the OLD row back, Delete: put the '
       'row back - over table contents as bags of rows, every row in the form the table STORES it (the log holds rows as handed in). Together with unit X-sp (which changes are "since the savepoint") this is the storage half of '
       'C14; that the executors record every change they make is NOT under contract (see TRUSTED).')

TEMPLATE = r'''
use vstd::prelude::*;
use vstd::multiset::*;
verus! {

#[verifier::external_body] pub struct Str { s: u8 }
impl Str { #[verifier::external_body] pub fn clone(&self) -> (r: Str) ensures r == *self { unimplemented!() } }
#[verifier::external_body] pub struct Row { r: u8 }
pub enum StorageError { TableNotFound(Str), RowNotFound, Other }
//@@ TransactionChange

impl TransactionChange { #[verifier::external_body] pub fn clone(&self) -> (r: TransactionChange) ensures r == *self { unimplemented!() } }

/// the form in which a table stores a row (Table::insert / update_row normalize: VARCHAR truncation, CHAR padding); the change log holds rows as handed in
pub uninterp spec fn stored(row: Row) -> Row;
/// table contents as bags of rows, per table name
pub type State = Map<Str, Multiset<Row>>;
/// the inverse of one recorded change
pub open spec fn undo_one(m: State, c: TransactionChange) -> State {
    match c {
        TransactionChange::Insert { table_name, row } => m.insert(table_name, m[table_name].remove(stored(row))),
        TransactionChange::Update { table_name, old_row, new_row } => m.insert(table_name, m[table_name].remove(stored(new_row)).insert(stored(old_row))),
        TransactionChange::Delete { table_name, row } => m.insert(table_name, m[table_name].insert(stored(row))),
    }
}
/// can the change be undone in this state? (its table exists and holds the row that has to go)
pub open spec fn undoable(m: State, c: TransactionChange) -> bool {
    match c {
        TransactionChange::Insert { table_name, row } => m.dom().contains(table_name) && m[table_name].count(stored(row)) > 0,
        TransactionChange::Update { table_name, old_row, new_row } => m.dom().contains(table_name) && m[table_name].count(stored(new_row)) > 0,
        TransactionChange::Delete { table_name, row } => m.dom().contains(table_name),
    }
}
/// undo the changes[0..n) in REVERSE order of recording (last change first)
pub open spec fn undo_last_first(m: State, cs: Seq<TransactionChange>, n: int) -> State decreases cs.len() - n {
    if n >= cs.len() { m } else { undo_one(undo_last_first(m, cs, n + 1), cs[n]) }
}

/// IndexMetadata: the definition of a user-defined index
#[verifier::external_body] pub struct Cols { c: u8 }
impl Cols { #[verifier::external_body] pub fn clone(&self) -> (r: Cols) ensures r == *self { unimplemented!() } }
pub struct Def { pub index_name: Str, pub table_name: Str, pub unique: bool, pub columns: Cols }
impl Def { #[verifier::external_body] pub fn clone(&self) -> (r: Def) ensures r == *self { unimplemented!() } }
/// normalize_index_name
pub uninterp spec fn nkey(name: Str) -> Seq<char>;
// std::collections::BTreeSet<String> used as a scratch set of table names
#[verifier::external_body] pub struct StrSet { s: u8 }
impl StrSet {
    #[verifier::external_body] pub fn new() -> (r: StrSet) { unimplemented!() }
    #[verifier::external_body] pub fn insert(&mut self, x: Str) -> (r: bool) { unimplemented!() }
}
pub struct Database { pub o: u8 }
impl Database {
    pub uninterp spec fn view(&self) -> State;
    /// the changes recorded since savepoint `name` (TransactionManager::rollback_to_savepoint, unit X-sp)
    pub uninterp spec fn since(&self, name: Str) -> Option<Seq<TransactionChange>>;

    #[verifier::external_body]
    fn tm_rollback_to_savepoint(&mut self, name: Str) -> (r: Result<Vec<TransactionChange>, StorageError>)
        ensures final(self).view() == old(self).view(),
                r matches Ok(v) ==> old(self).since(name) == Some(v@),
                r is Err ==> old(self).since(name) is None
    { unimplemented!() }
    // self.get_table_mut(&t).ok_or_else(|| StorageError::TableNotFound(t.clone()))?
    #[verifier::external_body]
    fn require_table(&self, t: &Str) -> (r: Result<(), StorageError>)
        ensures r is Ok <==> self.view().dom().contains(*t)
    { unimplemented!() }
    // table.remove_row(&row) on the table named t  (Table::remove_row: removes ONE equal row, RowNotFound if there is none; unit K-table)
    #[verifier::external_body]
    fn tbl_remove_row(&mut self, t: &Str, row: &Row) -> (r: Result<(), StorageError>)
        requires old(self).view().dom().contains(*t)
        ensures r is Ok <==> old(self).view()[*t].count(stored(*row)) > 0,
                r is Ok ==> final(self).view() == old(self).view().insert(*t, old(self).view()[*t].remove(stored(*row))),
                r is Err ==> final(self).view() == old(self).view()
    { unimplemented!() }
    // table.insert(row): ASSUMED to succeed for a row that was in this table before (already normalised, constraints held) and to add exactly it
    #[verifier::external_body]
    fn tbl_insert(&mut self, t: &Str, row: Row) -> (r: Result<(), StorageError>)
        requires old(self).view().dom().contains(*t)
        ensures r is Ok ==> final(self).view() == old(self).view().insert(*t, old(self).view()[*t].insert(stored(row))),
                r is Err ==> final(self).view() == old(self).view()
    { unimplemented!() }
    // table.scan().iter().position(|row| row == &x): a position holding a row LITERALLY equal to x (no normalization of x)
    pub uninterp spec fn holds_at(&self, t: Str, p: usize) -> Row;
    #[verifier::external_body]
    fn tbl_position_of(&self, t: &Str, row: &Row) -> (r: Option<usize>)
        requires self.view().dom().contains(*t)
        ensures r matches Some(p) ==> self.holds_at(*t, p) == *row && self.view()[*t].count(*row) > 0,
                r is None ==> self.view()[*t].count(*row) == 0
    { unimplemented!() }
    // table.update_row(p, row): the row at p is replaced by the stored form of `row` (unit K-table)
    #[verifier::external_body]
    fn tbl_update_row(&mut self, t: &Str, p: usize, row: Row) -> (r: Result<(), StorageError>)
        requires old(self).view().dom().contains(*t)
        ensures r is Ok ==> final(self).view() == old(self).view().insert(*t, old(self).view()[*t].remove(old(self).holds_at(*t, p)).insert(stored(row))),
                r is Err ==> final(self).view() == old(self).view()
    { unimplemented!() }



    /// the user-defined indexes of table t were (re)built from its current rows
    pub uninterp spec fn idx_fresh(&self, t: Str) -> bool;
    /// tables that have at least one user-defined index
    pub uninterp spec fn indexed(&self) -> Seq<Str>;
    // self.lifecycle.perform_rollback(&mut self.catalog, &mut self.tables): restores catalog and table contents from the snapshot; says nothing about indexes
    #[verifier::external_body]
    fn perform_rollback(&mut self) -> (r: Result<(), StorageError>)
        ensures final(self).indexed() == old(self).indexed(), final(self).reg() == old(self).reg(), final(self).snapshot() == old(self).snapshot()
    { unimplemented!() }
    // ---- the registry of user-defined indexes: normalized index name -> definition ----
    pub uninterp spec fn reg(&self) -> Map<Seq<char>, Def>;
    /// the index definitions recorded at BEGIN (None: no snapshot)
    pub uninterp spec fn snapshot(&self) -> Option<Seq<Def>>;
    /// registry invariant: an entry is keyed by the normalized name of its definition
    pub open spec fn reg_wf(&self) -> bool { forall|x: Seq<char>| #![trigger self.reg().dom().contains(x)] self.reg().dom().contains(x) ==> nkey(self.reg()[x].index_name) == x }
    /// d lists exactly the definitions registered: every registered index is in d, every entry of d is registered under its normalized name
    pub open spec fn lists_registry(&self, d: Seq<Def>) -> bool {
        &&& forall|x: Seq<char>| #![trigger self.reg().dom().contains(x)] self.reg().dom().contains(x) ==> exists|q: int| 0 <= q < d.len() && (#[trigger] d[q]) == self.reg()[x]
        &&& forall|q: int| 0 <= q < d.len() ==> self.reg().dom().contains(nkey((#[trigger] d[q]).index_name)) && self.reg()[nkey(d[q].index_name)] == d[q]
    }
    // let catalog = &self.catalog.clone(); self.lifecycle.transaction_manager_mut().begin_transaction(catalog, &self.tables)   (unit X-sp: snapshot of catalog and tables as they are)
    #[verifier::external_body]
    fn tm_begin(&mut self) -> (r: Result<(), StorageError>)
        ensures final(self).view() == old(self).view(), final(self).reg() == old(self).reg(), final(self).snapshot() == old(self).snapshot()
    { unimplemented!() }
    #[verifier::external_body]
    fn tm_commit(&mut self) -> (r: Result<(), StorageError>)
        ensures final(self).view() == old(self).view(), final(self).reg() == old(self).reg(), final(self).snapshot() == old(self).snapshot()
    { unimplemented!() }
    // self.operations.record_index_definitions(): `list_indexes().iter().filter_map(|name| get_index(name).cloned()).collect()` into indexes_at_begin
    #[verifier::external_body]
    fn record_index_definitions(&mut self)
        ensures final(self).view() == old(self).view(), final(self).reg() == old(self).reg(),
                final(self).snapshot() matches Some(d) && final(self).lists_registry(d)
    { unimplemented!() }
    // self.operations.forget_index_definitions()
    #[verifier::external_body]
    fn forget_index_definitions(&mut self)
        ensures final(self).view() == old(self).view(), final(self).reg() == old(self).reg(), final(self).snapshot() is None
    { unimplemented!() }
    // self.operations.take_index_definitions()  (Operations::indexes_at_begin.take())
    #[verifier::external_body]
    fn take_indexes_at_begin(&mut self) -> (r: Option<Vec<Def>>)
        ensures final(self).view() == old(self).view(), final(self).reg() == old(self).reg(),
                match old(self).snapshot() { Some(d) => r is Some && r->Some_0@ == d, None => r is None }
    { unimplemented!() }
    // self.list_indexes(): the registry keys
    #[verifier::external_body]
    fn list_indexes(&self) -> (r: Vec<Str>)
        ensures forall|x: Seq<char>| #![trigger self.reg().dom().contains(x)] self.reg().dom().contains(x) <==> exists|k: int| 0 <= k < r@.len() && nkey(#[trigger] r@[k]) == x
    { unimplemented!() }
    // `self.get_index(&name).is_some_and(|current| definitions.iter().any(|d| d.index_name == current.index_name && d.table_name == current.table_name && d.unique == current.unique && d.columns == current.columns))`
    #[verifier::external_body]
    fn is_kept(&self, name: &Str, definitions: &Vec<Def>) -> (r: bool)
        ensures r == (self.reg().dom().contains(nkey(*name)) && exists|k: int| 0 <= k < definitions@.len() && (#[trigger] definitions@[k]) == self.reg()[nkey(*name)])
    { unimplemented!() }
    #[verifier::external_body]
    fn index_exists(&self, name: &Str) -> (r: bool) ensures r == self.reg().dom().contains(nkey(*name)) { unimplemented!() }
    // Database::drop_index (IndexManager::drop_index: registry entry and data removed)
    #[verifier::external_body]
    fn drop_index(&mut self, name: &Str) -> (r: Result<(), StorageError>)
        ensures final(self).view() == old(self).view(),
                r is Ok ==> final(self).reg() == old(self).reg().remove(nkey(*name)), r is Err ==> final(self).reg() == old(self).reg()
    { unimplemented!() }
    // Database::create_index (built from the rows of the table the name resolves to: unit I-resolve)
    #[verifier::external_body]
    fn create_index(&mut self, index_name: Str, table_name: Str, unique: bool, columns: Cols) -> (r: Result<(), StorageError>)
        ensures final(self).view() == old(self).view(),
                r is Ok ==> final(self).reg() == old(self).reg().insert(nkey(index_name), Def { index_name, table_name, unique, columns }),
                r is Err ==> final(self).reg() == old(self).reg()
    { unimplemented!() }
    // self.list_indexes().iter().filter_map(|n| self.get_index(n).map(|m| m.table_name.clone())).collect::<BTreeSet<_>>()
    #[verifier::external_body]
    fn indexed_tables(&self) -> (r: Vec<Str>) ensures r@ == self.indexed() { unimplemented!() }
    // the same chain with a `.filter(..)` step before collect: SOME of the indexed tables (a filter only drops elements)
    #[verifier::external_body]
    fn indexed_tables_filtered(&self) -> (r: Vec<Str>) ensures forall|k: int| 0 <= k < r@.len() ==> self.indexed().contains(#[trigger] r@[k]) { unimplemented!() }
    // Database::rebuild_indexes (Operations::rebuild_indexes: unit I-resolve)
    #[verifier::external_body]
    fn rebuild_indexes(&mut self, t: &Str)
        ensures final(self).view() == old(self).view(), final(self).indexed() == old(self).indexed(), final(self).idx_fresh(*t), final(self).reg() == old(self).reg(),
                forall|u: Str| old(self).idx_fresh(u) ==> final(self).idx_fresh(u)
    { unimplemented!() }

//@@ begin_transaction

//@@ commit_transaction

//@@ rollback_transaction

//@@ rollback_to_savepoint

//@@ undo_change
}

fn canary_undo(db: &mut Database, c: TransactionChange)
{
    let r = db.undo_change(c);
    assert(false); // CANARY
}
fn canary_rollback(db: &mut Database, n: Str)
{
    let r = db.rollback_to_savepoint(n);
    assert(false); // CANARY
}

}
fn main() {}
'''

_F = 'crates/vibesql-storage/src/database/core.rs'
_T = 'crates/vibesql-storage/src/database/transactions.rs'
# R12: `let table = self.get_table_mut(&t).ok_or_else(..)?; table.op(..)` -> the same operation on the map entry named t (Verus has no `&mut` returns)
_R12 = [
    ('re', r'let table = self\s*\.get_table_mut\(&table_name\)\s*\.ok_or_else\(\|\| StorageError::TableNotFound\(table_name\.clone\(\)\)\)\?;', 'self.require_table(&table_name)?;', None),
    ('re', r'table\.(remove_row|insert)\(', r'self.tbl_\1(&table_name, ', None),
    # the same undo written through a position (a std idiom: iter().position(|row| row == &x) then update_row): recognised so that it is judged, not lost
    ('re', r'(?s)table\s*\.scan\(\)\s*\.iter\(\)\s*\.position\(\|row\| row == &(\w+)\)\s*\.ok_or\(StorageError::RowNotFound\)\?', r'(match self.tbl_position_of(&table_name, &\1) { Some(p__) => p__, None => { return Err(StorageError::RowNotFound); } })', None),
    ('re', r'table\.update_row\(', r'self.tbl_update_row(&table_name, ', None),
]

ITEMS = {
    'TransactionChange': dict(file=_T, path='enum TransactionChange', rewrites=[('re', r'\bString\b', 'Str', None)]),
    'rollback_to_savepoint': dict(
        file=_F, path='impl Database::fn rollback_to_savepoint', ret='res',
        rewrites=[('re', r'\bString\b', 'Str', None),
                  ('re', r'self\.lifecycle\.transaction_manager_mut\(\)\.rollback_to_savepoint\(name\)\?', 'self.tm_rollback_to_savepoint(name)?', 1),
                  # R10: for change in v.into_iter().rev() -> descending index loop over clones
                  ('re', r'for change in changes_to_undo\.into_iter\(\)\.rev\(\) \{', 'let mut rv__: usize = changes_to_undo.len(); while rv__ > 0 { rv__ = rv__ - 1; let change = changes_to_undo[rv__].clone();', 1)],
        loops={0: '''
            invariant rv__ <= changes_to_undo@.len(), old(self).since(name) == Some(changes_to_undo@),
                self.view() == undo_last_first(old(self).view(), changes_to_undo@, rv__ as int),
            decreases rv__,
'''},
        contract='''
        ensures
            // the recorded changes since the savepoint are undone, last first
            res is Ok ==> (old(self).since(name) is Some && final(self).view() == undo_last_first(old(self).view(), old(self).since(name).unwrap(), 0)),
'''),

    'begin_transaction': dict(
        file=_F, path='impl Database::fn begin_transaction', ret='res',
        # the TransactionManager call, with or without the local copy of the catalog, as a statement (`?;`) or as the tail expression
        rewrites=[('re', r'(?s)(?:let catalog = &self\.catalog\.clone\(\);\s*)?self\s*\.lifecycle\s*\.transaction_manager_mut\(\)\s*\.begin_transaction\((?:catalog|&self\.catalog), &self\.tables\)', 'self.tm_begin()', 1),
                  ('re', r'self\.operations\.record_index_definitions\(\);', 'self.record_index_definitions();', 1)],
        contract='''
        ensures
            // a successful BEGIN records the definitions of exactly the user-defined indexes registered at that moment (the snapshot of catalog and tables: unit X-sp)
            res is Ok ==> (final(self).snapshot() matches Some(d) && final(self).lists_registry(d)) && final(self).reg() == old(self).reg() && final(self).view() == old(self).view(),
            res is Err ==> final(self).snapshot() == old(self).snapshot() && final(self).reg() == old(self).reg(),
'''),
    'commit_transaction': dict(
        file=_F, path='impl Database::fn commit_transaction', ret='res',
        rewrites=[('re', r'self\.lifecycle\.transaction_manager_mut\(\)\.commit_transaction\(\)\?;', 'self.tm_commit()?;', 1),
                  ('re', r'self\.operations\.forget_index_definitions\(\);', 'self.forget_index_definitions();', 1)],
        contract='''
        ensures
            // COMMIT touches neither table contents nor the index registry; it forgets the definitions recorded at BEGIN
            final(self).view() == old(self).view(), final(self).reg() == old(self).reg(),
            res is Ok ==> final(self).snapshot() is None,
'''),
    'rollback_transaction': dict(
        file=_F, path='impl Database::fn rollback_transaction', ret='res',
        rewrites=[('re', r'self\.lifecycle\.perform_rollback\(&mut self\.catalog, &mut self\.tables\)\?;', 'self.perform_rollback()?; let ghost reg0__ = self.reg(); let ghost snap__ = self.snapshot();', 1),
                  ('re', r'self\.operations\.take_index_definitions\(\)', 'self.take_indexes_at_begin()', 1),
                  ('re', r'for index_name in self\.list_indexes\(\) \{', 'let names__ = self.list_indexes(); let mut li__: usize = 0; while li__ < names__.len() { let index_name = names__[li__].clone(); li__ = li__ + 1;', 1),
                  ('re', r'(?s)let kept = self\.get_index\(&index_name\)\.is_some_and\(\|current\| \{\s*definitions\.iter\(\)\.any\(\|d\| \{\s*d\.index_name == current\.index_name\s*&& d\.table_name == current\.table_name\s*&& d\.unique == current\.unique\s*&& d\.columns == current\.columns\s*\}\)\s*\}\);',
                   'let kept = self.is_kept(&index_name, &definitions);', 1),
                  ('re', r'for d in definitions \{', 'let mut di__: usize = 0; while di__ < definitions.len() { let d = definitions[di__].clone(); di__ = di__ + 1;', 1),
                  # the chain that lists the indexed tables; with an extra `.filter(closure)` step it lists SOME of them (idiom: recognised so that a rollback that skips tables fails the contract)
                  ('refn', r'let indexed_tables: std::collections::BTreeSet<String> = self\s*\.list_indexes\(\)\s*\.iter\(\)\s*\.filter_map\(\|index_name\| self\.get_index\(index_name\)\.map\(\|m\| m\.table_name\.clone\(\)\)\)(\s*\.filter\((?:[^()]|\((?:[^()]|\([^()]*\))*\))*\))?\s*\.collect\(\);',
                   lambda m: 'let indexed_tables = self.indexed_tables_filtered();' if m.group(1) else 'let indexed_tables = self.indexed_tables();', 1),
                  ('re', r'let mut (\w+) = std::collections::BTreeSet::new\(\);', r'let mut \1: StrSet = StrSet::new();', None),
                  ('re', r'for table_name in indexed_tables \{', 'let mut ti__: usize = 0; while ti__ < indexed_tables.len() { let table_name = indexed_tables[ti__].clone(); ti__ = ti__ + 1;', 1)],
        loops={0: '''
            invariant li__ <= names__@.len(), self.reg_wf(), self.reg().submap_of(reg0__),
                forall|x: Seq<char>| #![trigger reg0__.dom().contains(x)] reg0__.dom().contains(x) <==> exists|k: int| 0 <= k < names__@.len() && nkey(#[trigger] names__@[k]) == x,
                // a name not yet visited is still registered; a visited one is registered only if its definition is one of those at BEGIN
                forall|k: int| #![trigger names__@[k]] li__ <= k < names__@.len() && !(exists|j: int| 0 <= j < li__ && nkey(#[trigger] names__@[j]) == nkey(names__@[k])) ==> self.reg().dom().contains(nkey(names__@[k])),
                forall|k: int| #![trigger names__@[k]] 0 <= k < li__ && self.reg().dom().contains(nkey(names__@[k])) ==> exists|q: int| 0 <= q < definitions@.len() && (#[trigger] definitions@[q]) == self.reg()[nkey(names__@[k])],
            decreases names__@.len() - li__,
''', 1: '''
            invariant di__ <= definitions@.len(), self.reg_wf(),
                forall|x: Seq<char>| #![trigger self.reg().dom().contains(x)] self.reg().dom().contains(x) ==> exists|q: int| 0 <= q < definitions@.len() && (#[trigger] definitions@[q]) == self.reg()[x],
                forall|q: int| 0 <= q < di__ ==> self.reg().dom().contains(nkey((#[trigger] definitions@[q]).index_name)),
            decreases definitions@.len() - di__,
''', 2: '''
            invariant ti__ <= indexed_tables@.len(), self.indexed() == idx0__, self.reg() == regx__,
                forall|k: int| 0 <= k < ti__ ==> self.idx_fresh(#[trigger] indexed_tables@[k]),
            decreases indexed_tables@.len() - ti__,
'''},
        proofs=[('@afterloop0', '''proof {
                assert forall|x: Seq<char>| #![trigger self.reg().dom().contains(x)] self.reg().dom().contains(x) implies exists|q: int| 0 <= q < definitions@.len() && (#[trigger] definitions@[q]) == self.reg()[x] by {
                    assert(reg0__.dom().contains(x));
                    let k = choose|k: int| 0 <= k < names__@.len() && nkey(#[trigger] names__@[k]) == x;
                    assert(nkey(names__@[k]) == x);
                }
            }'''),
                ('re:let indexed_tables = self\\.indexed_tables', 'let ghost regx__ = self.reg(); let ghost idx0__ = self.indexed();')],
        contract='''
        requires old(self).reg_wf()
        ensures
            // after a successful ROLLBACK every table that has user-defined indexes has had them rebuilt from the restored rows
            res is Ok ==> forall|k: int| 0 <= k < final(self).indexed().len() ==> final(self).idx_fresh(#[trigger] final(self).indexed()[k]),
            // .. and the SET of user-defined indexes is the one recorded at BEGIN: every registered index is one of those definitions, every one of those definitions is registered
            res is Ok ==> (old(self).snapshot() matches Some(defs) ==> {
                &&& forall|x: Seq<char>| #![trigger final(self).reg().dom().contains(x)] final(self).reg().dom().contains(x) ==> exists|q: int| 0 <= q < defs.len() && (#[trigger] defs[q]) == final(self).reg()[x]
                &&& forall|q: int| 0 <= q < defs.len() ==> final(self).reg().dom().contains(nkey((#[trigger] defs[q]).index_name))
            }),
'''),
    'undo_change': dict(
        file=_F, path='impl Database::fn undo_change', ret='res', rewrites=_R12,
        contract='''
        ensures
            res is Ok ==> undoable(old(self).view(), change) && final(self).view() == undo_one(old(self).view(), change),
'''),
}

OBLIGATIONS = {
    'rollback_to_savepoint': ['post:undoes_the_changes_since_the_savepoint_last_first', 'proof:loop_invariant'],
    'begin_transaction': ['post:records_the_definitions_of_exactly_the_registered_indexes'],
    'commit_transaction': ['post:tables_and_registry_untouched__recorded_definitions_forgotten'],
    'rollback_transaction': ['post:the_set_of_indexes_is_the_one_at_begin__indexes_rebuilt_for_every_indexed_table', 'proof:loop_invariants'],
    'undo_change': ['post:applies_the_inverse_of_the_change__update_removes_the_new_row_and_restores_the_old_one', 'safety:table_exists_before_use'],
}
CANARIES = ['canary_undo', 'canary_rollback']
TRUSTED = [
    'external_body Str / Row (opaque), TransactionChange::clone (a copy); Database reduced to an abstract state view(): Map<table name, Multiset<Row>>',
    'external_body tm_rollback_to_savepoint: TransactionManager::rollback_to_savepoint returns the changes recorded since the savepoint (proved on the real function in unit X-sp) and does not touch table contents',
    'external_body require_table / tbl_remove_row / tbl_insert (R12): get_table_mut(&name).ok_or_else(..)? followed by table.remove_row / table.insert, as operations on the bag of the named table. ASSUMED (proved on the real Table functions in unit K-table): remove_row removes exactly one row equal to the STORED FORM of the given row, insert adds its stored form; tbl_position_of / tbl_update_row = the position idiom (literal equality) and Table::update_row. Earlier wording: remove_row removes exactly one equal row or fails with RowNotFound (cf. unit K-table); insert adds exactly the given row (it was in this table before: already normalised)',
    'NOT under contract: that INSERT / UPDATE / DELETE executors RECORD every change (Database::insert_row does; UpdateExecutor / DeleteExecutor / REPLACE / ON DUPLICATE KEY UPDATE / FK cascades do since the two C14 fixes, shown by SQL reproductions only)',
    'rollback_transaction: the registry of user-defined indexes as a map normalized name -> Def (IndexMetadata; Cols = Vec<IndexColumn> opaque) with external_body take_indexes_at_begin (`self.operations.take_index_definitions()`), list_indexes (exactly the registry keys), is_kept (the `get_index(..).is_some_and(|current| definitions.iter().any(|d| ..four field comparisons..))` statement, ASSUMED to decide "registered and its definition is one of those"), index_exists, drop_index, create_index (effects on the registry only; what an index is built from: unit I-resolve); nkey = normalize_index_name uninterpreted; precondition reg_wf (entries keyed by the normalized name of their definition). begin_transaction / commit_transaction: external_body tm_begin / tm_commit (the TransactionManager calls: unit X-sp), record_index_definitions (`list_indexes().iter().filter_map(|n| get_index(n).cloned()).collect()` in Operations: ASSUMED to list exactly the registry) and forget_index_definitions',
    'external_body perform_rollback (TransactionManager::rollback_transaction: snapshot restore, not under contract here), indexed_tables (the list_indexes / get_index iterator chain; indexed_tables_filtered when the chain has an extra `.filter(..)` step: some of the indexed tables), StrSet (a scratch BTreeSet<String>: StrSet::new, insert - unconstrained), rebuild_indexes (unit I-resolve): by assumed contracts; undo_change\'s own calls to rebuild_indexes are dropped from the bag view (they do not change table contents)',
    'row ORDER inside a table after a rollback is not part of the contract (undo re-appends rows)',
]
