NAME = 'K-uqprobe'
PROPERTIES = ['C10']
ENGINE = 'verus'
CLASS = 'U'
DOC = ('ConstraintValidator::validate_unique_indexes (executor update/constraints.rs), the loop that builds the key with which UPDATE probes a CREATE UNIQUE INDEX index for '
       'the new row: one component per index column, in definition order, each the value of the column NAMED in the index definition, PREFIX-TRUNCATED like the keys the index '
       'holds (a UNIQUE index on name(3) holds 3 characters: a probe with the full value never finds anything).')

TEMPLATE = r'''
use vstd::prelude::*;
verus! {

#[verifier::external_body] pub struct SqlValue { v: u8 }
#[verifier::external_body] pub struct Str { s: u8 }
#[verifier::external_body] pub struct ExecutorError { e: u8 }
pub struct Row { pub values: Vec<SqlValue> }
pub struct IndexColumn { pub column_name: Str, pub prefix_length: Option<u64> }
pub struct IndexMetadata { pub index_name: Str, pub table_name: Str, pub unique: bool, pub columns: Vec<IndexColumn> }
#[verifier::external_body] pub struct TableSchema { t: u8 }
impl TableSchema {
    pub uninterp spec fn col_index(&self, name: Str) -> Option<usize>;
    #[verifier::external_body]
    pub fn get_column_index(&self, name: &Str) -> (r: Option<usize>) ensures r == self.col_index(*name) { unimplemented!() }
}
/// the first n characters of a string value, any other value as it is (storage: apply_prefix_truncation; unit I-maint uses the same function for the stored keys)
pub uninterp spec fn trunc(v: SqlValue, n: Option<u64>) -> SqlValue;
#[verifier::external_body] fn apply_prefix_truncation(v: &SqlValue, n: Option<u64>) -> (r: SqlValue) ensures r == trunc(*v, n) { unimplemented!() }
// Option::ok_or_else(|| ExecutorError::ColumnNotFound { .. })
#[verifier::external_body]
fn col_or_err(c: Option<usize>, table_name: &str) -> (r: Result<usize, ExecutorError>) ensures c matches Some(i) ==> r == Ok::<usize, ExecutorError>(i), c is None ==> r is Err { unimplemented!() }

//@@ probe_key

fn canary_probe(schema: &TableSchema, index_metadata: &IndexMetadata, new_row: &Row, table_name: &str)
    requires forall|j: int| 0 <= j < index_metadata.columns@.len() ==> (schema.col_index((#[trigger] index_metadata.columns@[j]).column_name) matches Some(i) ==> i < new_row.values@.len()),
{
    let r = probe_key(schema, index_metadata, new_row, table_name);
    assert(false); // CANARY
}

}
fn main() {}
'''

ITEMS = {
    'probe_key': dict(
        file='crates/vibesql-executor/src/update/constraints.rs', path="impl<'a> ConstraintValidator<'a>::fn validate_unique_indexes", ret='res',
        fragment=dict(kind='stmt', index=0, **{'from': r'for index_col in &index_metadata\.columns \{\s*let col_idx = self\.schema\s*\.get_column_index\(&index_col\.column_name\)\s*\.ok_or_else'},
                      sig='fn probe_key(schema: &TableSchema, index_metadata: &IndexMetadata, new_row: &Row, table_name: &str) -> Result<Vec<SqlValue>, ExecutorError>',
                      tail='Ok(new_key_values)'),
        rewrites=[
            ('re', r'for index_col in &index_metadata\.columns \{', 'let mut new_key_values: Vec<SqlValue> = Vec::new(); let mut ci__: usize = 0; while ci__ < index_metadata.columns.len() { let index_col = &index_metadata.columns[ci__]; ci__ = ci__ + 1;', 1),
            ('re', r'(?s)self\.schema\s*\.get_column_index\(&index_col\.column_name\)\s*\.ok_or_else\(\|\| ExecutorError::ColumnNotFound \{.*?\}\)\?', 'col_or_err(schema.get_column_index(&index_col.column_name), table_name)?', 1),
            ('re', r'vibesql_storage::database::indexes::apply_prefix_truncation', 'apply_prefix_truncation', None),
        ],
        loops={0: '''
            invariant ci__ <= index_metadata.columns@.len(), new_key_values@.len() == ci__,
                forall|j: int| 0 <= j < index_metadata.columns@.len() ==> (schema.col_index((#[trigger] index_metadata.columns@[j]).column_name) matches Some(i) ==> i < new_row.values@.len()),
                forall|j: int| #![trigger index_metadata.columns@[j]] #![trigger new_key_values@[j]] 0 <= j < ci__ ==> schema.col_index(index_metadata.columns@[j].column_name) is Some
                    && new_key_values@[j] == trunc(new_row.values@[schema.col_index(index_metadata.columns@[j].column_name)->Some_0 as int], index_metadata.columns@[j].prefix_length),
            decreases index_metadata.columns@.len() - ci__,
'''},
        contract='''
    requires forall|j: int| 0 <= j < index_metadata.columns@.len() ==> (schema.col_index((#[trigger] index_metadata.columns@[j]).column_name) matches Some(i) ==> i < new_row.values@.len()),
    ensures
        res matches Ok(k) ==> k@.len() == index_metadata.columns@.len()
            // component j = the value of the column NAMED by index column j, prefix-truncated like the keys the index holds
            && forall|j: int| #![trigger index_metadata.columns@[j]] #![trigger k@[j]] 0 <= j < k@.len() ==> schema.col_index(index_metadata.columns@[j].column_name) is Some
                && k@[j] == trunc(new_row.values@[schema.col_index(index_metadata.columns@[j].column_name)->Some_0 as int], index_metadata.columns@[j].prefix_length),
'''),
}
OBLIGATIONS = {
    'probe_key': ['post:probe_key_is_the_named_columns_prefix_truncated_in_definition_order', 'proof:loop_invariant_and_termination', 'safety:column_position_in_bounds'],
}
CANARIES = ['canary_probe']
TRUSTED = [
    'R6 (fragment kind stmt): the FIRST key-building loop of validate_unique_indexes (the key of the NEW row) is lifted with its accumulator declaration; NOT under contract: the second loop (key of the original row, same shape), the NULL / unchanged-key skips, IndexData::contains_key (unit I-probe: normalizes the probe like the stored keys), the loop over the indexes of the table',
    'external_body apply_prefix_truncation (storage; trunc uninterpreted - the SAME function truncates the stored keys, unit I-maint), col_or_err (Option::ok_or_else with the ColumnNotFound error), TableSchema::get_column_index; SqlValue, Str, ExecutorError opaque; Row / IndexColumn / IndexMetadata reduced to the fields read',
    'precondition: a column the schema knows has a value in the row (row arity = column count)',
]
