NAME = 'K-rowval'
PROPERTIES = ['C10']
ENGINE = 'verus'
CLASS = 'U'
DOC = ('RowValidator::validate_column_constraints (insert/row_validator.rs), the first phase of INSERT validation: NOT NULL is enforced for every column, '
       'and the PRIMARY KEY / UNIQUE / FOREIGN KEY keys it extracts list the row\'s values IN THE ORDER OF THE CONSTRAINT\'S COLUMN LIST - the order the '
       'hash indexes and the parent key of a FOREIGN KEY use (for PRIMARY KEY (b, a) on a table (a, b) that is not column order); keys holding a NULL '
       'are left out for UNIQUE and FOREIGN KEY.')

TEMPLATE = r'''
use vstd::prelude::*;
verus! {

#[verifier::external_body] pub struct Val { v: u8 }
pub enum SqlValue { Null, V(Val) }
#[verifier::external_body] pub struct Opq { o: u8 }
pub enum ExecutorError { ConstraintViolation(Opq), Other(Opq) }
#[verifier::external_body] fn fmt_msg() -> (r: Opq) { unimplemented!() }
pub type Key = Seq<SqlValue>;

//@@ ValidationResult

/// the key of a row under a list of column positions, IN THE ORDER OF THE LIST (the order the hash indexes / FK parent columns use)
pub open spec fn proj(vals: Seq<SqlValue>, idx: Seq<usize>) -> Key { Seq::new(idx.len(), |j: int| vals[idx[j] as int]) }
pub open spec fn key_has_null(k: Key) -> bool { exists|j: int| 0 <= j < k.len() && #[trigger] k[j] is Null }
pub open spec fn opt_key(o: Option<Vec<SqlValue>>) -> Option<Key> { match o { Some(v) => Some(v@), None => None } }
pub open spec fn null_free_key(vals: Seq<SqlValue>, idx: Seq<usize>) -> Option<Key> { if key_has_null(proj(vals, idx)) { None } else { Some(proj(vals, idx)) } }

pub struct ColumnSchema { pub name: Opq, pub nullable: bool }
pub struct TableSchema { pub columns: Vec<ColumnSchema>, pub o: Opq }
impl TableSchema {
    pub uninterp spec fn pk(&self) -> Option<Seq<usize>>;
    pub uninterp spec fn uniques(&self) -> Seq<Seq<usize>>;
    pub uninterp spec fn fks(&self) -> Seq<Seq<usize>>;            // foreign_keys[f].column_indices
    pub open spec fn wf(&self) -> bool {
        (self.pk() matches Some(p) ==> forall|j: int| 0 <= j < p.len() ==> (#[trigger] p[j]) < self.columns@.len())
        && (forall|c: int, j: int| 0 <= c < self.uniques().len() && 0 <= j < self.uniques()[c].len() ==> (#[trigger] self.uniques()[c][j]) < self.columns@.len())
        && (forall|c: int, j: int| 0 <= c < self.fks().len() && 0 <= j < self.fks()[c].len() ==> (#[trigger] self.fks()[c][j]) < self.columns@.len())
    }
    #[verifier::external_body]
    pub fn get_primary_key_indices(&self) -> (r: Option<Vec<usize>>) ensures (r is Some) == (self.pk() is Some), r is Some ==> r.unwrap()@ == self.pk().unwrap() { unimplemented!() }
    #[verifier::external_body]
    pub fn get_unique_constraint_indices(&self) -> (r: Vec<Vec<usize>>)
        ensures r@.len() == self.uniques().len(), forall|c: int| 0 <= c < r@.len() ==> (#[trigger] r@[c])@ == self.uniques()[c] { unimplemented!() }
}
// pk_indices.as_ref().map(|ix| ix.iter().map(|&i| row_values[i].clone()).collect())
#[verifier::external_body]
fn project_opt(vals: &[SqlValue], idx: &Option<Vec<usize>>) -> (r: Option<Vec<SqlValue>>)
    requires idx matches Some(ix) ==> forall|j: int| 0 <= j < ix@.len() ==> (#[trigger] ix@[j]) < vals@.len()
    ensures (r is Some) == (*idx is Some), r is Some ==> r.unwrap()@ == proj(vals@, idx.unwrap()@)
{ unimplemented!() }
// lists.iter().map(|ix| ix.iter().map(|&i| row_values[i].clone()).collect()).collect()
#[verifier::external_body]
fn project_all(vals: &[SqlValue], lists: &Vec<Vec<usize>>) -> (r: Vec<Vec<SqlValue>>)
    requires forall|c: int, j: int| 0 <= c < lists@.len() && 0 <= j < lists@[c]@.len() ==> (#[trigger] lists@[c]@[j]) < vals@.len()
    ensures r@.len() == lists@.len(), forall|c: int| 0 <= c < r@.len() ==> (#[trigger] r@[c])@ == proj(vals@, lists@[c]@)
{ unimplemented!() }
// self.schema.foreign_keys.iter().map(|fk| fk.column_indices.iter().map(|&i| row_values[i].clone()).collect()).collect()
#[verifier::external_body]
fn project_fks(vals: &[SqlValue], s: &TableSchema) -> (r: Vec<Vec<SqlValue>>)
    requires forall|c: int, j: int| 0 <= c < s.fks().len() && 0 <= j < s.fks()[c].len() ==> (#[trigger] s.fks()[c][j]) < vals@.len()
    ensures r@.len() == s.fks().len(), forall|c: int| 0 <= c < r@.len() ==> (#[trigger] r@[c])@ == proj(vals@, s.fks()[c])
{ unimplemented!() }
#[verifier::external_body] fn is_null(v: &SqlValue) -> (r: bool) ensures r == (*v is Null) { unimplemented!() }
#[verifier::external_body] fn has_null(k: &Vec<SqlValue>) -> (r: bool) ensures r == key_has_null(k@) { unimplemented!() }
#[verifier::external_body] fn clone_key(k: &Vec<SqlValue>) -> (r: Vec<SqlValue>) ensures r@ == k@ { unimplemented!() }      // moving the element out of into_iter()

pub struct RowValidator<'a> { pub schema: &'a TableSchema, pub table_name: &'a str }

impl<'a> RowValidator<'a> {

//@@ validate_column_constraints
}

fn canary_rowval<'a>(v: &RowValidator<'a>, vals: &[SqlValue], res: &mut ValidationResult)
    requires v.schema.wf(), vals@.len() == v.schema.columns@.len(),
        old(res).unique_keys@.len() == v.schema.uniques().len(), old(res).foreign_keys@.len() == v.schema.fks().len(),
        forall|c: int| 0 <= c < old(res).unique_keys@.len() ==> old(res).unique_keys@[c] is None,
        forall|c: int| 0 <= c < old(res).foreign_keys@.len() ==> old(res).foreign_keys@[c] is None,
{
    let r = v.validate_column_constraints(vals, res);
    assert(false); // CANARY
}

}
fn main() {}
'''

_F = 'crates/vibesql-executor/src/insert/row_validator.rs'
_TY = ('re', r'vibesql_types::SqlValue', 'SqlValue', None)
ITEMS = {
    'ValidationResult': dict(file=_F, path='struct ValidationResult', rewrites=[_TY]),
    'validate_column_constraints': dict(
        file=_F, path="impl<'a> RowValidator<'a>::fn validate_column_constraints", ret='res',
        rewrites=[_TY, ('re', r'format!\((?:[^()]|\([^()]*\))*\)', 'fmt_msg()', None),
                  # R4: the three key projections (iterator chains) -> stubs specified by proj
                  ('re', r'(?s)let pk_values: Option<Vec<SqlValue>> = pk_indices\s*\.as_ref\(\)\s*\.map\(\|indices\| indices\.iter\(\)\.map\(\|&idx\| row_values\[idx\]\.clone\(\)\)\.collect\(\)\);', 'let pk_values: Option<Vec<SqlValue>> = project_opt(row_values, &pk_indices);', 1),
                  ('re', r'(?s)let unique_values: Vec<Vec<SqlValue>> = unique_constraint_indices\s*\.iter\(\)\s*\.map\(\|indices\| indices\.iter\(\)\.map\(\|&idx\| row_values\[idx\]\.clone\(\)\)\.collect\(\)\)\s*\.collect\(\);', 'let unique_values: Vec<Vec<SqlValue>> = project_all(row_values, &unique_constraint_indices);', 1),
                  ('re', r'(?s)let fk_values: Vec<Vec<SqlValue>> = self\s*\.schema\s*\.foreign_keys\s*\.iter\(\)\s*\.map\(\|fk\| fk\.column_indices\.iter\(\)\.map\(\|&idx\| row_values\[idx\]\.clone\(\)\)\.collect\(\)\)\s*\.collect\(\);', 'let fk_values: Vec<Vec<SqlValue>> = project_fks(row_values, self.schema);', 1),
                  # R10 loops
                  ('re', r'for \(col_idx, col\) in self\.schema\.columns\.iter\(\)\.enumerate\(\) \{', 'let mut ci__: usize = 0; while ci__ < self.schema.columns.len() { let col = &self.schema.columns[ci__]; let col_idx = ci__; ci__ = ci__ + 1;', 1),
                  ('re', r'for \(constraint_idx, values\) in unique_values\.into_iter\(\)\.enumerate\(\) \{', 'let mut ui__: usize = 0; while ui__ < unique_values.len() { let values = clone_key(&unique_values[ui__]); let constraint_idx = ui__; ui__ = ui__ + 1;', 1),
                  ('re', r'for \(fk_idx, values\) in fk_values\.into_iter\(\)\.enumerate\(\) \{', 'let mut fi__: usize = 0; while fi__ < fk_values.len() { let values = clone_key(&fk_values[fi__]); let fk_idx = fi__; fi__ = fi__ + 1;', 1),
                  ('re', r'\*value == SqlValue::Null', 'is_null(value)', 1),
                  ('re', r'!values\.contains\(&SqlValue::Null\)', '!has_null(&values)', 1),
                  ('re', r'!values\.iter\(\)\.any\(\|v\| v\.is_null\(\)\)', '!has_null(&values)', 1),
                  ('re', r'result\.unique_keys\[constraint_idx\] = Some\(values\);', 'result.unique_keys.set(constraint_idx, Some(values));', 1),
                  ('re', r'result\.foreign_keys\[fk_idx\] = Some\(values\);', 'result.foreign_keys.set(fk_idx, Some(values));', 1)],
        loops={0: '''
            invariant ci__ <= self.schema.columns@.len(), row_values@.len() == self.schema.columns@.len(),
                forall|i: int| 0 <= i < ci__ && !(#[trigger] self.schema.columns@[i]).nullable ==> !(row_values@[i] is Null),
            decreases self.schema.columns@.len() - ci__,
''', 1: '''
            invariant ui__ <= unique_values@.len(), unique_values@.len() == self.schema.uniques().len(), result.unique_keys@.len() == self.schema.uniques().len(),
                forall|c: int| 0 <= c < unique_values@.len() ==> (#[trigger] unique_values@[c])@ == proj(row_values@, self.schema.uniques()[c]),
                forall|c: int| 0 <= c < ui__ ==> opt_key(#[trigger] result.unique_keys@[c]) == null_free_key(row_values@, self.schema.uniques()[c]),
                forall|c: int| ui__ <= c < result.unique_keys@.len() ==> result.unique_keys@[c] is None,
            decreases unique_values@.len() - ui__,
''', 2: '''
            invariant fi__ <= fk_values@.len(), fk_values@.len() == self.schema.fks().len(), result.foreign_keys@.len() == self.schema.fks().len(),
                forall|c: int| 0 <= c < fk_values@.len() ==> (#[trigger] fk_values@[c])@ == proj(row_values@, self.schema.fks()[c]),
                forall|c: int| 0 <= c < fi__ ==> opt_key(#[trigger] result.foreign_keys@[c]) == null_free_key(row_values@, self.schema.fks()[c]),
                forall|c: int| fi__ <= c < result.foreign_keys@.len() ==> result.foreign_keys@[c] is None,
            decreases fk_values@.len() - fi__,
'''},
        contract='''
        requires
            self.schema.wf(), row_values@.len() == self.schema.columns@.len(),
            // as `validate` prepares it: one empty slot per constraint
            old(result).unique_keys@.len() == self.schema.uniques().len(), old(result).foreign_keys@.len() == self.schema.fks().len(),
            forall|c: int| 0 <= c < old(result).unique_keys@.len() ==> old(result).unique_keys@[c] is None,
            forall|c: int| 0 <= c < old(result).foreign_keys@.len() ==> old(result).foreign_keys@[c] is None,
        ensures
            res is Ok ==> ({
                // the extracted keys list the values in the order of the constraint's column list
                &&& opt_key(final(result).primary_key) == (match self.schema.pk() { Some(p) => Some(proj(row_values@, p)), None => None })
                &&& final(result).unique_keys@.len() == self.schema.uniques().len()
                &&& forall|c: int| 0 <= c < self.schema.uniques().len() ==> opt_key(#[trigger] final(result).unique_keys@[c]) == null_free_key(row_values@, self.schema.uniques()[c])
                &&& final(result).foreign_keys@.len() == self.schema.fks().len()
                &&& forall|c: int| 0 <= c < self.schema.fks().len() ==> opt_key(#[trigger] final(result).foreign_keys@[c]) == null_free_key(row_values@, self.schema.fks()[c])
                // NOT NULL
                &&& forall|i: int| 0 <= i < self.schema.columns@.len() && !(#[trigger] self.schema.columns@[i]).nullable ==> !(row_values@[i] is Null)
            }),
            res is Err ==> exists|i: int| 0 <= i < self.schema.columns@.len() && !(#[trigger] self.schema.columns@[i]).nullable && row_values@[i] is Null,
'''),
}

OBLIGATIONS = {
    'validate_column_constraints': ['post:keys_in_constraint_column_order__null_keys_left_out__not_null_enforced', 'safety:index_in_bounds', 'proof:loop_invariants'],
}
CANARIES = ['canary_rowval']
TRUSTED = [
    'external_body Val / Opq: opaque; SqlValue collapsed to Null | V(payload); ExecutorError reduced; fmt_msg: format!(..)',
    'external_body project_opt / project_all / project_fks: the iterator chains `ix.iter().map(|&i| row_values[i].clone()).collect()` specified by proj (indexing out of range is their precondition); is_null / has_null / clone_key',
    'TableSchema reduced to columns (name, nullable) and uninterpreted pk / uniques / fks position lists (get_primary_key_indices, get_unique_constraint_indices, foreign_keys[f].column_indices); precondition wf: the positions exist in the row',
    'the later phases of RowValidator::validate (uniqueness lookups, CHECK, FOREIGN KEY parent lookup) are not under this contract; their constraints.rs twins are (unit K-pk)',
]
