NAME = 'A-modify'
PROPERTIES = ['C15']
ENGINE = 'verus'
CLASS = 'U'
DOC = ('execute_modify_column / execute_change_column (executor alter/columns.rs), from the conversion of the stored values to the end: after ALTER TABLE .. MODIFY / CHANGE COLUMN '
       'has converted the values of the column, the PRIMARY KEY / UNIQUE hash indexes of the table are rebuilt (after the conversion) and the user-defined indexes of the table '
       'are rebuilt, on every successful path. ALTER TABLE is otherwise NOT under contract (the catalog keeps its own copy of the schema: DESIGN 9c).')

TEMPLATE = r'''
use vstd::prelude::*;
verus! {

#[verifier::external_body] pub struct Str { s: u8 }
#[verifier::external_body] pub struct DataType { d: u8 }
impl DataType { #[verifier::external_body] pub fn clone(&self) -> (r: DataType) ensures r == *self { unimplemented!() } }
#[verifier::external_body] pub struct ExecutorError { e: u8 }
#[verifier::external_body] pub struct Expr { e: u8 }
pub struct ColumnDef { pub name: Str, pub data_type: DataType, pub nullable: bool, pub default_value: Option<Expr> }
pub struct ModifyColumnStmt { pub table_name: Str, pub column_name: Str, pub new_column_def: ColumnDef }
pub struct ChangeColumnStmt { pub table_name: Str, pub old_column_name: Str, pub new_column_def: ColumnDef }
#[verifier::external_body] fn msg() -> (r: String) { unimplemented!() }

// the `&mut Table` obtained from database.get_table_mut at the top of the function
#[verifier::external_body] pub struct Table { t: u8 }
impl Table {
    /// the PRIMARY KEY / UNIQUE hash indexes were rebuilt from the rows as they are now
    pub uninterp spec fn hash_fresh(&self) -> bool;
    // for row in table.rows_mut() { if let Some(value) = row.values.get_mut(col_index) { *value = convert_value(value.clone(), new_type)?; } }
    #[verifier::external_body]
    pub fn convert_column(&mut self, col_index: usize, new_type: &DataType) -> (r: Result<(), ExecutorError>)
        ensures !final(self).hash_fresh()          // stored values changed (also on a failure part-way): whatever was indexed is stale
    { unimplemented!() }
    // table.schema_mut().columns[col_index].X = ..   /  set_column_default: the schema changes, the rows do not
    #[verifier::external_body] pub fn set_column_type(&mut self, col_index: usize, t: DataType) ensures final(self).hash_fresh() == old(self).hash_fresh() { unimplemented!() }
    #[verifier::external_body] pub fn set_column_nullable(&mut self, col_index: usize, n: bool) ensures final(self).hash_fresh() == old(self).hash_fresh() { unimplemented!() }
    #[verifier::external_body] pub fn set_column_name(&mut self, col_index: usize, n: &Str) ensures final(self).hash_fresh() == old(self).hash_fresh() { unimplemented!() }
    #[verifier::external_body] pub fn set_default_from(&mut self, def: &ColumnDef, col_index: usize) -> (r: Result<(), ExecutorError>) ensures final(self).hash_fresh() == old(self).hash_fresh() { unimplemented!() }
    // Table::rebuild_indexes (unit K-table)
    #[verifier::external_body] pub fn rebuild_indexes(&mut self) ensures final(self).hash_fresh() { unimplemented!() }
}
#[verifier::external_body] pub struct Database { d: u8 }
impl Database {
    /// the user-defined indexes of that table were rebuilt by this statement
    pub uninterp spec fn user_rebuilt(&self, t: Str) -> bool;
    // Database::rebuild_indexes (units I-resolve, I-loop)
    #[verifier::external_body] pub fn rebuild_indexes(&mut self, t: &Str) ensures final(self).user_rebuilt(*t) { unimplemented!() }
}

//@@ modify_tail
//@@ change_tail

fn canary_modify(stmt: &ModifyColumnStmt, database: &mut Database, table: &mut Table, col_index: usize, new_type: &DataType)
{
    let r = modify_tail(stmt, database, table, col_index, new_type);
    assert(false); // CANARY
}

}
fn main() {}
'''

_F = 'crates/vibesql-executor/src/alter/columns.rs'
_RW = [
    ('re', r'(?s)for row in table\.rows_mut\(\) \{\s*if let Some\(value\) = row\.values\.get_mut\(col_index\) \{\s*\*value = convert_value\(value\.clone\(\), new_type\)\?;\s*\}\s*\}', 'table.convert_column(col_index, new_type)?;', 1),
    ('re', r'table\.schema_mut\(\)\.columns\[col_index\]\.data_type = new_type\.clone\(\);', 'table.set_column_type(col_index, new_type.clone());', 1),
    ('re', r'table\.schema_mut\(\)\.columns\[col_index\]\.nullable = stmt\.new_column_def\.nullable;', 'table.set_column_nullable(col_index, stmt.new_column_def.nullable);', 1),
    ('re', r'table\.schema_mut\(\)\.columns\[col_index\]\.name = stmt\.new_column_def\.name\.clone\(\);', 'table.set_column_name(col_index, &stmt.new_column_def.name);', None),
    ('re', r'(?s)if let Some\(ref default_expr\) = stmt\.new_column_def\.default_value \{\s*table\.schema_mut\(\)\.set_column_default\(col_index, \*default_expr\.clone\(\)\)\?;\s*\}', 'table.set_default_from(&stmt.new_column_def, col_index)?;', 1),
    ('re', r'(?s)Ok\(format!\((?:[^()]|\([^()]*\))*\)\)', 'Ok(msg())', 1),
]
_CONTRACT = '''
    ensures
        // on every successful path: the hash indexes were rebuilt AFTER the conversion of the stored values, and the user-defined indexes of the table were rebuilt
        res is Ok ==> final(table).hash_fresh() && final(database).user_rebuilt(stmt.table_name),
'''
ITEMS = {
    'modify_tail': dict(file=_F, path='fn execute_modify_column', ret='res',
        fragment=dict(kind='tail', index=0, **{'from': r'// Convert existing data'},
                      sig='fn modify_tail(stmt: &ModifyColumnStmt, database: &mut Database, table: &mut Table, col_index: usize, new_type: &DataType) -> Result<String, ExecutorError>'),
        rewrites=_RW, contract=_CONTRACT),
    'change_tail': dict(file=_F, path='fn execute_change_column', ret='res',
        fragment=dict(kind='tail', index=0, **{'from': r'// Convert existing data'},
                      sig='fn change_tail(stmt: &ChangeColumnStmt, database: &mut Database, table: &mut Table, col_index: usize, new_type: &DataType) -> Result<String, ExecutorError>'),
        rewrites=_RW, contract=_CONTRACT),
}
OBLIGATIONS = {
    'modify_tail': ['post:hash_indexes_rebuilt_after_the_conversion__user_defined_indexes_rebuilt'],
    'change_tail': ['post:hash_indexes_rebuilt_after_the_conversion__user_defined_indexes_rebuilt'],
}
CANARIES = ['canary_modify']
TRUSTED = [
    'R6 (fragment kind tail): the statements of execute_modify_column / execute_change_column from "// Convert existing data" to the end; `table` (the `&mut Table` obtained from database.get_table_mut) and `database` become two parameters (in the real code the first borrow ends before the second is used); NOT under contract: column lookup, the type-compatibility check, and every other ALTER TABLE form',
    'external_body Table::convert_column (the loop over rows_mut() with get_mut + convert_value: stored values change, also when it fails part-way), set_column_type / set_column_nullable / set_column_name / set_default_from (assignments through schema_mut(): the rows do not change), Table::rebuild_indexes (unit K-table), Database::rebuild_indexes (units I-resolve, I-loop), msg (the format! result text)',
    'the ORDER between the conversion and the rebuild of the user-defined indexes is not expressed (two separate objects in the lifted fragment); Str, DataType (clone is a copy), ExecutorError, Expr opaque; statements reduced to the fields read',
]
