NAME = 'S-setops'
PROPERTIES = ['C01', 'C08']
ENGINE = 'verus'
CLASS = 'U'
DOC = ('apply_set_operation (select/set_operations.rs) and apply_distinct (select/helpers.rs) against SQL bag semantics, stated per key over the '
       'multiplicities of the two inputs: UNION ALL l+r, UNION 1 if l+r>0, INTERSECT ALL min(l,r), INTERSECT 1 if both>0, EXCEPT ALL max(l-r,0), '
       'EXCEPT 1 if l>0 and r=0 - for every pair of inputs (loop invariants over the counting map / seen set); the column-count check errs iff both '
       'sides are non-empty and differ in width.')

TEMPLATE = r'''
use vstd::prelude::*;
verus! {

#[verifier::external_body] pub struct Key { k: u8 }
impl Key {
    pub uninterp spec fn width(&self) -> usize;
    #[verifier::external_body] pub fn clone(&self) -> (r: Key) ensures r == *self { unimplemented!() }
    #[verifier::external_body] pub fn len(&self) -> (r: usize) ensures r == self.width() { unimplemented!() }
}
pub struct Row { pub values: Key }
impl Row {
    #[verifier::external_body] pub fn clone(&self) -> (r: Row) ensures r == *self { unimplemented!() }
}
#[verifier::external_body] pub struct Opaque { o: u8 }
//@@ SetOperator

//@@ SetOperation
pub enum ExecutorError { SubqueryColumnCountMismatch { expected: usize, actual: usize } }

/// multiplicity of key k in a row sequence
pub open spec fn cnt(s: Seq<Row>, k: Key) -> nat decreases s.len() {
    if s.len() == 0 { 0 } else { cnt(s.drop_last(), k) + (if s.last().values == k { 1nat } else { 0nat }) }
}
proof fn cnt_push(s: Seq<Row>, r: Row)
    ensures forall|k: Key| #[trigger] cnt(s.push(r), k) == cnt(s, k) + (if r.values == k { 1int } else { 0int })
{
    assert(s.push(r).drop_last() =~= s);
}
proof fn cnt_bounds(s: Seq<Row>, k: Key)
    ensures cnt(s, k) <= s.len()
    decreases s.len()
{
    if s.len() > 0 { cnt_bounds(s.drop_last(), k); }
}
proof fn cnt_prefix_step(s: Seq<Row>, i: int)
    requires 0 <= i < s.len()
    ensures forall|k: Key| #[trigger] cnt(s.subrange(0, i + 1), k) == cnt(s.subrange(0, i), k) + (if s[i].values == k { 1int } else { 0int })
{
    assert(s.subrange(0, i + 1).drop_last() =~= s.subrange(0, i));
}
proof fn cnt_concat(a: Seq<Row>, b: Seq<Row>)
    ensures forall|k: Key| #[trigger] cnt(a + b, k) == cnt(a, k) + cnt(b, k)
    decreases b.len()
{
    if b.len() == 0 { assert(a + b =~= a); } else {
        assert((a + b).drop_last() =~= a + b.drop_last());
        assert((a + b).last() == b.last());
        cnt_concat(a, b.drop_last());
        assert forall|k: Key| #[trigger] cnt(a + b, k) == cnt(a, k) + cnt(b, k) by {
            assert(cnt(a + b.drop_last(), k) == cnt(a, k) + cnt(b.drop_last(), k));
        }
    }
}
pub open spec fn min2(a: int, b: int) -> int { if a <= b { a } else { b } }
pub open spec fn one_if(b: bool) -> int { if b { 1 } else { 0 } }

// HashMap<Vec<SqlValue>, i32> as an abstract finite map of counters
#[verifier::external_body] pub struct CountMap { m: u8 }
impl CountMap {
    pub uninterp spec fn view(&self) -> Map<Key, int>;
    pub open spec fn get0(&self, k: Key) -> int { if self.view().dom().contains(k) { self.view()[k] } else { 0 } }
    #[verifier::external_body] pub fn new() -> (r: CountMap) ensures r.view() == Map::<Key, int>::empty() { unimplemented!() }
    // `*m.entry(k).or_insert(0) += 1` (i32 counter: overflow is a panic, hence the precondition)
    #[verifier::external_body] pub fn inc(&mut self, k: Key)
        requires old(self).get0(k) < i32::MAX
        ensures final(self).view() == old(self).view().insert(k, old(self).get0(k) + 1)
    { unimplemented!() }
    // m.get_mut(&k) read as a value
    #[verifier::external_body] pub fn get_val(&self, k: &Key) -> (r: Option<i32>)
        ensures r is Some <==> self.view().dom().contains(*k), r is Some ==> r.unwrap() == self.view()[*k]
    { unimplemented!() }
    // `*count -= 1` through the &mut returned by get_mut(&k)
    #[verifier::external_body] pub fn dec(&mut self, k: &Key)
        requires old(self).view().dom().contains(*k), old(self).view()[*k] > i32::MIN
        ensures final(self).view() == old(self).view().insert(*k, old(self).view()[*k] - 1)
    { unimplemented!() }
}
// HashSet<Vec<SqlValue>>
#[verifier::external_body] pub struct KeySet { s: u8 }
impl KeySet {
    pub uninterp spec fn view(&self) -> Set<Key>;
    #[verifier::external_body] pub fn new() -> (r: KeySet) ensures r.view() == Set::<Key>::empty() { unimplemented!() }
    #[verifier::external_body] pub fn contains(&self, k: &Key) -> (b: bool) ensures b == self.view().contains(*k) { unimplemented!() }
    #[verifier::external_body] pub fn insert(&mut self, k: Key) -> (b: bool)
        ensures final(self).view() == old(self).view().insert(k), b == !old(self).view().contains(k)
    { unimplemented!() }
}
// right.iter().map(|row| row.values.clone()).collect::<HashSet<_>>()
#[verifier::external_body]
fn keys_of(rows: &Vec<Row>) -> (r: KeySet) ensures forall|k: Key| r.view().contains(k) <==> cnt(rows@, k) > 0 { unimplemented!() }
// result.extend(right)
#[verifier::external_body]
fn extend_rows(a: &mut Vec<Row>, b: Vec<Row>) ensures final(a)@ == old(a)@ + b@ { unimplemented!() }
/// SQL bag semantics of the six set operations, per key
pub open spec fn setop_cnt(op: SetOperator, all: bool, l: int, r: int) -> int {
    match op {
        SetOperator::Union => if all { l + r } else { one_if(l + r > 0) },
        SetOperator::Intersect => if all { min2(l, r) } else { one_if(l > 0 && r > 0) },
        SetOperator::Except => if all { if l - r > 0 { l - r } else { 0 } } else { one_if(l > 0 && r == 0) },
    }
}


//@@ apply_distinct

//@@ apply_set_operation

fn canary_setop(l: Vec<Row>, r: Vec<Row>, op: &SetOperation)
    requires r@.len() < i32::MAX
{
    let x = apply_set_operation(l, r, op);
    assert(false); // CANARY
}
fn canary_distinct(l: Vec<Row>)
{
    let x = apply_distinct(l);
    assert(false); // CANARY
}

}
fn main() {}
'''

_F = 'crates/vibesql-executor/src/select/set_operations.rs'
_H = 'crates/vibesql-executor/src/select/helpers.rs'
_S = 'crates/vibesql-ast/src/select.rs'

def _lp(inv):
    return '''
                    invariant
                        li__ <= left@.len(), right@.len() < i32::MAX, l0 == left@, r0 == right@,
''' + inv + '''                    decreases left@.len() - li__,
'''

_BUILD = '''
                    invariant
                        ri__ <= right@.len(), right@.len() < i32::MAX,
                        forall|k: Key| right_counts.get0(k) == #[trigger] cnt(right@.subrange(0, ri__ as int), k),
                    decreases right@.len() - ri__,
'''
_INT_ALL = _lp('''                        forall|k: Key| #[trigger] cnt(result@, k) == min2(cnt(left@.subrange(0, li__ as int), k) as int, cnt(right@, k) as int),
                        forall|k: Key| right_counts.get0(k) == cnt(right@, k) - #[trigger] cnt(result@, k),
''')
_INT_DIST = _lp('''                        forall|k: Key| right_set.view().contains(k) <==> cnt(right@, k) > 0,
                        forall|k: Key| #[trigger] cnt(result@, k) == one_if(cnt(left@.subrange(0, li__ as int), k) > 0 && cnt(right@, k) > 0),
                        forall|k: Key| seen.view().contains(k) <==> cnt(result@, k) > 0,
''')
_EXC_ALL = _lp('''                        forall|k: Key| #[trigger] cnt(result@, k) == (if cnt(left@.subrange(0, li__ as int), k) - cnt(right@, k) > 0 { cnt(left@.subrange(0, li__ as int), k) - cnt(right@, k) } else { 0 }),
                        forall|k: Key| right_counts.get0(k) == (if cnt(right@, k) - #[trigger] cnt(left@.subrange(0, li__ as int), k) > 0 { cnt(right@, k) - cnt(left@.subrange(0, li__ as int), k) } else { 0 }),
''')
_EXC_DIST = _lp('''                        forall|k: Key| right_set.view().contains(k) <==> cnt(right@, k) > 0,
                        forall|k: Key| #[trigger] cnt(result@, k) == one_if(cnt(left@.subrange(0, li__ as int), k) > 0 && cnt(right@, k) == 0),
                        forall|k: Key| seen.view().contains(k) <==> cnt(result@, k) > 0,
''')
_BUILD_BODY = 'proof { cnt_prefix_step(right@, ri__ as int); cnt_bounds(right@.subrange(0, ri__ as int), right@[ri__ as int].values); }'
_LEFT_BODY = ('proof { cnt_prefix_step(left@, li__ as int); cnt_push(result@, left@[li__ as int]); cnt_bounds(left@.subrange(0, li__ as int), left@[li__ as int].values); '
              'cnt_bounds(right@, left@[li__ as int].values); cnt_bounds(result@, left@[li__ as int].values); }')
_AFTER_BUILD = 'proof { assert(right@.subrange(0, right@.len() as int) =~= right@); }'
_TY = [('re', r'vibesql_storage::Row', 'Row', None), ('re', r'vibesql_ast::', '', None)]

ITEMS = {
    'SetOperator': dict(file=_S, path='enum SetOperator'),
    'SetOperation': dict(file=_S, path='struct SetOperation', rewrites=[('re', r'Box<SelectStmt>', 'Opaque', 1)]),
    'apply_distinct': dict(
        file=_H, path='fn apply_distinct', ret='r',
        rewrites=_TY + [('re', r'IndexSet::new\(\)', 'KeySet::new()', 1),
                        # R10 (consuming form): for row in rows -> index loop over clones of the elements
                        ('re', r'for row in rows \{', 'let mut li__: usize = 0; while li__ < rows.len() { let row = rows[li__].clone(); li__ = li__ + 1;', 1)],
        loops={0: '''
        invariant
            li__ <= rows@.len(),
            forall|k: Key| #[trigger] cnt(result@, k) == one_if(cnt(rows@.subrange(0, li__ as int), k) > 0),
            forall|k: Key| seen.view().contains(k) <==> cnt(result@, k) > 0,
        decreases rows@.len() - li__,
'''},
        proofs=[('@loop0', 'proof { cnt_prefix_step(rows@, li__ as int); cnt_push(result@, rows@[li__ as int]); }'),
                ('@tail', 'proof { assert(rows@.subrange(0, rows@.len() as int) =~= rows@); }')],
        contract='''
    ensures forall|k: Key| #[trigger] cnt(r@, k) == one_if(cnt(rows@, k) > 0),      // DISTINCT: every key of the input exactly once
'''),
    'apply_set_operation': dict(
        file=_F, path='fn apply_set_operation', ret='res',
        rewrites=_TY + [
            ('re', r'!left\.is_empty\(\) && !right\.is_empty\(\)', 'left.len() != 0 && right.len() != 0', 1),
            ('re', r'result\.extend\(right\);', 'extend_rows(&mut result, right);', 2),
            ('re', r'HashMap::new\(\)', 'CountMap::new()', 2),
            ('re', r'HashSet::new\(\)', 'KeySet::new()', 2),
            # R11: in-place update through HashMap::entry / get_mut -> explicit operations on the same key
            ('re', r'\*right_counts\.entry\(row\.values\.clone\(\)\)\.or_insert\(0\) \+= 1;', 'right_counts.inc(row.values.clone());', 2),
            ('re', r'right_counts\.get_mut\(&row\.values\)', 'right_counts.get_val(&row.values)', 2),
            ('re', r'\*count -= 1;', 'right_counts.dec(&k__);', 2),
            ('re', r'\*count\b', 'count', 2),
            ('re', r'let right_set: HashSet<_> = right\.iter\(\)\.map\(\|row\| row\.values\.clone\(\)\)\.collect\(\);', 'let right_set = keys_of(&right);', 2),
            # R10: for row in &right / for row in left (consuming) -> index loops
            ('re', r'for row in &right \{', 'let mut ri__: usize = 0; while ri__ < right.len() { let row = &right[ri__]; ri__ = ri__ + 1;', 2),
            ('re', r'for row in left \{', 'let mut li__: usize = 0; while li__ < left.len() { let row = left[li__].clone(); let k__ = row.values.clone(); li__ = li__ + 1;', 4),
            # hint before every successful return (any number of them)
            ('re', r'(\n\s+)(Ok\((?:result|apply_distinct\(result\))\))', r'\1proof { cnt_concat(l0, r0); assert(l0.subrange(0, l0.len() as int) =~= l0); } \2', None),
        ],
        loops={0: _BUILD, 1: _INT_ALL, 2: _INT_DIST, 3: _BUILD, 4: _EXC_ALL, 5: _EXC_DIST},
        proofs=[('@entry', 'let ghost l0 = left@; let ghost r0 = right@;'),
                ('@loop0', _BUILD_BODY), ('@loop3', _BUILD_BODY), ('@afterloop0', _AFTER_BUILD), ('@afterloop3', _AFTER_BUILD),
                ('@loop1', _LEFT_BODY), ('@loop2', _LEFT_BODY), ('@loop4', _LEFT_BODY), ('@loop5', _LEFT_BODY)],
        contract='''
    requires right@.len() < i32::MAX
    ensures
        // bag semantics, per key, for all six operations
        res matches Ok(out) ==> forall|k: Key| #[trigger] cnt(out@, k) == setop_cnt(set_op.op, set_op.all, cnt(left@, k) as int, cnt(right@, k) as int),
        res is Err <==> (left@.len() > 0 && right@.len() > 0 && left@[0].values.width() != right@[0].values.width()),
'''),
}

OBLIGATIONS = {
    'apply_distinct': ['post:every_key_exactly_once', 'proof:loop_invariant'],
    'apply_set_operation': ['post:bag_semantics_of_union_intersect_except_all_and_distinct', 'post:column_count_error_iff_widths_differ', 'safety:no_counter_overflow_no_index_out_of_bounds', 'proof:loop_invariants'],
    'cnt_push': ['post'], 'cnt_bounds': ['post'], 'cnt_prefix_step': ['post'], 'cnt_concat': ['post:multiplicity_of_concatenation'],
}
CANARIES = ['canary_setop', 'canary_distinct']
TRUSTED = [
    'external_body Key (clone is a copy, len): a row\'s Vec<SqlValue> as ONE hashable key with structural equality (Eq / Hash laws of SqlValue: unit T-laws, C21, modulo its recorded finding); Row.values is that key; Row::clone is a copy',
    'external_body CountMap (new, inc, get_val, dec): std HashMap<Vec<SqlValue>, i32> as an abstract finite map of counters; R11: `*m.entry(k).or_insert(0) += 1` -> inc(k), `m.get_mut(&k)` read as a value, `*count -= 1` -> dec(k) on the key of the current row',
    'external_body KeySet (new, contains, insert): std HashSet / indexmap IndexSet of keys as an abstract set (insert returns "was new")',
    'external_body keys_of: right.iter().map(|row| row.values.clone()).collect::<HashSet<_>>(); extend_rows: Vec::extend',
    'precondition right.len() < i32::MAX: the i32 occurrence counters cannot overflow (more than 2^31 rows on the right side would panic in debug builds)',
    'R10 rewrites: for row in &right / for row in left (consuming) / for row in rows -> index loops over clones',
    'ORDER of the result rows is not part of this contract (only multiplicities); that apply_distinct keeps first occurrences in order is not stated',
    'Opaque: Box<SelectStmt> payload of SetOperation; ExecutorError reduced to the one variant constructed here',
]
