NAME = 'S-limit'
PROPERTIES = ['C08', 'C01', 'C24']
ENGINE = 'verus'
CLASS = 'U'
DOC = 'apply_limit_offset returns exactly rows[min(m,len) .. min(m+n,len)) in order, for every usize m, n'

TEMPLATE = r'''
use vstd::prelude::*;
verus! {

#[verifier::external_body]
pub struct Row { r: Vec<u8> }

// R4 stub for `$e.into_iter().skip($a).take($b).collect()` : std-documented behaviour of
// Iterator::skip / take / collect on a Vec (assumed, trusted)
#[verifier::external_body]
fn skip_take_collect(rows: Vec<Row>, a: usize, b: usize) -> (r: Vec<Row>)
    ensures r@ == rows@.subrange(
        if a <= rows@.len() { a as int } else { rows@.len() as int },
        if a as int + b as int <= rows@.len() { a as int + b as int } else { rows@.len() as int })
{ unimplemented!() }

// R4 stub for `$v.drain(..$a);` (std: panics if a > len -> precondition)
#[verifier::external_body]
fn drain_prefix(v: &mut Vec<Row>, a: usize)
    requires a <= old(v)@.len()
    ensures final(v)@ == old(v)@.subrange(a as int, old(v)@.len() as int)
{ unimplemented!() }

pub open spec fn min(a: int, b: int) -> int { if a <= b { a } else { b } }
pub open spec fn off(o: Option<usize>) -> int { if o is Some { o.unwrap() as int } else { 0 } }

//@@ apply_limit_offset

// vacuity canary: must FAIL (same preconditions as the contract above: none)
fn canary_apply_limit_offset(rows: Vec<Row>, limit: Option<usize>, offset: Option<usize>)
{
    let r = apply_limit_offset(rows, limit, offset);
    assert(false); // CANARY
}

}
fn main() {}
'''

ITEMS = {
    'apply_limit_offset': dict(
        file='crates/vibesql-executor/src/select/helpers.rs',
        path='fn apply_limit_offset',
        ret='r',
        rewrites=[
            ('lit', 'vibesql_storage::Row', 'Row', 2),
            # R4 shapes with holes (any number of occurrences; a chain matching no shape is a Verus compile error => exit 2)
            ('re', r'(\w+)\.into_iter\(\)\.skip\(([^()]*)\)\.take\(([^()]*)\)\.collect\(\)', r'skip_take_collect(\1, \2, \3)', None),
            ('re', r'(\w+)\.drain\(\.\.([^()]*)\);', r'drain_prefix(&mut \1, \2);', None),
        ],
        contract='''
    ensures
        r@ == rows@.subrange(
            min(off(offset), rows@.len() as int),
            min(off(offset) + (if limit is Some { limit.unwrap() as int } else { rows@.len() as int }), rows@.len() as int)),
''',
    ),
}

# obligations this unit must discharge: function -> labelled clauses
OBLIGATIONS = {
    'apply_limit_offset': ['post:subrange', 'safety:no-overflow-no-callee-precondition-violated'],
}
CANARIES = ['canary_apply_limit_offset']
TRUSTED = [
    'external_body skip_take_collect: std Iterator::skip/take/collect on Vec::into_iter (documented behaviour assumed)',
    'external_body Row: row payload opaque',
    'external_body drain_prefix: Vec::drain(..a) as a statement removes the first a elements (std documented behaviour; its panic is the precondition)',
    'vstd specs: Option::unwrap_or, usize::min, Vec::len, Vec::new',
]
