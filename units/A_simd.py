NAME = 'A-simd'
PROPERTIES = ['C03', 'C24', 'C07']
ENGINE = 'verus'
CLASS = 'U'
DOC = ('the integer SIMD kernels of the columnar aggregate path (simd/aggregation.rs): simd_sum_i64 returns the exact mathematical sum of '
       'the column for every column (no overflow, no precondition), simd_min_i64 / simd_max_i64 return None iff empty else the minimum / maximum, '
       'simd_count is the length; loops over the 4-wide chunks and the remainder are proved with invariants (all lengths).')

TEMPLATE = r'''
use vstd::prelude::*;
verus! {

// wide::i64x4: from([i64;4]) / into() are identity conversions (trusted)
pub struct i64x4 { pub a: [i64; 4] }
impl i64x4 {
    #[verifier::external_body]
    pub fn from(x: [i64; 4]) -> (r: i64x4) ensures r.a == x { i64x4 { a: x } }
    #[verifier::external_body]
    pub fn into(self) -> (r: [i64; 4]) ensures r == self.a { self.a }
}
// i64::min / i64::max (std)
#[verifier::external_body]
fn i64_min(a: i64, b: i64) -> (r: i64) ensures r == (if a <= b { a } else { b }) { a.min(b) }
#[verifier::external_body]
fn i64_max(a: i64, b: i64) -> (r: i64) ensures r == (if a >= b { a } else { b }) { a.max(b) }

// ---------------- SQL definitions as spec functions -------------------------------------------------
pub open spec fn ssum(s: Seq<i64>) -> int decreases s.len() {
    if s.len() == 0 { 0 } else { ssum(s.drop_last()) + s.last() as int }
}
pub open spec fn is_min(s: Seq<i64>, m: i64) -> bool {
    (exists|k: int| 0 <= k < s.len() && s[k] == m) && forall|k: int| 0 <= k < s.len() ==> m <= s[k]
}
pub open spec fn is_max(s: Seq<i64>, m: i64) -> bool {
    (exists|k: int| 0 <= k < s.len() && s[k] == m) && forall|k: int| 0 <= k < s.len() ==> m >= s[k]
}
/// lower bound of the prefix [0, n): m is <= every element and is either i64::MAX (nothing seen) or an element
pub open spec fn min_so_far(s: Seq<i64>, n: int, m: i64) -> bool {
    (forall|k: int| 0 <= k < n ==> m <= s[k]) && (if n == 0 { m == i64::MAX } else { exists|k: int| 0 <= k < n && s[k] == m })
}
pub open spec fn max_so_far(s: Seq<i64>, n: int, m: i64) -> bool {
    (forall|k: int| 0 <= k < n ==> m >= s[k]) && (if n == 0 { m == i64::MIN } else { exists|k: int| 0 <= k < n && s[k] == m })
}

proof fn ssum_step(s: Seq<i64>, k: int)
    requires 0 <= k < s.len()
    ensures ssum(s.subrange(0, k + 1)) == ssum(s.subrange(0, k)) + s[k] as int
{
    assert(s.subrange(0, k + 1).drop_last() =~= s.subrange(0, k));
}
proof fn ssum_bound(s: Seq<i64>)
    ensures -0x8000_0000_0000_0000 * s.len() <= ssum(s) <= 0x7fff_ffff_ffff_ffff * s.len()
    decreases s.len()
{
    if s.len() > 0 { ssum_bound(s.drop_last()); }
}

//@@ simd_count

//@@ simd_sum_i64

//@@ simd_min_i64

//@@ simd_max_i64

fn canary_sum(column: &[i64])
{
    let r = simd_sum_i64(column);
    assert(false); // CANARY
}
fn canary_min(column: &[i64])
{
    let r = simd_min_i64(column);
    assert(false); // CANARY
}

}
fn main() {}
'''

_F = 'crates/vibesql-executor/src/simd/aggregation.rs'
_CHUNK_INV_COMMON = 'chunks == column@.len() / 4,'


def _minmax_rw(var):
    return [
        # R8: `for &val in &arr { .. }` over the fixed 4-element array -> index loop
        ('lit', 'for &val in &arr {', 'for j in 0..4usize {\n            let val = arr[j];', 1),
        ('re', r'\b%s\.%s\(' % (var, var), 'i64_%s(%s, ' % (var, var), 2),
    ]


ITEMS = {
    'simd_count': dict(file=_F, path='fn simd_count', ret='r', contract='''
    ensures r == len,
'''),
    'simd_sum_i64': dict(
        file=_F, path='fn simd_sum_i64', ret='r',
        proofs=[('@loop0', 'proof {\n ssum_step(column@, 4 * i as int); ssum_step(column@, 4 * i as int + 1);\n ssum_step(column@, 4 * i as int + 2); ssum_step(column@, 4 * i as int + 3);\n ssum_bound(column@.subrange(0, 4 * i as int));\n}'),
                ('@loop1', 'proof { ssum_step(column@, i as int); ssum_bound(column@.subrange(0, i as int)); }'),
                ('re:\n\\s*sum\n\\s*\\}\\s*$', 'proof { assert(column@.subrange(0, column@.len() as int) =~= column@); }')],
        loops={0: '''
        invariant
            chunks == column@.len() / 4, column@.len() <= usize::MAX,
            sum as int == ssum(column@.subrange(0, 4 * i as int)),
''', 1: '''
        invariant
            remainder_start <= column@.len(),
            sum as int == ssum(column@.subrange(0, i as int)),
'''},
        contract='''
    ensures r as int == ssum(column@),
'''),
    'simd_min_i64': dict(
        file=_F, path='fn simd_min_i64', ret='r', rewrites=_minmax_rw('min'),
        loops={0: '''
        invariant
            chunks == column@.len() / 4, column@.len() > 0, column@.len() <= usize::MAX,
            min_so_far(column@, 4 * i as int, min),
''', 1: '''
            invariant
                i < chunks, chunks == column@.len() / 4, offset == i * 4, arr@ =~= column@.subrange(offset as int, offset as int + 4),
                min_so_far(column@, offset as int + j as int, min),
''', 2: '''
        invariant
            remainder_start <= column@.len(), column@.len() > 0,
            min_so_far(column@, i as int, min),
'''},
        contract='''
    ensures
        r is None <==> column@.len() == 0,
        r is Some ==> is_min(column@, r.unwrap()),
'''),
    'simd_max_i64': dict(
        file=_F, path='fn simd_max_i64', ret='r', rewrites=_minmax_rw('max'),
        loops={0: '''
        invariant
            chunks == column@.len() / 4, column@.len() > 0, column@.len() <= usize::MAX,
            max_so_far(column@, 4 * i as int, max),
''', 1: '''
            invariant
                i < chunks, chunks == column@.len() / 4, offset == i * 4, arr@ =~= column@.subrange(offset as int, offset as int + 4),
                max_so_far(column@, offset as int + j as int, max),
''', 2: '''
        invariant
            remainder_start <= column@.len(), column@.len() > 0,
            max_so_far(column@, i as int, max),
'''},
        contract='''
    ensures
        r is None <==> column@.len() == 0,
        r is Some ==> is_max(column@, r.unwrap()),
'''),
}

OBLIGATIONS = {
    'simd_count': ['post:is_length'],
    'simd_sum_i64': ['post:sum_eq_spec_for_every_column', 'safety:no_overflow_index_in_bounds', 'proof:loop_invariants'],
    'simd_min_i64': ['post:none_iff_empty_else_minimum', 'safety:index_in_bounds', 'proof:loop_invariants'],
    'simd_max_i64': ['post:none_iff_empty_else_maximum', 'safety:index_in_bounds', 'proof:loop_invariants'],
    'ssum_step': ['post:sum_unfolds_on_the_right'],
    'ssum_bound': ['post:sum_bounded_by_length'],
}
CANARIES = ['canary_sum', 'canary_min']
TRUSTED = [
    'external_body i64x4 from / into: wide::i64x4 conversions are the identity on [i64; 4]',
    'external_body i64_min / i64_max: std i64::min / i64::max',
    'R8 rewrite of `for &val in &arr` (fixed 4-element array) to an index loop',
    'the f64 kernels (simd_sum_f64 etc.) are not under contract (floating point)',
    'simd_aggregate_i64 (batching over ColumnarScan, NULL skipping, result typing) is not under contract',
]
