NAME = 'P-data'
PROPERTIES = ['C20', 'C15', 'C18']
ENGINE = 'verus'
CLASS = 'U'
DOC = ('read_data (persistence/binary/data.rs) over an abstract reader: loading the row section of a (possibly damaged) binary file terminates and '
       'the number of rows it materialises never exceeds the number of bytes it consumes - a row count read from the file cannot make the loader '
       'spin or allocate beyond the size of the input (the degenerate case: rows declared for a table without columns). C15: the rows go into the tables '
       'through Table::insert, which maintains the PRIMARY KEY / UNIQUE hash indexes only - a successful load leaves NO table whose user-defined (CREATE INDEX) '
       'indexes lag behind its rows: every table that received rows is rebuilt after its last row.')

TEMPLATE = r'''
use vstd::prelude::*;
verus! {

// std::io::Read over a byte source: the view is the bytes not yet consumed
#[verifier::external_body] pub struct Reader { r: Vec<u8> }
impl View for Reader { type V = Seq<u8>; uninterp spec fn view(&self) -> Seq<u8>; }
#[verifier::external_body] pub struct Msg { m: u8 }
pub enum StorageError { NotImplemented(Msg), TableNotFound(Msg) }
#[verifier::external_body] pub struct Str { s: u8 }
#[verifier::external_body] pub struct SqlValue { v: u8 }
pub struct Row { pub values: Vec<SqlValue> }
#[verifier::external_body] fn err_msg() -> (r: Msg) { unimplemented!() }

// the binary readers by the part of their contracts used here: what they CONSUME (exact consumption and totality: units P-alloc / P-codec)
#[verifier::external_body]
fn read_string(reader: &mut Reader) -> (r: Result<Str, StorageError>)
    ensures final(reader)@.len() <= old(reader)@.len(), r is Ok ==> final(reader)@.len() + 4 <= old(reader)@.len()
{ unimplemented!() }
#[verifier::external_body]
fn read_u64(reader: &mut Reader) -> (r: Result<u64, StorageError>)
    ensures final(reader)@.len() <= old(reader)@.len(), r is Ok ==> final(reader)@.len() + 8 == old(reader)@.len()
{ unimplemented!() }
#[verifier::external_body]
fn read_sql_value(reader: &mut Reader) -> (r: Result<SqlValue, StorageError>)
    ensures final(reader)@.len() <= old(reader)@.len(), r is Ok ==> final(reader)@.len() + 1 <= old(reader)@.len()     // at least the type tag
{ unimplemented!() }

// Database: the catalog has been read already; `rows_added` counts the rows this load has inserted
#[verifier::external_body] pub struct Database { d: u8 }
impl Database {
    pub uninterp spec fn rows_added(&self) -> int;
    /// the tables whose user-defined (CREATE INDEX) indexes do not cover all their rows
    pub uninterp spec fn stale(&self) -> Set<Str>;
    #[verifier::external_body] pub fn table_count(&self) -> (r: usize) { unimplemented!() }                  // db.catalog.list_tables().len()
    // db.get_table(&name).map(|t| t.schema.columns.len()).ok_or_else(|| TableNotFound(..))
    #[verifier::external_body] pub fn column_count_or_err(&self, name: &Str) -> (r: Result<usize, StorageError>) { unimplemented!() }
    #[verifier::external_body] pub fn has_table(&self, name: &Str) -> (r: bool) { unimplemented!() }          // db.get_table_mut(&name) is Some
    // table.insert(row).map_err(..): one more row in memory (R12)
    #[verifier::external_body] pub fn tbl_insert(&mut self, name: &Str, row: Row) -> (r: Result<(), StorageError>)
        ensures final(self).rows_added() <= old(self).rows_added() + 1,
                final(self).stale().subset_of(old(self).stale().insert(*name))     // Table::insert does not touch the user-defined indexes
    { unimplemented!() }
    // Database::rebuild_indexes: the user-defined indexes of that table are rebuilt from its rows (unit I-resolve)
    #[verifier::external_body] pub fn rebuild_indexes(&mut self, name: &Str)
        ensures final(self).rows_added() == old(self).rows_added(), final(self).stale() == old(self).stale().remove(*name)
    { unimplemented!() }
}

//@@ read_data

fn canary_read_data(reader: &mut Reader, db: &mut Database)
{
    let r = read_data(reader, db);
    assert(false); // CANARY
}

}
fn main() {}
'''

_F = 'crates/vibesql-storage/src/persistence/binary/data.rs'
_BOUND = 'reader@.len() <= r0, db.rows_added() - d0 <= r0 - reader@.len(), r0 == old(reader)@.len(), d0 == old(db).rows_added(),'
_ST0 = 'old(db).stale() =~= Set::<Str>::empty() ==> db.stale() =~= Set::<Str>::empty(),'
_ST1 = 'old(db).stale() =~= Set::<Str>::empty() ==> db.stale().subset_of(Set::<Str>::empty().insert(table_name)),'
ITEMS = {
    'read_data': dict(
        file=_F, path='fn read_data', ret='res',
        rewrites=[
            ('re', r'fn read_data<R: Read>\(reader: &mut R, db: &mut Database\)', 'fn read_data(reader: &mut Reader, db: &mut Database)', 1),
            ('re', r'db\.catalog\.list_tables\(\)\.len\(\)', 'db.table_count()', 1),
            # R10: `for _ in 0..n` -> counting while loops
            ('re', r'for _ in 0\.\.table_count \{', 'let mut tc__: usize = 0; while tc__ < table_count { tc__ = tc__ + 1;', 1),
            ('re', r'for _ in 0\.\.row_count \{', 'let mut rc__: u64 = 0; while rc__ < row_count { rc__ = rc__ + 1; let ghost rlen = reader@.len();', 1),
            ('re', r'for _ in 0\.\.column_count \{', 'let mut cc__: usize = 0; while cc__ < column_count { cc__ = cc__ + 1;', 1),
            ('re', r'(?s)let column_count = db\s*\.get_table\(&table_name\)\s*\.map\(\|t\| t\.schema\.columns\.len\(\)\)\s*\.ok_or_else\(\|\| StorageError::TableNotFound\(table_name\.clone\(\)\)\)\?;', 'let column_count = db.column_count_or_err(&table_name)?;', 1),
            # R12: operations through the &mut Table obtained from the map
            ('re', r'if let Some\(table\) = db\.get_table_mut\(&table_name\) \{', 'if db.has_table(&table_name) {', 1),
            ('re', r'(?s)table\.insert\(row\)\.map_err\(\|e\| \{\s*StorageError::NotImplemented\(format!\("Failed to insert row: \{\}", e\)\)\s*\}\)\?;', 'db.tbl_insert(&table_name, row)?;', 1),
            ('re', r'let row = crate::Row \{ values \};', 'let row = Row { values };', 1),
            ('re', r'format!\((?:[^()]|\([^()]*\))*\)', 'err_msg()', None), ('re', r'"[^"]*"\.to_string\(\)', 'err_msg()', None),
        ],
        loops={0: '''
        invariant ''' + _BOUND + _ST0 + '''
        decreases table_count - tc__,
''', 1: '''
                invariant ''' + _BOUND + _ST1 + '''
                    {{if_has:column_count}}row_count > 0 ==> column_count >= 1,{{end}}
                decreases row_count - rc__,
''', 2: '''
                    invariant reader@.len() <= rlen, cc__ <= column_count, cc__ >= 1 ==> reader@.len() + 1 <= rlen, rlen <= r0,
                        db.rows_added() - d0 <= r0 - rlen, r0 == old(reader)@.len(), d0 == old(db).rows_added(), ''' + _ST1 + '''
                    decreases column_count - cc__,
'''},
        proofs=[('@entry', 'let ghost r0 = reader@.len(); let ghost d0 = db.rows_added();')],
        contract='''
    ensures
        // C20: the work a (possibly damaged) file can cause is bounded by its size - the rows materialised never outnumber the bytes consumed
        final(db).rows_added() - old(db).rows_added() <= old(reader)@.len() - final(reader)@.len(),
        final(reader)@.len() <= old(reader)@.len(),
        // C15: a successful load leaves no table whose user-defined indexes lag behind its rows
        res is Ok && old(db).stale() =~= Set::<Str>::empty() ==> final(db).stale() =~= Set::<Str>::empty(),
'''),
}

OBLIGATIONS = {
    'read_data': ['post:rows_materialised_bounded_by_bytes_consumed__no_table_left_with_lagging_user_defined_indexes', 'safety:no_overflow', 'proof:loop_invariants_and_termination'],
}
CANARIES = ['canary_read_data']
TRUSTED = [
    'external_body Reader (std::io::Read as the sequence of bytes not yet consumed), Msg / Str / SqlValue opaque, err_msg (format! / to_string of an error text)',
    'external_body read_string / read_u64 / read_sql_value: by the CONSUMPTION part of their contracts (Ok => at least 4 / exactly 8 / at least 1 byte consumed; never un-consume), proved on the real readers in units P-alloc / P-codec',
    'external_body Database (table_count, column_count_or_err, has_table, tbl_insert, rebuild_indexes): R12 rewrite of get_table / get_table_mut + Table::insert; rows_added is a ghost count of inserted rows; stale is the ghost set of tables whose user-defined indexes lag behind their rows (tbl_insert may add the table - Table::insert maintains the hash indexes only, unit K-table; rebuild_indexes removes it - unit I-resolve)',
    'Vec::with_capacity(column_count): column_count comes from the catalog already in memory, not from the data section',
    'read_catalog, the compressed / JSON / SQL-dump loaders and unbounded recursion in read_expression are not under contract',
]
