"""Shared extraction of the real AST types (vibesql-ast) for units that reason about WHERE expressions.
Not a unit itself (file name starts with '_')."""

AST_PREAMBLE = r'''
// R2: leaf types outside the unit's closure
#[verifier::external_body] pub struct Str { s: String }            // String (identifiers), with equality
#[verifier::external_body] pub struct Opaque { x: u8 }             // payload types the unit never inspects
// SqlValue: NULL or an opaque non-NULL scalar with an uninterpreted total order (for SqlValue: units T-laws / E-ops)
#[verifier::external_body] pub struct Val { v: i64 }
pub enum SqlValue { Null, V(Val) }
impl SqlValue {
    #[verifier::external_body]
    pub fn clone(&self) -> (r: SqlValue) ensures r == *self { unimplemented!() }
}
pub uninterp spec fn val_le(a: Val, b: Val) -> bool;
pub open spec fn val_lt(a: Val, b: Val) -> bool { val_le(a, b) && a != b }
#[verifier::external_body]
pub proof fn val_total_order()
    ensures
        forall|a: Val| val_le(a, a),
        forall|a: Val, b: Val| val_le(a, b) || val_le(b, a),
        forall|a: Val, b: Val| val_le(a, b) && val_le(b, a) ==> a == b,
        forall|a: Val, b: Val, c: Val| val_le(a, b) && val_le(b, c) ==> val_le(a, c),
{}
pub uninterp spec fn str_is(s: Str, name: &str) -> bool;
#[verifier::external_body]
fn str_eq(a: &Str, b: &str) -> (r: bool) ensures r == str_is(*a, b) { unimplemented!() }

//@@ BinaryOperator

//@@ Expression
'''

_OPAQUE_TYPES = ['UnaryOperator', 'CharacterUnit', 'CaseWhen', 'SelectStmt', r'vibesql_types::DataType', 'TrimPosition', 'Quantifier',
                 'IntervalUnit', 'WindowFunctionSpec', 'WindowSpec', 'FulltextMode', 'PseudoTable']

AST_ITEMS = {
    'BinaryOperator': dict(file='crates/vibesql-ast/src/operators.rs', path='enum BinaryOperator'),
    'Expression': dict(file='crates/vibesql-ast/src/expression.rs', path='enum Expression', rewrites=[
        ('re', r'\bString\b', 'Str', None),
    ] + [('re', r'(?<![A-Za-z0-9_])%s\b' % t, 'Opaque', None) for t in _OPAQUE_TYPES]),
}
AST_TRUSTED = [
    'external_body Str / Opaque / Val: identifier strings, AST payloads outside the unit, non-NULL scalar payloads (opaque)',
    'val_total_order: uninterpreted total order on non-NULL values (for SqlValue: units T-laws / E-ops, modulo their findings)',
    'external_body str_eq: String == &str; SqlValue::clone is a copy',
    'the variant LIST of enum Expression / BinaryOperator is the real one (extracted each run); only payload TYPES outside the closure are replaced by Opaque',
]
