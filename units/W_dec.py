NAME = 'W-dec'
PROPERTIES = ['C27']
ENGINE = 'verus'
CLASS = 'U'
DOC = ('FrontendMessage::decode / decode_startup / read_cstring: total functional contract over all byte strings - never a callee '
       'precondition violated (= no panic), no overflow, Ok(None) iff the frame is incomplete and then the buffer is unchanged, '
       'otherwise exactly the declared frame is consumed and the result is the spec decoding of that frame; round-trip lemma.')

TEMPLATE = r'''
use vstd::prelude::*;
verus! {

// ---------------- bytes::BytesMut: assumed contracts (documented semantics; panics are preconditions) -------------
#[verifier::external_body]
pub struct BytesMut { v: Vec<u8> }
impl View for BytesMut { type V = Seq<u8>; uninterp spec fn view(&self) -> Seq<u8>; }

pub open spec fn be_i32(s: Seq<u8>) -> int
    recommends s.len() == 4
{
    let u = (s[0] as int) * 16777216 + (s[1] as int) * 65536 + (s[2] as int) * 256 + (s[3] as int);
    if u >= 0x8000_0000 { u - 0x1_0000_0000 } else { u }
}

impl BytesMut {
    #[verifier::external_body]
    pub fn len(&self) -> (r: usize) ensures r == self@.len() { unimplemented!() }
    #[verifier::external_body]
    pub fn at(&self, i: usize) -> (r: u8) requires i < self@.len() ensures r == self@[i as int] { unimplemented!() }
    #[verifier::external_body]
    pub fn advance(&mut self, n: usize) requires n <= old(self)@.len() ensures final(self)@ == old(self)@.subrange(n as int, old(self)@.len() as int) { unimplemented!() }
    #[verifier::external_body]
    pub fn get_i32(&mut self) -> (r: i32) requires old(self)@.len() >= 4
        ensures final(self)@ == old(self)@.subrange(4, old(self)@.len() as int), r as int == be_i32(old(self)@.subrange(0, 4)) { unimplemented!() }
    #[verifier::external_body]
    pub fn split_to(&mut self, n: usize) -> (r: BytesMut) requires n <= old(self)@.len()
        ensures r@ == old(self)@.subrange(0, n as int), final(self)@ == old(self)@.subrange(n as int, old(self)@.len() as int) { unimplemented!() }
    // R4: buf.iter().position(|&b| b == 0)
    #[verifier::external_body]
    pub fn position_zero(&self) -> (r: Option<usize>)
        ensures match r {
            Some(i) => is_first_zero(self@, i as int),
            None => forall|j: int| 0 <= j < self@.len() ==> self@[j] != 0,
        } { unimplemented!() }
    #[verifier::external_body]
    pub fn to_vec(&self) -> (r: Vec<u8>) ensures r@ == self@ { unimplemented!() }
}

#[verifier::external_body]
fn i32_from_be_bytes(x: [u8; 4]) -> (r: i32) ensures r as int == be_i32(x@) { i32::from_be_bytes(x) }

// ---------------- String as an opaque value with a byte view (std String: valid UTF-8, trusted) ------------------
#[verifier::external_body]
pub struct Str { s: String }
impl View for Str { type V = Seq<u8>; uninterp spec fn view(&self) -> Seq<u8>; }
pub uninterp spec fn is_utf8(s: Seq<u8>) -> bool;
impl Str {
    #[verifier::external_body]
    pub fn is_empty(&self) -> (r: bool) ensures r == (self@.len() == 0) { unimplemented!() }
}
// R4/R7: String::from_utf8(v).map_err(|_| ProtocolError::InvalidString)
#[verifier::external_body]
fn str_from_utf8(v: Vec<u8>) -> (r: Result<Str, ProtocolError>)
    ensures match r { Ok(s) => s@ == v@ && is_utf8(v@), Err(e) => !is_utf8(v@) }
{ unimplemented!() }

#[verifier::external_body]
pub struct IoError { e: u8 }

// HashMap<String, String> of startup parameters as an abstract map
#[verifier::external_body]
pub struct ParamMap { m: u8 }
impl View for ParamMap { type V = Map<Seq<u8>, Seq<u8>>; uninterp spec fn view(&self) -> Map<Seq<u8>, Seq<u8>>; }
impl ParamMap {
    #[verifier::external_body]
    pub fn new() -> (r: ParamMap) ensures r@ == Map::<Seq<u8>, Seq<u8>>::empty() { unimplemented!() }
    #[verifier::external_body]
    pub fn insert(&mut self, k: Str, v: Str) ensures final(self)@ == old(self)@.insert(k@, v@) { unimplemented!() }
}

// ---------------- specification of the wire format (PostgreSQL v3 frontend messages) -----------------------------
pub open spec fn is_first_zero(p: Seq<u8>, n: int) -> bool {
    0 <= n < p.len() && p[n] == 0 && forall|j: int| 0 <= j < n ==> p[j] != 0
}
pub open spec fn has_zero(p: Seq<u8>) -> bool { exists|n: int| is_first_zero(p, n) }
pub open spec fn fz(p: Seq<u8>) -> int { if has_zero(p) { choose|n: int| is_first_zero(p, n) } else { -1 } }

proof fn lemma_fz(p: Seq<u8>, n: int)
    requires is_first_zero(p, n)
    ensures fz(p) == n, has_zero(p)
{
    let m = fz(p);
    assert(is_first_zero(p, m));
    if m < n { assert(p[m] != 0); }
    if n < m { assert(p[n] != 0); }
}
proof fn lemma_no_zero(p: Seq<u8>)
    requires forall|j: int| 0 <= j < p.len() ==> p[j] != 0
    ensures fz(p) == -1, !has_zero(p)
{
    if has_zero(p) { let m = choose|n: int| is_first_zero(p, n); assert(p[m] != 0); }
}

/// regular message: frame complete?
pub open spec fn ready(s: Seq<u8>) -> bool {
    s.len() >= 5 && be_i32(s.subrange(1, 5)) >= 4 && s.len() - 1 >= be_i32(s.subrange(1, 5))
}
pub open spec fn flen(s: Seq<u8>) -> int { be_i32(s.subrange(1, 5)) }
pub open spec fn payload(s: Seq<u8>) -> Seq<u8> { s.subrange(5, 1 + flen(s)) }
pub open spec fn cstr_ok(p: Seq<u8>) -> bool { has_zero(p) && is_utf8(p.subrange(0, fz(p))) }

/// startup message
pub open spec fn sready(s: Seq<u8>) -> bool {
    s.len() >= 4 && be_i32(s.subrange(0, 4)) >= 8 && s.len() >= be_i32(s.subrange(0, 4))
}
pub open spec fn slen(s: Seq<u8>) -> int { be_i32(s.subrange(0, 4)) }

pub open spec fn parse_params(p: Seq<u8>, acc: Map<Seq<u8>, Seq<u8>>) -> Option<Map<Seq<u8>, Seq<u8>>>
    decreases p.len()
{
    let k = fz(p);
    if k < 0 || k >= p.len() || !is_utf8(p.subrange(0, k)) { None }
    else if k == 0 { Some(acc) }
    else {
        let p2 = p.subrange(k + 1, p.len() as int);
        let v = fz(p2);
        if v < 0 || v >= p2.len() || !is_utf8(p2.subrange(0, v)) { None }
        else { parse_params(p2.subrange(v + 1, p2.len() as int), acc.insert(p.subrange(0, k), p2.subrange(0, v))) }
    }
}

//@@ ProtocolError

//@@ FrontendMessage

//@@ read_cstring

impl FrontendMessage {
//@@ decode

//@@ decode_startup
}

// ---------------- round trip: decoding the encoding of a well-formed message yields it, rest untouched --------------
pub open spec fn be4(n: int) -> Seq<u8> {
    seq![((n / 16777216) % 256) as u8, ((n / 65536) % 256) as u8, ((n / 256) % 256) as u8, (n % 256) as u8]
}
pub open spec fn enc_cstr_msg(ty: u8, q: Seq<u8>) -> Seq<u8> { seq![ty] + be4((4 + q.len() + 1) as int) + q + seq![0u8] }

proof fn lemma_be4(n: int)
    requires 0 <= n < 0x8000_0000
    ensures be_i32(be4(n)) == n, be4(n).len() == 4
{
    assert(be_i32(be4(n)) == n) by (nonlinear_arith)
        requires 0 <= n < 0x8000_0000,
            be_i32(be4(n)) == { let u = (((n / 16777216) % 256) as u8 as int) * 16777216 + (((n / 65536) % 256) as u8 as int) * 65536 + (((n / 256) % 256) as u8 as int) * 256 + ((n % 256) as u8 as int); if u >= 0x8000_0000 { u - 0x1_0000_0000 } else { u } };
}

/// the framing/round-trip consequence of decode's contract, as a lemma over the contract alone
proof fn lemma_roundtrip_query(q: Seq<u8>, rest: Seq<u8>, r: Result<Option<FrontendMessage>, ProtocolError>, after: Seq<u8>)
    requires
        is_utf8(q), forall|j: int| 0 <= j < q.len() ==> q[j] != 0, q.len() < 0x7fff_fff0,
        decode_post(enc_cstr_msg(81u8, q) + rest, r, after),
    ensures
        r matches Ok(Some(FrontendMessage::Query { query })) && query@ == q && after == rest,
{
    let s = enc_cstr_msg(81u8, q) + rest;
    let n = 4 + q.len() + 1;
    lemma_be4(n as int);
    assert(s.subrange(1, 5) =~= be4(n as int));
    assert(flen(s) == n);
    assert(ready(s));
    assert(payload(s) =~= q + seq![0u8]);
    assert(is_first_zero(payload(s), q.len() as int));
    lemma_fz(payload(s), q.len() as int);
    assert(payload(s).subrange(0, q.len() as int) =~= q);
    assert(s.subrange(1 + flen(s), s.len() as int) =~= rest);
    assert(s[0] == 81u8);
}

// vacuity canaries: must FAIL
proof fn canary_decode_post(s: Seq<u8>, r: Result<Option<FrontendMessage>, ProtocolError>, after: Seq<u8>)
    requires decode_post(s, r, after)
{
    assert(false); // CANARY
}
fn canary_decode(buf: &mut BytesMut)
{
    let r = FrontendMessage::decode(buf);
    assert(false); // CANARY
}
fn canary_decode_startup(buf: &mut BytesMut)
{
    let r = FrontendMessage::decode_startup(buf);
    assert(false); // CANARY
}

/// decode's postcondition as a predicate (shared by the contract and the round-trip lemma)
spec fn decode_post(old_b: Seq<u8>, r: Result<Option<FrontendMessage>, ProtocolError>, new_b: Seq<u8>) -> bool {
    match r {
        // asks for more bytes: only when the frame is incomplete, and nothing is consumed
        Ok(None) => new_b == old_b && (old_b.len() < 5 || (flen(old_b) >= 4 && old_b.len() - 1 < flen(old_b))),
        // a message: exactly the declared frame is consumed and the message is the decoding of that frame
        Ok(Some(m)) => ready(old_b) && new_b == old_b.subrange(1 + flen(old_b), old_b.len() as int) && match m {
            FrontendMessage::Query { query } => old_b[0] == 81u8 && cstr_ok(payload(old_b)) && query@ == payload(old_b).subrange(0, fz(payload(old_b))),
            FrontendMessage::Password { password } => old_b[0] == 112u8 && cstr_ok(payload(old_b)) && password@ == payload(old_b).subrange(0, fz(payload(old_b))),
            FrontendMessage::Terminate => old_b[0] == 88u8,
            _ => false,
        },
        // an error: malformed length (nothing consumed) or a complete but undecodable frame (exactly the frame consumed)
        Err(_) => old_b.len() >= 5 && (
            (flen(old_b) < 4 && new_b == old_b)
            || (ready(old_b) && new_b == old_b.subrange(1 + flen(old_b), old_b.len() as int)
                && (((old_b[0] == 81u8 || old_b[0] == 112u8) && !cstr_ok(payload(old_b))) || (old_b[0] != 81u8 && old_b[0] != 112u8 && old_b[0] != 88u8)))),
    }
}

spec fn startup_post(old_b: Seq<u8>, r: Result<Option<FrontendMessage>, ProtocolError>, new_b: Seq<u8>) -> bool {
    match r {
        Ok(None) => new_b == old_b && (old_b.len() < 4 || (slen(old_b) >= 8 && old_b.len() < slen(old_b))),
        Ok(Some(m)) => sready(old_b) && new_b == old_b.subrange(slen(old_b), old_b.len() as int) && match m {
            FrontendMessage::SSLRequest => be_i32(old_b.subrange(4, 8)) == 80877103,
            FrontendMessage::Startup { protocol_version, params } =>
                protocol_version as int == be_i32(old_b.subrange(4, 8)) && protocol_version != 80877103
                && parse_params(old_b.subrange(8, slen(old_b)), Map::empty()) == Some(params@),
            _ => false,
        },
        Err(_) => old_b.len() >= 4 && (
            (slen(old_b) < 8 && new_b == old_b)
            || (sready(old_b) && new_b == old_b.subrange(slen(old_b), old_b.len() as int)
                && be_i32(old_b.subrange(4, 8)) != 80877103
                && parse_params(old_b.subrange(8, slen(old_b)), Map::empty()) is None)),
    }
}

}
fn main() {}
'''

_F = 'crates/vibesql-server/src/protocol/messages.rs'
ITEMS = {
    'ProtocolError': dict(file=_F, path='enum ProtocolError', rewrites=[
        ('lit', 'io::Error', 'IoError', 1),
        ('re', r'\bString\b', 'Str', 1),
    ]),
    'FrontendMessage': dict(file=_F, path='enum FrontendMessage', rewrites=[
        ('lit', 'HashMap<String, String>', 'ParamMap', 1),
        ('re', r'\bString\b', 'Str', 2),
    ]),
    'read_cstring': dict(
        file=_F, path='fn read_cstring', ret='r',
        rewrites=[
            ('lit', 'Result<String, ProtocolError>', 'Result<Str, ProtocolError>', 1),
            ('lit', 'buf.iter().position(|&b| b == 0).ok_or(ProtocolError::InvalidString)?',
             'match buf.position_zero() { Some(p) => p, None => { proof { lemma_no_zero(buf@); } return Err(ProtocolError::InvalidString) } }', 1),
            ('lit', 'String::from_utf8(bytes.to_vec()).map_err(|_| ProtocolError::InvalidString)', 'str_from_utf8(bytes.to_vec())', 1),
        ],
        proofs=[('let bytes = buf.split_to(null_pos);', 'proof { lemma_fz(buf@, null_pos as int); }')],
        contract='''
    ensures
        match r {
            Ok(s) => cstr_ok(old(buf)@) && s@ == old(buf)@.subrange(0, fz(old(buf)@)) && final(buf)@ == old(buf)@.subrange(fz(old(buf)@) + 1, old(buf)@.len() as int),
            Err(_) => !cstr_ok(old(buf)@) && (final(buf)@ == old(buf)@ || (has_zero(old(buf)@) && final(buf)@ == old(buf)@.subrange(fz(old(buf)@) + 1, old(buf)@.len() as int))),
        },
''',
    ),
    'decode': dict(
        file=_F, path='impl FrontendMessage::fn decode', ret='r',
        rewrites=[
            ('re', r'\bbuf\[(\d)\]', r'buf.at(\1)', 5),
            ('lit', 'i32::from_be_bytes(', 'i32_from_be_bytes(', 1),
        ],
        proofs=[('let mut frame = buf.split_to(1 + len);',
                 'proof { assert(buf@.subrange(1, 5) =~= seq![buf@[1], buf@[2], buf@[3], buf@[4]]); }'),
                ('match msg_type {',
                 'proof { assert(frame@ =~= payload(old(buf)@)); }')],
        contract='''
    ensures decode_post(old(buf)@, r, final(buf)@),
''',
    ),
    'decode_startup': dict(
        file=_F, path='impl FrontendMessage::fn decode_startup', ret='r',
        rewrites=[
            ('re', r'\bbuf\[(\d)\]', r'buf.at(\1)', 4),
            ('lit', 'i32::from_be_bytes(', 'i32_from_be_bytes(', 1),
            ('lit', 'HashMap::new()', 'ParamMap::new()', 1),
        ],
        proofs=[('let mut frame = buf.split_to(len);',
                 'proof { assert(buf@.subrange(0, 4) =~= seq![buf@[0], buf@[1], buf@[2], buf@[3]]); }'),
                ('let protocol_version = frame.get_i32();',
                 'proof { assert(frame@.subrange(0, 4) =~= old(buf)@.subrange(4, 8)); }'),
                ('let mut params = ParamMap::new();',
                 'proof { assert(frame@ =~= old(buf)@.subrange(8, slen(old(buf)@))); }\nlet ghost frame0 = frame@;'),
                ],
        loops={0: '''
            invariant_except_break
                parse_params(frame@, params@) == parse_params(frame0, Map::empty()),
            invariant
                sready(old(buf)@), buf@ == old(buf)@.subrange(slen(old(buf)@), old(buf)@.len() as int),
                protocol_version as int == be_i32(old(buf)@.subrange(4, 8)), protocol_version != 80877103,
                frame0 == old(buf)@.subrange(8, slen(old(buf)@)),
            ensures
                parse_params(frame0, Map::empty()) == Some(params@),
            decreases frame@.len(),
'''},
        contract='''
    ensures startup_post(old(buf)@, r, final(buf)@),
''',
    ),
}

OBLIGATIONS = {
    'read_cstring': ['post:cstring_is_prefix_up_to_first_nul_and_consumed_exactly', 'safety:no_panic_no_overflow'],
    'decode': ['post:decode_post.frame_consumed_exactly.unchanged_when_incomplete.message_is_decoding_of_frame', 'safety:no_panic_no_overflow'],
    'decode_startup': ['post:startup_post.frame_consumed_exactly.params_parsed_inside_frame', 'safety:no_panic_no_overflow', 'proof:param_loop_invariant_and_termination'],
    'lemma_roundtrip_query': ['post:decode_of_encode_is_identity_and_rest_untouched'],
    'lemma_fz': ['post:first_zero_unique'],
    'lemma_be4': ['post:be_i32_inverse'],
}
CANARIES = ['canary_decode_post', 'canary_decode', 'canary_decode_startup']
TRUSTED = [
    'external_body BytesMut (len, at, advance, get_i32, split_to, position_zero, to_vec): documented semantics of the bytes crate, with its panics as preconditions',
    'external_body i32_from_be_bytes: i32::from_be_bytes is the big-endian two\'s-complement value',
    'external_body Str / str_from_utf8 / is_empty: std String as an opaque value with a byte view; String::from_utf8 succeeds iff the bytes are UTF-8',
    'external_body ParamMap (new, insert): HashMap<String,String> as an abstract map',
    'external_body IoError: opaque',
]
