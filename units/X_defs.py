NAME = 'X-defs'
PROPERTIES = ['C13']
ENGINE = 'verus'
CLASS = 'U'
DOC = ('Operations::{record_index_definitions, take_index_definitions, forget_index_definitions} (storage database/operations.rs), the index side of a transaction: BEGIN '
       'records the definitions of the registered B-tree indexes and keeps the spatial indexes WHOLE (definition and content) as they are; ROLLBACK takes the recorded '
       'definitions out (Database::rollback_transaction brings the registry back to them: unit K-undo) and puts the spatial indexes back exactly as they were at BEGIN; '
       'COMMIT forgets both and changes no index.')

TEMPLATE = r'''
use vstd::prelude::*;
verus! {

#[verifier::external_body] pub struct IndexMetadata { m: u8 }
// HashMap<String, (SpatialIndexMetadata, SpatialIndex)>
#[verifier::external_body] pub struct SpatialMap { s: u8 }
impl SpatialMap { #[verifier::external_body] pub fn clone(&self) -> (r: SpatialMap) ensures r == *self { unimplemented!() } }
#[verifier::external_body] pub struct IndexManager { i: u8 }
impl IndexManager {
    /// the definitions of the registered B-tree indexes (what list_indexes + get_index enumerate)
    pub uninterp spec fn definitions(&self) -> Seq<IndexMetadata>;
}
pub struct Operations {
    pub index_manager: IndexManager,
    pub spatial_indexes: SpatialMap,
    pub indexes_at_begin: Option<Vec<IndexMetadata>>,
    pub spatial_indexes_at_begin: Option<SpatialMap>,
}
impl Operations {
    // self.list_indexes().iter().filter_map(|name| self.get_index(name).cloned()).collect()
    #[verifier::external_body]
    fn current_definitions(&self) -> (r: Vec<IndexMetadata>) ensures r@ == self.index_manager.definitions() { unimplemented!() }

//@@ record_index_definitions

//@@ take_index_definitions

//@@ forget_index_definitions
}

fn canary_take(ops: &mut Operations)
{
    let r = ops.take_index_definitions();
    assert(false); // CANARY
}

}
fn main() {}
'''

_F = 'crates/vibesql-storage/src/database/operations.rs'
_RW = [('re', r'super::indexes::IndexMetadata', 'IndexMetadata', None)]
ITEMS = {
    'record_index_definitions': dict(file=_F, path='impl Operations::fn record_index_definitions', rewrites=_RW + [
        ('re', r'(?s)self\.list_indexes\(\)\.iter\(\)\.filter_map\(\|name\| self\.get_index\(name\)\.cloned\(\)\)\.collect\(\),?', 'self.current_definitions()', 1)],
        contract='''
        ensures
            // BEGIN: the definitions of exactly the registered B-tree indexes are recorded, the spatial indexes are kept whole as they are; no index changes
            final(self).indexes_at_begin matches Some(d) && d@ == old(self).index_manager.definitions(),
            final(self).spatial_indexes_at_begin == Some(old(self).spatial_indexes),
            final(self).spatial_indexes == old(self).spatial_indexes, final(self).index_manager == old(self).index_manager,
'''),
    'take_index_definitions': dict(file=_F, path='impl Operations::fn take_index_definitions', ret='res', rewrites=_RW, contract='''
        ensures
            // ROLLBACK: the recorded definitions are handed out (once), the spatial indexes are exactly those kept at BEGIN
            res == old(self).indexes_at_begin, final(self).indexes_at_begin is None, final(self).spatial_indexes_at_begin is None,
            final(self).spatial_indexes == (match old(self).spatial_indexes_at_begin { Some(s) => s, None => old(self).spatial_indexes }),
            final(self).index_manager == old(self).index_manager,
'''),
    'forget_index_definitions': dict(file=_F, path='impl Operations::fn forget_index_definitions', rewrites=_RW, contract='''
        ensures
            // COMMIT: nothing recorded is left, no index changes
            final(self).indexes_at_begin is None, final(self).spatial_indexes_at_begin is None,
            final(self).spatial_indexes == old(self).spatial_indexes, final(self).index_manager == old(self).index_manager,
'''),
}
OBLIGATIONS = {
    'record_index_definitions': ['post:records_the_registered_definitions_and_keeps_the_spatial_indexes_whole'],
    'take_index_definitions': ['post:hands_out_the_recorded_definitions_once_and_puts_the_spatial_indexes_back_as_at_begin'],
    'forget_index_definitions': ['post:forgets_both__no_index_changes'],
}
CANARIES = ['canary_take']
TRUSTED = [
    'external_body IndexMetadata, SpatialMap (HashMap<String, (SpatialIndexMetadata, SpatialIndex)>: clone is a copy - derive(Clone), ASSUMED to copy definition and content), IndexManager (definitions = what list_indexes + get_index enumerate), current_definitions (the iterator chain `list_indexes().iter().filter_map(|n| get_index(n).cloned()).collect()`: ASSUMED to list exactly the registry; unit K-undo states the same assumption as lists_registry)',
    'Operations reduced to the four fields these functions touch; Option::take by its vstd specification',
    'that Database::begin_transaction / commit_transaction / rollback_transaction call these at the right moments: unit K-undo',
]
