NAME = 'I-update'
PROPERTIES = ['C02', 'C15']
ENGINE = 'verus'
CLASS = 'U'
DOC = ('Database::update_indexes_for_update (storage database/core.rs), the call through which UPDATE (and INSERT .. ON DUPLICATE KEY UPDATE) maintain the CREATE INDEX '
       'indexes: the index layer is handed the old row and the row THE TABLE NOW STORES at that position (the table normalizes rows on update), at that position.')

TEMPLATE = r'''
use vstd::prelude::*;
verus! {

#[verifier::external_body] pub struct Row { r: u8 }
impl Row { #[verifier::external_body] pub fn clone(&self) -> (r: Row) ensures r == *self { unimplemented!() } }
#[verifier::external_body] pub struct Catalog { c: u8 }

#[verifier::external_body] pub struct Operations { o: u8 }
impl Operations {
    /// the update calls received so far: (old row, new row, position)   (what a call does to each index: unit I-maint)
    pub uninterp spec fn updates(&self) -> Seq<(Row, Row, usize)>;
    /// is there any user-defined or spatial index?
    pub uninterp spec fn any_index(&self) -> bool;
    #[verifier::external_body] pub fn has_indexes(&self) -> (r: bool) ensures r == self.any_index() { unimplemented!() }
    #[verifier::external_body]
    pub fn update_indexes_for_update(&mut self, catalog: &Catalog, table_name: &str, old_row: &Row, new_row: &Row, row_index: usize)
        ensures final(self).updates() == old(self).updates().push((*old_row, *new_row, row_index)) { unimplemented!() }
}
pub struct Database { pub operations: Operations, pub catalog: Catalog, pub t: u8 }
impl Database {
    /// the row the table `table_name` resolves to stores at position i (None: no such table / position)
    pub uninterp spec fn stored_at(&self, table_name: &str, i: usize) -> Option<Row>;
    // self.get_table(table_name).and_then(|table| table.scan().get(row_index).cloned())
    #[verifier::external_body]
    fn stored_row_at(&self, table_name: &str, i: usize) -> (r: Option<Row>) ensures r == self.stored_at(table_name, i) { unimplemented!() }

//@@ update_indexes_for_update
}

fn canary_upd(db: &mut Database, t: &str, o: &Row, n: &Row, i: usize)
{
    db.update_indexes_for_update(t, o, n, i);
    assert(false); // CANARY
}

}
fn main() {}
'''

ITEMS = {
    'update_indexes_for_update': dict(
        file='crates/vibesql-storage/src/database/core.rs', path='impl Database::fn update_indexes_for_update',
        rewrites=[('re', r'self\.get_table\(table_name\)\.and_then\(\|table\| table\.scan\(\)\.get\(row_index\)\.cloned\(\)\)', 'self.stored_row_at(table_name, row_index)', None)],
        contract='''
        ensures
            // nothing to maintain without any index ..
            !old(self).operations.any_index() ==> final(self).operations.updates() == old(self).operations.updates(),
            // .. otherwise the index layer gets the old row and the STORED row
            old(self).operations.any_index() ==> final(self).operations.updates() == old(self).operations.updates().push((*old_row,
                (match old(self).stored_at(table_name, row_index) { Some(s) => s, None => *new_row }), row_index)),
'''),
}

OBLIGATIONS = {
    'update_indexes_for_update': ['post:index_layer_receives_the_old_row_and_the_stored_row_at_that_position'],
}
CANARIES = ['canary_upd']
TRUSTED = [
    'external_body Operations::has_indexes (uninterpreted any_index: the index manager and the spatial index map are both empty), Operations::update_indexes_for_update (a ghost log of the calls; its per-index effect: unit I-maint), Database::stored_row_at (get_table(..).and_then(|t| t.scan().get(i).cloned()): uninterpreted stored_at), Row::clone; Row, Catalog, Operations opaque; Database reduced to the fields read',
    'that the executors call this AFTER Table::update_row (so that position i holds the new stored row) is outside this unit: UPDATE does (update/mod.rs), ON DUPLICATE KEY UPDATE does since fix 6956946f',
]
