import importlib.util as _ilu
import os as _os
_spec = _ilu.spec_from_file_location('_ast_common', _os.path.join(_os.path.dirname(_os.path.abspath(__file__)), '_ast_common.py'))
_ast = _ilu.module_from_spec(_spec)
_spec.loader.exec_module(_ast)

NAME = 'I-range'
PROPERTIES = ['C02', 'C06']
ENGINE = 'verus'
CLASS = 'U'
DOC = ('extract_range_predicate (recursive over the real Expression AST, every AND nesting depth) is SOUND: every non-NULL column value that makes the '
       'WHERE expression TRUE lies in the extracted range; it is EXACT on the leaf forms (col op literal, literal op col, BETWEEN); and whenever '
       'where_clause_fully_satisfied_by_index lets the executor SKIP the WHERE re-check, the extracted range selects exactly the TRUE set (lemma) - over ALL '
       'keys of the index, the NULL keys included (a range without a lower bound returns them, so the re-check is never skipped for one).')

TEMPLATE = r'''
#![feature(allocator_api)]
#![feature(sized_hierarchy)]
use vstd::prelude::*;
verus! {
''' + _ast.AST_PREAMBLE + r'''

//@@ RangePredicate

//@@ IndexPredicate

//@@ is_column_reference

// ---------------- semantics of a WHERE expression as a predicate on the (non-NULL) value v of column c -----------------
pub open spec fn is_col(e: Expression, c: &str) -> bool { e matches Expression::ColumnRef { column, .. } && str_is(column, c) }
pub open spec fn is_lit(e: Expression) -> bool { e is Literal }
pub open spec fn lit_nonnull(e: Expression) -> bool { e matches Expression::Literal(SqlValue::V(_)) }
pub open spec fn lit_val(e: Expression) -> Val { e->Literal_0->V_0 }
pub open spec fn is_cmp_op(op: BinaryOperator) -> bool {
    op is Equal || op is LessThan || op is LessThanOrEqual || op is GreaterThan || op is GreaterThanOrEqual
}
pub open spec fn range_op(op: BinaryOperator) -> bool { is_cmp_op(op) && !(op is Equal) }
pub open spec fn cmp_sem(op: BinaryOperator, a: Val, b: Val) -> bool {
    match op {
        BinaryOperator::Equal => a == b,
        BinaryOperator::LessThan => val_lt(a, b),
        BinaryOperator::LessThanOrEqual => val_le(a, b),
        BinaryOperator::GreaterThan => val_lt(b, a),
        BinaryOperator::GreaterThanOrEqual => val_le(b, a),
        _ => false,
    }
}
/// "column c <cmp> literal" / "literal <cmp> column c" with a non-NULL literal
pub open spec fn cmp_leaf(e: Expression, c: &str) -> bool {
    e matches Expression::BinaryOp { op, left, right } && is_cmp_op(op)
        && ((is_col(*left, c) && lit_nonnull(*right)) || (is_col(*right, c) && lit_nonnull(*left) && !is_col(*left, c)))
}
pub open spec fn is_range_binop(e: Expression) -> bool { e matches Expression::BinaryOp { op, .. } && range_op(op) }
pub open spec fn range_leaf(e: Expression, c: &str) -> bool { cmp_leaf(e, c) && range_op(e->BinaryOp_op) }
pub open spec fn between_leaf(e: Expression, c: &str) -> bool {
    e matches Expression::Between { expr, low, high, negated, symmetric } && !negated && !symmetric && is_col(*expr, c) && lit_nonnull(*low) && lit_nonnull(*high)
}
/// `c BETWEEN [SYMMETRIC] lit AND lit` (not negated, non-NULL literals): the BETWEEN nodes whose meaning on a non-NULL value is defined below
pub open spec fn between_any(e: Expression, c: &str) -> bool {
    e matches Expression::Between { expr, low, high, negated, symmetric } && !negated && is_col(*expr, c) && lit_nonnull(*low) && lit_nonnull(*high)
}
/// TRUE-set of e (Some(b): inside the modelled fragment - conjunctions of leaves; None: outside, nothing is claimed)
pub open spec fn holds(e: Expression, c: &str, v: Val) -> Option<bool>
    decreases e
{
    match e {
        Expression::BinaryOp { op: BinaryOperator::And, left, right } =>
            match (holds(*left, c, v), holds(*right, c, v)) { (Some(a), Some(b)) => Some(a && b), _ => None },
        Expression::BinaryOp { op, left, right } =>
            if !cmp_leaf(e, c) { None }
            else if is_col(*left, c) { Some(cmp_sem(op, v, lit_val(*right))) }
            else { Some(cmp_sem(op, lit_val(*left), v)) },
        Expression::Between { expr, low, high, negated, symmetric } =>
            // SQL: x BETWEEN SYMMETRIC a AND b  ==  (x BETWEEN a AND b) OR (x BETWEEN b AND a)   -- taken from the standard, not from the code
            if !between_any(e, c) { None }
            else if !symmetric { Some(val_le(lit_val(*low), v) && val_le(v, lit_val(*high))) }
            else { Some((val_le(lit_val(*low), v) && val_le(v, lit_val(*high))) || (val_le(lit_val(*high), v) && val_le(v, lit_val(*low)))) },
        _ => None,
    }
}
pub open spec fn bound_ok(b: Option<SqlValue>) -> bool { !(b matches Some(SqlValue::Null)) }
pub open spec fn in_range(r: RangePredicate, v: Val) -> bool {
    &&& (r.start matches Some(SqlValue::V(s)) ==> (if r.inclusive_start { val_le(s, v) } else { val_lt(s, v) }))
    &&& (r.end matches Some(SqlValue::V(e)) ==> (if r.inclusive_end { val_le(v, e) } else { val_lt(v, e) }))
}
/// the contract of extract_range_predicate, as a predicate (also the hypothesis of the skip-exactness lemma)
pub open spec fn extract_post(e: Expression, c: &str, r: Option<RangePredicate>) -> bool {
    // bounds are never NULL
    &&& (r matches Some(rp) ==> bound_ok(rp.start) && bound_ok(rp.end))
    // (S) soundness, for every nesting of AND
    &&& (r matches Some(rp) ==> forall|v: Val| holds(e, c, v) == Some(true) ==> in_range(rp, v))
    // (X) exactness on the leaf forms
    &&& ((cmp_leaf(e, c) || between_leaf(e, c)) ==> r is Some)
    &&& ((cmp_leaf(e, c) || between_leaf(e, c)) && r is Some ==> forall|v: Val| holds(e, c, v) is Some ==> (in_range(r.unwrap(), v) <==> holds(e, c, v) == Some(true)))
    &&& (range_leaf(e, c) && r is Some ==> (r.unwrap().start is Some) != (r.unwrap().end is Some))
    // (N) a comparison / BETWEEN that is not a recognised leaf yields nothing
    &&& ((e matches Expression::BinaryOp { op, .. } && is_cmp_op(op)) && r is Some ==> cmp_leaf(e, c))
    &&& (e is Between && r is Some ==> between_leaf(e, c))
    // (W) AND of two range leaves: if both bounds came out, the range is exactly the conjunction
    &&& ((e matches Expression::BinaryOp { op: BinaryOperator::And, left, right } && r is Some
            && is_range_binop(*left) && is_range_binop(*right)
            && r.unwrap().start is Some && r.unwrap().end is Some)
         ==> (range_leaf(*(e->BinaryOp_left), c) && range_leaf(*(e->BinaryOp_right), c)
              && forall|v: Val| in_range(r.unwrap(), v) ==> holds(e, c, v) == Some(true)))
}

//@@ extract_range_predicate

/// keys handed to the index are never NULL (a NULL key would match rows whose column IS NULL, for which no comparison / IN is TRUE)
pub open spec fn pred_keys_nonnull(p: IndexPredicate) -> bool {
    match p {
        IndexPredicate::Range(rp) => bound_ok(rp.start) && bound_ok(rp.end),
        IndexPredicate::In(vs) => forall|i: int| 0 <= i < vs@.len() ==> !(#[trigger] vs@[i] is Null),
    }
}

//@@ extract_index_predicate

// ---------------- when may the executor skip re-checking the WHERE clause? ---------------------------------------
/// what where_clause_fully_satisfied_by_index has checked when it answers `true` (shape of e and of the predicate)
pub open spec fn skip_shape(e: Expression, c: &str, p: IndexPredicate) -> bool {
    ||| (cmp_shape(e, c) && e->BinaryOp_op is Equal && (p matches IndexPredicate::Range(rp) && rp.start is Some && rp.end is Some && rp.inclusive_start && rp.inclusive_end))
    ||| (e matches Expression::Between { expr, negated, symmetric, .. } && !negated && !symmetric && is_col(*expr, c) && (p matches IndexPredicate::Range(rp) && rp.start is Some && rp.end is Some && rp.inclusive_start && rp.inclusive_end))
    ||| (cmp_shape(e, c) && range_op(e->BinaryOp_op) && (p matches IndexPredicate::Range(rp) && rp.start is Some))
    ||| (e matches Expression::BinaryOp { op: BinaryOperator::And, left, right } && is_range_binop(*left) && is_range_binop(*right)
            && (p matches IndexPredicate::Range(rp) && rp.start is Some && rp.end is Some))
    ||| (e is InList && p is In)
}
/// `col op <literal>` / `<literal> op col` (the literal may be NULL here: extraction then yields nothing)
pub open spec fn cmp_shape(e: Expression, c: &str) -> bool {
    e matches Expression::BinaryOp { op, left, right } && is_cmp_op(op) && ((is_col(*left, c) && is_lit(*right)) || (is_col(*right, c) && is_lit(*left)))
}

// Option<SqlValue> == Option<SqlValue> (SqlValue::eq, unit T-laws): result left uninterpreted - the skip shape does not rely on it
#[verifier::external_body]
fn opt_val_eq(a: &Option<SqlValue>, b: &Option<SqlValue>) -> (r: bool) { unimplemented!() }

//@@ where_clause_fully_satisfied_by_index

/// THE C02 clause: if the re-check is skipped for a range predicate that extraction produced for the same expression, then every
/// (non-NULL) key inside the range satisfies the WHERE expression - the index scan returns no row the filter would have dropped.
/// (Together with soundness (S): the scan returns exactly the TRUE set.)  Stated over the two contracts only.
proof fn lemma_skip_is_exact(e: Expression, c: &str, rp: RangePredicate)
    requires
        skip_shape(e, c, IndexPredicate::Range(rp)),
        extract_post(e, c, Some(rp)),
    ensures
        forall|v: Val| holds(e, c, v) is Some && in_range(rp, v) ==> holds(e, c, v) == Some(true),
{
    val_total_order();
    if e is BinaryOp && e->BinaryOp_op is And {
        assert(is_range_binop(*(e->BinaryOp_left)) && is_range_binop(*(e->BinaryOp_right)));
    } else if e is Between {
        assert(between_leaf(e, c));
    } else {
        assert(cmp_leaf(e, c));
    }
}

/// the keys an index holds include NULL: rows whose indexed cell IS NULL are indexed under [Null] (index_maintenance), and Null is the LEAST
/// key of SqlValue::Ord - a range scan with an unbounded start returns them whatever the end bound is; a bounded start excludes them
pub open spec fn key_in_range(r: RangePredicate, k: SqlValue) -> bool {
    match k { SqlValue::Null => r.start is None, SqlValue::V(v) => in_range(r, v) }
}
/// three-valued WHERE on the indexed cell: on a NULL cell every expression of the fragment (comparisons, BETWEEN, AND of those) is UNKNOWN or
/// FALSE, never TRUE (SQL: a comparison with a NULL operand is UNKNOWN; UNKNOWN AND x is not TRUE)   -- from the standard, not from the code
pub open spec fn where_true(e: Expression, c: &str, k: SqlValue) -> Option<bool> {
    match k {
        SqlValue::Null => if holds(e, c, arbitrary()) is Some { Some(false) } else { None },
        SqlValue::V(v) => holds(e, c, v),
    }
}
/// THE C02/C06 clause over ALL keys, NULL included: if the re-check is skipped, every key the range scan returns makes WHERE TRUE.
/// (`a < 5` has no lower bound, its scan returns the NULL keys: the re-check may not be skipped for it.)
proof fn lemma_skip_is_exact_all_keys(e: Expression, c: &str, rp: RangePredicate, k: SqlValue)
    requires
        skip_shape(e, c, IndexPredicate::Range(rp)),
        extract_post(e, c, Some(rp)),
        where_true(e, c, k) is Some,
        key_in_range(rp, k),
    ensures
        where_true(e, c, k) == Some(true),
{
    lemma_skip_is_exact(e, c, rp);
    assert(rp.start is Some);
}

fn canary_skip(where_expr: &Expression, indexed_column: &str, index_predicate: &Option<IndexPredicate>)
{
    let r = where_clause_fully_satisfied_by_index(where_expr, indexed_column, index_predicate);
    assert(false); // CANARY
}
proof fn canary_lemma(e: Expression, c: &str, rp: RangePredicate)
    requires skip_shape(e, c, IndexPredicate::Range(rp)), extract_post(e, c, Some(rp)),
{
    assert(false); // CANARY
}
proof fn canary_lemma_all_keys(e: Expression, c: &str, rp: RangePredicate, k: SqlValue)
    requires skip_shape(e, c, IndexPredicate::Range(rp)), extract_post(e, c, Some(rp)), where_true(e, c, k) is Some, key_in_range(rp, k),
{
    assert(false); // CANARY
}

fn canary_extract(expr: &Expression, column_name: &str)
{
    let r = extract_range_predicate(expr, column_name);
    assert(false); // CANARY
}

}
fn main() {}
'''

_P = 'crates/vibesql-executor/src/select/scan/index_scan/predicate.rs'
_AS_REF = ('re', r'\b(\w+)\.as_ref\(\)', r'&**\1', None)   # R3: Box::as_ref -> explicit deref (Box::as_ref has no spec in this Verus)
ITEMS = dict(_ast.AST_ITEMS)
ITEMS.update({
    'RangePredicate': dict(file=_P, path='struct RangePredicate'),
    'IndexPredicate': dict(file=_P, path='enum IndexPredicate'),
    'is_column_reference': dict(
        file='crates/vibesql-executor/src/select/scan/index_scan/selection.rs', path='fn is_column_reference', ret='r',
        rewrites=[('lit', 'column == column_name', 'str_eq(column, column_name)', 1)],
        contract='''
    ensures r == is_col(*expr, column_name),
'''),
    'extract_range_predicate': dict(
        file=_P, path='fn extract_range_predicate', ret='res', rewrites=[_AS_REF],
        proofs=[('@entry', 'proof { val_total_order(); }'),
                ('after:(Some(mut l), Some(r)) => {', 'let ghost l0 = l;'),
                ('return Some(l);', '''proof {
    assert(extract_post(**left, column_name, Some(l0)));
    assert(extract_post(**right, column_name, Some(r)));
    assert forall|v: Val| holds(*expr, column_name, v) == Some(true) implies in_range(l, v) by {
        assert(holds(**left, column_name, v) == Some(true) && holds(**right, column_name, v) == Some(true));
        assert(in_range(l0, v) && in_range(r, v));
    }
    if is_range_binop(**left) && is_range_binop(**right) && l.start is Some && l.end is Some {
        assert(range_leaf(**left, column_name) && range_leaf(**right, column_name));
        assert forall|v: Val| in_range(l, v) implies holds(*expr, column_name, v) == Some(true) by {
            assert(in_range(l0, v) && in_range(r, v));
            assert(holds(**left, column_name, v) is Some && holds(**right, column_name, v) is Some);
        }
    }
}''')],
        contract='''
    ensures extract_post(*expr, column_name, res),
    decreases expr,
'''),
})

ITEMS['where_clause_fully_satisfied_by_index'] = dict(
    file='crates/vibesql-executor/src/select/scan/index_scan/execution.rs', path='fn where_clause_fully_satisfied_by_index', ret='res',
    rewrites=[_AS_REF,
              ('refn', r'range\.start (==|!=) range\.end', lambda m: ('' if m.group(1) == '==' else '!') + 'opt_val_eq(&range.start, &range.end)', 1),
              ('re', r'let is_range_op = \|op: &BinaryOperator\| matches!\(op,((?:.|\n)*?)\);', r'let is_range_op = |op: &BinaryOperator| -> (b: bool) ensures b == range_op(*op) { matches!(op,\1) };', 1),
              ('re', r'use super::super::super::scan::index_scan::selection::is_column_reference;\s*use vibesql_ast::BinaryOperator;', '', 1)],
    contract='''
    ensures res ==> (index_predicate is Some && skip_shape(*where_expr, indexed_column, index_predicate.unwrap())),
''')

ITEMS['extract_index_predicate'] = dict(
    file=_P, path='fn extract_index_predicate', ret='res', rewrites=[_AS_REF,
        ('lit', 'for item in value_list {', 'for item in it: value_list {', 1)],
    loops={0: '''
                    invariant
                        true,
                        {{if_has:has_null}}!has_null ==> forall|i: int| 0 <= i < values@.len() ==> !(#[trigger] values@[i] is Null),{{end}}
'''},
    contract='''
    ensures res matches Some(p) ==> pred_keys_nonnull(p),
    decreases expr,
''')

OBLIGATIONS = {
    'extract_index_predicate': ['post:index_keys_never_null', 'safety:no_panic', 'proof:loop_invariant_and_termination'],
    'where_clause_fully_satisfied_by_index': ['post:true_only_for_the_checked_shapes', 'safety:no_panic'],
    'lemma_skip_is_exact': ['post:skipping_the_where_recheck_is_exact'],
    'lemma_skip_is_exact_all_keys': ['post:skipping_the_where_recheck_is_exact_for_null_keys_too'],
    'is_column_reference': ['post:is_named_column'],
    'extract_range_predicate': ['post:sound_for_every_and_nesting.exact_on_leaves.none_for_unrecognised.and_of_two_bounds_exact', 'safety:no_panic_unreachable_arms_unreachable', 'proof:termination_structural'],
}
CANARIES = ['canary_extract', 'canary_skip', 'canary_lemma', 'canary_lemma_all_keys']
TRUSTED = list(_ast.AST_TRUSTED) + [
    'R3: x.as_ref() on Box<Expression> rewritten to &**x',
    'external_body opt_val_eq: Option<SqlValue> equality in the Equal arm of where_clause_fully_satisfied_by_index, result uninterpreted (only strengthens the check)',
    'holds(): the reference semantics of the WHERE fragment (col op literal, literal op col, BETWEEN [SYMMETRIC], AND) on a non-NULL column value; everything else is outside the fragment (nothing claimed). BETWEEN SYMMETRIC is given its SQL meaning, so a range extracted from it must be sound for it and the WHERE re-check may not be skipped for it',
    'IndexData::range_scan (BTreeMap::range) implementing key_in_range on normalised keys (NULL keys returned exactly when the start is unbounded: Null is the least key) is not under contract (see I-kernels for the bound arithmetic)',
    'where_true on a NULL cell: Some(false) for every expression of the fragment (SQL three-valued logic), so the skip lemma also covers the rows whose indexed cell IS NULL',
]
