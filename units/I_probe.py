NAME = 'I-probe'
PROPERTIES = ['C10', 'C02']
ENGINE = 'verus'
CLASS = 'U'
DOC = ('IndexData::contains_key (storage database/indexes/point_lookup.rs), the membership test behind CREATE UNIQUE INDEX enforcement on INSERT and '
       'UPDATE: the probe key is normalized exactly like the stored keys (every numeric as Double), so a key given as it stands in the row finds '
       'its stored form; the in-memory answer is exact, the disk-backed one errs only towards "absent" on an I/O failure.')

TEMPLATE = r'''
use vstd::prelude::*;
verus! {

#[verifier::external_body] pub struct Val { v: u8 }
pub enum SqlValue { Null, V(Val) }
#[verifier::external_body] pub struct Opq { o: u8 }
pub type Key = Seq<SqlValue>;
/// normalize_for_comparison, per value (every numeric -> Double; proved order-preserving in unit I-kernels)
pub uninterp spec fn norm(v: SqlValue) -> SqlValue;
pub open spec fn norm_key(k: Key) -> Key { Seq::new(k.len(), |j: int| norm(k[j])) }
// key.iter().map(normalize_for_comparison).collect()
#[verifier::external_body]
fn normalize_key(key: &[SqlValue]) -> (r: Vec<SqlValue>) ensures r@ == norm_key(key@) { unimplemented!() }
#[verifier::external_body]
fn slice_to_vec(key: &[SqlValue]) -> (r: Vec<SqlValue>) ensures r@ == key@ { unimplemented!() }

// BTreeMap<Vec<SqlValue>, Vec<usize>>: only key membership is used here
#[verifier::external_body] pub struct KeyMap { m: u8 }
impl KeyMap {
    pub uninterp spec fn keys(&self) -> Set<Key>;
    #[verifier::external_body] pub fn contains_key(&self, k: &[SqlValue]) -> (r: bool) ensures r == self.keys().contains(k@) { unimplemented!() }
}
// Arc<Mutex<BTreeIndex>>: lock, then lookup (disk I/O may fail)
#[verifier::external_body] pub struct SharedTree { t: u8 }
#[verifier::external_body] pub struct TreeGuard { g: u8 }
impl SharedTree { pub uninterp spec fn keys(&self) -> Set<Key>; }
impl TreeGuard {
    pub uninterp spec fn keys(&self) -> Set<Key>;
    #[verifier::external_body] pub fn lookup(&self, k: &Vec<SqlValue>) -> (r: Result<Vec<usize>, Opq>)
        ensures r matches Ok(ids) ==> (ids@.len() > 0) == self.keys().contains(k@) { unimplemented!() }
}
#[verifier::external_body]
fn acquire_btree_lock(t: &SharedTree) -> (r: Result<TreeGuard, Opq>) ensures r matches Ok(g) ==> g.keys() == t.keys() { unimplemented!() }

pub enum IndexData { InMemory { data: KeyMap }, DiskBacked { btree: SharedTree, page_manager: Opq } }
impl IndexData {
    /// the (normalized) keys the index holds
    pub open spec fn stored(&self) -> Set<Key> { match self { IndexData::InMemory { data } => data.keys(), IndexData::DiskBacked { btree, .. } => btree.keys() } }

//@@ contains_key
}

fn canary_probe(ix: &IndexData, k: &[SqlValue])
{
    let r = ix.contains_key(k);
    assert(false); // CANARY
}

}
fn main() {}
'''

_F = 'crates/vibesql-storage/src/database/indexes/point_lookup.rs'
ITEMS = {
    'contains_key': dict(
        file=_F, path='impl IndexData::fn contains_key', ret='r',
        rewrites=[('re', r'key\.iter\(\)\.map\(normalize_for_comparison\)\.collect\(\)', 'normalize_key(key)', None),
                  ('re', r'log::warn!\((?:[^()]|\([^()]*\))*\);', '', None),
                  ('re', r'key\.to_vec\(\)', 'slice_to_vec(key)', None)],
        contract='''
        ensures
            // the probe is normalized like the stored keys: a key given as it stands in the row (Integer 5) finds its stored form (Double 5.0)
            r ==> self.stored().contains(norm_key(key@)),
            (self is InMemory) ==> r == self.stored().contains(norm_key(key@)),      // in memory the answer is exact; on disk an I/O error answers false
'''),
}

OBLIGATIONS = {
    'contains_key': ['post:probe_normalized_like_the_stored_keys__exact_in_memory'],
}
CANARIES = ['canary_probe']
TRUSTED = [
    'external_body Val / Opq opaque; SqlValue collapsed; norm = normalize_for_comparison as an uninterpreted function (its order preservation: Kani unit I-kernels); normalize_key / slice_to_vec: iterator map+collect / to_vec',
    'external_body KeyMap::contains_key (std BTreeMap), SharedTree / TreeGuard::lookup / acquire_btree_lock (Arc<Mutex<BTreeIndex>>: a lookup answers a non-empty id list iff the key is stored, or fails): assumed; log::warn! statements dropped',
    'that the STORED keys are the normalized keys of the rows (index maintenance, C15 region) and prefix-length truncation of the probe are not under contract',
]
