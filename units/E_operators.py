"""E-3vl / E-null / E-arith / E-cmp : scalar operator kernels of the expression evaluator (Kani, in place)."""
NAME = 'E-ops'
PROPERTIES = ['C01', 'C06', 'C24']
ENGINE = 'kani'
CLASS = 'C'
CRATE = 'vibesql-executor'
MODULE = 'evaluator::operators::verif_kani_ops'
UNWIND = 4
HARNESS_FILE = 'kani/executor/ops.rs'
DOC = 'Kleene AND/OR; NULL propagation and dispatch of eval_binary_op; exact-or-error integer arithmetic (never wraps, never panics); comparisons are the mathematical relation'
_O = 'crates/vibesql-executor/src/evaluator/operators/'
FUNCTIONS = [
    dict(file=_O + 'logical.rs', path='impl LogicalOps::fn and'),
    dict(file=_O + 'logical.rs', path='impl LogicalOps::fn or'),
    dict(file=_O + 'mod.rs', path='impl OperatorRegistry::fn eval_binary_op'),
    dict(file=_O + 'arithmetic/addition.rs', path='impl Addition::fn add'),
    dict(file=_O + 'arithmetic/subtraction.rs', path='impl Subtraction::fn subtract'),
    dict(file=_O + 'arithmetic/multiplication.rs', path='impl Multiplication::fn multiply'),
    dict(file=_O + 'arithmetic/modulo.rs', path='impl Modulo::fn modulo'),
    dict(file=_O + 'arithmetic/division.rs', path='impl Division::fn divide'),
    dict(file=_O + 'arithmetic/division.rs', path='impl Division::fn integer_divide'),
    dict(file=_O + 'arithmetic/mod.rs', path='fn coerce_numeric_values'),
    dict(file=_O + 'arithmetic/mod.rs', path='fn checked_integer_result'),
    dict(file=_O + 'comparison/mod.rs', path='fn compare'),
    dict(file='crates/vibesql-executor/src/evaluator/expressions/operators.rs', path='fn eval_unary_op'),
    dict(file='crates/vibesql-executor/src/evaluator/core.rs', path='fn eval_between_static'),
]
H = {}
_3VL = ['C01', 'C06']
H['e_3vl_and_or_truth_tables'] = dict(fn='LogicalOps::and/or', clause='kleene_truth_tables', props=_3VL)
for v in ['integer', 'double', 'smallint']:
    H['e_3vl_err_' + v] = dict(fn='LogicalOps::and/or', clause='non_boolean_operand_is_error[%s]' % v, props=_3VL)
for op in ['plus', 'minus', 'multiply', 'divide', 'integer_divide', 'modulo', 'equal', 'not_equal', 'less_than', 'less_than_or_equal',
           'greater_than', 'greater_than_or_equal', 'concat']:
    H['e_null_' + op] = dict(fn='eval_binary_op', clause='null_operand_yields_null[%s]' % op, props=_3VL)
H['e_null_and_or_not_short_circuited'] = dict(fn='eval_binary_op', clause='and_or_dispatch_kleene', props=_3VL)
_AR = ['C01', 'C24']
for h in ['add_int_int', 'add_big_small', 'add_big_big', 'sub_int_int', 'sub_small_big', 'sub_big_big']:
    H['e_arith_' + h] = dict(fn='eval_binary_op', clause='exact_or_error[%s]' % h, props=_AR)
H['e_arith_mul_int_int_b32'] = dict(fn='eval_binary_op', clause='exact_product[int*int,32-bit operands]', cls='B(32 bit)', props=_AR)
H['e_arith_mul_big_small_b32'] = dict(fn='eval_binary_op', clause='exact_product[big*small,32-bit operands]', cls='B(32 bit)', props=_AR)
H['e_arith_mul_never_wraps'] = dict(fn='eval_binary_op', clause='product_never_wraps_error_only_on_overflow[int*int]', props=_AR)
H['e_arith_mod_int_int_total'] = dict(fn='eval_binary_op', clause='mod_total_zero_divisor_null[int%int]', props=_AR)
H['e_arith_mod_big_small_total'] = dict(fn='eval_binary_op', clause='mod_total_zero_divisor_null[big%small]', props=_AR)
H['e_arith_mod_int_int_value_b16'] = dict(fn='eval_binary_op', clause='remainder_value[16-bit operands]', cls='B(16 bit)', props=_AR)
H['e_arith_div_by_zero'] = dict(fn='eval_binary_op', clause='div_by_zero_null_intdiv_by_zero_error', props=_AR)
H['e_arith_intdiv_exact_b8'] = dict(fn='eval_binary_op', clause='intdiv_truncated_quotient[8-bit operands]', cls='B(8 bit)', props=_AR)
_CM = ['C01', 'C06']
for h in ['int_int', 'int_small', 'big_int', 'small_big']:
    H['e_cmp_' + h] = dict(fn='eval_binary_op', clause='six_comparisons_are_the_mathematical_relation[%s]' % h, props=_CM)
H['e_cmp_double_double'] = dict(fn='eval_binary_op', clause='ieee_relation_boolean_result[double,double]', props=_CM)
H['e_cmp_int_double_consistent'] = dict(fn='eval_binary_op', clause='trichotomy_le_ne_consistent[int,double]', props=_CM)
H['e_unary_not_kleene_and_numeric'] = dict(fn='eval_unary_op', clause='not_is_kleene_and_true_iff_falsy_on_numbers', props=['C06', 'C01'])
H['e_unary_minus_exact_or_error'] = dict(fn='eval_unary_op', clause='minus_exact_or_error', props=['C24', 'C01'])
H['e_unary_plus_identity'] = dict(fn='eval_unary_op', clause='plus_identity', props=['C01'])
for _h in ['vvv', 'nvv', 'vnv', 'vvn', 'vnn', 'nnn']:
    H['e_between_' + _h] = dict(fn='eval_between_static', clause='between_is_ge_and_le_in_3vl_not_symmetric[null pattern %s]' % _h, props=['C01', 'C06'])
H['e_canary_must_fail'] = dict(fn='canary', clause='must_fail', canary=True)
HARNESSES = H
TRUSTED = [
    'kani::stub alloc::fmt::format -> empty String on error paths',
    'SqlMode::default() only (MySQL mode); date/interval/string arithmetic branches excluded (string based)',
    'approximate (float) arithmetic results are not second-guessed; only exact-numeric arithmetic is specified',
    'the expression walker that calls these kernels for every AST node is not under contract',
]
