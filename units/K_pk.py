NAME = 'K-pk'
PROPERTIES = ['C10']
ENGINE = 'verus'
CLASS = 'U'
DOC = ('INSERT constraint enforcement (insert/constraints.rs): enforce_primary_key_constraint, enforce_unique_constraints, enforce_check_constraints. '
       'Accepted rows do not repeat a PRIMARY KEY / NULL-free UNIQUE key of the batch or of a stored row (index lookup or scan fallback alike), '
       'NULL-holding UNIQUE keys never collide, CHECK rejects exactly FALSE (TRUE and UNKNOWN pass). The append-mode shortcut of the PRIMARY KEY '
       'check appears in the contract as the recorded exception KF-C10-append-mode-skip.')

TEMPLATE = r'''
use vstd::prelude::*;
verus! {

#[verifier::external_body] pub struct Val { v: u8 }
pub enum SqlValue { Null, Boolean(bool), V(Val) }
#[verifier::external_body] pub struct Opq { o: u8 }
#[verifier::external_body] pub struct Expression { e: u8 }
pub enum ExecutorError { ConstraintViolation(Opq), TableNotFound(Opq), Other(Opq) }
#[verifier::external_body] fn fmt_msg() -> (r: Opq) { unimplemented!() }
pub type Key = Seq<SqlValue>;

/// the key a row has under a list of column positions
pub open spec fn proj(vals: Seq<SqlValue>, idx: Seq<usize>) -> Key { Seq::new(idx.len(), |j: int| vals[idx[j] as int]) }
pub open spec fn key_has_null(k: Key) -> bool { exists|j: int| 0 <= j < k.len() && #[trigger] k[j] is Null }
// `idx.iter().map(|&i| row_values[i].clone()).collect()` (indexing panics out of range: precondition)
#[verifier::external_body]
fn project(vals: &[SqlValue], idx: &[usize]) -> (r: Vec<SqlValue>)
    requires forall|j: int| 0 <= j < idx@.len() ==> (#[trigger] idx@[j]) < vals@.len()
    ensures r@ == proj(vals@, idx@)
{ unimplemented!() }
pub struct Row { pub values: Vec<SqlValue> }
impl Row { #[verifier::external_body] pub fn new(values: Vec<SqlValue>) -> (r: Row) ensures r.values@ == values@ { unimplemented!() } }
/// `idx.iter().filter_map(|&i| row.get(i).cloned()).collect()`: positions outside the row are dropped
pub uninterp spec fn proj_row(row: Row, idx: Seq<usize>) -> Key;
#[verifier::external_body]
fn project_row(row: &Row, idx: &[usize]) -> (r: Vec<SqlValue>)
    ensures r@ == proj_row(*row, idx@), (forall|j: int| 0 <= j < idx@.len() ==> (#[trigger] idx@[j]) < row.values@.len()) ==> r@ == proj(row.values@, idx@)
{ unimplemented!() }
#[verifier::external_body] fn has_null(k: &Vec<SqlValue>) -> (r: bool) ensures r == key_has_null(k@) { unimplemented!() }
#[verifier::external_body] fn key_eq(a: &Vec<SqlValue>, b: &Vec<SqlValue>) -> (r: bool) ensures r == (a@ == b@) { unimplemented!() }
pub open spec fn batch_has(batch: Seq<Vec<SqlValue>>, k: Key) -> bool { exists|i: int| 0 <= i < batch.len() && (#[trigger] batch[i])@ == k }
#[verifier::external_body] fn batch_contains(batch: &[Vec<SqlValue>], k: &Vec<SqlValue>) -> (r: bool) ensures r == batch_has(batch@, k@) { unimplemented!() }
#[verifier::external_body] fn to_vec(v: &[SqlValue]) -> (r: Vec<SqlValue>) ensures r@ == v@ { unimplemented!() }
#[verifier::external_body] fn is_bool(v: &SqlValue, b: bool) -> (r: bool) ensures r == (*v == SqlValue::Boolean(b)) { unimplemented!() }

// ---------------- catalog / storage interfaces ------------------------------------------------------------------------------
pub struct TableSchema { pub check_constraints: Vec<(Opq, Expression)>, pub o: Opq }
impl TableSchema {
    pub uninterp spec fn pk(&self) -> Option<Seq<usize>>;
    pub uninterp spec fn uniques(&self) -> Seq<Seq<usize>>;
    pub uninterp spec fn ncols(&self) -> usize;
    /// column positions named by the constraints exist
    pub open spec fn wf(&self) -> bool {
        (self.pk() matches Some(p) ==> forall|j: int| 0 <= j < p.len() ==> (#[trigger] p[j]) < self.ncols())
        && forall|c: int, j: int| 0 <= c < self.uniques().len() && 0 <= j < self.uniques()[c].len() ==> (#[trigger] self.uniques()[c][j]) < self.ncols()
    }
    #[verifier::external_body]
    pub fn get_primary_key_indices(&self) -> (r: Option<Vec<usize>>) ensures (r is Some) == (self.pk() is Some), r is Some ==> r.unwrap()@ == self.pk().unwrap() { unimplemented!() }
    #[verifier::external_body]
    pub fn get_unique_constraint_indices(&self) -> (r: Vec<Vec<usize>>)
        ensures r@.len() == self.uniques().len(), forall|c: int| 0 <= c < r@.len() ==> (#[trigger] r@[c])@ == self.uniques()[c]
    { unimplemented!() }
}
// HashMap<Vec<SqlValue>, usize>: only key membership is used here
#[verifier::external_body] pub struct KeyIndex { i: u8 }
impl KeyIndex {
    pub uninterp spec fn keys(&self) -> Set<Key>;
    #[verifier::external_body] pub fn contains_key(&self, k: &Vec<SqlValue>) -> (r: bool) ensures r == self.keys().contains(k@) { unimplemented!() }
}
#[verifier::external_body] pub struct Table { t: u8 }
impl Table {
    pub uninterp spec fn rows(&self) -> Seq<Row>;
    pub uninterp spec fn append_mode(&self) -> bool;
    pub uninterp spec fn pk_index(&self) -> Option<KeyIndex>;
    pub uninterp spec fn u_indexes(&self) -> Seq<KeyIndex>;
    #[verifier::external_body] pub fn scan(&self) -> (r: &[Row]) ensures r@ == self.rows() { unimplemented!() }
    #[verifier::external_body] pub fn is_in_append_mode(&self) -> (r: bool) ensures r == self.append_mode() { unimplemented!() }
    #[verifier::external_body] pub fn primary_key_index(&self) -> (r: Option<&KeyIndex>)
        ensures (r is Some) == (self.pk_index() is Some), r is Some ==> *r.unwrap() == self.pk_index().unwrap() { unimplemented!() }
    #[verifier::external_body] pub fn unique_indexes(&self) -> (r: &[KeyIndex]) ensures r@ == self.u_indexes() { unimplemented!() }
}
pub struct Database { pub o: Opq }
impl Database {
    pub uninterp spec fn table(&self, name: &str) -> Option<Table>;
    #[verifier::external_body] pub fn get_table(&self, name: &str) -> (r: Option<&Table>)
        ensures (r is Some) == (self.table(name) is Some), r is Some ==> *r.unwrap() == self.table(name).unwrap() { unimplemented!() }
}
// db.get_table(name).ok_or_else(|| ExecutorError::TableNotFound(name.to_string()))
#[verifier::external_body]
fn table_or_err<'a>(t: Option<&'a Table>) -> (r: Result<&'a Table, ExecutorError>)
    ensures t is Some ==> r == Ok::<&Table, ExecutorError>(t.unwrap()), t is None ==> r is Err
{ unimplemented!() }
pub struct ExpressionEvaluator { pub o: Opq }
pub uninterp spec fn check_value(s: &TableSchema, e: Expression, vals: Seq<SqlValue>) -> Result<SqlValue, ExecutorError>;
impl ExpressionEvaluator {
    #[verifier::external_body] pub fn new(s: &TableSchema) -> (r: ExpressionEvaluator) ensures r.bound_to(s) { unimplemented!() }
    pub uninterp spec fn bound_to(&self, s: &TableSchema) -> bool;
    #[verifier::external_body] pub fn eval(&self, e: &Expression, row: &Row) -> (r: Result<SqlValue, ExecutorError>)
        ensures forall|s: &TableSchema| self.bound_to(s) ==> r == #[trigger] check_value(s, *e, row.values@) { unimplemented!() }
}

// ---------------- what "the key is already in the table" means ---------------------------------------------------------------
/// some stored row has this key under the given positions
pub open spec fn table_has_key(t: Table, idx: Seq<usize>, k: Key) -> bool {
    exists|i: int| 0 <= i < t.rows().len() && proj_row(#[trigger] t.rows()[i], idx) == k
}
/// ASSUMED link between the hash indexes and the rows (unit K-table keeps it at Table level; IndexManager itself is not verified):
/// the primary-key index holds exactly the keys of the stored rows; unique index c holds exactly the NULL-free keys
pub open spec fn indexes_mirror(t: Table, s: &TableSchema) -> bool {
    (t.pk_index() matches Some(ix) ==> s.pk() is Some && forall|k: Key| ix.keys().contains(k) == table_has_key(t, s.pk().unwrap(), k))
    && forall|c: int| 0 <= c < t.u_indexes().len() && c < s.uniques().len() ==>
        forall|k: Key| !key_has_null(k) ==> ((#[trigger] t.u_indexes()[c]).keys().contains(k) == table_has_key(t, s.uniques()[c], k))
}

//@@ enforce_primary_key_constraint

//@@ enforce_unique_constraints

//@@ enforce_check_constraints

fn canary_pk(db: &Database, schema: &TableSchema, t: &str, vals: &[SqlValue], batch: &[Vec<SqlValue>])
    requires schema.wf(), vals@.len() == schema.ncols(), db.table(t) matches Some(tb) ==> indexes_mirror(tb, schema)
{
    let r = enforce_primary_key_constraint(db, schema, t, vals, batch);
    assert(false); // CANARY
}
fn canary_unique(db: &Database, schema: &TableSchema, t: &str, vals: &[SqlValue], batch: &[Vec<Vec<SqlValue>>])
    requires schema.wf(), vals@.len() == schema.ncols(), batch@.len() == schema.uniques().len(), db.table(t) matches Some(tb) ==> indexes_mirror(tb, schema)
{
    let r = enforce_unique_constraints(db, schema, t, vals, batch);
    assert(false); // CANARY
}

}
fn main() {}
'''

_F = 'crates/vibesql-executor/src/insert/constraints.rs'
def _bool_test(m):
    """`result == / != SqlValue::Boolean(b)` -> [!]is_bool(&result, b)  (SqlValue has no PartialEq in the verified text)"""
    return ('' if m.group(1) == '==' else '!') + 'is_bool(&result, %s)' % m.group(2)


_RW = [
    ('re', r'vibesql_storage::Database', 'Database', None), ('re', r'vibesql_catalog::TableSchema', 'TableSchema', None),
    ('re', r'vibesql_types::SqlValue', 'SqlValue', None), ('re', r'vibesql_storage::Row', 'Row', None),
    ('re', r'crate::evaluator::ExpressionEvaluator', 'ExpressionEvaluator', None),
    ('re', r'format!\((?:[^()]|\([^()]*\))*\)', 'fmt_msg()', None),
    # column-name lists that only feed the error message
    ('re', r'let (?:pk_col_names|unique_col_names): Vec<String> =\s*schema\.(?:primary_key\.as_ref\(\)\.unwrap\(\)|unique_constraints\[constraint_idx\])\.clone\(\);\s*', '', None),
    # R4 shapes: key projections, membership tests
    ('re', r'let (\w+): Vec<SqlValue> =\s*(\w+)\.iter\(\)\.map\(\|&idx\| row_values\[idx\]\.clone\(\)\)\.collect\(\);', r'let \1: Vec<SqlValue> = project(row_values, \2.as_slice());', None),
    ('re', r'let (\w+): Vec<SqlValue> =\s*(\w+)\s*\.iter\(\)\s*\.filter_map\(\|&idx\| existing_row\.get\(idx\)\.cloned\(\)\)\s*\.collect\(\);', r'let \1: Vec<SqlValue> = project_row(existing_row, \2.as_slice());', None),
    ('re', r'(\w+)\.contains\(&SqlValue::Null\)', r'has_null(&\1)', None),
    ('re', r'batch_pk_values\.contains\(&new_pk_values\)', 'batch_contains(batch_pk_values, &new_pk_values)', None),
    ('re', r'batch_unique_values\[constraint_idx\]\.contains\(&new_unique_values\)', 'batch_contains(batch_unique_values[constraint_idx].as_slice(), &new_unique_values)', None),
    ('re', r'db\s*\.get_table\(table_name\)\s*\.ok_or_else\(\|\| ExecutorError::TableNotFound\(table_name\.to_string\(\)\)\)\?', 'table_or_err(db.get_table(table_name))?', None),
    ('re', r'new_(pk|unique)_values == existing_\1_values', r'key_eq(&new_\1_values, &existing_\1_values)', None),
    # R10 (slice forms)
    ('re', r'for \(constraint_idx, unique_indices\) in unique_constraint_indices\.iter\(\)\.enumerate\(\) \{', 'let mut ci__: usize = 0; while ci__ < unique_constraint_indices.len() { let unique_indices = &unique_constraint_indices[ci__]; let constraint_idx = ci__; ci__ = ci__ + 1;', None),
    ('re', r'for existing_row in table\.scan\(\) \{', 'let rows__ = table.scan(); let mut xi__: usize = 0; while xi__ < rows__.len() { let existing_row = &rows__[xi__]; xi__ = xi__ + 1;', None),
    ('re', r'!schema\.check_constraints\.is_empty\(\)', 'schema.check_constraints.len() != 0', None),
    ('re', r'row_values\.to_vec\(\)', 'to_vec(row_values)', None),
    ('re', r'for \(constraint_name, check_expr\) in &schema\.check_constraints \{', 'let mut ki__: usize = 0; while ki__ < schema.check_constraints.len() { let check_expr = &schema.check_constraints[ki__].1; ki__ = ki__ + 1;', None),
    ('refn', r'result (==|!=) SqlValue::Boolean\((true|false)\)', _bool_test, None),
]
_PK_SCAN = '''
                invariant xi__ <= rows__@.len(), rows__@ == table.rows(), pk_indices@ == schema.pk().unwrap(),
                    forall|i: int| 0 <= i < xi__ ==> proj_row(#[trigger] table.rows()[i], pk_indices@) != new_pk_values@,
                decreases rows__@.len() - xi__,
'''
_UN_OUTER = '''
        invariant
            ci__ <= unique_constraint_indices@.len(), unique_constraint_indices@.len() == schema.uniques().len(),
            forall|c: int| 0 <= c < unique_constraint_indices@.len() ==> (#[trigger] unique_constraint_indices@[c])@ == schema.uniques()[c],
            schema.wf(), row_values@.len() == schema.ncols(), batch_unique_values@.len() == schema.uniques().len(),
            db.table(table_name) matches Some(t) ==> indexes_mirror(t, schema),
            forall|c: int| 0 <= c < ci__ && !key_has_null(proj(row_values@, #[trigger] schema.uniques()[c])) ==> ({
                let k = proj(row_values@, schema.uniques()[c]);
                &&& !batch_has(batch_unique_values@[c]@, k)
                &&& db.table(table_name) is Some
                &&& !table_has_key(db.table(table_name).unwrap(), schema.uniques()[c], k)
            }),
        decreases unique_constraint_indices@.len() - ci__,
'''
_UN_SCAN = '''
                invariant xi__ <= rows__@.len(), rows__@ == table.rows(), unique_indices@ == schema.uniques()[constraint_idx as int], !key_has_null(new_unique_values@),
                    forall|i: int| 0 <= i < xi__ ==> proj_row(#[trigger] table.rows()[i], unique_indices@) != new_unique_values@,
                decreases rows__@.len() - xi__,
'''
_CK = '''
            invariant ki__ <= schema.check_constraints@.len(), evaluator.bound_to(schema), row.values@ == row_values@,
                forall|i: int| 0 <= i < ki__ ==> #[trigger] check_value(schema, schema.check_constraints@[i].1, row_values@) is Ok
                    && check_value(schema, schema.check_constraints@[i].1, row_values@)->Ok_0 != SqlValue::Boolean(false),
            decreases schema.check_constraints@.len() - ki__,
'''

ITEMS = {
    'enforce_primary_key_constraint': dict(file=_F, path='fn enforce_primary_key_constraint', ret='res', rewrites=_RW, loops={0: _PK_SCAN},
        contract='''
    requires schema.wf(), row_values@.len() == schema.ncols(),
             db.table(table_name) matches Some(t) ==> indexes_mirror(t, schema)
    ensures
        // accepted => no row of the batch and no stored row has the new row's primary key - EXCEPT through the append-mode shortcut,
        // which skips the lookup (recorded finding KF-C10-append-mode-skip: unit K-append shows the tracker does not justify it)
        (res is Ok && schema.pk() is Some) ==> ({
            let k = proj(row_values@, schema.pk().unwrap());
            &&& !batch_has(batch_pk_values@, k)
            &&& db.table(table_name) is Some
            &&& (db.table(table_name).unwrap().append_mode() || !table_has_key(db.table(table_name).unwrap(), schema.pk().unwrap(), k))
        }),
'''),
    'enforce_unique_constraints': dict(file=_F, path='fn enforce_unique_constraints', ret='res', rewrites=_RW, loops={0: _UN_OUTER, 1: _UN_SCAN},
        contract='''
    requires schema.wf(), row_values@.len() == schema.ncols(), batch_unique_values@.len() == schema.uniques().len(),
             db.table(table_name) matches Some(t) ==> indexes_mirror(t, schema)
    ensures
        // accepted => for every UNIQUE constraint whose key in the new row has no NULL (NULLs never collide): no batch row and no stored row has that key
        res is Ok ==> forall|c: int| 0 <= c < schema.uniques().len() && !key_has_null(proj(row_values@, #[trigger] schema.uniques()[c])) ==> ({
            let k = proj(row_values@, schema.uniques()[c]);
            &&& !batch_has(batch_unique_values@[c]@, k)
            &&& db.table(table_name) is Some
            &&& !table_has_key(db.table(table_name).unwrap(), schema.uniques()[c], k)
        }),
'''),
    'enforce_check_constraints': dict(file=_F, path='fn enforce_check_constraints', ret='res', rewrites=_RW, loops={0: _CK},
        proofs=[('@loop0', 'proof { let cv = check_value(schema, schema.check_constraints@[ki__ as int].1, row_values@); assert(cv is Ok || cv is Err); }')],
        contract='''
    ensures
        // accepted => no CHECK expression is FALSE on the row (TRUE and UNKNOWN pass); rejected => one is FALSE or failed to evaluate
        res is Ok ==> forall|i: int| 0 <= i < schema.check_constraints@.len() ==> #[trigger] check_value(schema, schema.check_constraints@[i].1, row_values@) is Ok
                        && check_value(schema, schema.check_constraints@[i].1, row_values@)->Ok_0 != SqlValue::Boolean(false),
        res is Err ==> exists|i: int| 0 <= i < schema.check_constraints@.len() && (#[trigger] check_value(schema, schema.check_constraints@[i].1, row_values@) is Err
                        || check_value(schema, schema.check_constraints@[i].1, row_values@) == Ok::<SqlValue, ExecutorError>(SqlValue::Boolean(false))),
'''),
}

OBLIGATIONS = {
    'enforce_primary_key_constraint': ['post:accepted_row_repeats_no_primary_key_of_batch_or_table__except_append_mode_shortcut', 'safety:index_in_bounds', 'proof:loop_invariant'],
    'enforce_unique_constraints': ['post:accepted_row_repeats_no_null_free_unique_key_of_batch_or_table', 'safety:index_in_bounds', 'proof:loop_invariants'],
    'enforce_check_constraints': ['post:rejects_exactly_false__true_and_unknown_pass', 'proof:loop_invariant'],
}
CANARIES = ['canary_pk', 'canary_unique']
TRUSTED = [
    'external_body Val / Opq / Expression: opaque; SqlValue collapsed to Null | Boolean | V(payload); ExecutorError reduced to three variants; fmt_msg: format!(..) of the error text (the column-name lists feeding it are dropped)',
    'external_body project / project_row / has_null / key_eq / batch_contains / to_vec / is_bool: the iterator / slice / equality shapes of the file (R4); key equality is STRUCTURAL equality of the value vectors (Eq of SqlValue: unit T-laws, C21)',
    'external_body TableSchema (get_primary_key_indices, get_unique_constraint_indices), KeyIndex::contains_key, Table (scan, is_in_append_mode, primary_key_index, unique_indexes), Database::get_table, table_or_err, ExpressionEvaluator (new, eval: an uninterpreted deterministic function of schema, expression and row values), Row::new',
    'precondition wf / row width: the constraint column positions exist in the row (RowValidator has checked the column count); precondition batch_unique_values has one list per constraint',
    'precondition indexes_mirror (ASSUMED): the primary-key index holds exactly the keys of the stored rows, each unique index exactly the NULL-free keys (Table-level protocol: unit K-table; IndexManager itself not verified)',
    'the append-mode disjunct in the PRIMARY KEY contract is the recorded finding KF-C10-append-mode-skip, not a guarantee',
    'enforce_unique_indexes (CREATE UNIQUE INDEX), RowValidator::validate (NOT NULL, column count, types), the UPDATE-side ConstraintValidator and REPLACE are not under contract',
]
