import importlib.util as _ilu
import os as _os
import re as _re
_spec = _ilu.spec_from_file_location('_ast_common', _os.path.join(_os.path.dirname(_os.path.abspath(__file__)), '_ast_common.py'))
_ast = _ilu.module_from_spec(_spec)
_spec.loader.exec_module(_ast)

NAME = 'A-plan'
PROPERTIES = ['C03', 'C07']
ENGINE = 'verus'
CLASS = 'U'
DOC = ('extract_aggregates (select/columnar/aggregate.rs): the PLANNING of a select list for the columnar pipeline preserves the meaning of every '
       'aggregate - the function name denotes its SQL aggregate (case-insensitive), COUNT(*) / COUNT() is the row count, COUNT(col) and every other '
       'aggregate range over the named column or expression, DISTINCT and multi-argument forms are refused - where "meaning of a spec" is what '
       'compute_columnar_aggregate / compute_expression_aggregate give it (unit A-col): a Column source with COUNT counts ROWS.')

TEMPLATE = r'''
#![feature(allocator_api)]
#![feature(sized_hierarchy)]
use vstd::prelude::*;
verus! {
''' + _ast.AST_PREAMBLE + r'''
impl Expression {
    #[verifier::external_body] pub fn clone(&self) -> (r: Expression) ensures r == *self { unimplemented!() }
}
pub uninterp spec fn upper(s: Str) -> Str;
impl Str {
    #[verifier::external_body] pub fn to_uppercase(&self) -> (r: Str) ensures r == upper(*self) { unimplemented!() }
}
#[verifier::external_body] pub struct CombinedSchema { s: u8 }
impl CombinedSchema {
    pub uninterp spec fn col(&self, table: Option<Str>, column: Str) -> Option<usize>;
    #[verifier::external_body]
    pub fn get_column_index(&self, table: &Option<Str>, column: &Str) -> (r: Option<usize>) ensures r == self.col(*table, *column) { unimplemented!() }
}
//@@ AggregateOp

//@@ AggregateSource

//@@ AggregateSpec

/// SQL: the aggregate a function name denotes (case-insensitive)
pub open spec fn op_of_name(name: Str) -> Option<AggregateOp> {
    if str_is(upper(name), "SUM") { Some(AggregateOp::Sum) } else if str_is(upper(name), "COUNT") { Some(AggregateOp::Count) }
    else if str_is(upper(name), "AVG") { Some(AggregateOp::Avg) } else if str_is(upper(name), "MIN") { Some(AggregateOp::Min) }
    else if str_is(upper(name), "MAX") { Some(AggregateOp::Max) } else { None }
}
pub open spec fn is_star(e: Expression) -> bool { e is Wildcard || (e matches Expression::ColumnRef { column, .. } && str_is(column, "*")) }
/// what an aggregate means: COUNT(*) counts rows; every other aggregate ranges over a column's or an expression's non-NULL values
pub enum AggSem { CountStar, OverColumn(AggregateOp, usize), OverExpr(AggregateOp, Expression) }
/// the meaning of a select-list item (None: not a plain, non-DISTINCT, one-argument aggregate)
pub open spec fn sql_meaning(e: Expression, s: &CombinedSchema) -> Option<AggSem> {
    match e {
        Expression::AggregateFunction { name, distinct, args } =>
            if distinct || op_of_name(name) is None { None } else {
                let op = op_of_name(name).unwrap();
                if op == AggregateOp::Count && (args@.len() == 0 || (args@.len() == 1 && is_star(args@[0]))) { Some(AggSem::CountStar) }
                else if args@.len() != 1 { None }
                else { match args@[0] {
                    Expression::ColumnRef { table, column } => match s.col(table, column) { Some(idx) => Some(AggSem::OverColumn(op, idx)), None => None },
                    other => Some(AggSem::OverExpr(op, other)),
                } }
            },
        _ => None,
    }
}
/// the meaning the columnar pipeline gives a spec: a Column source with COUNT is COUNT(*) (compute_columnar_aggregate), every other
/// Column source ranges over that column; an Expression source ranges over the expression's non-NULL values (compute_expression_aggregate)
pub open spec fn spec_meaning(a: AggregateSpec, s: &CombinedSchema) -> Option<AggSem> {
    match a.source {
        AggregateSource::Column(c) => if a.op == AggregateOp::Count { Some(AggSem::CountStar) } else { Some(AggSem::OverColumn(a.op, c)) },
        AggregateSource::Expression(e) => match e {
            Expression::ColumnRef { table, column } => match s.col(table, column) { Some(idx) => Some(AggSem::OverColumn(a.op, idx)), None => None },
            other => Some(AggSem::OverExpr(a.op, other)),
        },
    }
}


// ---------------- eval_simple_expr: the per-row value of an aggregate's argument ---------------------------------------------
#[verifier::external_body] pub struct ExecutorError { e: u8 }
#[verifier::external_body] pub struct SqlMode { m: u8 }
pub struct Row { pub values: Vec<SqlValue> }
pub open spec fn cell_or_null(row: Row, idx: usize) -> SqlValue { if idx < row.values@.len() { row.values@[idx as int] } else { SqlValue::Null } }
// row.get(idx).cloned().unwrap_or(SqlValue::Null)
#[verifier::external_body]
fn row_get_or_null(row: &Row, idx: usize) -> (r: SqlValue) ensures r == cell_or_null(*row, idx) { unimplemented!() }
// schema.get_column_index(..).ok_or_else(|| ExecutorError::UnsupportedExpression(format!("Column not found: {}", column)))
#[verifier::external_body]
fn col_or_err(c: Option<usize>) -> (r: Result<usize, ExecutorError>) ensures c is Some ==> r == Ok::<usize, ExecutorError>(c.unwrap()), c is None ==> r is Err { unimplemented!() }
#[verifier::external_body] fn unsupported() -> (r: ExecutorError) { unimplemented!() }
pub uninterp spec fn binop_spec(l: SqlValue, op: BinaryOperator, r: SqlValue) -> Result<SqlValue, ExecutorError>;
pub struct OperatorRegistry { pub o: u8 }
impl OperatorRegistry {
    // the scalar operators (decision tables: unit E-ops), default SQL mode
    #[verifier::external_body]
    pub fn eval_binary_op(l: &SqlValue, op: &BinaryOperator, r: &SqlValue, mode: SqlMode) -> (res: Result<SqlValue, ExecutorError>) ensures res == binop_spec(*l, *op, *r) { unimplemented!() }
}
#[verifier::external_body] fn default_mode() -> (r: SqlMode) { unimplemented!() }
/// the value of a simple expression on a row: a column reads its cell (NULL when the row is too short), a literal is itself, arithmetic goes through the operator registry
pub open spec fn simple_value(e: Expression, row: Row, s: &CombinedSchema) -> Result<SqlValue, ExecutorError>
    decreases e
{
    match e {
        Expression::ColumnRef { table, column } => match s.col(table, column) { Some(idx) => Ok(cell_or_null(row, idx)), None => Err(arbitrary()) },
        Expression::Literal(v) => Ok(v),
        Expression::BinaryOp { left, op, right } => match (simple_value(*left, row, s), simple_value(*right, row, s)) {
            (Ok(l), Ok(r)) => binop_spec(l, op, r),
            _ => Err(arbitrary()),
        },
        _ => Err(arbitrary()),
    }
}

//@@ eval_simple_expr

//@@ extract_aggregates

//@@ is_simple_arithmetic_expr

fn canary_plan(exprs: &[Expression], schema: &CombinedSchema)
{
    let r = extract_aggregates(exprs, schema);
    assert(false); // CANARY
}

}
fn main() {}
'''

_F = 'crates/vibesql-executor/src/select/columnar/aggregate.rs'


def _name_match(m):
    """`match name.to_uppercase().as_str() { "LIT" => AggregateOp::X, .. _ => return None }` -> the same table as an if-chain over str_eq
    (this Verus has no str patterns); the arms are taken from the source, so a changed arm changes the verified text"""
    arms = _re.findall(r'"(\w+)" => AggregateOp::(\w+),', m.group(0))
    chain = ''.join('if str_eq(&upper__, "%s") { AggregateOp::%s } else ' % (lit, op) for lit, op in arms)
    return 'let upper__ = name.to_uppercase(); let op = ' + chain + '{ return None };'


ITEMS = dict(_ast.AST_ITEMS)
ITEMS.update({
    'AggregateOp': dict(file=_F, path='enum AggregateOp', rewrites=[('re', r'^enum AggregateOp', '#[derive(PartialEq, Eq, Structural, Clone, Copy)]\npub enum AggregateOp', 1)]),
    'AggregateSource': dict(file=_F, path='enum AggregateSource'),
    'AggregateSpec': dict(file=_F, path='struct AggregateSpec'),

    'eval_simple_expr': dict(
        file=_F, path='fn eval_simple_expr', ret='res',
        rewrites=[('re', r'schema\.get_column_index\(table\.as_deref\(\), column\)\s*\.ok_or_else\(\|\| ExecutorError::UnsupportedExpression\(\s*format!\((?:[^()]|\([^()]*\))*\)\s*\)\)\?', 'col_or_err(schema.get_column_index(table, column))?', 1),
                  ('re', r'row\.get\(col_idx\)\.cloned\(\)\.unwrap_or\(SqlValue::Null\)', 'row_get_or_null(row, col_idx)', 1),
                  ('re', r'use crate::evaluator::operators::OperatorRegistry;\s*', '', 1),
                  ('re', r'vibesql_types::SqlMode::default\(\)', 'default_mode()', 1),
                  ('re', r'Err\(ExecutorError::UnsupportedExpression\(\s*"[^"]*"\.to_string\(\)\s*\)\)', 'Err(unsupported())', 1)],
        contract="""
    ensures
        (res is Ok) == (simple_value(*expr, *row, schema) is Ok),
        res is Ok ==> res->Ok_0 == simple_value(*expr, *row, schema)->Ok_0,        // in particular: a column reference reads the row's cell, NULL included
    decreases expr,
"""),
    'extract_aggregates': dict(
        file=_F, path='fn extract_aggregates', ret='res',
        rewrites=[('re', r'for \(i, expr\) in exprs\.iter\(\)\.enumerate\(\) \{', 'let mut ei__: usize = 0; while ei__ < exprs.len() { let expr = &exprs[ei__]; ei__ = ei__ + 1;', 1),
                  ('refn', r'(?s)let op = match name\.to_uppercase\(\)\.as_str\(\) \{.*?_ => return None,[^\n]*\n\s*\};', _name_match, 1),
                  ('re', r'args\.is_empty\(\)', 'args.len() == 0', None),
                  ('re', r'if column == "\*"', 'if str_eq(column, "*")', None),
                  ('re', r'schema\.get_column_index\(table\.as_deref\(\), column\)', 'schema.get_column_index(table, column)', None)],
        loops={0: '''
        invariant ei__ <= exprs@.len(), aggregates@.len() == ei__,
            forall|i: int| 0 <= i < ei__ ==> sql_meaning(#[trigger] exprs@[i], schema) is Some && sql_meaning(exprs@[i], schema) == spec_meaning(aggregates@[i], schema),
        decreases exprs@.len() - ei__,
'''},
        contract='''
    ensures
        // planned => one spec per select item, and each spec MEANS what the SQL aggregate means (COUNT(*) counts rows, COUNT(col) skips NULLs, ..)
        res matches Some(specs) ==> specs@.len() == exprs@.len()
            && forall|i: int| 0 <= i < exprs@.len() ==> sql_meaning(#[trigger] exprs@[i], schema) is Some && sql_meaning(exprs@[i], schema) == spec_meaning(specs@[i], schema),
'''),
    'is_simple_arithmetic_expr': dict(
        file=_F, path='fn is_simple_arithmetic_expr', ret='r',
        rewrites=[('re', r'schema\.get_column_index\(table\.as_deref\(\), column\)', 'schema.get_column_index(table, column)', None),
                  ('re', r'use vibesql_ast::BinaryOperator::\*;\s*', '', 1),
                  ('re', r'Plus \| Minus \| Multiply \| Divide =>', 'BinaryOperator::Plus | BinaryOperator::Minus | BinaryOperator::Multiply | BinaryOperator::Divide =>', 1)],
        contract='''
    decreases expr,
'''),
})

OBLIGATIONS = {
    'eval_simple_expr': ['post:column_reads_its_cell_literal_is_itself_arithmetic_through_the_operator_registry', 'proof:termination_structural'],
    'extract_aggregates': ['post:every_planned_spec_means_what_the_sql_aggregate_means', 'safety:index_in_bounds', 'proof:loop_invariant'],
    'is_simple_arithmetic_expr': ['proof:termination_structural'],
}
CANARIES = ['canary_plan']
TRUSTED = list(_ast.AST_TRUSTED) + [
    'external_body Expression::clone (a copy); Str::to_uppercase as the uninterpreted function upper; the str match on the function name rewritten arm by arm to str_eq tests (no str patterns in this Verus)',
    'external_body CombinedSchema::get_column_index: name resolution as an uninterpreted function of (table, column); table.as_deref() dropped',
    'spec_meaning encodes how the pipeline evaluates a spec (Column + COUNT = row count; Expression = non-NULL values of the expression): that compute_columnar_aggregate does so is proved in unit A-col; compute_expression_aggregate is proved against the uninterpreted per-row value in unit A-col, and eval_simple_expr - that value - is under contract here',
    'external_body Row (values), row_get_or_null, col_or_err, unsupported, default_mode, OperatorRegistry::eval_binary_op (uninterpreted binop_spec: unit E-ops), ExecutorError / SqlMode opaque; the ERROR VALUE of eval_simple_expr is not specified (only whether it errs)',
    'is_simple_arithmetic_expr: only termination and absence of panics are stated (which expressions the expression path accepts is a planning choice)',
]
