import importlib.util as _ilu
import os as _os
_spec = _ilu.spec_from_file_location('_ast_common', _os.path.join(_os.path.dirname(_os.path.abspath(__file__)), '_ast_common.py'))
_ast = _ilu.module_from_spec(_spec)
_spec.loader.exec_module(_ast)

NAME = 'A-filter'
PROPERTIES = ['C06', 'C03', 'C01']
ENGINE = 'verus'
CLASS = 'U'
DOC = ('the table-scan / columnar predicate filter (select/columnar/filter.rs), used by every single-table SELECT with a simple WHERE and by the '
       'columnar aggregate path: extract_predicates_recursive accepts only WHERE forms whose SQL meaning is defined below and the predicates it '
       'emits hold on a row EXACTLY when the WHERE expression is TRUE on it (three-valued logic: NULL operands are never TRUE; `lit op col` is '
       'mirrored; BETWEEN SYMMETRIC / NOT BETWEEN are not taken as plain BETWEEN); evaluate_predicate decides one predicate; create_filter_bitmap '
       'returns one flag per row, true iff every predicate holds on the row.')

TEMPLATE = r'''
#![feature(allocator_api)]
#![feature(sized_hierarchy)]
use vstd::prelude::*;
verus! {
''' + _ast.AST_PREAMBLE + r'''

#[derive(PartialEq, Eq, Structural)]
pub enum Ordering { Less, Equal, Greater }
#[verifier::external_body] pub struct ExecutorError { e: u8 }

//@@ ColumnPredicate

// ---------------- collaborators ---------------------------------------------------------------------------------
// compare_values(a, b): the filter's value comparison (numeric coercion, strings, dates, epsilon) - UNINTERPRETED here,
// assumed antisymmetric (see TRUSTED); whether it is the SQL comparison is the business of units E-ops / S-cmpsort
pub uninterp spec fn cmp_spec(a: SqlValue, b: SqlValue) -> Ordering;
#[verifier::external_body]
fn compare_values(a: &SqlValue, b: &SqlValue) -> (r: Ordering) ensures r == cmp_spec(*a, *b) { unimplemented!() }
#[verifier::external_body]
pub proof fn cmp_antisymmetric()
    ensures forall|a: SqlValue, b: SqlValue| #![trigger cmp_spec(a, b)]
        (cmp_spec(a, b) == Ordering::Less) == (cmp_spec(b, a) == Ordering::Greater) && (cmp_spec(a, b) == Ordering::Equal) == (cmp_spec(b, a) == Ordering::Equal)
{}
// CombinedSchema::get_column_index(table.as_deref(), column): name resolution, an uninterpreted function of (table, column)
#[verifier::external_body] pub struct CombinedSchema { s: u8 }
impl CombinedSchema {
    pub uninterp spec fn col(&self, table: Option<Str>, column: Str) -> Option<usize>;
    #[verifier::external_body]
    pub fn get_column_index(&self, table: &Option<Str>, column: &Str) -> (r: Option<usize>) ensures r == self.col(*table, *column) { unimplemented!() }
}
// the `get_value: F where F: FnMut(usize, usize) -> Option<&SqlValue>` closure of create_filter_bitmap: a pure cell lookup
#[verifier::external_body] pub struct Cells { c: u8 }
impl Cells {
    pub uninterp spec fn at(&self, row: int, col: usize) -> Option<SqlValue>;
    #[verifier::external_body]
    pub fn call(&self, row: usize, col: usize) -> (r: Option<&SqlValue>)
        ensures (match r { Some(v) => Some(*v), None => None }) == self.at(row as int, col)
    { unimplemented!() }
}
// vec![true; n]
#[verifier::external_body]
fn vec_true(n: usize) -> (r: Vec<bool>) ensures r@.len() == n, forall|i: int| 0 <= i < n ==> r@[i] { unimplemented!() }

// ---------------- SQL meaning (three-valued logic; a filter keeps a row iff the condition is TRUE) -------------------
pub open spec fn ge(o: Ordering) -> bool { o == Ordering::Greater || o == Ordering::Equal }
pub open spec fn le(o: Ordering) -> bool { o == Ordering::Less || o == Ordering::Equal }
/// `a op b` is TRUE (NULL operands: UNKNOWN, hence not TRUE)
pub open spec fn cmp_true(op: BinaryOperator, a: SqlValue, b: SqlValue) -> bool {
    !(a is Null) && !(b is Null) && match op {
        BinaryOperator::Equal => cmp_spec(a, b) == Ordering::Equal,
        BinaryOperator::LessThan => cmp_spec(a, b) == Ordering::Less,
        BinaryOperator::LessThanOrEqual => le(cmp_spec(a, b)),
        BinaryOperator::GreaterThan => cmp_spec(a, b) == Ordering::Greater,
        BinaryOperator::GreaterThanOrEqual => ge(cmp_spec(a, b)),
        _ => false,
    }
}
pub open spec fn is_cmp(op: BinaryOperator) -> bool {
    op == BinaryOperator::Equal || op == BinaryOperator::LessThan || op == BinaryOperator::LessThanOrEqual || op == BinaryOperator::GreaterThan || op == BinaryOperator::GreaterThanOrEqual
}
pub open spec fn between_true(v: SqlValue, low: SqlValue, high: SqlValue) -> bool {
    !(v is Null) && !(low is Null) && !(high is Null) && ge(cmp_spec(v, low)) && le(cmp_spec(v, high))
}
/// the column of a `table.column` reference, when it resolves
pub open spec fn col_of(e: Expression, s: &CombinedSchema) -> Option<usize> {
    match e { Expression::ColumnRef { table, column } => s.col(table, column), _ => None }
}
pub open spec fn cell_or_null(cells: &Cells, i: int, c: usize) -> SqlValue {
    match cells.at(i, c) { Some(v) => v, None => SqlValue::Null }      // a row too short for the column reads as NULL
}
/// Some(b): e belongs to the fragment whose meaning is defined here and is TRUE on row i iff b.  None: outside the fragment.
/// The fragment covers every BETWEEN flavour and every comparison operator, so that ACCEPTING one of them wrongly is visible.
pub open spec fn where_true(e: Expression, s: &CombinedSchema, cells: &Cells, i: int) -> Option<bool>
    decreases e
{
    match e {
        Expression::BinaryOp { op: BinaryOperator::And, left, right } =>
            match (where_true(*left, s, cells, i), where_true(*right, s, cells, i)) { (Some(a), Some(b)) => Some(a && b), _ => None },
        Expression::BinaryOp { op, left, right } =>
            if !is_cmp(op) { None }
            else if col_of(*left, s) is Some && *right is Literal { Some(cmp_true(op, cell_or_null(cells, i, col_of(*left, s).unwrap()), (*right)->Literal_0)) }
            else if *left is Literal && col_of(*right, s) is Some { Some(cmp_true(op, (*left)->Literal_0, cell_or_null(cells, i, col_of(*right, s).unwrap()))) }
            else { None },
        Expression::Between { expr, low, high, negated, symmetric } =>
            if col_of(*expr, s) is Some && *low is Literal && *high is Literal && !negated {
                let v = cell_or_null(cells, i, col_of(*expr, s).unwrap());
                let (l, h) = ((*low)->Literal_0, (*high)->Literal_0);
                // SQL: x BETWEEN SYMMETRIC a AND b == (x BETWEEN a AND b) OR (x BETWEEN b AND a)
                Some(if symmetric { between_true(v, l, h) || between_true(v, h, l) } else { between_true(v, l, h) })
            } else { None },          // NOT BETWEEN and non-literal bounds: outside (accepting them must be justified by a stronger spec)
        _ => None,
    }
}

// ---------------- the filter's own vocabulary -----------------------------------------------------------------------
pub open spec fn pred_col(p: ColumnPredicate) -> usize {
    match p {
        ColumnPredicate::LessThan { column_idx, .. } => column_idx, ColumnPredicate::GreaterThan { column_idx, .. } => column_idx,
        ColumnPredicate::GreaterThanOrEqual { column_idx, .. } => column_idx, ColumnPredicate::LessThanOrEqual { column_idx, .. } => column_idx,
        ColumnPredicate::Equal { column_idx, .. } => column_idx, ColumnPredicate::Between { column_idx, .. } => column_idx,
    }
}
/// predicate p is TRUE for column value v
pub open spec fn pred_true(p: ColumnPredicate, v: SqlValue) -> bool {
    match p {
        ColumnPredicate::LessThan { value, .. } => cmp_true(BinaryOperator::LessThan, v, value),
        ColumnPredicate::GreaterThan { value, .. } => cmp_true(BinaryOperator::GreaterThan, v, value),
        ColumnPredicate::GreaterThanOrEqual { value, .. } => cmp_true(BinaryOperator::GreaterThanOrEqual, v, value),
        ColumnPredicate::LessThanOrEqual { value, .. } => cmp_true(BinaryOperator::LessThanOrEqual, v, value),
        ColumnPredicate::Equal { value, .. } => cmp_true(BinaryOperator::Equal, v, value),
        ColumnPredicate::Between { low, high, .. } => between_true(v, low, high),
    }
}
/// the first n predicates all hold on row i (a missing cell fails every predicate, like NULL)
pub open spec fn row_passes(cells: &Cells, ps: Seq<ColumnPredicate>, i: int, n: int) -> bool {
    forall|k: int| 0 <= k < n ==> pred_true(#[trigger] ps[k], cell_or_null(cells, i, pred_col(ps[k])))
}
pub open spec fn all_pass(cells: &Cells, ps: Seq<ColumnPredicate>, i: int, from: int, to: int) -> bool {
    forall|k: int| from <= k < to ==> pred_true(#[trigger] ps[k], cell_or_null(cells, i, pred_col(ps[k])))
}

//@@ evaluate_predicate

//@@ create_filter_bitmap

pub open spec fn prefix_kept(a: Seq<ColumnPredicate>, b: Seq<ColumnPredicate>) -> bool {
    a.len() <= b.len() && forall|k: int| 0 <= k < a.len() ==> b[k] == a[k]
}
proof fn lemma_pushed(ps0: Seq<ColumnPredicate>, ps1: Seq<ColumnPredicate>)
    requires ps1.len() == ps0.len() + 1, ps1.drop_last() =~= ps0
    ensures prefix_kept(ps0, ps1),
            forall|cells: &Cells, i: int| #![trigger all_pass(cells, ps1, i, ps0.len() as int, ps1.len() as int)]
                all_pass(cells, ps1, i, ps0.len() as int, ps1.len() as int) == pred_true(ps1.last(), cell_or_null(cells, i, pred_col(ps1.last())))
{
    assert forall|k: int| 0 <= k < ps0.len() implies ps1[k] == ps0[k] by { assert(ps1.drop_last()[k] == ps1[k]); }
    assert forall|cells: &Cells, i: int| all_pass(cells, ps1, i, ps0.len() as int, ps1.len() as int) == pred_true(ps1.last(), cell_or_null(cells, i, pred_col(ps1.last()))) by {
        let n = ps0.len() as int;
        if pred_true(ps1[n], cell_or_null(cells, i, pred_col(ps1[n]))) {
            assert(all_pass(cells, ps1, i, n, n + 1));
        } else {
            assert(!all_pass(cells, ps1, i, n, n + 1));
        }
    }
}
proof fn lemma_and(ps0: Seq<ColumnPredicate>, ps1: Seq<ColumnPredicate>, ps2: Seq<ColumnPredicate>)
    requires prefix_kept(ps0, ps1), prefix_kept(ps1, ps2)
    ensures prefix_kept(ps0, ps2),
            forall|cells: &Cells, i: int| #![trigger all_pass(cells, ps2, i, ps0.len() as int, ps2.len() as int)]
                all_pass(cells, ps2, i, ps0.len() as int, ps2.len() as int) == (all_pass(cells, ps1, i, ps0.len() as int, ps1.len() as int) && all_pass(cells, ps2, i, ps1.len() as int, ps2.len() as int))
{
    assert forall|cells: &Cells, i: int| all_pass(cells, ps2, i, ps0.len() as int, ps2.len() as int) == (all_pass(cells, ps1, i, ps0.len() as int, ps1.len() as int) && all_pass(cells, ps2, i, ps1.len() as int, ps2.len() as int)) by {
        let (a, b, c) = (ps0.len() as int, ps1.len() as int, ps2.len() as int);
        if all_pass(cells, ps1, i, a, b) && all_pass(cells, ps2, i, b, c) {
            assert forall|k: int| a <= k < c implies pred_true(#[trigger] ps2[k], cell_or_null(cells, i, pred_col(ps2[k]))) by {
                if k < b { assert(ps2[k] == ps1[k]); assert(pred_true(ps1[k], cell_or_null(cells, i, pred_col(ps1[k])))); }
            }
        }
        if all_pass(cells, ps2, i, a, c) {
            assert forall|k: int| a <= k < b implies pred_true(#[trigger] ps1[k], cell_or_null(cells, i, pred_col(ps1[k]))) by { assert(ps2[k] == ps1[k]); }
        }
    }
}

//@@ extract_predicates_recursive

fn canary_eval(p: &ColumnPredicate, v: &SqlValue)
{
    let r = evaluate_predicate(p, v);
    assert(false); // CANARY
}
fn canary_bitmap(n: usize, ps: &[ColumnPredicate], cells: &Cells)
{
    let r = create_filter_bitmap(n, ps, cells);
    assert(false); // CANARY
}
fn canary_extract(e: &Expression, s: &CombinedSchema, ps: &mut Vec<ColumnPredicate>)
{
    let r = extract_predicates_recursive(e, s, ps);
    assert(false); // CANARY
}

}
fn main() {}
'''

_F = 'crates/vibesql-executor/src/select/columnar/filter.rs'
_AND_PROOF = '''proof {
                lemma_and(ps0, ps1, predicates@);
                assert forall|cells: &Cells, i: int| where_true(*expr, schema, cells, i) == Some(all_pass(cells, predicates@, i, ps0.len() as int, predicates@.len() as int)) by {
                    assert(where_true(**left, schema, cells, i) == Some(all_pass(cells, ps1, i, ps0.len() as int, ps1.len() as int)));
                    assert(where_true(**right, schema, cells, i) == Some(all_pass(cells, predicates@, i, ps1.len() as int, predicates@.len() as int)));
                }
            }
            '''
_AS_REF = ('re', r'\b(\w+)\.as_ref\(\)', r'&**\1', None)   # R3: Box::as_ref -> explicit deref

ITEMS = dict(_ast.AST_ITEMS)
ITEMS.update({
    'ColumnPredicate': dict(file=_F, path='enum ColumnPredicate'),
    'evaluate_predicate': dict(
        file=_F, path='fn evaluate_predicate', ret='r',
        rewrites=[('re', r'std::cmp::Ordering::', 'Ordering::', None)],
        contract='''
    ensures r == pred_true(*predicate, *value),      // in particular: a NULL operand is never TRUE
'''),
    'create_filter_bitmap': dict(
        file=_F, path='fn create_filter_bitmap', ret='res',
        rewrites=[('re', r"fn create_filter_bitmap<'a, F>\(", 'fn create_filter_bitmap(', 1),
                  ('re', r'mut get_value: F,', 'get_value: &Cells,', 1),
                  ('re', r"where\s+F: FnMut\(usize, usize\) -> Option<&'a SqlValue>,", '', 1),
                  ('re', r'get_value\(row_idx, column_idx\)', 'get_value.call(row_idx, column_idx)', 1),
                  ('re', r'vec!\[true; row_count\]', 'vec_true(row_count)', 2),
                  ('re', r'predicates\.is_empty\(\)', 'predicates.len() == 0', 1),
                  # R10 (slice form): for (i, x) in s.iter().enumerate() -> index loop
                  ('re', r'for \((\w+), (\w+)\) in predicates\.iter\(\)\.enumerate\(\) \{',
                   r'let mut pi__: usize = 0; while pi__ < predicates.len() { let \2 = &predicates[pi__]; let \1 = pi__; pi__ = pi__ + 1;', 1),
                  ('re', r'bitmap\[row_idx\] = false;', 'bitmap.set(row_idx, false);', 2),
                  ('re', r'let passing_count = bitmap\.iter\(\)\.filter\(\|&&b\| b\)\.count\(\);', '', 1)],
        loops={0: '''
        invariant
            bitmap@.len() == row_count,
            forall|i: int| 0 <= i < row_idx ==> bitmap@[i] == row_passes(get_value, predicates@, i, predicates@.len() as int),
            forall|i: int| row_idx <= i < row_count ==> bitmap@[i],
''', 1: '''
            invariant
                bitmap@.len() == row_count, row_idx < row_count, pi__ <= predicates@.len(),
                forall|i: int| 0 <= i < row_idx ==> bitmap@[i] == row_passes(get_value, predicates@, i, predicates@.len() as int),
                forall|i: int| row_idx < i < row_count ==> bitmap@[i],
                bitmap@[row_idx as int] ==> row_passes(get_value, predicates@, row_idx as int, pi__ as int),
                !bitmap@[row_idx as int] ==> !row_passes(get_value, predicates@, row_idx as int, predicates@.len() as int),
            ensures
                bitmap@[row_idx as int] == row_passes(get_value, predicates@, row_idx as int, predicates@.len() as int),
            decreases predicates@.len() - pi__,
'''},
        contract='''
    ensures
        res matches Ok(bm) && bm@.len() == row_count                    // one flag per row (what the aggregate functions rely on)
            && forall|i: int| 0 <= i < row_count ==> bm@[i] == row_passes(get_value, predicates@, i, predicates@.len() as int),
'''),
    'extract_predicates_recursive': dict(
        file=_F, path='fn extract_predicates_recursive', ret='res',
        rewrites=[_AS_REF, ('re', r'schema\.get_column_index\(table\.as_deref\(\), column\)', 'schema.get_column_index(table, column)', 3),
                  # proof hint after every push (any number of them): the appended predicate is the only new one
                  ('re', r'(predicates\.push\((?:[^;])*\);)', r'\1 proof { if predicates@.len() == ps0.len() + 1 { lemma_pushed(ps0, predicates@); } }', None)],
        proofs=[('@entry', 'proof { cmp_antisymmetric(); }\nlet ghost ps0 = predicates@;'),
                ('after:extract_predicates_recursive(left, schema, predicates)?;', 'let ghost ps1 = predicates@;'),
                ('re:(?<!return )Some\\(\\(\\)\\)', _AND_PROOF),
                ] ,
        contract='''
    ensures
        // accepted => the WHERE form is inside the fragment with a defined meaning, the old predicates are untouched, and the
        // predicates appended hold on a row exactly when the expression is TRUE on it - for every table content
        res is Some ==> (
            prefix_kept(old(predicates)@, final(predicates)@)
            && forall|cells: &Cells, i: int| #![trigger where_true(*expr, schema, cells, i)]
                   where_true(*expr, schema, cells, i) == Some(all_pass(cells, final(predicates)@, i, old(predicates)@.len() as int, final(predicates)@.len() as int))),
        res is None ==> prefix_kept(old(predicates)@, final(predicates)@),
    decreases expr,
'''),
})

OBLIGATIONS = {
    'evaluate_predicate': ['post:true_iff_sql_comparison_is_true__null_operand_never_passes'],
    'create_filter_bitmap': ['post:one_flag_per_row__true_iff_every_predicate_holds', 'safety:index_in_bounds', 'proof:loop_invariants'],
    'lemma_pushed': ['post:one_appended_predicate'], 'lemma_and': ['post:conjunction_of_two_appended_runs'],
    'extract_predicates_recursive': ['post:accepted_forms_are_in_the_defined_fragment_and_predicates_hold_iff_where_is_true', 'proof:termination_structural'],
}
CANARIES = ['canary_eval', 'canary_bitmap', 'canary_extract']
TRUSTED = list(_ast.AST_TRUSTED) + [
    'external_body compare_values: UNINTERPRETED total function cmp_spec (numeric coercion with epsilon, strings, dates, "Equal" for incomparable types are NOT judged here)',
    'cmp_antisymmetric (ASSUMED): cmp_spec(a,b) is Less iff cmp_spec(b,a) is Greater, Equal iff Equal - needed to mirror `literal op column`',
    'external_body CombinedSchema::get_column_index: name resolution as an uninterpreted function of (table, column); table.as_deref() dropped (Option<String> -> Option<&str>)',
    'external_body Cells::call: the FnMut(usize, usize) -> Option<&SqlValue> closure parameter as a PURE cell lookup (both call sites pass |r, c| rows.get(r).and_then(|row| row.get(c)))',
    'external_body vec_true: vec![true; n]; ExecutorError opaque',
    'R10 rewrite (slice form): for (i, x) in s.iter().enumerate() -> index loop; bitmap[i] = false -> bitmap.set(i, false); dead statement `let passing_count = ..` dropped',
    'where_true(): the SQL meaning of the fragment (AND, col op lit, lit op col, BETWEEN [SYMMETRIC]); NOT BETWEEN, <>, OR and everything else is outside: the extractor must not accept them',
    'extract_tree_recursive / evaluate_predicate_tree (OR trees), apply_columnar_filter / filter_rows (index collection through iterator adapters) are not under contract',
]
