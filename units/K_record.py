NAME = 'K-record'
PROPERTIES = ['C14']
ENGINE = 'verus'
CLASS = 'U'
DOC = ('Database::insert_row / insert_rows_batch (storage database/core.rs), the storage entry points of INSERT: a change is recorded in the transaction log '
       'for EXACTLY the rows that were inserted, after the insert succeeded, in insertion order - a failed insert records nothing (an undo entry for a row '
       'that is not in the table would make a later ROLLBACK TO SAVEPOINT remove an equal row that was there before, or fail).')

TEMPLATE = r'''
use vstd::prelude::*;
verus! {

#[verifier::external_body] pub struct Str { s: u8 }
#[verifier::external_body] pub struct Row { r: u8 }
impl Row { #[verifier::external_body] pub fn clone(&self) -> (r: Row) ensures r == *self { unimplemented!() } }
#[verifier::external_body] pub struct StorageError { e: u8 }
//@@ TransactionChange

/// the Insert entries for rows[0..n), in order
pub open spec fn inserts_of(t: Str, rows: Seq<Row>, n: int) -> Seq<TransactionChange>
    decreases n
{
    if n <= 0 { Seq::empty() } else { inserts_of(t, rows, n - 1).push(TransactionChange::Insert { table_name: t, row: rows[n - 1] }) }
}

#[verifier::external_body] fn str_of(s: &str) -> (r: Str) ensures r == name_of(s) { unimplemented!() }
pub uninterp spec fn name_of(s: &str) -> Str;
// Vec<Row>::clone
#[verifier::external_body] fn rows_clone(v: &Vec<Row>) -> (r: Vec<Row>) ensures r@ == v@ { unimplemented!() }

pub struct Database { pub o: u8 }
impl Database {
    /// the recorded changes of the open transaction (TransactionManager: unit X-sp)
    pub uninterp spec fn log(&self) -> Seq<TransactionChange>;
    /// rows the tables hold, as far as this unit is concerned: the rows handed to the storage layer so far (in their stored form), per call
    pub uninterp spec fn inserted(&self) -> Seq<Row>;

    // self.lifecycle.transaction_manager_mut().record_change(change)  (appends while a transaction is open: unit X-sp; modelled as always open)
    #[verifier::external_body]
    pub fn record_change(&mut self, change: TransactionChange)
        ensures final(self).log() == old(self).log().push(change), final(self).inserted() == old(self).inserted()
    { unimplemented!() }
    #[verifier::external_body]
    pub fn in_transaction(&self) -> (r: bool) { unimplemented!() }
    // self.operations.insert_row(&self.catalog, &mut self.tables, table_name, row)
    #[verifier::external_body]
    fn ops_insert_row(&mut self, table_name: &str, row: Row) -> (r: Result<usize, StorageError>)
        ensures final(self).log() == old(self).log(),
                r is Ok ==> final(self).inserted() == old(self).inserted().push(row),
                r is Err ==> final(self).inserted() == old(self).inserted()
    { unimplemented!() }
    // self.operations.insert_rows_batch(&self.catalog, &mut self.tables, table_name, rows)
    #[verifier::external_body]
    fn ops_insert_rows_batch(&mut self, table_name: &str, rows: Vec<Row>) -> (r: Result<Vec<usize>, StorageError>)
        ensures final(self).log() == old(self).log(),
                r matches Ok(v) ==> v@.len() == rows@.len() && final(self).inserted() == old(self).inserted() + rows@
    { unimplemented!() }

//@@ insert_row

//@@ insert_rows_batch
}

fn canary_batch(db: &mut Database, t: &str, rows: Vec<Row>)
{
    let r = db.insert_rows_batch(t, rows);
    assert(false); // CANARY
}

}
fn main() {}
'''

_F = 'crates/vibesql-storage/src/database/core.rs'
_OPS = [('re', r'(?s)self\.operations\.insert_row\(\s*&self\.catalog,\s*&mut self\.tables,\s*table_name,\s*row\.clone\(\),\s*\)', 'self.ops_insert_row(table_name, row.clone())', None),
        ('re', r'(?s)self\.operations\.insert_rows_batch\(\s*&self\.catalog,\s*&mut self\.tables,\s*table_name,\s*rows\.clone\(\),\s*\)', 'self.ops_insert_rows_batch(table_name, rows_clone(&rows))', None),
        ('re', r'(?s)self\.operations\.insert_rows_batch\(\s*&self\.catalog,\s*&mut self\.tables,\s*table_name,\s*rows,\s*\)', 'self.ops_insert_rows_batch(table_name, rows)', None),
        ('re', r'table_name\.to_string\(\)', 'str_of(table_name)', None)]

ITEMS = {
    'TransactionChange': dict(file='crates/vibesql-storage/src/database/transactions.rs', path='enum TransactionChange', rewrites=[('re', r'\bString\b', 'Str', None)]),
    'insert_row': dict(file=_F, path='impl Database::fn insert_row', ret='res', rewrites=_OPS, contract='''
        ensures
            res is Err ==> final(self).log() == old(self).log() && final(self).inserted() == old(self).inserted(),
            res is Ok ==> final(self).inserted() == old(self).inserted().push(row)
                && final(self).log() == old(self).log().push(TransactionChange::Insert { table_name: name_of(table_name), row: row }),
'''),
    'insert_rows_batch': dict(file=_F, path='impl Database::fn insert_rows_batch', ret='res',
        rewrites=_OPS + [('refn', r'for row in (&?)rows \{', lambda m: 'let ghost rows0__ = rows@; let mut bi__: usize = 0; while bi__ < rows.len() { let row = %s; bi__ = bi__ + 1;' % ('&rows[bi__]' if m.group(1) else 'rows[bi__].clone()'), 1)],
        loops={0: '''
            invariant
                bi__ <= rows@.len(), rows@ == rows0__,
                self.inserted() == old(self).inserted() + rows0__,
                self.log() == old(self).log() + inserts_of(name_of(table_name), rows0__, bi__ as int),
            decreases rows@.len() - bi__,
'''},
        contract='''
        ensures
            res is Err ==> final(self).log() == old(self).log(),
            res matches Ok(n) ==> n == rows@.len() && final(self).inserted() == old(self).inserted() + rows@
                && final(self).log() == old(self).log() + inserts_of(name_of(table_name), rows@, rows@.len() as int),
'''),
}

OBLIGATIONS = {
    'insert_row': ['post:one_insert_entry_recorded_after_success__nothing_on_failure'],
    'insert_rows_batch': ['post:one_insert_entry_per_row_in_order_after_success__nothing_on_failure', 'proof:loop_invariant_and_termination', 'safety:index_in_bounds'],
}
CANARIES = ['canary_batch']
TRUSTED = [
    'external_body Database::in_transaction (any answer), record_change (appends to the log: TransactionManager::record_change appends while a transaction is open - unit X-sp - and is a no-op otherwise), ops_insert_row / ops_insert_rows_batch (Operations::insert_row / insert_rows_batch: do not touch the log; Ok ==> exactly the given rows went in, in order - ASSUMED; on Err the batch version may have inserted a prefix of the rows (observed, DESIGN 9b) and nothing is claimed about the tables)',
    'Str / Row / StorageError opaque (external_body types); the methods ops_insert_row / ops_insert_rows_batch / in_transaction / record_change / Row::clone are the external_body stand-ins listed above; str_of = str::to_string, rows_clone = Vec::clone; R10 rewrite of `for row in rows` into an index loop over clones',
    'the recorded row is the row as handed in; the table stores its normalized form and Table::remove_row looks for that form (unit K-table, fix 2308fd7d)',
    'that the executors call these entry points (and record UPDATE / DELETE / REPLACE / cascades themselves) is outside this unit (SQL reproductions in findings/)',
]
