import importlib.util as _ilu
import os as _os
_spec = _ilu.spec_from_file_location('_ast_common', _os.path.join(_os.path.dirname(_os.path.abspath(__file__)), '_ast_common.py'))
_ast = _ilu.module_from_spec(_spec)
_spec.loader.exec_module(_ast)

NAME = 'D-pk'
PROPERTIES = ['C09']
ENGINE = 'verus'
CLASS = 'U'
DOC = ('the primary-key fast path of UPDATE and DELETE: extract_primary_key_lookup (both copies) answers Some([lit]) only for `pkcol = lit` / `lit = pkcol` '
       'on a single-column primary key; RowSelector::select_rows returns, for every table and WHERE clause, exactly what the reference table scan returns '
       '(an index hit is used, an index MISS falls back to the scan).')

TEMPLATE = r'''
#![feature(allocator_api)]
#![feature(sized_hierarchy)]
use vstd::prelude::*;
verus! {
''' + _ast.AST_PREAMBLE + r'''

//@@ WhereClause

// ---------------- catalog / storage as abstract interfaces --------------------------------------------------
#[verifier::external_body] pub struct TableSchema { s: u8 }
impl TableSchema {
    pub uninterp spec fn pk(&self) -> Option<Seq<usize>>;
    pub uninterp spec fn col_index(&self, name: Str) -> Option<usize>;
    #[verifier::external_body]
    pub fn get_primary_key_indices(&self) -> (r: Option<Vec<usize>>)
        ensures (r is Some) == (self.pk() is Some), r is Some ==> r.unwrap()@ == self.pk().unwrap()
    { unimplemented!() }
    #[verifier::external_body]
    pub fn get_column_index(&self, name: &Str) -> (r: Option<usize>) ensures r == self.col_index(*name) { unimplemented!() }
}
#[verifier::external_body] pub struct Row { r: u8 }
#[verifier::external_body] pub struct PkIndex { i: u8 }
#[verifier::external_body] pub struct Table { t: u8 }
#[verifier::external_body] pub struct ExpressionEvaluator { e: u8 }
#[verifier::external_body] pub struct ExecutorError { e: u8 }
impl Table {
    pub uninterp spec fn rows(&self) -> Seq<Row>;
    pub uninterp spec fn has_pk_index(&self) -> bool;
    #[verifier::external_body]
    pub fn primary_key_index(&self) -> (r: Option<&PkIndex>) ensures (r is Some) == self.has_pk_index() { unimplemented!() }
}

/// the statement `WHERE <pk column> = lit` (either operand order) on a single-column primary key
pub open spec fn pk_eq(e: Expression, s: &TableSchema, lit: SqlValue) -> bool {
    e matches Expression::BinaryOp { op: BinaryOperator::Equal, left, right } && s.pk() is Some && s.pk().unwrap().len() == 1 && (
        (*left matches Expression::ColumnRef { column, .. } && *right == Expression::Literal(lit) && s.col_index(column) == Some(s.pk().unwrap()[0]))
        || (*right matches Expression::ColumnRef { column, .. } && *left == Expression::Literal(lit) && s.col_index(column) == Some(s.pk().unwrap()[0])))
}

// REFERENCE SEMANTICS: the rows the table scan selects (WHERE evaluates to TRUE), as an uninterpreted function of table and WHERE clause
pub uninterp spec fn scan_ok(t: &Table, w: Option<WhereClause>) -> bool;
pub uninterp spec fn scan_rows(t: &Table, w: Option<WhereClause>) -> Seq<(usize, Row)>;

/// ASSUMED (trusted, see TRUSTED): a HIT in the primary-key hash index for the literal of `pkcol = lit` is exactly the scan result:
/// the stored key is structurally equal to the literal (same variant => SQL `=` is TRUE, unit E-ops), the primary key is unique (C10),
/// and the index mirrors the table (C15).  Nothing is assumed about a MISS.
pub open spec fn hit_is_scan(t: &Table, s: &TableSchema, key: Seq<SqlValue>, i: usize) -> bool {
    i < t.rows().len() && forall|e: Expression, lit: SqlValue| #[trigger] pk_eq(e, s, lit) && key == seq![lit] ==>
        scan_ok(t, Some(WhereClause::Condition(e))) && scan_rows(t, Some(WhereClause::Condition(e))) == seq![(i, t.rows()[i as int])]
}
#[verifier::external_body]
fn pk_get(t: &Table, s: &TableSchema, idx: &PkIndex, key: &Vec<SqlValue>) -> (r: Option<usize>)
    ensures r matches Some(i) ==> hit_is_scan(t, s, key@, i)
{ unimplemented!() }
#[verifier::external_body]
fn single_row(t: &Table, i: usize) -> (r: Vec<(usize, Row)>) requires i < t.rows().len() ensures r@ == seq![(i, t.rows()[i as int])] { unimplemented!() }

// ---------------- DELETE: delete/executor.rs ---------------------------------------------------------------
pub struct DeleteExecutor { }
impl DeleteExecutor {
//@@ delete_extract_primary_key_lookup
}

// ---------------- UPDATE: update/row_selector.rs -----------------------------------------------------------
pub struct RowSelector<'a> { schema: &'a TableSchema, evaluator: &'a ExpressionEvaluator }
impl<'a> RowSelector<'a> {
    #[verifier::external_body]
    fn collect_candidate_rows(table: &Table, where_clause: &Option<WhereClause>, evaluator: &ExpressionEvaluator) -> (r: Result<Vec<(usize, Row)>, ExecutorError>)
        ensures match r { Ok(v) => scan_ok(table, *where_clause) && v@ == scan_rows(table, *where_clause), Err(_) => !scan_ok(table, *where_clause) }
    { unimplemented!() }

//@@ select_rows

//@@ update_extract_primary_key_lookup
}

fn canary_select<'a>(s: &RowSelector<'a>, table: &Table, w: &Option<WhereClause>)
{
    let r = s.select_rows(table, w);
    assert(false); // CANARY
}
fn canary_extract(e: &Expression, schema: &TableSchema)
{
    let r = DeleteExecutor::extract_primary_key_lookup_delete(e, schema);
    assert(false); // CANARY
}

}
fn main() {}
'''

_AS_REF = ('re', r'\b(\w+)\.as_ref\(\)', r'&**\1', None)
_TY = [('re', r'vibesql_catalog::TableSchema', 'TableSchema', None), ('re', r'vibesql_types::SqlValue', 'SqlValue', None),
       ('re', r'vibesql_storage::Table', 'Table', None), ('re', r'vibesql_storage::Row', 'Row', None), ('re', r'vibesql_ast::WhereClause', 'WhereClause', None), ('re', r'vibesql_ast::Expression', 'Expression', None)]
_EXTRACT_POST = '''
    ensures res matches Some(k) ==> exists|lit: SqlValue| pk_eq(*where_expr, schema, lit) && k@ == seq![lit],
'''
ITEMS = dict(_ast.AST_ITEMS)
ITEMS.update({
    'WhereClause': dict(file='crates/vibesql-ast/src/dml.rs', path='enum WhereClause', rewrites=[('re', r'\bString\b', 'Str', 1)]),
    'delete_extract_primary_key_lookup': dict(
        file='crates/vibesql-executor/src/delete/executor.rs', path='impl DeleteExecutor::fn extract_primary_key_lookup', ret='res',
        rewrites=_TY + [_AS_REF, ('lit', 'use vibesql_ast::{BinaryOperator, Expression};', '', 1),
                        ('lit', 'fn extract_primary_key_lookup(', 'fn extract_primary_key_lookup_delete(', 1),
                        ('re', r'return Some\(vec!\[([^;]*)\]\);', r'let k = vec![\1]; proof { if k@.len() == 1 { assert(k@ =~= seq![k@[0]]); } } return Some(k);', 2)],
        contract=_EXTRACT_POST),
    'update_extract_primary_key_lookup': dict(
        file='crates/vibesql-executor/src/update/row_selector.rs', path="impl<'a> RowSelector<'a>::fn extract_primary_key_lookup", ret='res',
        rewrites=_TY + [_AS_REF, ('lit', 'fn extract_primary_key_lookup(', 'fn extract_primary_key_lookup_update(', 1),
                        ('re', r'return Some\(vec!\[([^;]*)\]\);', r'let k = vec![\1]; proof { if k@.len() == 1 { assert(k@ =~= seq![k@[0]]); } } return Some(k);', 2)],
        contract=_EXTRACT_POST),
    'select_rows': dict(
        file='crates/vibesql-executor/src/update/row_selector.rs', path="impl<'a> RowSelector<'a>::fn select_rows", ret='res',
        rewrites=_TY + [
            ('lit', 'Self::extract_primary_key_lookup(', 'Self::extract_primary_key_lookup_update(', 1),
            ('lit', 'if let Some(&row_index) = pk_index.get(&pk_values) {', 'if let Some(row_index) = pk_get(table, self.schema, pk_index, &pk_values) {', 1),
            ('re', r'vec!\[\(row_index, table\.scan\(\)\[row_index\]\.clone\(\)\)\]', 'single_row(table, row_index)', 1),
        ],
        contract='''
    ensures match res {
        Ok(v) => scan_ok(table, *where_clause) && v@ == scan_rows(table, *where_clause),     // exactly the rows the WHERE clause selects
        Err(_) => !scan_ok(table, *where_clause),
    },
'''),
})

OBLIGATIONS = {
    'extract_primary_key_lookup_delete': ['post:some_only_for_pk_equals_literal', 'safety:no_panic_index_in_bounds'],
    'extract_primary_key_lookup_update': ['post:some_only_for_pk_equals_literal', 'safety:no_panic_index_in_bounds'],
    'select_rows': ['post:selects_exactly_the_rows_the_scan_selects', 'safety:no_panic'],
}
CANARIES = ['canary_select', 'canary_extract']
TRUSTED = list(_ast.AST_TRUSTED) + [
    'external_body TableSchema (get_primary_key_indices, get_column_index), Table (primary_key_index), Row, PkIndex, ExpressionEvaluator, ExecutorError: abstract interfaces',
    'external_body collect_candidate_rows: the table scan is the REFERENCE semantics (uninterpreted scan_ok / scan_rows); its own decision table is unit D-truthy',
    'external_body pk_get (ASSUMPTION hit_is_scan): a hit of the primary-key hash index for the literal of `pkcol = lit` equals the scan result (same-variant structural equality => SQL =, PK uniqueness C10, index mirrors table C15); nothing assumed about a miss',
    'external_body single_row: vec![(i, table.scan()[i].clone())]',
    'R3: x.as_ref() on Box<Expression> rewritten to &**x; the two `return Some(vec![value.clone()])` statements are split into let + return to attach the ghost witness (R9)',
    'the inline fast path inside DeleteExecutor::execute_internal (same logic as select_rows, 150-line function over Database/evaluator/triggers) is NOT under contract',
    'SET expression evaluation, affected-row counts, INSERT coercion are not under contract',
]
