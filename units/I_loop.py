NAME = 'I-loop'
PROPERTIES = ['C15', 'C02']
ENGINE = 'verus'
CLASS = 'U'
DOC = ('IndexManager::{add_to_indexes_for_insert, update_indexes_for_update, rebuild_indexes} (storage database/indexes/index_maintenance.rs) and check_unique_constraints_for_insert (index_manager.rs: a row is accepted iff NO in-memory UNIQUE index of the table already holds its NULL-free key), the loops over the registry of '
       'user-defined (CREATE INDEX) indexes: EVERY index registered for the table receives the per-index step - with the key built from ITS columns of the row(s) '
       'handed in, at the position handed in (update: only when old and new key differ) - and the data of every other index is left as it was. The two pieces inside the loop body '
       '- the key-building closure and the `match index_data` step - are verified on their own in unit I-maint and are elided here (R6b), replaced by calls with the contracts proved there.')

TEMPLATE = r'''
use vstd::prelude::*;
verus! {

#[verifier::external_body] pub struct SqlValue { v: u8 }
#[verifier::external_body] pub struct Str { s: u8 }
impl View for Str { type V = Seq<char>; uninterp spec fn view(&self) -> Seq<char>; }
pub type Key = Seq<SqlValue>;
pub type Ix = Map<Key, Seq<usize>>;
pub struct Row { pub values: Vec<SqlValue> }
pub struct IndexColumn { pub column_name: Str, pub prefix_length: Option<u64> }
#[verifier::external_body] pub struct TableSchema { t: u8 }
pub struct IndexMetadata { pub index_name: Str, pub table_name: Str, pub unique: bool, pub columns: Vec<IndexColumn> }

// `metadata.table_name == table_name` (String == &str)
#[verifier::external_body] fn str_eq(a: &Str, b: &str) -> (r: bool) ensures r == (a@ == b@) { unimplemented!() }
#[verifier::external_body] fn key_ne(a: &Vec<SqlValue>, b: &Vec<SqlValue>) -> (r: bool) ensures r == (a@ != b@) { unimplemented!() }
pub uninterp spec fn is_null(v: SqlValue) -> bool;
pub open spec fn key_has_null(k: Key) -> bool { exists|j: int| 0 <= j < k.len() && is_null(#[trigger] k[j]) }
// key_values.contains(&SqlValue::Null)
#[verifier::external_body] fn has_null(k: &Vec<SqlValue>) -> (r: bool) ensures r == key_has_null(k@) { unimplemented!() }
#[verifier::external_body] pub struct StorageError { e: u8 }

/// the key component an index column contributes for a row (unit I-maint: key_part = named column, prefix-truncated, normalized)
pub uninterp spec fn key_part(col: IndexColumn, schema: &TableSchema, row: Row) -> SqlValue;
/// the indexed column exists in the table and the row has a value for it (unit I-maint: col_ok)
pub uninterp spec fn col_ok(col: IndexColumn, schema: &TableSchema, row: Row) -> bool;
pub open spec fn cols_ok(cols: Seq<IndexColumn>, schema: &TableSchema, row: Row) -> bool { forall|j: int| 0 <= j < cols.len() ==> col_ok(#[trigger] cols[j], schema, row) }
/// the index key of a row: one component per index column, in definition order
pub open spec fn key_of(cols: Seq<IndexColumn>, schema: &TableSchema, row: Row) -> Key { Seq::new(cols.len(), |j: int| key_part(cols[j], schema, row)) }
// metadata.columns.iter().map(<the key closure of unit I-maint>).collect()
#[verifier::external_body]
fn build_key(cols: &Vec<IndexColumn>, schema: &TableSchema, row: &Row) -> (r: Vec<SqlValue>)
    requires cols_ok(cols@, schema, *row),          // the closure panics on a missing column (Option::expect)
    ensures r@ == key_of(cols@, schema, *row)
{ unimplemented!() }

pub open spec fn without_pos(l: Seq<usize>, p: usize) -> Seq<usize> { l.filter(|x: usize| x != p) }
pub open spec fn ix_without(m: Ix, k: Key, p: usize) -> Ix {
    if m.dom().contains(k) { let l = without_pos(m[k], p); if l.len() == 0 { m.remove(k) } else { m.insert(k, l) } } else { m }
}
pub open spec fn ix_with(m: Ix, k: Key, p: usize) -> Ix { m.insert(k, (if m.dom().contains(k) { m[k] } else { Seq::empty() }).push(p)) }

// HashMap<String, IndexMetadata>: the registry as the list of its entries (iteration order: any; names distinct)
#[verifier::external_body] pub struct Registry { r: u8 }
impl Registry {
    pub uninterp spec fn entries(&self) -> Seq<(Str, IndexMetadata)>;
    pub open spec fn wf(&self) -> bool { forall|i: int, j: int| 0 <= i < j < self.entries().len() ==> self.entries()[i].0@ != self.entries()[j].0@ }
    #[verifier::external_body] pub fn len_(&self) -> (r: usize) ensures r == self.entries().len() { unimplemented!() }
    #[verifier::external_body] pub fn name_at(&self, i: usize) -> (r: &Str) requires i < self.entries().len(), ensures *r == self.entries()[i as int].0 { unimplemented!() }
    #[verifier::external_body] pub fn meta_at(&self, i: usize) -> (r: &IndexMetadata) requires i < self.entries().len(), ensures *r == self.entries()[i as int].1 { unimplemented!() }
    // self.indexes.get(&index_name)
    #[verifier::external_body] pub fn get(&self, n: &Str) -> (r: Option<&IndexMetadata>)
        ensures r matches Some(md) ==> exists|i: int| 0 <= i < self.entries().len() && (#[trigger] self.entries()[i]).0@ == n@ && self.entries()[i].1 == *md,
                r is None ==> !named(self.entries(), n@)
    { unimplemented!() }
    // self.indexes.iter().filter(|(_, metadata)| metadata.table_name == table_name).map(|(name, _)| name.clone()).collect::<Vec<String>>()
    #[verifier::external_body] pub fn names_for_table(&self, t: &str) -> (r: Vec<Str>)
        ensures forall|x: Seq<char>| #![trigger for_table(self.entries(), t@, x)] for_table(self.entries(), t@, x) <==> exists|k: int| 0 <= k < r@.len() && (#[trigger] r@[k])@ == x,
                forall|a: int, b: int| 0 <= a < b < r@.len() ==> r@[a]@ != r@[b]@
    { unimplemented!() }
}
/// an index of that name is registered for table t
pub open spec fn for_table(entries: Seq<(Str, IndexMetadata)>, t: Seq<char>, x: Seq<char>) -> bool {
    exists|i: int| 0 <= i < entries.len() && (#[trigger] entries[i]).0@ == x && entries[i].1.table_name@ == t
}
/// THE MIRROR for a user-defined index (unit I-maint: umirror over the key sequence of the rows)
pub uninterp spec fn umirror(m: Ix, keys: Seq<Key>) -> bool;
pub open spec fn keys_of(cols: Seq<IndexColumn>, schema: &TableSchema, rows: Seq<Row>) -> Seq<Key> { Seq::new(rows.len(), |j: int| key_of(cols, schema, rows[j])) }
// HashMap<String, IndexData>: per index name, the key -> positions map when the index is held in memory (None: no data under that name, or disk-backed)
#[verifier::external_body] pub struct DataMap { d: u8 }
impl DataMap {
    pub uninterp spec fn has(&self, n: Seq<char>) -> bool;
    pub uninterp spec fn mem(&self, n: Seq<char>) -> Option<Ix>;
    // self.index_data.get_mut(index_name) is Some  (R12)
    #[verifier::external_body] pub fn contains_key(&self, n: &Str) -> (r: bool) ensures r == self.has(n@), !r ==> self.mem(n@) is None { unimplemented!() }
    // the `match index_data { .. }` step of add_to_indexes_for_insert on the entry found by get_mut  (its contract: unit I-maint insert_step)
    #[verifier::external_body]
    pub fn insert_step_at(&mut self, n: &Str, metadata: &IndexMetadata, key_values: Vec<SqlValue>, row_index: usize)
        requires old(self).has(n@),
        ensures forall|x: Seq<char>| #![trigger final(self).mem(x)] #![trigger final(self).has(x)] final(self).has(x) == old(self).has(x) && (x != n@ ==> final(self).mem(x) == old(self).mem(x)),
                final(self).mem(n@) == (match old(self).mem(n@) { Some(m) => Some(ix_with(m, key_values@, row_index)), None => None::<Ix> }),
    { unimplemented!() }
    // the `match index_data { .. }` of check_unique_constraints_for_insert with its early returns  (unit I-maint check_step: in memory, refused exactly when the index holds the key)
    #[verifier::external_body]
    pub fn check_step_at(&self, n: &Str, metadata: &IndexMetadata, key_values: Vec<SqlValue>) -> (r: Result<(), StorageError>)
        requires self.has(n@),
        ensures self.mem(n@) matches Some(m) ==> ((r is Err) <==> m.dom().contains(key_values@)),
    { unimplemented!() }
    // the `match index_data { .. }` step of rebuild_indexes  (unit I-maint rebuild_step: whatever was there, the map becomes the mirror of the rows)
    #[verifier::external_body]
    pub fn rebuild_step_at(&mut self, n: &Str, metadata: &IndexMetadata, schema: &TableSchema, rows: &[Row])
        requires old(self).has(n@), forall|j: int| 0 <= j < rows@.len() ==> cols_ok(metadata.columns@, schema, #[trigger] rows@[j]),
        ensures forall|x: Seq<char>| #![trigger final(self).mem(x)] #![trigger final(self).has(x)] final(self).has(x) == old(self).has(x) && (x != n@ ==> final(self).mem(x) == old(self).mem(x)),
                (final(self).mem(n@) is Some) == (old(self).mem(n@) is Some),
                final(self).mem(n@) matches Some(m) ==> umirror(m, keys_of(metadata.columns@, schema, rows@)),
    { unimplemented!() }
    // the `match index_data { .. }` step of update_indexes_for_delete  (unit I-maint delete_step)
    #[verifier::external_body]
    pub fn delete_step_at(&mut self, n: &Str, metadata: &IndexMetadata, key_values: Vec<SqlValue>, row_index: usize)
        requires old(self).has(n@),
        ensures forall|x: Seq<char>| #![trigger final(self).mem(x)] #![trigger final(self).has(x)] final(self).has(x) == old(self).has(x) && (x != n@ ==> final(self).mem(x) == old(self).mem(x)),
                final(self).mem(n@) == (match old(self).mem(n@) { Some(m) => Some(ix_without(m, key_values@, row_index)), None => None::<Ix> }),
    { unimplemented!() }
    // the `match index_data { .. }` step of update_indexes_for_update  (unit I-maint update_step)
    #[verifier::external_body]
    pub fn update_step_at(&mut self, n: &Str, metadata: &IndexMetadata, old_key_values: Vec<SqlValue>, new_key_values: Vec<SqlValue>, row_index: usize)
        requires old(self).has(n@),
        ensures forall|x: Seq<char>| #![trigger final(self).mem(x)] #![trigger final(self).has(x)] final(self).has(x) == old(self).has(x) && (x != n@ ==> final(self).mem(x) == old(self).mem(x)),
                final(self).mem(n@) == (match old(self).mem(n@) { Some(m) => Some(ix_with(ix_without(m, old_key_values@, row_index), new_key_values@, row_index)), None => None::<Ix> }),
    { unimplemented!() }
}
pub struct IndexManager { pub indexes: Registry, pub index_data: DataMap }

/// what the insert maintenance does to the in-memory data of entry i of the registry
pub open spec fn ins_effect(e: (Str, IndexMetadata), t: Seq<char>, schema: &TableSchema, row: Row, p: usize, before: Option<Ix>) -> Option<Ix> {
    match before { Some(m) => if e.1.table_name@ == t { Some(ix_with(m, key_of(e.1.columns@, schema, row), p)) } else { Some(m) }, None => None }
}
pub open spec fn del_effect(e: (Str, IndexMetadata), t: Seq<char>, schema: &TableSchema, row: Row, p: usize, before: Option<Ix>) -> Option<Ix> {
    match before { Some(m) => if e.1.table_name@ == t { Some(ix_without(m, key_of(e.1.columns@, schema, row), p)) } else { Some(m) }, None => None }
}
pub open spec fn upd_effect(e: (Str, IndexMetadata), t: Seq<char>, schema: &TableSchema, old_row: Row, new_row: Row, p: usize, before: Option<Ix>) -> Option<Ix> {
    match before {
        Some(m) => if e.1.table_name@ == t && key_of(e.1.columns@, schema, old_row) != key_of(e.1.columns@, schema, new_row) {
                       Some(ix_with(ix_without(m, key_of(e.1.columns@, schema, old_row), p), key_of(e.1.columns@, schema, new_row), p))
                   } else { Some(m) },
        None => None }
}
/// index entry e refuses the row: it is a UNIQUE in-memory index of the table that already holds the row's (NULL-free) key
pub open spec fn refuses(e: (Str, IndexMetadata), t: Seq<char>, schema: &TableSchema, row: Row, data: Option<Ix>) -> bool {
    e.1.table_name@ == t && e.1.unique && !key_has_null(key_of(e.1.columns@, schema, row)) && (data matches Some(m) && m.dom().contains(key_of(e.1.columns@, schema, row)))
}
pub open spec fn named(entries: Seq<(Str, IndexMetadata)>, x: Seq<char>) -> bool { exists|i: int| 0 <= i < entries.len() && (#[trigger] entries[i]).0@ == x }

impl IndexManager {
//@@ add_to_indexes_for_insert

//@@ update_indexes_for_update

//@@ update_indexes_for_delete

//@@ rebuild_indexes

//@@ check_unique_constraints_for_insert
}

fn canary_insert(im: &mut IndexManager, t: &str, s: &TableSchema, row: &Row, p: usize)
    requires old(im).indexes.wf(), forall|i: int| 0 <= i < old(im).indexes.entries().len() ==> cols_ok((#[trigger] old(im).indexes.entries()[i]).1.columns@, s, *row),
{
    im.add_to_indexes_for_insert(t, s, row, p);
    assert(false); // CANARY
}

}
fn main() {}
'''

_F = 'crates/vibesql-storage/src/database/indexes/index_maintenance.rs'
_RW = [
    ('re', r'vibesql_catalog::TableSchema', 'TableSchema', None),
    # R10: iteration over the registry HashMap, as an index loop over its entry list
    ('re', r'for \(index_name, metadata\) in &self\.indexes \{', 'let mut ri__: usize = 0; while ri__ < self.indexes.len_() { let index_name = self.indexes.name_at(ri__); let metadata = self.indexes.meta_at(ri__); ri__ = ri__ + 1;', 1),
    ('re', r'metadata\.table_name == table_name', 'str_eq(&metadata.table_name, table_name)', 1),
    # R12: the `&mut IndexData` found by get_mut is used by the (elided) step only
    ('re', r'if let Some\(index_data\) = self\.index_data\.get_mut\(index_name\) \{', 'if self.index_data.contains_key(index_name) {', 1),
    ('re', r'(?s)metadata\s*\.columns\s*\.iter\(\)\s*\.map\(KEY_OF__(\w+)\)\s*\.collect\(\)', r'build_key(&metadata.columns, table_schema, \1)', None),
    ('re', r'\bold_key_values != new_key_values\b', 'key_ne(&old_key_values, &new_key_values)', None),
]
_INV_COMMON = '''
                ri__ <= self.indexes.entries().len(), self.indexes == old(self).indexes, self.indexes.wf(),
                forall|x: Seq<char>| #![trigger self.index_data.has(x)] self.index_data.has(x) == old(self).index_data.has(x),
                forall|x: Seq<char>| #![trigger self.index_data.mem(x)] !named(self.indexes.entries(), x) ==> self.index_data.mem(x) == old(self).index_data.mem(x),
'''
ITEMS = {
    'add_to_indexes_for_insert': dict(
        file=_F, path='impl IndexManager::fn add_to_indexes_for_insert',
        elide=[dict(kind='closure', index=0, expect_params='col', to='KEY_OF__row'),
               dict(kind='match', index=0, expect_scrutinee='index_data', to='self.index_data.insert_step_at(index_name, metadata, key_values, row_index);')],
        rewrites=_RW,
        loops={0: '''
            invariant''' + _INV_COMMON + '''
                forall|i: int| 0 <= i < self.indexes.entries().len() ==> cols_ok((#[trigger] self.indexes.entries()[i]).1.columns@, table_schema, *row),
                forall|i: int| #![trigger self.indexes.entries()[i]] 0 <= i < self.indexes.entries().len() ==> self.index_data.mem(self.indexes.entries()[i].0@) ==
                    (if i < ri__ { ins_effect(self.indexes.entries()[i], table_name@, table_schema, *row, row_index, old(self).index_data.mem(self.indexes.entries()[i].0@)) }
                     else { old(self).index_data.mem(self.indexes.entries()[i].0@) }),
            decreases self.indexes.entries().len() - ri__,
'''},
        contract='''
        requires old(self).indexes.wf(),
                 forall|i: int| 0 <= i < old(self).indexes.entries().len() ==> cols_ok((#[trigger] old(self).indexes.entries()[i]).1.columns@, table_schema, *row),
        ensures
            final(self).indexes == old(self).indexes,
            // EVERY index registered for the table gets the insert step with ITS key of the row at the position handed in; nothing else changes
            forall|i: int| #![trigger old(self).indexes.entries()[i]] 0 <= i < old(self).indexes.entries().len() ==> final(self).index_data.mem(old(self).indexes.entries()[i].0@) ==
                ins_effect(old(self).indexes.entries()[i], table_name@, table_schema, *row, row_index, old(self).index_data.mem(old(self).indexes.entries()[i].0@)),
            forall|x: Seq<char>| #![trigger final(self).index_data.mem(x)] !named(old(self).indexes.entries(), x) ==> final(self).index_data.mem(x) == old(self).index_data.mem(x),
'''),
    'update_indexes_for_update': dict(
        file=_F, path='impl IndexManager::fn update_indexes_for_update',
        elide=[dict(kind='closure', index=0, expect_params='col', to='KEY_OF__old_row'), dict(kind='closure', index=1, expect_params='col', to='KEY_OF__new_row'),
               dict(kind='match', index=0, expect_scrutinee='index_data', to='self.index_data.update_step_at(index_name, metadata, old_key_values, new_key_values, row_index);')],
        rewrites=_RW,
        loops={0: '''
            invariant''' + _INV_COMMON + '''
                forall|i: int| 0 <= i < self.indexes.entries().len() ==> cols_ok((#[trigger] self.indexes.entries()[i]).1.columns@, table_schema, *old_row) && cols_ok(self.indexes.entries()[i].1.columns@, table_schema, *new_row),
                forall|i: int| #![trigger self.indexes.entries()[i]] 0 <= i < self.indexes.entries().len() ==> self.index_data.mem(self.indexes.entries()[i].0@) ==
                    (if i < ri__ { upd_effect(self.indexes.entries()[i], table_name@, table_schema, *old_row, *new_row, row_index, old(self).index_data.mem(self.indexes.entries()[i].0@)) }
                     else { old(self).index_data.mem(self.indexes.entries()[i].0@) }),
            decreases self.indexes.entries().len() - ri__,
'''},
        contract='''
        requires old(self).indexes.wf(),
                 forall|i: int| 0 <= i < old(self).indexes.entries().len() ==> cols_ok((#[trigger] old(self).indexes.entries()[i]).1.columns@, table_schema, *old_row) && cols_ok(old(self).indexes.entries()[i].1.columns@, table_schema, *new_row),
        ensures
            final(self).indexes == old(self).indexes,
            // EVERY index registered for the table whose key changes gets the update step (old key of the OLD row out, new key of the NEW row in, at the position handed in); nothing else changes
            forall|i: int| #![trigger old(self).indexes.entries()[i]] 0 <= i < old(self).indexes.entries().len() ==> final(self).index_data.mem(old(self).indexes.entries()[i].0@) ==
                upd_effect(old(self).indexes.entries()[i], table_name@, table_schema, *old_row, *new_row, row_index, old(self).index_data.mem(old(self).indexes.entries()[i].0@)),
            forall|x: Seq<char>| #![trigger final(self).index_data.mem(x)] !named(old(self).indexes.entries(), x) ==> final(self).index_data.mem(x) == old(self).index_data.mem(x),
'''),
}
ITEMS['update_indexes_for_delete'] = dict(
        file=_F, path='impl IndexManager::fn update_indexes_for_delete',
        elide=[dict(kind='closure', index=0, expect_params='col', to='KEY_OF__row'),
               dict(kind='match', index=0, expect_scrutinee='index_data', to='self.index_data.delete_step_at(index_name, metadata, key_values, row_index);')],
        rewrites=_RW,
        loops={0: '''
            invariant''' + _INV_COMMON + '''
                forall|i: int| 0 <= i < self.indexes.entries().len() ==> cols_ok((#[trigger] self.indexes.entries()[i]).1.columns@, table_schema, *row),
                forall|i: int| #![trigger self.indexes.entries()[i]] 0 <= i < self.indexes.entries().len() ==> self.index_data.mem(self.indexes.entries()[i].0@) ==
                    (if i < ri__ { del_effect(self.indexes.entries()[i], table_name@, table_schema, *row, row_index, old(self).index_data.mem(self.indexes.entries()[i].0@)) }
                     else { old(self).index_data.mem(self.indexes.entries()[i].0@) }),
            decreases self.indexes.entries().len() - ri__,
'''},
        contract='''
        requires old(self).indexes.wf(),
                 forall|i: int| 0 <= i < old(self).indexes.entries().len() ==> cols_ok((#[trigger] old(self).indexes.entries()[i]).1.columns@, table_schema, *row),
        ensures
            final(self).indexes == old(self).indexes,
            // EVERY index registered for the table loses the position under ITS key of the row (no other position is adjusted: a removal that shifts rows needs the rebuild); nothing else changes
            forall|i: int| #![trigger old(self).indexes.entries()[i]] 0 <= i < old(self).indexes.entries().len() ==> final(self).index_data.mem(old(self).indexes.entries()[i].0@) ==
                del_effect(old(self).indexes.entries()[i], table_name@, table_schema, *row, row_index, old(self).index_data.mem(old(self).indexes.entries()[i].0@)),
            forall|x: Seq<char>| #![trigger final(self).index_data.mem(x)] !named(old(self).indexes.entries(), x) ==> final(self).index_data.mem(x) == old(self).index_data.mem(x),
''')
ITEMS['rebuild_indexes'] = dict(
        file=_F, path='impl IndexManager::fn rebuild_indexes',
        elide=[dict(kind='match', index=0, expect_scrutinee='index_data', to='self.index_data.rebuild_step_at(&index_name, metadata, table_schema, table_rows);')],
        rewrites=[
            ('re', r'vibesql_catalog::TableSchema', 'TableSchema', None),
            ('re', r'(?s)let indexes_to_rebuild: Vec<String> = self\s*\.indexes\s*\.iter\(\)\s*\.filter\(\|\(_, metadata\)\| metadata\.table_name == table_name\)\s*\.map\(\|\(name, _\)\| name\.clone\(\)\)\s*\.collect\(\);',
             'let indexes_to_rebuild: Vec<Str> = self.indexes.names_for_table(table_name);', 1),
            ('re', r'for index_name in indexes_to_rebuild \{', 'let mut ni__: usize = 0; while ni__ < indexes_to_rebuild.len() { let index_name = &indexes_to_rebuild[ni__]; ni__ = ni__ + 1;', 1),
            ('re', r'if let Some\(index_data\) = self\.index_data\.get_mut\(&index_name\) \{', 'if self.index_data.contains_key(&index_name) {', 1),
        ],
        loops={0: '''
            invariant
                ni__ <= indexes_to_rebuild@.len(), self.indexes == old(self).indexes, self.indexes.wf(),
                forall|x: Seq<char>| #![trigger for_table(self.indexes.entries(), table_name@, x)] for_table(self.indexes.entries(), table_name@, x) <==> exists|k: int| 0 <= k < indexes_to_rebuild@.len() && (#[trigger] indexes_to_rebuild@[k])@ == x,
                forall|a: int, b: int| 0 <= a < b < indexes_to_rebuild@.len() ==> indexes_to_rebuild@[a]@ != indexes_to_rebuild@[b]@,
                forall|i: int, j: int| 0 <= i < self.indexes.entries().len() && 0 <= j < table_rows@.len() ==> cols_ok((#[trigger] self.indexes.entries()[i]).1.columns@, table_schema, #[trigger] table_rows@[j]),
                forall|x: Seq<char>| #![trigger self.index_data.has(x)] self.index_data.has(x) == old(self).index_data.has(x),
                forall|x: Seq<char>| #![trigger self.index_data.mem(x)] (self.index_data.mem(x) is Some) == (old(self).index_data.mem(x) is Some),
                // names not (yet) visited: data as it was
                forall|x: Seq<char>| #![trigger self.index_data.mem(x)] !(exists|k: int| 0 <= k < ni__ && (#[trigger] indexes_to_rebuild@[k])@ == x) ==> self.index_data.mem(x) == old(self).index_data.mem(x),
                // names visited: the mirror of the rows under the columns of THAT index
                forall|k: int, i: int| #![trigger indexes_to_rebuild@[k], self.indexes.entries()[i]] 0 <= k < ni__ && 0 <= i < self.indexes.entries().len() && self.indexes.entries()[i].0@ == indexes_to_rebuild@[k]@
                    ==> (self.index_data.mem(indexes_to_rebuild@[k]@) matches Some(m) ==> umirror(m, keys_of(self.indexes.entries()[i].1.columns@, table_schema, table_rows@))),
            decreases indexes_to_rebuild@.len() - ni__,
'''},
        proofs=[('@afterloop0', '''proof {
            assert forall|i: int| #![trigger self.indexes.entries()[i]] 0 <= i < self.indexes.entries().len() && self.indexes.entries()[i].1.table_name@ == table_name@
                implies (self.index_data.mem(self.indexes.entries()[i].0@) matches Some(m) ==> umirror(m, keys_of(self.indexes.entries()[i].1.columns@, table_schema, table_rows@))) by {
                let x = self.indexes.entries()[i].0@;
                assert(for_table(self.indexes.entries(), table_name@, x));
                let k = choose|k: int| 0 <= k < indexes_to_rebuild@.len() && (#[trigger] indexes_to_rebuild@[k])@ == x;
                assert(indexes_to_rebuild@[k]@ == x);
            }
            assert forall|x: Seq<char>| #![trigger self.index_data.mem(x)] !for_table(self.indexes.entries(), table_name@, x) implies self.index_data.mem(x) == old(self).index_data.mem(x) by {
                if exists|k: int| 0 <= k < ni__ && (#[trigger] indexes_to_rebuild@[k])@ == x { let k = choose|k: int| 0 <= k < ni__ && (#[trigger] indexes_to_rebuild@[k])@ == x; assert(for_table(self.indexes.entries(), table_name@, x)); }
            }
        }''')],
        contract='''
        requires old(self).indexes.wf(),
                 forall|i: int, j: int| 0 <= i < old(self).indexes.entries().len() && 0 <= j < table_rows@.len() ==> cols_ok((#[trigger] old(self).indexes.entries()[i]).1.columns@, table_schema, #[trigger] table_rows@[j]),
        ensures
            final(self).indexes == old(self).indexes,
            // EVERY in-memory index registered for the table ends as the mirror of the rows handed in, under ITS columns; the data of every other index is as it was
            forall|i: int| #![trigger old(self).indexes.entries()[i]] 0 <= i < old(self).indexes.entries().len() && old(self).indexes.entries()[i].1.table_name@ == table_name@
                ==> (final(self).index_data.mem(old(self).indexes.entries()[i].0@) is Some) == (old(self).index_data.mem(old(self).indexes.entries()[i].0@) is Some)
                    && (final(self).index_data.mem(old(self).indexes.entries()[i].0@) matches Some(m) ==> umirror(m, keys_of(old(self).indexes.entries()[i].1.columns@, table_schema, table_rows@))),
            forall|x: Seq<char>| #![trigger final(self).index_data.mem(x)] !for_table(old(self).indexes.entries(), table_name@, x) ==> final(self).index_data.mem(x) == old(self).index_data.mem(x),
''')

OBLIGATIONS = {
    'add_to_indexes_for_insert': ['post:every_index_of_the_table_gets_the_insert_step_with_its_key__others_untouched', 'proof:loop_invariant_and_termination', 'safety:key_columns_exist'],
    'update_indexes_for_update': ['post:every_index_of_the_table_whose_key_changes_gets_the_update_step__others_untouched', 'proof:loop_invariant_and_termination', 'safety:key_columns_exist'],
}
ITEMS['check_unique_constraints_for_insert'] = dict(
        file='crates/vibesql-storage/src/database/indexes/index_manager.rs', path='impl IndexManager::fn check_unique_constraints_for_insert', ret='res',
        elide=[dict(kind='closure', index=0, expect_params='col', to='KEY_OF__row'),
               dict(kind='match', index=0, expect_scrutinee='index_data', to='self.index_data.check_step_at(index_name, metadata, key_values)?;')],
        rewrites=[r for r in _RW if 'get_mut' not in r[1]] + [
            ('re', r'if let Some\(index_data\) = self\.index_data\.get\(index_name\) \{', 'if self.index_data.contains_key(index_name) {', 1),
            ('re', r'key_values\.contains\(&SqlValue::Null\)', 'has_null(&key_values)', 1),
        ],
        loops={0: '''
            invariant
                ri__ <= self.indexes.entries().len(),
                forall|i: int| 0 <= i < self.indexes.entries().len() ==> cols_ok((#[trigger] self.indexes.entries()[i]).1.columns@, table_schema, *row),
                // no index visited so far refuses the row
                forall|i: int| #![trigger self.indexes.entries()[i]] 0 <= i < ri__ ==> !refuses(self.indexes.entries()[i], table_name@, table_schema, *row, self.index_data.mem(self.indexes.entries()[i].0@)),
            decreases self.indexes.entries().len() - ri__,
'''},
        contract='''
        requires forall|i: int| 0 <= i < self.indexes.entries().len() ==> cols_ok((#[trigger] self.indexes.entries()[i]).1.columns@, table_schema, *row),
        ensures
            // accepted => NO in-memory UNIQUE index of the table already holds the row's key (NULL-holding keys never collide)
            res is Ok ==> forall|i: int| #![trigger self.indexes.entries()[i]] 0 <= i < self.indexes.entries().len()
                ==> !refuses(self.indexes.entries()[i], table_name@, table_schema, *row, self.index_data.mem(self.indexes.entries()[i].0@)),
            // refused => some UNIQUE index of the table with a NULL-free key for the row refused it: in memory it holds that key (a disk-backed one is not under contract)
            res is Err ==> exists|i: int| #![trigger self.indexes.entries()[i]] 0 <= i < self.indexes.entries().len() && self.indexes.entries()[i].1.table_name@ == table_name@ && self.indexes.entries()[i].1.unique
                && !key_has_null(key_of(self.indexes.entries()[i].1.columns@, table_schema, *row))
                && (self.index_data.mem(self.indexes.entries()[i].0@) is Some ==> refuses(self.indexes.entries()[i], table_name@, table_schema, *row, self.index_data.mem(self.indexes.entries()[i].0@))),
''')
OBLIGATIONS['update_indexes_for_delete'] = ['post:every_index_of_the_table_loses_the_position_under_its_key__others_untouched', 'proof:loop_invariant_and_termination', 'safety:key_columns_exist']
OBLIGATIONS['rebuild_indexes'] = ['post:every_in_memory_index_of_the_table_ends_as_the_mirror_of_the_rows__others_untouched', 'proof:loop_invariant_and_termination']
OBLIGATIONS['check_unique_constraints_for_insert'] = ['post:accepted_iff_no_in_memory_unique_index_of_the_table_holds_the_rows_key', 'proof:loop_invariant_and_termination', 'safety:key_columns_exist']
CANARIES = ['canary_insert']
TRUSTED = [
    'R6b (elide): the key-building closures `|col| { .. }` and the `match index_data { .. }` step inside the loop bodies are replaced by calls - build_key (`metadata.columns.iter().map(closure).collect()`: ASSUMED one component per index column in definition order, each the closure applied to that column; the closure itself: unit I-maint key_insert / key_update_old / key_update_new) and DataMap::insert_step_at / update_step_at (external_body with the contracts PROVED for the lifted steps in unit I-maint, applied to the entry `get_mut(index_name)` finds - R12); located by the same token rule that lifts them there',
    'external_body Registry (HashMap<String, IndexMetadata> as the list of its entries, names distinct, visited in list order - any order: len_, name_at, meta_at, get, names_for_table = `iter().filter(|(_, m)| m.table_name == table_name).map(|(n, _)| n.clone()).collect()` ASSUMED to return exactly the names registered for the table, each once), DataMap (contains_key, insert_step_at, update_step_at, delete_step_at, rebuild_step_at, check_step_at; (HashMap<String, IndexData>: has = an entry exists, mem = its key -> positions map when held in memory); the disk-backed arm is opaque (mem = None)',
    'external_body str_eq (`String == &str`), key_ne (`Vec<SqlValue> != Vec<SqlValue>`); key_part / col_ok uninterpreted here (defined in unit I-maint); SqlValue, Str, TableSchema, StorageError opaque; Row / IndexColumn / IndexMetadata / IndexManager reduced to the fields read',
    'precondition: every registered index has columns that exist in the schema and in the row (Option::expect in the closure panics otherwise): established by CREATE INDEX validation, not here',
    'check_unique_constraints_for_insert: has_null (`key_values.contains(&SqlValue::Null)`, is_null uninterpreted); a refusal by a disk-backed index or a failed lock is allowed by the contract (Err only requires a UNIQUE index of the table with a NULL-free key)',
    'the manager-level create_index (registration, backend choice; its uniqueness check and in-memory build: units K-uqcreate, I-maint create_build) and drop_index are not under contract here',
]
