NAME = 'S-cmp-orderby'
PROPERTIES = ['C08']
ENGINE = 'verus'
CLASS = 'U'
AUTO_HELPERS = True
DOC = ('the ORDER BY comparators (closure #0 of apply_order_by and closure #0 of apply_order_by_to_aggregates - ORDER BY after aggregation -, lifted mechanically): lexicographic over the key list, NULLs after every '
       'non-NULL for ASC and DESC, DESC reverses only non-NULL comparisons; given a total preorder on values it is a total preorder')

TEMPLATE = r'''
use vstd::prelude::*;
verus! {

// std::cmp::Ordering as a preamble type with the same three variants (R2; reverse() as documented)
#[derive(PartialEq, Eq, Structural)]
pub enum Ordering { Less, Equal, Greater }
pub open spec fn rev(o: Ordering) -> Ordering {
    match o { Ordering::Less => Ordering::Greater, Ordering::Equal => Ordering::Equal, Ordering::Greater => Ordering::Less }
}
impl Ordering {
    pub fn reverse(self) -> (r: Ordering) ensures r == rev(self)
    { match self { Ordering::Less => Ordering::Greater, Ordering::Equal => Ordering::Equal, Ordering::Greater => Ordering::Less } }
}
pub enum OrderDirection { Asc, Desc }

// SqlValue: NULL or an opaque non-NULL payload (the comparator only asks is_null and delegates to compare_sql_values)
#[verifier::external_body] pub struct Val { v: i64 }
pub enum SqlValue { Null, V(Val) }
impl SqlValue {
    pub open spec fn is_null_spec(&self) -> bool { *self is Null }
    #[verifier::when_used_as_spec(is_null_spec)]
    pub fn is_null(&self) -> (r: bool) ensures r == (*self is Null) { matches!(self, SqlValue::Null) }
}

// compare_sql_values (select/grouping/aggregates.rs) as an uninterpreted function: its own laws are the S-cmpsort unit
pub uninterp spec fn cmp_spec(a: SqlValue, b: SqlValue) -> Ordering;
#[verifier::external_body]
#[verifier::when_used_as_spec(cmp_ref_spec)]
fn compare_sql_values(a: &SqlValue, b: &SqlValue) -> (r: Ordering) ensures r == cmp_spec(*a, *b) { unimplemented!() }
pub open spec fn cmp_ref_spec(a: &SqlValue, b: &SqlValue) -> Ordering { cmp_spec(*a, *b) }

// ---------------- specification taken from the property: "NULLs placed last", ASC/DESC, lexicographic --------------------
pub open spec fn key_cmp(a: SqlValue, d: OrderDirection, b: SqlValue) -> Ordering {
    if a is Null && b is Null { Ordering::Equal }
    else if a is Null { Ordering::Greater }
    else if b is Null { Ordering::Less }
    else { match d { OrderDirection::Asc => cmp_spec(a, b), OrderDirection::Desc => rev(cmp_spec(a, b)) } }
}
pub open spec fn minlen(ka: Seq<(SqlValue, OrderDirection)>, kb: Seq<(SqlValue, OrderDirection)>) -> int {
    if ka.len() < kb.len() { ka.len() as int } else { kb.len() as int }
}
pub open spec fn lex(ka: Seq<(SqlValue, OrderDirection)>, kb: Seq<(SqlValue, OrderDirection)>, i: int) -> Ordering
    decreases minlen(ka, kb) - i
{
    if i < 0 || i >= minlen(ka, kb) { Ordering::Equal }
    else if key_cmp(ka[i].0, ka[i].1, kb[i].0) != Ordering::Equal { key_cmp(ka[i].0, ka[i].1, kb[i].0) }
    else { lex(ka, kb, i + 1) }
}

//@@auto-helpers

//@@ comparison_fn

//@@ agg_comparison_fn

// ---------------- consequences over the contract: a total preorder, given that compare_sql_values is one ----------------
pub open spec fn val_total_preorder() -> bool {
    &&& forall|a: SqlValue, b: SqlValue| #[trigger] cmp_spec(a, b) == rev(cmp_spec(b, a))
    &&& forall|a: SqlValue, b: SqlValue, c: SqlValue| (#[trigger] cmp_spec(a, b) != Ordering::Greater && #[trigger] cmp_spec(b, c) != Ordering::Greater) ==> cmp_spec(a, c) != Ordering::Greater
}
proof fn lemma_key_cmp_antisymmetric(a: SqlValue, d: OrderDirection, b: SqlValue)
    requires val_total_preorder()
    ensures key_cmp(a, d, b) == rev(key_cmp(b, d, a))
{
    assert(cmp_spec(a, b) == rev(cmp_spec(b, a)));
}
proof fn lemma_lex_antisymmetric(ka: Seq<(SqlValue, OrderDirection)>, kb: Seq<(SqlValue, OrderDirection)>, i: int)
    requires val_total_preorder(), ka.len() == kb.len(), forall|j: int| 0 <= j < ka.len() ==> ka[j].1 == kb[j].1, 0 <= i
    ensures lex(ka, kb, i) == rev(lex(kb, ka, i))
    decreases minlen(ka, kb) - i
{
    if i < minlen(ka, kb) {
        lemma_key_cmp_antisymmetric(ka[i].0, ka[i].1, kb[i].0);
        lemma_lex_antisymmetric(ka, kb, i + 1);
    }
}

fn canary_comparison_fn(keys_a: &Option<Vec<(SqlValue, OrderDirection)>>, keys_b: &Option<Vec<(SqlValue, OrderDirection)>>)
    requires keys_a is Some, keys_b is Some
{
    let r = comparison_fn(keys_a, keys_b);
    assert(false); // CANARY
}

}
fn main() {}
'''

GLOBAL_REWRITES = [
    ('re', r'vibesql_types::SqlValue', 'SqlValue', None),
    ('re', r'vibesql_ast::OrderDirection', 'OrderDirection', None),
]

ITEMS = {
    'comparison_fn': dict(
        file='crates/vibesql-executor/src/select/order.rs',
        path='fn apply_order_by',
        fragment=dict(kind='closure', index=0,
                      expect_params='(_, keys_a): &RowWithSortKeys, (_, keys_b): &RowWithSortKeys',
                      sig='#[verifier::loop_isolation(false)]\nfn comparison_fn(keys_a: &Option<Vec<(SqlValue, OrderDirection)>>, keys_b: &Option<Vec<(SqlValue, OrderDirection)>>) -> Ordering'),
        ret='r',
        rewrites=GLOBAL_REWRITES + [
            # R8: `for (p, q) in a.iter().zip(b.iter())` -> index loop to the shorter length with the same element bindings
            ('lit', 'for ((val_a, dir), (val_b, _)) in keys_a.iter().zip(keys_b.iter()) {',
             'let n = if keys_a.len() < keys_b.len() { keys_a.len() } else { keys_b.len() };\n'
             '        for i in 0..n {\n'
             '            let (val_a, dir) = (&keys_a[i].0, &keys_a[i].1);\n'
             '            let val_b = &keys_b[i].0;', 1),
        ],
        proofs=[('@loop0',
                 'proof { assert(lex(keys_a@, keys_b@, i as int) == (if key_cmp(keys_a@[i as int].0, keys_a@[i as int].1, keys_b@[i as int].0) != Ordering::Equal { key_cmp(keys_a@[i as int].0, keys_a@[i as int].1, keys_b@[i as int].0) } else { lex(keys_a@, keys_b@, i as int + 1) })); }')],
        loops={0: '''
            invariant
                n == minlen(keys_a@, keys_b@),
                lex(keys_a@, keys_b@, 0) == lex(keys_a@, keys_b@, i as int),
'''},
        contract='''
    requires keys_a is Some, keys_b is Some,   // established by apply_order_by: `*sort_keys = Some(keys)` for every row before sorting
    ensures r == lex(keys_a.unwrap()@, keys_b.unwrap()@, 0),
''',
    ),

    # the comparator of apply_order_by_to_aggregates (ORDER BY after GROUP BY / aggregation): same specification
    'agg_comparison_fn': dict(
        file='crates/vibesql-executor/src/select/executor/aggregation/evaluation/mod.rs',
        path="impl SelectExecutor<'_>::fn apply_order_by_to_aggregates",
        fragment=dict(kind='closure', index=0, expect_params='(_, keys_a), (_, keys_b)',
                      sig='#[verifier::loop_isolation(false)]\nfn agg_comparison_fn(keys_a: &Vec<(SqlValue, OrderDirection)>, keys_b: &Vec<(SqlValue, OrderDirection)>) -> Ordering'),
        ret='r',
        rewrites=GLOBAL_REWRITES + [
            ('re', r'use crate::select::grouping::compare_sql_values;', '', None),
            ('re', r'std::cmp::Ordering', 'Ordering', None),
            ('lit', 'for ((val_a, dir), (val_b, _)) in keys_a.iter().zip(keys_b.iter()) {',
             'let n = if keys_a.len() < keys_b.len() { keys_a.len() } else { keys_b.len() };\n'
             '        for i in 0..n {\n'
             '            let (val_a, dir) = (&keys_a[i].0, &keys_a[i].1);\n'
             '            let val_b = &keys_b[i].0;', 1),
        ],
        proofs=[('@loop0',
                 'proof { assert(lex(keys_a@, keys_b@, i as int) == (if key_cmp(keys_a@[i as int].0, keys_a@[i as int].1, keys_b@[i as int].0) != Ordering::Equal { key_cmp(keys_a@[i as int].0, keys_a@[i as int].1, keys_b@[i as int].0) } else { lex(keys_a@, keys_b@, i as int + 1) })); }')],
        loops={0: '''
            invariant
                n == minlen(keys_a@, keys_b@),
                lex(keys_a@, keys_b@, 0) == lex(keys_a@, keys_b@, i as int),
'''},
        contract='''
    ensures r == lex(keys_a@, keys_b@, 0),
''',
    ),
}

OBLIGATIONS = {
    'comparison_fn': ['post:lexicographic_nulls_last_asc_desc', 'safety:no_panic_index_in_bounds_unwrap_ok', 'proof:loop_invariant'],
    'agg_comparison_fn': ['post:lexicographic_nulls_last_asc_desc_after_aggregation', 'safety:no_panic_index_in_bounds', 'proof:loop_invariant'],
    'lemma_key_cmp_antisymmetric': ['post:key_comparison_antisymmetric'],
    'lemma_lex_antisymmetric': ['post:comparator_antisymmetric'],
}
CANARIES = ['canary_comparison_fn']
TRUSTED = [
    'external_body Val: non-NULL payload opaque',
    'external_body compare_sql_values: uninterpreted cmp_spec (its own laws: unit S-cmpsort / T-laws)',
    'Ordering/OrderDirection/SqlValue: preamble types with the variants the comparator uses (std Ordering::reverse as documented)',
    'R8 rewrite of `for .. in a.iter().zip(b.iter())` to an index loop over the shorter length (std zip semantics assumed)',
    'slice::sort_by / rayon par_sort_by return a sorted permutation given a total preorder (assumed; not under contract)',
    'precondition keys is Some: established by the key-evaluation loop of apply_order_by (call-site fact, not proved)',
]
