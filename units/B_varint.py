NAME = 'B-varint'
PROPERTIES = ['C17']
ENGINE = 'kani'
CLASS = 'C'
CRATE = 'vibesql-storage'
MODULE = 'btree::serialize::verif_kani_varint'
UNWIND = 4
HARNESS_FILE = 'kani/storage/varint.rs'
DOC = 'read_varint(write_varint(x)) == x for all usize with exact consumption; reader total on arbitrary bytes (loop bounded by operand width, unwinding assertions on)'
FUNCTIONS = [
    dict(file='crates/vibesql-storage/src/btree/serialize.rs', path='fn write_varint'),
    dict(file='crates/vibesql-storage/src/btree/serialize.rs', path='fn read_varint'),
]
HARNESSES = {
    'b_varint_roundtrip_all_usize': dict(fn='write_varint/read_varint', clause='roundtrip_all_usize_exact_consumption'),
    'b_varint_reader_total': dict(fn='read_varint', clause='total_on_arbitrary_bytes'),
    'b_varint_canary_must_fail': dict(fn='canary', clause='must_fail', canary=True),
}
TRUSTED = ['std::io::Cursor Read/Write impls', 'kani::stub alloc::fmt::format on error paths']
