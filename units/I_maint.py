NAME = 'I-maint'
PROPERTIES = ['C02', 'C15']
ENGINE = 'verus'
CLASS = 'U'
DOC = ('Maintenance of the user-defined (CREATE INDEX) indexes on DML, storage database/indexes/index_maintenance.rs: the per-index step of '
       'add_to_indexes_for_insert, update_indexes_for_update and update_indexes_for_delete (in-memory arm) has EXACTLY this effect on the key -> positions '
       'map: insert appends the position to the list of the row\'s key; update takes the position out of the OLD key\'s list (dropping the key when the list '
       'becomes empty) and appends it to the NEW key\'s list; delete takes it out of the row\'s key; every other key is untouched. Each key component is '
       'the value of the column NAMED in the index definition, prefix-truncated and normalized (the four key-building closures). C15: the insert step and '
       'the update step KEEP THE MIRROR - the map holds under each key exactly the positions of the rows with that key, each once, no empty list - '
       '(checked compositions of the real steps with the lemmas lemma_uinsert / lemma_uupdate) - and the rebuild step of rebuild_indexes PRODUCES it: whatever the '
       'map held, after the step it is the mirror of the rows handed in (loop invariant over the rows + lemma_uinsert).')

TEMPLATE = r'''
use vstd::prelude::*;
verus! {

#[verifier::external_body] pub struct SqlValue { v: u8 }
#[verifier::external_body] pub struct Opq { o: u8 }
#[verifier::external_body] pub struct Str { s: u8 }
pub type Key = Seq<SqlValue>;
pub type Ix = Map<Key, Seq<usize>>;
pub uninterp spec fn norm(v: SqlValue) -> SqlValue;
pub uninterp spec fn trunc(v: SqlValue, n: Option<u64>) -> SqlValue;
#[verifier::external_body] fn normalize_for_comparison(v: &SqlValue) -> (r: SqlValue) ensures r == norm(*v) { unimplemented!() }
#[verifier::external_body] fn apply_prefix_truncation(v: &SqlValue, n: Option<u64>) -> (r: SqlValue) ensures r == trunc(*v, n) { unimplemented!() }

pub struct Row { pub values: Vec<SqlValue> }
pub struct IndexColumn { pub column_name: Str, pub prefix_length: Option<u64> }
#[verifier::external_body] pub struct TableSchema { t: u8 }
impl TableSchema {
    pub uninterp spec fn col_index(&self, name: Str) -> Option<usize>;
    #[verifier::external_body]
    pub fn get_column_index(&self, name: &Str) -> (r: Option<usize>) ensures r == self.col_index(*name) { unimplemented!() }
}
// Option::expect("Index column should exist"): panics on None
#[verifier::external_body]
fn expect_col(c: Option<usize>) -> (r: usize) requires c is Some, ensures r == c->Some_0 { unimplemented!() }

/// the key component an index column contributes for a row
pub open spec fn key_part(col: IndexColumn, schema: &TableSchema, row: Row) -> SqlValue {
    norm(trunc(row.values@[schema.col_index(col.column_name)->Some_0 as int], col.prefix_length))
}
/// the indexed column exists in the table and the row has a value for it (established by CREATE INDEX validation / row arity)
pub open spec fn col_ok(col: IndexColumn, schema: &TableSchema, row: Row) -> bool {
    schema.col_index(col.column_name) is Some && schema.col_index(col.column_name)->Some_0 < row.values@.len()
}

/// the index key of a row: one component per index column, in definition order
pub open spec fn key_of(cols: Seq<IndexColumn>, schema: &TableSchema, row: Row) -> Key { Seq::new(cols.len(), |j: int| key_part(cols[j], schema, row)) }
pub open spec fn cols_ok(cols: Seq<IndexColumn>, schema: &TableSchema, row: Row) -> bool { forall|j: int| 0 <= j < cols.len() ==> col_ok(#[trigger] cols[j], schema, row) }
/// keys[j] = the index key of the row at position j
pub open spec fn keys_of(cols: Seq<IndexColumn>, schema: &TableSchema, rows: Seq<Row>) -> Seq<Key> { Seq::new(rows.len(), |j: int| key_of(cols, schema, rows[j])) }
// metadata.columns.iter().map(<the key closure, verified as key_rebuild>).collect()
#[verifier::external_body]
fn build_key(cols: &Vec<IndexColumn>, schema: &TableSchema, row: &Row) -> (r: Vec<SqlValue>)
    requires cols_ok(cols@, schema, *row),
    ensures r@ == key_of(cols@, schema, *row)
{ unimplemented!() }
// the disk-backed arm of rebuild_indexes (sort + BTreeIndex::bulk_load): not under contract
#[verifier::external_body] fn rebuild_disk_backed(btree: &mut SharedTree, page_manager: &Opq) { unimplemented!() }

//@@ key_insert
//@@ key_rebuild
//@@ key_update_old
//@@ key_update_new
//@@ key_delete

// ---------------- BTreeMap<Vec<SqlValue>, Vec<usize>> -----------------------------------------------------------
pub open spec fn without_pos(l: Seq<usize>, p: usize) -> Seq<usize> { l.filter(|x: usize| x != p) }
#[verifier::external_body] pub struct KeyMap { m: u8 }
impl KeyMap {
    pub uninterp spec fn view(&self) -> Ix;
    // data.entry(k).or_insert_with(Vec::new).push(p)
    #[verifier::external_body]
    pub fn push_at(&mut self, k: Vec<SqlValue>, p: usize)
        ensures final(self).view() == old(self).view().insert(k@, (if old(self).view().dom().contains(k@) { old(self).view()[k@] } else { Seq::empty() }).push(p)) { unimplemented!() }
    // data.get_mut(&k) is Some
    #[verifier::external_body]
    pub fn contains_key(&self, k: &Vec<SqlValue>) -> (r: bool) ensures r == self.view().dom().contains(k@) { unimplemented!() }
    // the list found by get_mut: .retain(|&idx| idx != p)
    #[verifier::external_body]
    pub fn retain_ne(&mut self, k: &Vec<SqlValue>, p: usize)
        requires old(self).view().dom().contains(k@),
        ensures final(self).view() == old(self).view().insert(k@, without_pos(old(self).view()[k@], p)) { unimplemented!() }
    // the list found by get_mut: .is_empty()
    #[verifier::external_body]
    pub fn is_empty_at(&self, k: &Vec<SqlValue>) -> (r: bool)
        requires self.view().dom().contains(k@),
        ensures r == (self.view()[k@].len() == 0) { unimplemented!() }
    #[verifier::external_body]
    pub fn clear(&mut self) ensures final(self).view() == Map::<Key, Seq<usize>>::empty() { unimplemented!() }
    #[verifier::external_body]
    pub fn remove(&mut self, k: &Vec<SqlValue>) -> (r: Option<Vec<usize>>)
        ensures final(self).view() == old(self).view().remove(k@) { unimplemented!() }
}
// Arc<Mutex<BTreeIndex>> (disk-backed arm: not under contract)
#[verifier::external_body] pub struct SharedTree { t: u8 }
#[verifier::external_body] pub struct TreeGuard { g: u8 }
impl TreeGuard {
    #[verifier::external_body] pub fn lookup(&self, k: &Vec<SqlValue>) -> (r: Result<Vec<usize>, Opq>) { unimplemented!() }
    #[verifier::external_body] pub fn insert(&mut self, k: Vec<SqlValue>, p: usize) -> (r: Result<(), Opq>) { unimplemented!() }
    /// BTreeIndex::delete(key) removes EVERY row position stored under the key: a maintenance step for ONE row may call it only when no other row holds the key
    pub uninterp spec fn sole_position_under(&self, k: Key) -> bool;
    #[verifier::external_body] pub fn delete(&mut self, k: &Vec<SqlValue>) -> (r: Result<bool, Opq>) requires old(self).sole_position_under(k@) { unimplemented!() }
    // BTreeIndex::delete_specific(key, row): removes that row position only
    #[verifier::external_body] pub fn delete_specific(&mut self, k: &Vec<SqlValue>, p: usize) -> (r: Result<bool, Opq>) { unimplemented!() }
}
#[verifier::external_body] fn acquire_btree_lock(t: &SharedTree) -> (r: Result<TreeGuard, Opq>) { unimplemented!() }
#[verifier::external_body] pub struct StorageError { e: u8 }
// acquire_btree_lock(btree)?  inside a function returning StorageError (From conversion of the lock error)
#[verifier::external_body] fn lock_or_err(t: &SharedTree) -> (r: Result<TreeGuard, StorageError>) { unimplemented!() }
// StorageError::UniqueConstraintViolation(format!(.. index name, column names ..))
#[verifier::external_body] fn unique_violation(index_name: &Str, metadata: &IndexMetadata) -> (r: StorageError) { unimplemented!() }

pub enum IndexData { InMemory { data: KeyMap }, DiskBacked { btree: SharedTree, page_manager: Opq } }
// IndexMetadata reduced (R2): the other free variable of the lifted steps
pub struct IndexMetadata { pub index_name: Str, pub table_name: Str, pub unique: bool, pub columns: Vec<IndexColumn> }

/// position p taken out of key k (the key disappears with its last position)
pub open spec fn ix_without(m: Ix, k: Key, p: usize) -> Ix {
    if m.dom().contains(k) {
        let l = without_pos(m[k], p);
        if l.len() == 0 { m.remove(k) } else { m.insert(k, l) }
    } else { m }
}
/// position p appended to key k
pub open spec fn ix_with(m: Ix, k: Key, p: usize) -> Ix {
    m.insert(k, (if m.dom().contains(k) { m[k] } else { Seq::empty() }).push(p))
}

//@@ insert_step
//@@ update_step
//@@ delete_step
//@@ rebuild_step
//@@ check_step
/// CREATE INDEX: the index key of a row under the column POSITIONS resolved at creation: component j = norm(trunc(row[column_indices[j]], columns[j].prefix_length))
pub uninterp spec fn zkey(column_indices: Seq<usize>, columns: Seq<IndexColumn>, row: Row) -> Key;
pub open spec fn zkeys(column_indices: Seq<usize>, columns: Seq<IndexColumn>, rows: Seq<Row>) -> Seq<Key> { Seq::new(rows.len(), |j: int| zkey(column_indices, columns, rows[j])) }
// column_indices.iter().zip(columns.iter()).map(|(&idx, col)| normalize(truncate(&row.values[idx], col.prefix_length))).collect()
#[verifier::external_body]
fn build_key_zip(column_indices: &Vec<usize>, columns: &Vec<IndexColumn>, row: &Row) -> (r: Vec<SqlValue>)
    requires forall|j: int| 0 <= j < column_indices@.len() ==> (#[trigger] column_indices@[j]) < row.values@.len(),
    ensures r@ == zkey(column_indices@, columns@, *row)
{ unimplemented!() }
//@@ create_build

/// THE MIRROR for a user-defined index: `keys[j]` is the index key of the row at position j; the map holds, under each key, exactly the
/// positions of the rows with that key - each once, no key with an empty list (what a rebuild from the rows produces, up to the order in a list)
pub open spec fn umirror(m: Ix, keys: Seq<Key>) -> bool {
    &&& forall|k: Key| #![trigger m.dom().contains(k)] m.dom().contains(k) ==> m[k].len() > 0 && m[k].no_duplicates()
    &&& forall|k: Key, p: usize| #![trigger listed(m, k, p)] listed(m, k, p) <==> ((p as int) < keys.len() && keys[p as int] == k)
}
/// position p is in the list of key k
pub open spec fn listed(m: Ix, k: Key, p: usize) -> bool { m.dom().contains(k) && m[k].contains(p) }
proof fn lemma_push_contains(l: Seq<usize>, x: usize, q: usize)
    ensures l.push(x).contains(q) <==> (l.contains(q) || q == x)
{
    let l2 = l.push(x);
    if l.contains(q) { let i = choose|i: int| 0 <= i < l.len() && l[i] == q; assert(l2[i] == q); }
    if q == x { assert(l2[l.len() as int] == q); }
    if l2.contains(q) { let i = choose|i: int| 0 <= i < l2.len() && l2[i] == q; if i < l.len() { assert(l[i] == q); } }
}
proof fn lemma_push_nodup(l: Seq<usize>, x: usize)
    requires l.no_duplicates(), !l.contains(x)
    ensures l.push(x).no_duplicates()
{
    let l2 = l.push(x);
    assert forall|i: int, j: int| 0 <= i < l2.len() && 0 <= j < l2.len() && i != j implies l2[i] != l2[j] by {
        if i < l.len() && j < l.len() { }
        else if i < l.len() { assert(l[i] == l2[i]); assert(l.contains(l[i])); }
        else if j < l.len() { assert(l[j] == l2[j]); assert(l.contains(l[j])); }
    }
}
/// INSERT KEEPS THE MIRROR
proof fn lemma_uinsert(m: Ix, keys: Seq<Key>, k0: Key)
    requires umirror(m, keys), keys.len() < usize::MAX
    ensures umirror(ix_with(m, k0, keys.len() as usize), keys.push(k0))
{
    let n = keys.len() as usize; let m2 = ix_with(m, k0, n); let keys2 = keys.push(k0);
    let l0 = if m.dom().contains(k0) { m[k0] } else { Seq::<usize>::empty() };
    assert(!l0.contains(n)) by { if m.dom().contains(k0) && m[k0].contains(n) { assert(listed(m, k0, n)); } }
    assert(l0.no_duplicates());
    lemma_push_nodup(l0, n);
    assert forall|k: Key| #![trigger m2.dom().contains(k)] m2.dom().contains(k) implies m2[k].len() > 0 && m2[k].no_duplicates() by {
        if k != k0 { assert(m.dom().contains(k)); }
    }
    assert forall|k: Key, p: usize| #![trigger listed(m2, k, p)] listed(m2, k, p) <==> ((p as int) < keys2.len() && keys2[p as int] == k) by {
        assert(listed(m, k, p) <==> ((p as int) < keys.len() && keys[p as int] == k));
        if k == k0 { lemma_push_contains(l0, n, p); }
    }
}

proof fn lemma_without(l: Seq<usize>, p: usize)
    ensures
        forall|q: usize| #![trigger without_pos(l, p).contains(q)] without_pos(l, p).contains(q) <==> (l.contains(q) && q != p),
        l.no_duplicates() ==> without_pos(l, p).no_duplicates(),
    decreases l.len(),
{
    reveal(Seq::filter);
    let f = |x: usize| x != p;
    if l.len() == 0 {
        assert(without_pos(l, p) =~= Seq::<usize>::empty());
    } else {
        let d = l.drop_last(); let x = l.last();
        lemma_without(d, p);
        let sub = without_pos(d, p);
        assert(l =~= d.push(x));
        assert(without_pos(l, p) == (if x != p { sub.push(x) } else { sub }));
        assert forall|q: usize| #![trigger without_pos(l, p).contains(q)] without_pos(l, p).contains(q) <==> (l.contains(q) && q != p) by {
            lemma_push_contains(d, x, q);
            lemma_push_contains(sub, x, q);
            assert(sub.contains(q) <==> (d.contains(q) && q != p));
        }
        if l.no_duplicates() {
            assert(d.no_duplicates()) by { assert forall|i: int, j: int| 0 <= i < d.len() && 0 <= j < d.len() && i != j implies d[i] != d[j] by { assert(l[i] == d[i]); assert(l[j] == d[j]); } }
            if x != p {
                assert(!d.contains(x)) by { if d.contains(x) { let i = choose|i: int| 0 <= i < d.len() && d[i] == x; assert(l[i] == x); assert(l[l.len() - 1] == x); } }
                assert(sub.contains(x) <==> (d.contains(x) && x != p));
                lemma_push_nodup(sub, x);
            }
        }
    }
}
/// UPDATE KEEPS THE MIRROR: the position leaves the old key's list and enters the new key's list
proof fn lemma_uupdate(m: Ix, keys: Seq<Key>, i: usize, kn: Key)
    requires umirror(m, keys), (i as int) < keys.len()
    ensures umirror(ix_with(ix_without(m, keys[i as int], i), kn, i), keys.update(i as int, kn))
{
    let ko = keys[i as int]; let m1 = ix_without(m, ko, i); let m2 = ix_with(m1, kn, i); let keys2 = keys.update(i as int, kn);
    assert(listed(m, ko, i));
    lemma_without(m[ko], i);
    // m1: position i is listed nowhere, everything else as before
    assert forall|k: Key, p: usize| #![trigger listed(m1, k, p)] listed(m1, k, p) <==> (listed(m, k, p) && !(k == ko && p == i)) by {
        assert(listed(m, k, p) <==> ((p as int) < keys.len() && keys[p as int] == k));
        if k == ko {
            let l = without_pos(m[ko], i);
            assert(l.contains(p) <==> (m[ko].contains(p) && p != i));
            if l.len() == 0 { if l.contains(p) { let j = choose|j: int| 0 <= j < l.len() && l[j] == p; } }
        }
    }
    assert forall|k: Key| #![trigger m1.dom().contains(k)] m1.dom().contains(k) implies m1[k].len() > 0 && m1[k].no_duplicates() by {
        if k != ko { assert(m.dom().contains(k)); } else { assert(m.dom().contains(ko)); }
    }
    let l0 = if m1.dom().contains(kn) { m1[kn] } else { Seq::<usize>::empty() };
    assert(!l0.contains(i)) by { if m1.dom().contains(kn) && m1[kn].contains(i) { assert(listed(m1, kn, i)); assert(listed(m, kn, i)); } }
    lemma_push_nodup(l0, i);
    assert forall|k: Key| #![trigger m2.dom().contains(k)] m2.dom().contains(k) implies m2[k].len() > 0 && m2[k].no_duplicates() by {
        if k != kn { assert(m1.dom().contains(k)); }
    }
    assert forall|k: Key, p: usize| #![trigger listed(m2, k, p)] listed(m2, k, p) <==> ((p as int) < keys2.len() && keys2[p as int] == k) by {
        assert(listed(m1, k, p) <==> (listed(m, k, p) && !(k == ko && p == i)));
        assert(listed(m, k, p) <==> ((p as int) < keys.len() && keys[p as int] == k));
        if k == kn { lemma_push_contains(l0, i, p); }
    }
}

// ---------------- C15: the steps KEEP THE MIRROR (checked compositions: the real steps through their contracts + the lemmas above) -------------
fn insert_step_keeps_mirror(index_data: &mut IndexData, metadata: &IndexMetadata, key_values: Vec<SqlValue>, row_index: usize, Ghost(keys): Ghost<Seq<Key>>)
    requires (*old(index_data)) is InMemory, umirror((*old(index_data))->InMemory_data.view(), keys), row_index == keys.len(), keys.len() < usize::MAX,
    ensures (*final(index_data)) is InMemory, umirror((*final(index_data))->InMemory_data.view(), keys.push(key_values@)),
{
    proof { lemma_uinsert((*index_data)->InMemory_data.view(), keys, key_values@); }
    insert_step(index_data, metadata, key_values, row_index);
}
fn update_step_keeps_mirror(index_data: &mut IndexData, metadata: &IndexMetadata, old_key_values: Vec<SqlValue>, new_key_values: Vec<SqlValue>, row_index: usize, Ghost(keys): Ghost<Seq<Key>>)
    requires (*old(index_data)) is InMemory, umirror((*old(index_data))->InMemory_data.view(), keys), (row_index as int) < keys.len(), keys[row_index as int] == old_key_values@,
    ensures (*final(index_data)) is InMemory, umirror((*final(index_data))->InMemory_data.view(), keys.update(row_index as int, new_key_values@)),
{
    proof { lemma_uupdate((*index_data)->InMemory_data.view(), keys, row_index, new_key_values@); }
    update_step(index_data, metadata, old_key_values, new_key_values, row_index);
}
fn canary_keeps(index_data: &mut IndexData, metadata: &IndexMetadata, key_values: Vec<SqlValue>, row_index: usize, Ghost(keys): Ghost<Seq<Key>>)
    requires (*old(index_data)) is InMemory, umirror((*old(index_data))->InMemory_data.view(), keys), row_index == keys.len(), keys.len() < usize::MAX,
{
    insert_step_keeps_mirror(index_data, metadata, key_values, row_index, Ghost(keys));
    assert(false); // CANARY
}

fn canary_update(index_data: &mut IndexData, metadata: &IndexMetadata, old_key_values: Vec<SqlValue>, new_key_values: Vec<SqlValue>, row_index: usize)
{
    update_step(index_data, metadata, old_key_values, new_key_values, row_index);
    assert(false); // CANARY
}
fn canary_key(col: &IndexColumn, table_schema: &TableSchema, row: &Row)
    requires col_ok(*col, table_schema, *row),
{
    let r = key_insert(col, table_schema, row);
    assert(false); // CANARY
}

}
fn main() {}
'''

_F = 'crates/vibesql-storage/src/database/indexes/index_maintenance.rs'
_KEYRW = [('re', r'\.expect\("Index column should exist"\)', '', 1),
          ('re', r'(?s)table_schema\s*\.get_column_index\(&col\.column_name\)', 'expect_col(table_schema.get_column_index(&col.column_name))', 1),
          ('re', r'crate::database::indexes::index_operations::normalize_for_comparison', 'normalize_for_comparison', 1)]
_STEPRW = [('re', r'log::warn!\((?:[^()]|\([^()]*\))*\);', '', None),
           ('re', r'(?s)data\s*\.entry\((\w+)\)\s*\.or_insert_with\(Vec::new\)\s*\.push\(row_index\);', r'data.push_at(\1, row_index);', None),
           ('re', r'(?s)if let Some\(row_indices\) = data\.get_mut\(&(\w+)\) \{\s*row_indices\.retain\(\|&idx\| idx != row_index\);(.*?)if row_indices\.is_empty\(\) \{',
            r'if data.contains_key(&\1) { data.retain_ne(&\1, row_index);\2if data.is_empty_at(&\1) {', None)]


def _key(fn, which, row):
    return dict(file=_F, path='impl IndexManager::fn ' + fn, ret='r',
                fragment=dict(kind='closure', index=which, expect_params='col',
                              sig='fn key_%s(col: &IndexColumn, table_schema: &TableSchema, %s: &Row) -> SqlValue' % (row[0], row[1])),
                rewrites=_KEYRW,
                contract='''
    requires col_ok(*col, table_schema, *%s),
    ensures r == key_part(*col, table_schema, *%s),
''' % (row[1], row[1]))


ITEMS = {
    'key_insert': _key('add_to_indexes_for_insert', 0, ('insert', 'row')),
    'key_update_old': _key('update_indexes_for_update', 0, ('update_old', 'old_row')),
    'key_update_new': _key('update_indexes_for_update', 1, ('update_new', 'new_row')),
    'key_delete': _key('update_indexes_for_delete', 0, ('delete', 'row')),
    'key_rebuild': dict(file=_F, path='impl IndexManager::fn rebuild_indexes', ret='r',
                fragment=dict(kind='closure', index=2, expect_params='col', sig='fn key_rebuild(col: &IndexColumn, table_schema: &TableSchema, row: &Row) -> SqlValue'),
                rewrites=_KEYRW,
                contract='''
    requires col_ok(*col, table_schema, *row),
    ensures r == key_part(*col, table_schema, *row),
'''),
    'rebuild_step': dict(
        file=_F, path='impl IndexManager::fn rebuild_indexes',
        fragment=dict(kind='match', index=0, expect_scrutinee='index_data',
                      sig='fn rebuild_step(index_data: &mut IndexData, metadata: &IndexMetadata, table_schema: &TableSchema, table_rows: &[Row])'),
        # R6b: the key closure inside the in-memory arm (verified as key_rebuild) becomes a call
        elide=[dict(kind='closure', index=0, expect_params='col', to='KEY_OF__row')],
        rewrites=[
            # the disk-backed arm (sort_by + BTreeIndex::bulk_load + lock) is opaque
            ('re', r'(?s)IndexData::DiskBacked \{ btree, page_manager \} => \{.*\Z', 'IndexData::DiskBacked { btree, page_manager } => { rebuild_disk_backed(btree, page_manager); }\n    }\n}', 1),
            ('re', r'(?s)metadata\s*\.columns\s*\.iter\(\)\s*\.map\(KEY_OF__(\w+)\)\s*\.collect\(\)', r'build_key(&metadata.columns, table_schema, \1)', 1),
            ('re', r'for \(row_index, row\) in table_rows\.iter\(\)\.enumerate\(\) \{', 'let mut ri__: usize = 0; while ri__ < table_rows.len() { let row = &table_rows[ri__]; let row_index = ri__; ri__ = ri__ + 1;', 1),
        ] + _STEPRW,
        loops={0: '''
            invariant
                ri__ <= table_rows@.len(),
                forall|j: int| 0 <= j < table_rows@.len() ==> cols_ok(metadata.columns@, table_schema, #[trigger] table_rows@[j]),
                umirror(data.view(), keys_of(metadata.columns@, table_schema, table_rows@).take(ri__ as int)),
            decreases table_rows@.len() - ri__,
'''},
        proofs=[('data.push_at(key_values, row_index);', '''proof {
                    let ghost ks = keys_of(metadata.columns@, table_schema, table_rows@);
                    lemma_uinsert(data.view(), ks.take(row_index as int), key_values@);
                    assert(ks.take(row_index as int).push(key_values@) =~= ks.take(row_index as int + 1));
                }'''),
                ('after:data.clear();', 'proof { assert(keys_of(metadata.columns@, table_schema, table_rows@).take(0) =~= Seq::<Key>::empty()); }'),
                ('@afterloop0', 'proof { let ghost ks = keys_of(metadata.columns@, table_schema, table_rows@); assert(ks.take(ks.len() as int) =~= ks); }')],
        contract='''
    requires forall|j: int| 0 <= j < table_rows@.len() ==> cols_ok(metadata.columns@, table_schema, #[trigger] table_rows@[j]),
    ensures
        // A REBUILD PRODUCES THE MIRROR of the rows it is handed: under each key exactly the positions of the rows with that key, whatever the map held before
        (*old(index_data)) is InMemory ==> (*final(index_data)) is InMemory
            && umirror((*final(index_data))->InMemory_data.view(), keys_of(metadata.columns@, table_schema, table_rows@)),
'''),
    'create_build': dict(
        file=_F, path='impl IndexManager::fn create_index',
        # the in-memory build loop of create_index (the SECOND loop over the rows: the first one feeds the disk-backed bulk load)
        fragment=dict(kind='stmt', index=0, **{'from': r'(?s)for \(row_idx, row\) in table_rows\.iter\(\)\.enumerate\(\) \{(?:(?!sorted_entries).)*?index_data_map\s*\.entry'},
                      sig='fn create_build(column_indices: &Vec<usize>, columns: &Vec<IndexColumn>, table_rows: &[Row], index_data_map: &mut KeyMap)'),
        elide=[dict(kind='closure', index=0, expect_params='(&idx, col)', to='ZKEY__')],
        rewrites=[
            ('re', r'for \(row_idx, row\) in table_rows\.iter\(\)\.enumerate\(\) \{', 'let mut ri__: usize = 0; while ri__ < table_rows.len() { let row = &table_rows[ri__]; let row_idx = ri__; ri__ = ri__ + 1;', 1),
            ('re', r'(?s)column_indices\s*\.iter\(\)\s*\.zip\(columns\.iter\(\)\)\s*\.map\(ZKEY__\)\s*\.collect\(\)', 'build_key_zip(column_indices, columns, row)', 1),
            ('re', r'index_data_map\.entry\(key_values\)\.or_default\(\)\.push\(row_idx\);', 'index_data_map.push_at(key_values, row_idx);', 1),
        ],
        loops={0: '''
            invariant ri__ <= table_rows@.len(),
                forall|i: int, j: int| 0 <= i < table_rows@.len() && 0 <= j < column_indices@.len() ==> (#[trigger] column_indices@[j]) < (#[trigger] table_rows@[i]).values@.len(),
                umirror(index_data_map.view(), zkeys(column_indices@, columns@, table_rows@).take(ri__ as int)),
            decreases table_rows@.len() - ri__,
'''},
        proofs=[('index_data_map.push_at(key_values, row_idx);', '''proof {
                    let ghost ks = zkeys(column_indices@, columns@, table_rows@);
                    lemma_uinsert(index_data_map.view(), ks.take(row_idx as int), key_values@);
                    assert(ks.take(row_idx as int).push(key_values@) =~= ks.take(row_idx as int + 1));
                }'''),
                ('@entry', 'proof { assert(zkeys(column_indices@, columns@, table_rows@).take(0) =~= Seq::<Key>::empty()); }'),
                ('@afterloop0', 'proof { let ghost ks = zkeys(column_indices@, columns@, table_rows@); assert(ks.take(ks.len() as int) =~= ks); }')],
        contract='''
    requires old(index_data_map).view() == Map::<Key, Seq<usize>>::empty(),       // `let mut index_data_map = BTreeMap::new();` directly before the loop
             forall|i: int, j: int| 0 <= i < table_rows@.len() && 0 <= j < column_indices@.len() ==> (#[trigger] column_indices@[j]) < (#[trigger] table_rows@[i]).values@.len(),
    ensures
        // CREATE INDEX BUILDS THE MIRROR of the rows it is handed: under each key exactly the positions of the rows with that key
        umirror(final(index_data_map).view(), zkeys(column_indices@, columns@, table_rows@)),
'''),
    'check_step': dict(
        file='crates/vibesql-storage/src/database/indexes/index_manager.rs', path='impl IndexManager::fn check_unique_constraints_for_insert', ret='res',
        fragment=dict(kind='match', index=0, expect_scrutinee='index_data', tail='Ok(())',
                      sig='fn check_step(index_data: &IndexData, metadata: &IndexMetadata, index_name: &Str, key_values: Vec<SqlValue>) -> Result<(), StorageError>'),
        rewrites=[
            ('re', r'(?s)let column_names: Vec<String> = metadata\s*\.columns\s*\.iter\(\)\s*\.map\(\|c\| c\.column_name\.clone\(\)\)\s*\.collect\(\);\s*return Err\(StorageError::UniqueConstraintViolation\(format!\((?:[^()]|\([^()]*\))*\)\)\);',
             'return Err(unique_violation(index_name, metadata));', 2),
            ('re', r'acquire_btree_lock\(btree\)\?', 'lock_or_err(btree)?', 1),
        ],
        contract='''
    ensures
        // in memory: the insert is refused EXACTLY when the index already holds the key
        (*index_data) is InMemory ==> ((res is Err) <==> (*index_data)->InMemory_data.view().dom().contains(key_values@)),
'''),
    'insert_step': dict(
        file=_F, path='impl IndexManager::fn add_to_indexes_for_insert',
        fragment=dict(kind='match', index=0, expect_scrutinee='index_data',
                      sig='fn insert_step(index_data: &mut IndexData, metadata: &IndexMetadata, key_values: Vec<SqlValue>, row_index: usize)'),
        rewrites=_STEPRW,
        contract='''
    ensures
        (*old(index_data)) is InMemory ==> (*final(index_data)) is InMemory
            && (*final(index_data))->InMemory_data.view() == ix_with((*old(index_data))->InMemory_data.view(), key_values@, row_index),
'''),
    'update_step': dict(
        file=_F, path='impl IndexManager::fn update_indexes_for_update',
        fragment=dict(kind='match', index=0, expect_scrutinee='index_data',
                      sig='fn update_step(index_data: &mut IndexData, metadata: &IndexMetadata, old_key_values: Vec<SqlValue>, new_key_values: Vec<SqlValue>, row_index: usize)'),
        rewrites=_STEPRW,
        contract='''
    ensures
        (*old(index_data)) is InMemory ==> (*final(index_data)) is InMemory
            && (*final(index_data))->InMemory_data.view() == ix_with(ix_without((*old(index_data))->InMemory_data.view(), old_key_values@, row_index), new_key_values@, row_index),
'''),
    'delete_step': dict(
        file=_F, path='impl IndexManager::fn update_indexes_for_delete',
        fragment=dict(kind='match', index=0, expect_scrutinee='index_data',
                      sig='fn delete_step(index_data: &mut IndexData, metadata: &IndexMetadata, key_values: Vec<SqlValue>, row_index: usize)'),
        rewrites=_STEPRW,
        contract='''
    ensures
        (*old(index_data)) is InMemory ==> (*final(index_data)) is InMemory
            && (*final(index_data))->InMemory_data.view() == ix_without((*old(index_data))->InMemory_data.view(), key_values@, row_index),
'''),
}

OBLIGATIONS = {
    'key_insert': ['post:key_component_is_the_named_column_prefix_truncated_and_normalized', 'safety:column_exists'],
    'key_update_old': ['post:key_component_is_the_named_column_of_the_old_row'],
    'key_update_new': ['post:key_component_is_the_named_column_of_the_new_row'],
    'key_delete': ['post:key_component_is_the_named_column_prefix_truncated_and_normalized'],
    'key_rebuild': ['post:key_component_is_the_named_column_prefix_truncated_and_normalized'],
    'check_step': ['post:refused_exactly_when_the_index_holds_the_key'],
    'create_build': ['post:create_index_builds_the_mirror_of_the_rows', 'proof:loop_invariant_and_termination', 'safety:column_position_in_bounds'],
    'rebuild_step': ['post:a_rebuild_produces_the_mirror_of_the_rows_whatever_was_there_before', 'proof:loop_invariant_and_termination', 'safety:index_in_bounds'],
    'insert_step': ['post:position_appended_to_the_rows_key_nothing_else_changes'],
    'update_step': ['post:position_leaves_the_old_key_and_enters_the_new_key_nothing_else_changes', 'safety:disk_backed_arm_removes_only_this_rows_position'],
    'delete_step': ['post:position_leaves_the_rows_key_nothing_else_changes', 'safety:disk_backed_arm_removes_only_this_rows_position'],
    'lemma_push_contains': ['post:membership_after_push'], 'lemma_push_nodup': ['post:no_duplicates_after_push_of_a_new_element'],
    'lemma_without': ['post:filter_removes_exactly_the_position_and_keeps_no_duplicates'],
    'lemma_uinsert': ['post:append_keeps_the_mirror'], 'lemma_uupdate': ['post:position_moves_from_the_old_key_to_the_new_key_keeps_the_mirror'],
    'insert_step_keeps_mirror': ['post:the_real_insert_step_keeps_the_mirror'], 'update_step_keeps_mirror': ['post:the_real_update_step_keeps_the_mirror'],
}
CANARIES = ['canary_update', 'canary_key', 'canary_keeps']
TRUSTED = [
    'R6: the per-index step (the `match index_data { .. }` expression, with its free variables index_data, metadata, the key vectors and row_index as parameters) and the key-building closures (`|col| { .. }`) are lifted out of the three maintenance functions; what surrounds them is NOT under contract: the loop over the registry (`for (index_name, metadata) in &self.indexes`, the table-name filter, `self.index_data.get_mut(index_name)`), `.iter().map(closure).collect()` over metadata.columns (assumed: one component per index column, in definition order), and the `old_key_values != new_key_values` guard of the update step',
    'external_body KeyMap: BTreeMap<Vec<SqlValue>, Vec<usize>> through push_at (entry().or_insert_with(Vec::new).push()), contains_key / retain_ne / is_empty_at (the list returned by get_mut: retain(|&idx| idx != p), is_empty()), remove - R11 rewrite of the get_mut block',
    'SqlValue, Str, Opq, StorageError, TableSchema opaque (TableSchema::get_column_index: uninterpreted function col_index of the name); norm / trunc = normalize_for_comparison / apply_prefix_truncation uninterpreted (external_body stubs); Option::expect rewritten to expect_col, which REQUIRES Some (a missing index column would panic: precondition col_ok, established by CREATE INDEX validation); Row / IndexColumn reduced to the fields read',
    'the disk-backed arm (SharedTree, TreeGuard, acquire_btree_lock) is opaque: its EFFECT is not under contract, only which B+ tree operation a step may call - TreeGuard::delete (BTreeIndex::delete: removes EVERY position under the key) carries the precondition sole_position_under, which no step can establish, so a step that calls it fails (the defect repaired by the disk-backed fix of DESIGN 9c); delete_specific / insert / lookup are unconstrained',
    'C15 mirror (umirror) is over the key SEQUENCE keys[j] = index key of the row at position j; the order of positions inside one key list is not part of it (a rebuild lists them ascending; DML appends); insert_step_keeps_mirror / update_step_keeps_mirror are verified wrapper functions written here (not repository code) that call the extracted steps through their contracts',
    'check_step: the `match index_data` of IndexManager::check_unique_constraints_for_insert (index_manager.rs) with its early returns, lifted with the fall-through value Ok(()); the error construction (column-name iterator chain + format!) is replaced by the opaque unique_violation, `acquire_btree_lock(btree)?` by lock_or_err (the From conversion of the lock error); the disk-backed arm (TreeGuard::lookup) is NOT under contract',
    'create_build: the in-memory build loop of IndexManager::create_index (R6 `stmt`, the second loop over the rows), its accumulator `index_data_map` (a fresh BTreeMap: precondition empty) as a parameter; the key closure over (column position, index column) pairs is elided to build_key_zip (external_body, zkey uninterpreted: the same truncate + normalize as the stored keys, by reading); `entry(k).or_default().push(p)` = KeyMap::push_at; NOT under contract: that the map is then stored under the index name, the disk-backed build',
    'rebuild_step: the in-memory arm of the `match index_data` in IndexManager::rebuild_indexes; its key closure is elided to build_key (R6b; the closure itself is verified as key_rebuild; `metadata.columns.iter().map(closure).collect()` ASSUMED to apply it to every index column in order); the disk-backed arm (sort_by + BTreeIndex::bulk_load + lock) is replaced by the opaque rebuild_disk_backed; KeyMap::clear = BTreeMap::clear',
    'that positions stay valid after a DELETE (they shift) is not maintained by delete_step but by the rebuild that follows (units I-resolve, K-undo)',
]
