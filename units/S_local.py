import importlib.util as _ilu
import os as _os
_spec = _ilu.spec_from_file_location('_ast_common', _os.path.join(_os.path.dirname(_os.path.abspath(__file__)), '_ast_common.py'))
_ast = _ilu.module_from_spec(_spec); _spec.loader.exec_module(_ast)

NAME = 'S-local'
PROPERTIES = ['C02']
ENGINE = 'verus'
CLASS = 'U'
DOC = ('where_clause_for_indexes_of / names_a_column_of_another_table (executor select/scan/table.rs): the part of a WHERE clause that is offered to the indexes of ONE table '
       'of a join holds no column reference qualified with another table or alias - in the shapes an index predicate is extracted from (comparison, AND / OR, NOT, IS NULL, IN, '
       'BETWEEN, LIKE), for every nesting of the real AST. (In a join the complete WHERE clause reaches the scan of every joined table, and the index code matches columns by name only.)')

TEMPLATE = r'''
use vstd::prelude::*;
verus! {
''' + _ast.AST_PREAMBLE + r'''
impl Expression { #[verifier::external_body] pub fn clone(&self) -> (r: Expression) ensures r == *self { unimplemented!() } }
/// the qualifier names this table (case-insensitively) or its alias
pub uninterp spec fn is_this(qualifier: Str, table_name: &str, alias: Option<&Str>) -> bool;
// qualifier.eq_ignore_ascii_case(table_name) || alias.is_some_and(|a| qualifier.eq_ignore_ascii_case(a))
#[verifier::external_body]
fn names_this_table(qualifier: &Str, table_name: &str, alias: Option<&Str>) -> (r: bool) ensures r == is_this(*qualifier, table_name, alias) { unimplemented!() }

/// the expression holds - in the shapes examined - a column reference qualified with another table / alias
pub open spec fn foreign(table_name: &str, alias: Option<&Str>, e: Expression) -> bool
    decreases e
{
    match e {
        Expression::ColumnRef { table: Some(q), .. } => !is_this(q, table_name, alias),
        Expression::BinaryOp { left, right, .. } => foreign(table_name, alias, *left) || foreign(table_name, alias, *right),
        Expression::UnaryOp { expr, .. } => foreign(table_name, alias, *expr),
        Expression::IsNull { expr, .. } => foreign(table_name, alias, *expr),
        Expression::In { expr, .. } => foreign(table_name, alias, *expr),
        Expression::InList { expr, values, .. } => foreign(table_name, alias, *expr) || exists|i: int| 0 <= i < values@.len() && foreign(table_name, alias, #[trigger] values@[i]),
        Expression::Between { expr, low, high, .. } => foreign(table_name, alias, *expr) || foreign(table_name, alias, *low) || foreign(table_name, alias, *high),
        Expression::Like { expr, pattern, .. } => foreign(table_name, alias, *expr) || foreign(table_name, alias, *pattern),
        _ => false,
    }
}
// values.iter().any(|e| names_a_column_of_another_table(table_name, alias, e))   (the recursion through the list elements is assumed)
#[verifier::external_body]
fn any_foreign(table_name: &str, alias: Option<&Str>, values: &Vec<Expression>) -> (r: bool)
    ensures r == exists|i: int| 0 <= i < values@.len() && foreign(table_name, alias, #[trigger] values@[i]) { unimplemented!() }

//@@ names_a_column_of_another_table

//@@ where_clause_for_indexes_of

fn canary_local(table_name: &str, alias: Option<&Str>, expr: &Expression)
{
    let r = where_clause_for_indexes_of(table_name, alias, expr);
    assert(false); // CANARY
}

}
fn main() {}
'''

_F = 'crates/vibesql-executor/src/select/scan/table.rs'
_RW = [
    ('re', r'vibesql_ast::Expression', 'Expression', None), ('re', r'Option<&String>', 'Option<&Str>', None),
    ('re', r'use vibesql_ast::\{BinaryOperator, Expression\};', '', None), ('re', r'use Expression;', '', None), ('re', r'use vibesql_ast::Expression;', '', None),
]
ITEMS = dict(_ast.AST_ITEMS)
ITEMS.update({
    'names_a_column_of_another_table': dict(file=_F, path='fn names_a_column_of_another_table', ret='res', rewrites=_RW + [
        ('re', r'let other = \|e: &Expression\| names_a_column_of_another_table\(table_name, alias, e\);', '', 1),
        ('re', r'values\.iter\(\)\.any\(other\)', 'any_foreign(table_name, alias, values)', 1),
        ('re', r'\bother\(', 'names_a_column_of_another_table(table_name, alias, ', None),
        ('re', r'(?s)!\(qualifier\.eq_ignore_ascii_case\(table_name\)\s*\|\| alias\.is_some_and\(\|a\| qualifier\.eq_ignore_ascii_case\(a\)\)\)', '!names_this_table(qualifier, table_name, alias)', 1),
    ], contract='''
    ensures res == foreign(table_name, alias, *expr),
    decreases expr,
'''),
    'where_clause_for_indexes_of': dict(file=_F, path='fn where_clause_for_indexes_of', ret='res', rewrites=_RW, contract='''
    ensures
        // what is offered to the indexes of this table names no column of another table
        res matches Some(x) ==> !foreign(table_name, alias, x),
        // .. and a clause without any foreign reference is offered whole
        !foreign(table_name, alias, *expr) ==> res == Some(*expr),
    decreases expr,
'''),
})
OBLIGATIONS = {
    'names_a_column_of_another_table': ['post:true_exactly_when_a_column_reference_is_qualified_with_another_table_or_alias', 'proof:termination'],
    'where_clause_for_indexes_of': ['post:the_offered_clause_names_no_column_of_another_table__a_local_clause_is_offered_whole', 'proof:termination'],
}
CANARIES = ['canary_local']
TRUSTED = list(_ast.AST_TRUSTED) + [
    'external_body Expression::clone (a copy), names_this_table (applied to the qualifier String; `qualifier.eq_ignore_ascii_case(table_name) || alias.is_some_and(|a| qualifier.eq_ignore_ascii_case(a))`, is_this uninterpreted), any_foreign (`values.iter().any(closure)`: the recursion through the elements of an IN list is ASSUMED to be the function itself), Expression::clone (a copy)',
    'the closure `let other = |e| names_a_column_of_another_table(table_name, alias, e)` is inlined (its calls become direct recursive calls)',
    'NOT under contract: that the complete WHERE clause is applied to the joined rows afterwards; the index code itself (units I-range, I-decide, I-fetch); expression shapes not examined (function calls, CASE, subqueries) are treated as local - no index predicate is extracted from them',
]
