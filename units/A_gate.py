import importlib.util as _ilu
import os as _os
_spec = _ilu.spec_from_file_location('_ast_common', _os.path.join(_os.path.dirname(_os.path.abspath(__file__)), '_ast_common.py'))
_ast = _ilu.module_from_spec(_spec)
_spec.loader.exec_module(_ast)

NAME = 'A-gate'
PROPERTIES = ['C03']
ENGINE = 'verus'
CLASS = 'U'
DOC = ('the columnar gate: SelectExecutor::try_columnar_execution answers (Ok(Some(rows))) ONLY statements that carry no clause the columnar '
       'pipeline does not evaluate: no HAVING, LIMIT, OFFSET, GROUP BY, DISTINCT, set operation or CTE, a single-table FROM and a WHERE whose top '
       'operator is a comparison / AND / BETWEEN. try_columnar_execution itself reads only FROM, WHERE and the select list (proved by its frame: '
       'its result is a function of exactly those through the stubbed execute_from_with_where / execute_columnar).')

TEMPLATE = r'''
#![feature(allocator_api)]
#![feature(sized_hierarchy)]
use vstd::prelude::*;
verus! {
''' + _ast.AST_PREAMBLE + r'''

//@@ FromClause

//@@ SelectStmt

// ---------------- the executor's collaborators as abstract interfaces (R2/R4) -------------------------------
#[verifier::external_body] pub struct Row { r: u8 }
#[verifier::external_body] pub struct ExecutorError { e: u8 }
#[verifier::external_body] pub struct Schema { s: u8 }
impl Schema {
    #[verifier::external_body] pub fn clone(&self) -> (r: Schema) ensures r == *self { unimplemented!() }
}
#[verifier::external_body] pub struct Rows { r: u8 }
pub struct FromResult { pub schema: Schema, pub data: Rows }
impl FromResult {
    #[verifier::external_body] pub fn rows(&self) -> (r: &Rows) ensures *r == self.data { unimplemented!() }
}
// &HashMap<String, CteResult>
#[verifier::external_body] pub struct CteMap { m: u8 }
impl CteMap {
    pub uninterp spec fn empty(&self) -> bool;
    #[verifier::external_body] pub fn is_empty(&self) -> (r: bool) ensures r == self.empty() { unimplemented!() }
}
// the select-list projection `stmt.select_list.iter().filter_map(|item| match item { SelectItem::Expression { expr, .. } => Some(expr.clone()), _ => None }).collect()`
pub uninterp spec fn select_exprs(l: Seq<Opaque>) -> Seq<Expression>;
#[verifier::external_body]
fn select_exprs_of(l: &Vec<Opaque>) -> (r: Vec<Expression>) ensures r@ == select_exprs(l@) { unimplemented!() }
// columnar::execute_columnar(rows, filter, aggregates, schema): the columnar pipeline, an uninterpreted function of exactly its four arguments
pub uninterp spec fn columnar_result(rows: Rows, filter: Option<Expression>, aggs: Seq<Expression>, schema: Schema) -> Option<Result<Vec<Row>, ExecutorError>>;
#[verifier::external_body]
fn execute_columnar(rows: &Rows, filter: Option<&Expression>, aggs: &Vec<Expression>, schema: &Schema) -> (r: Option<Result<Vec<Row>, ExecutorError>>)
    ensures r == columnar_result(*rows, if filter is Some { Some(*filter.unwrap()) } else { None }, aggs@, *schema)
{ unimplemented!() }
// Result::map(Some)
fn map_some(r: Result<Vec<Row>, ExecutorError>) -> (o: Result<Option<Vec<Row>>, ExecutorError>)
    ensures match r { Ok(v) => o == Ok::<Option<Vec<Row>>, ExecutorError>(Some(v)), Err(e) => o == Err::<Option<Vec<Row>>, ExecutorError>(e) }
{ match r { Ok(v) => Ok(Some(v)), Err(e) => Err(e) } }

pub struct SelectExecutor { pub o: Opaque }

/// the comparison / AND operators the gate lets through at the top of WHERE
pub open spec fn gate_op(op: BinaryOperator) -> bool {
    op == BinaryOperator::Equal || op == BinaryOperator::NotEqual || op == BinaryOperator::LessThan || op == BinaryOperator::LessThanOrEqual
    || op == BinaryOperator::GreaterThan || op == BinaryOperator::GreaterThanOrEqual || op == BinaryOperator::And
}
pub open spec fn simple_pred(e: Expression) -> bool {
    e is Between || (e matches Expression::BinaryOp { op, .. } && gate_op(op))
}
/// a statement the columnar pipeline may answer: nothing in it that the pipeline does not evaluate
pub open spec fn columnar_safe(stmt: SelectStmt) -> bool {
    stmt.having is None && stmt.limit is None && stmt.offset is None && stmt.group_by is None && !stmt.distinct
    && (stmt.from matches Some(f) && f is Table)
    && (stmt.where_clause matches Some(w) ==> simple_pred(w))
}

impl SelectExecutor {
    pub uninterp spec fn has_aggs(&self, l: Seq<Opaque>) -> bool;
    pub uninterp spec fn has_win(&self, l: Seq<Opaque>) -> bool;
    #[verifier::external_body] fn has_aggregates(&self, l: &Vec<Opaque>) -> (r: bool) ensures r == self.has_aggs(l@) { unimplemented!() }
    #[verifier::external_body] fn has_window_functions_in_select(&self, l: &Vec<Opaque>) -> (r: bool) ensures r == self.has_win(l@) { unimplemented!() }
    pub uninterp spec fn from_result(&self, f: FromClause, c: &CteMap) -> Result<FromResult, ExecutorError>;
    #[verifier::external_body]
    fn execute_from_with_where(&self, from: &FromClause, cte_results: &CteMap, w: Option<&Expression>, o: Option<&Vec<Opaque>>) -> (r: Result<FromResult, ExecutorError>)
        ensures w is None && o is None ==> r == self.from_result(*from, cte_results)
    { unimplemented!() }

//@@ try_columnar_execution

//@@ should_use_columnar

//@@ is_simple_table_scan

//@@ is_simple_predicate
}

fn canary_try(ex: &SelectExecutor, stmt: &SelectStmt, c: &CteMap)
{
    let r = ex.try_columnar_execution(stmt, c);
    assert(false); // CANARY
}
fn canary_gate(ex: &SelectExecutor, stmt: &SelectStmt)
{
    let r = ex.should_use_columnar(stmt);
    assert(false); // CANARY
}

}
fn main() {}
'''

_F = 'crates/vibesql-executor/src/select/executor/columnar_execution.rs'
_S = 'crates/vibesql-ast/src/select.rs'
_PATHS = [
    ('re', r'use vibesql_ast::[^;]+;', '', None),
    ('re', r'vibesql_ast::', '', None),
    ('re', r'vibesql_storage::Row', 'Row', None),
    ('re', r'&HashMap<String, CteResult>', '&CteMap', None),
    ('re', r'&\[SelectItem\]', '&Vec<Opaque>', None),
]
ITEMS = dict(_ast.AST_ITEMS)
ITEMS.update({
    'FromClause': dict(file=_S, path='enum FromClause', rewrites=[
        ('re', r'\bString\b', 'Str', None), ('re', r'Box<SelectStmt>', 'Opaque', None), ('re', r'\bJoinType\b', 'Opaque', None),
    ]),
    'SelectStmt': dict(file=_S, path='struct SelectStmt', rewrites=[
        ('re', r'\bString\b', 'Str', None),
    ] + [('re', r'(?<![A-Za-z0-9_])%s\b' % t, 'Opaque', None) for t in ['CommonTableExpr', 'SelectItem', 'OrderByItem', 'SetOperation']]),
    'try_columnar_execution': dict(
        file=_F, path='impl SelectExecutor<\'_>::fn try_columnar_execution', ret='r',
        rewrites=_PATHS + [
            ('re', r'let select_exprs: Vec<_> = stmt\s*\.select_list\s*\.iter\(\)\s*\.filter_map\(\|item\| match item \{\s*SelectItem::Expression \{ expr, \.\. \} => Some\(expr\.clone\(\)\),\s*_ => None,[^\n]*\n\s*\}\)\s*\.collect\(\);',
             'let select_exprs = select_exprs_of(&stmt.select_list);', 1),
            ('re', r'columnar::execute_columnar\(', 'execute_columnar(', 1),
            ('re', r'result\.map\(Some\)', 'map_some(result)', 1),
            ('re', r'let mut from_result', 'let from_result', 1),
        ],
        contract='''
    ensures
        // the columnar path answers only statements in which there is nothing it does not evaluate
        r matches Ok(Some(_)) ==> columnar_safe(*stmt) && stmt.set_operation is None && cte_results.empty(),
        // and its answer is a function of FROM, WHERE and the select list only (frame)
        r matches Ok(Some(rows)) ==> (self.from_result(stmt.from.unwrap(), cte_results) matches Ok(fr)
            && columnar_result(fr.data, stmt.where_clause, select_exprs(stmt.select_list@), fr.schema) == Some(Ok::<Vec<Row>, ExecutorError>(rows))),
'''),
    'should_use_columnar': dict(
        file=_F, path='impl SelectExecutor<\'_>::fn should_use_columnar', ret='r', rewrites=_PATHS,
        contract='''
    ensures r ==> columnar_safe(*stmt),
'''),
    'is_simple_table_scan': dict(
        file=_F, path='impl SelectExecutor<\'_>::fn is_simple_table_scan', ret='r', rewrites=_PATHS,
        contract='''
    ensures r == (*from is Table),
'''),
    'is_simple_predicate': dict(
        file=_F, path='impl SelectExecutor<\'_>::fn is_simple_predicate', ret='r', rewrites=_PATHS,
        contract='''
    ensures r ==> simple_pred(*expr),
'''),
})

OBLIGATIONS = {
    'try_columnar_execution': ['post:answers_only_statements_without_having_limit_offset_groupby_distinct_setop_cte', 'post:frame_result_is_function_of_from_where_select_list'],
    'should_use_columnar': ['post:accepted_queries_carry_no_clause_the_columnar_path_ignores'],
    'is_simple_table_scan': ['post:true_iff_single_table'],
    'is_simple_predicate': ['post:top_operator_is_comparison_and_or_between'],
    'map_some': ['post:result_map_some'],
}
CANARIES = ['canary_try', 'canary_gate']
TRUSTED = _ast.AST_TRUSTED + [
    'external_body Row / ExecutorError / Schema (clone) / Rows / FromResult::rows / CteMap (HashMap<String, CteResult>::is_empty): opaque collaborators',
    'external_body select_exprs_of: the iter().filter_map(..).collect() projection of the select list (iterator adapters are outside the Verus subset), an uninterpreted function of the list',
    'external_body execute_columnar: the columnar pipeline as an uninterpreted function of its four arguments (its own contracts: unit A-col)',
    'external_body has_aggregates / has_window_functions_in_select / execute_from_with_where: uninterpreted functions of their arguments',
    'ORDER BY is not excluded by the gate: the columnar path returns exactly one row, for which ordering is the identity (not proved here)',
    'payload types CommonTableExpr / SelectItem / OrderByItem / SetOperation / JoinType / Box<SelectStmt> replaced by Opaque (R2); field and variant lists of SelectStmt / FromClause are the real ones',
]
