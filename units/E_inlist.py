NAME = 'E-inlist'
PROPERTIES = ['C06', 'C01']
ENGINE = 'verus'
CLASS = 'U'
DOC = ('CombinedExpressionEvaluator::eval_in_list (evaluator/combined/predicates.rs) against the three-valued definition of `x [NOT] IN (v1, .., vn)`: '
       'empty list -> FALSE / TRUE; x NULL -> NULL; some non-NULL vi with x = vi TRUE -> TRUE / FALSE; otherwise NULL if the list holds a NULL, else '
       'FALSE / TRUE - for every list length, i.e. for the linear branch (n <= 3) and the HashSet branch (n > 3) alike.')

TEMPLATE = r'''
use vstd::prelude::*;
verus! {

// ---------------- R2: values, expressions, rows, errors as abstract types ---------------------------------------------
#[verifier::external_body] pub struct Val { v: u64 }                     // every non-NULL, non-Boolean SqlValue payload
pub enum SqlValue { Null, Boolean(bool), Other(Val) }
#[verifier::external_body] pub struct Expression { e: u8 }
#[verifier::external_body] pub struct Row { r: u8 }
#[verifier::external_body] pub struct ExecutorError { e: u8 }
#[verifier::external_body] pub struct SqlMode { m: u8 }
impl SqlMode {
    #[verifier::external_body] pub fn clone(&self) -> (r: SqlMode) ensures r == *self { unimplemented!() }
}
pub enum BinaryOperator { Equal, Other }

// ---------------- the evaluator's collaborators: uninterpreted, deterministic ------------------------------------------
pub struct CombinedExpressionEvaluator { pub o: u8 }
pub uninterp spec fn eval_spec(ev: &CombinedExpressionEvaluator, e: Expression, row: Row) -> Result<SqlValue, ExecutorError>;
/// `a = b` under the session's SQL mode (its decision table: unit E-ops)
pub uninterp spec fn eq_spec(a: SqlValue, b: SqlValue) -> Result<SqlValue, ExecutorError>;
impl CombinedExpressionEvaluator {
    #[verifier::external_body]
    pub fn eval(&self, e: &Expression, row: &Row) -> (r: Result<SqlValue, ExecutorError>) ensures r == eval_spec(self, *e, *row) { unimplemented!() }
    // `self.database.map(|db| db.sql_mode()).unwrap_or_default()`
    #[verifier::external_body]
    pub fn session_sql_mode(&self) -> (r: SqlMode) { unimplemented!() }
}
pub struct ExpressionEvaluator { pub o: u8 }
impl ExpressionEvaluator {
    #[verifier::external_body]
    pub fn eval_binary_op_static(a: &SqlValue, op: &BinaryOperator, b: &SqlValue, mode: SqlMode) -> (r: Result<SqlValue, ExecutorError>)
        ensures *op == BinaryOperator::Equal ==> r == eq_spec(*a, *b)
    { unimplemented!() }
}
// std::collections::HashSet<SqlValue>: an abstract finite set (key model: Eq / Hash laws of SqlValue, unit T-laws / C21)
#[verifier::external_body] pub struct ValueSet { s: u8 }
impl ValueSet {
    pub uninterp spec fn view(&self) -> Set<SqlValue>;
    #[verifier::external_body] pub fn new() -> (r: ValueSet) ensures r.view() == Set::<SqlValue>::empty() { unimplemented!() }
    #[verifier::external_body] pub fn insert(&mut self, v: SqlValue) -> (b: bool) ensures final(self).view() == old(self).view().insert(v) { unimplemented!() }
    /// `for value in &value_set`: the members, each once, in some order
    #[verifier::external_body]
    pub fn items(&self) -> (r: Vec<SqlValue>)
        ensures forall|v: SqlValue| self.view().contains(v) <==> r@.contains(v)
    { unimplemented!() }
}

// ---------------- SQL: x [NOT] IN (list), three-valued ---------------------------------------------------------------------
pub open spec fn item(ev: &CombinedExpressionEvaluator, values: Seq<Expression>, row: Row, i: int) -> SqlValue {
    eval_spec(ev, values[i], row)->Ok_0
}
pub open spec fn all_items_ok(ev: &CombinedExpressionEvaluator, values: Seq<Expression>, row: Row, n: int) -> bool decreases n {
    n <= 0 || (all_items_ok(ev, values, row, n - 1) && eval_spec(ev, values[n - 1], row) is Ok)
}
pub open spec fn all_eq_ok(ev: &CombinedExpressionEvaluator, x: SqlValue, values: Seq<Expression>, row: Row, n: int) -> bool decreases n {
    n <= 0 || (all_eq_ok(ev, x, values, row, n - 1) && (item(ev, values, row, n - 1) is Null || eq_spec(x, item(ev, values, row, n - 1)) is Ok))
}
/// some non-NULL list item among the first n equals x (the `=` comparison answers TRUE)
pub open spec fn matches_some(ev: &CombinedExpressionEvaluator, x: SqlValue, values: Seq<Expression>, row: Row, n: int) -> bool decreases n {
    n > 0 && (matches_some(ev, x, values, row, n - 1)
        || (!(item(ev, values, row, n - 1) is Null) && eq_spec(x, item(ev, values, row, n - 1)) == Ok::<SqlValue, ExecutorError>(SqlValue::Boolean(true))))
}
pub open spec fn has_null(ev: &CombinedExpressionEvaluator, values: Seq<Expression>, row: Row, n: int) -> bool decreases n {
    n > 0 && (has_null(ev, values, row, n - 1) || item(ev, values, row, n - 1) is Null)
}
/// v is one of the non-NULL items among the first n
pub open spec fn in_items(ev: &CombinedExpressionEvaluator, values: Seq<Expression>, row: Row, v: SqlValue, n: int) -> bool decreases n {
    n > 0 && (in_items(ev, values, row, v, n - 1) || (item(ev, values, row, n - 1) == v && !(v is Null)))
}
proof fn lemma_member_matches(ev: &CombinedExpressionEvaluator, x: SqlValue, values: Seq<Expression>, row: Row, v: SqlValue, n: int)
    requires in_items(ev, values, row, v, n), eq_spec(x, v) == Ok::<SqlValue, ExecutorError>(SqlValue::Boolean(true))
    ensures matches_some(ev, x, values, row, n)
    decreases n
{
    if n > 0 && in_items(ev, values, row, v, n - 1) { lemma_member_matches(ev, x, values, row, v, n - 1); }
}
proof fn lemma_no_member_matches(ev: &CombinedExpressionEvaluator, x: SqlValue, values: Seq<Expression>, row: Row, n: int)
    requires forall|v: SqlValue| in_items(ev, values, row, v, n) ==> eq_spec(x, v) != Ok::<SqlValue, ExecutorError>(SqlValue::Boolean(true))
    ensures !matches_some(ev, x, values, row, n)
    decreases n
{
    if n > 0 {
        assert forall|v: SqlValue| in_items(ev, values, row, v, n - 1) implies eq_spec(x, v) != Ok::<SqlValue, ExecutorError>(SqlValue::Boolean(true)) by {
            assert(in_items(ev, values, row, v, n));
        }
        lemma_no_member_matches(ev, x, values, row, n - 1);
        let w = item(ev, values, row, n - 1);
        if !(w is Null) { assert(in_items(ev, values, row, w, n)); }
    }
}
proof fn lemma_member_eq_ok(ev: &CombinedExpressionEvaluator, x: SqlValue, values: Seq<Expression>, row: Row, v: SqlValue, n: int)
    requires in_items(ev, values, row, v, n), all_eq_ok(ev, x, values, row, n)
    ensures eq_spec(x, v) is Ok
    decreases n
{
    if n > 0 && in_items(ev, values, row, v, n - 1) { lemma_member_eq_ok(ev, x, values, row, v, n - 1); }
}
proof fn lemma_prefix(ev: &CombinedExpressionEvaluator, x: SqlValue, values: Seq<Expression>, row: Row, k: int, n: int)
    requires 0 <= k <= n
    ensures all_items_ok(ev, values, row, n) ==> all_items_ok(ev, values, row, k), all_eq_ok(ev, x, values, row, n) ==> all_eq_ok(ev, x, values, row, k)
    decreases n - k
{
    if k < n { lemma_prefix(ev, x, values, row, k, n - 1); }
}

proof fn lemma_mono_all(ev: &CombinedExpressionEvaluator, x: SqlValue, values: Seq<Expression>, row: Row, n: int)
    ensures forall|k: int| 0 <= k <= n && #[trigger] matches_some(ev, x, values, row, k) ==> matches_some(ev, x, values, row, n)
    decreases n
{
    if n > 0 { lemma_mono_all(ev, x, values, row, n - 1); }
}
proof fn lemma_members(ev: &CombinedExpressionEvaluator, x: SqlValue, values: Seq<Expression>, row: Row, vs: Seq<SqlValue>)
    requires forall|v: SqlValue| vs.contains(v) == in_items(ev, values, row, v, values.len() as int)
    ensures
        forall|k: int| 0 <= k < vs.len() && eq_spec(x, #[trigger] vs[k]) == Ok::<SqlValue, ExecutorError>(SqlValue::Boolean(true)) ==> matches_some(ev, x, values, row, values.len() as int),
        all_eq_ok(ev, x, values, row, values.len() as int) ==> forall|k: int| 0 <= k < vs.len() ==> eq_spec(x, #[trigger] vs[k]) is Ok,
        (forall|k: int| 0 <= k < vs.len() ==> eq_spec(x, #[trigger] vs[k]) != Ok::<SqlValue, ExecutorError>(SqlValue::Boolean(true))) ==> !matches_some(ev, x, values, row, values.len() as int),
{
    let n = values.len() as int;
    assert forall|k: int| 0 <= k < vs.len() && eq_spec(x, #[trigger] vs[k]) == Ok::<SqlValue, ExecutorError>(SqlValue::Boolean(true)) implies matches_some(ev, x, values, row, n) by {
        assert(vs.contains(vs[k]));
        lemma_member_matches(ev, x, values, row, vs[k], n);
    }
    if all_eq_ok(ev, x, values, row, n) {
        assert forall|k: int| 0 <= k < vs.len() implies eq_spec(x, #[trigger] vs[k]) is Ok by {
            assert(vs.contains(vs[k]));
            lemma_member_eq_ok(ev, x, values, row, vs[k], n);
        }
    }
    if forall|k: int| 0 <= k < vs.len() ==> eq_spec(x, #[trigger] vs[k]) != Ok::<SqlValue, ExecutorError>(SqlValue::Boolean(true)) {
        assert forall|v: SqlValue| in_items(ev, values, row, v, n) implies eq_spec(x, v) != Ok::<SqlValue, ExecutorError>(SqlValue::Boolean(true)) by {
            assert(vs.contains(v));
            let k = choose|k: int| 0 <= k < vs.len() && vs[k] == v;
            assert(eq_spec(x, vs[k]) != Ok::<SqlValue, ExecutorError>(SqlValue::Boolean(true)));
        }
        lemma_no_member_matches(ev, x, values, row, n);
    }
}
/// the SQL value of `x [NOT] IN (values)` when x and all items evaluate
pub open spec fn in3(ev: &CombinedExpressionEvaluator, x: SqlValue, values: Seq<Expression>, row: Row, negated: bool) -> SqlValue {
    let n = values.len() as int;
    if n == 0 { SqlValue::Boolean(negated) }                         // empty list (SQLite / SQL:1999 extension): FALSE, NOT IN: TRUE
    else if x is Null { SqlValue::Null }
    else if matches_some(ev, x, values, row, n) { SqlValue::Boolean(!negated) }
    else if has_null(ev, values, row, n) { SqlValue::Null }          // no match but an UNKNOWN comparison: UNKNOWN
    else { SqlValue::Boolean(negated) }
}

impl CombinedExpressionEvaluator {
//@@ eval_in_list
}

fn canary_in(ev: &CombinedExpressionEvaluator, e: &Expression, vs: &[Expression], neg: bool, row: &Row)
{
    let r = ev.eval_in_list(e, vs, neg, row);
    assert(false); // CANARY
}

}
fn main() {}
'''

_F = 'crates/vibesql-executor/src/evaluator/combined/predicates.rs'
_HEAD = """values@.len() > 0, eval_spec(self, *expr, *row) == Ok::<SqlValue, ExecutorError>(expr_val), !(expr_val is Null),"""
_LIN_INV = '''
                invariant
                    vi__ <= values@.len(), ''' + _HEAD + '''
                    all_items_ok(self, values@, *row, vi__ as int),
                    all_eq_ok(self, expr_val, values@, *row, values@.len() as int) ==> all_eq_ok(self, expr_val, values@, *row, vi__ as int),
                    !matches_some(self, expr_val, values@, *row, vi__ as int),
                    forall|k: int| 0 <= k <= values@.len() && #[trigger] matches_some(self, expr_val, values@, *row, k) ==> matches_some(self, expr_val, values@, *row, values@.len() as int),
                    {{if_has:found_null}}found_null == has_null(self, values@, *row, vi__ as int),{{end}}
                decreases values@.len() - vi__,
'''
_SET_BUILD_INV = '''
                invariant
                    vi__ <= values@.len(), ''' + _HEAD + '''
                    all_items_ok(self, values@, *row, vi__ as int),
                    {{if_has:found_null}}found_null == has_null(self, values@, *row, vi__ as int),{{end}}
                    // the set holds exactly the non-NULL items seen so far
                    forall|v: SqlValue| value_set.view().contains(v) == in_items(self, values@, *row, v, vi__ as int),
                decreases values@.len() - vi__,
'''
_SET_SCAN_INV = '''
                invariant
                    si__ <= vs__@.len(), vi__ == values@.len(), ''' + _HEAD + '''
                    all_items_ok(self, values@, *row, values@.len() as int),
                    {{if_has:found_null}}found_null == has_null(self, values@, *row, values@.len() as int),{{end}}
                    forall|k: int| 0 <= k < vs__@.len() && eq_spec(expr_val, #[trigger] vs__@[k]) == Ok::<SqlValue, ExecutorError>(SqlValue::Boolean(true)) ==> matches_some(self, expr_val, values@, *row, values@.len() as int),
                    all_eq_ok(self, expr_val, values@, *row, values@.len() as int) ==> forall|k: int| 0 <= k < vs__@.len() ==> eq_spec(expr_val, #[trigger] vs__@[k]) is Ok,
                    (forall|k: int| 0 <= k < vs__@.len() ==> eq_spec(expr_val, #[trigger] vs__@[k]) != Ok::<SqlValue, ExecutorError>(SqlValue::Boolean(true))) ==> !matches_some(self, expr_val, values@, *row, values@.len() as int),
                    forall|k: int| 0 <= k < si__ ==> eq_spec(expr_val, #[trigger] vs__@[k]) != Ok::<SqlValue, ExecutorError>(SqlValue::Boolean(true)),
                decreases vs__@.len() - si__,
'''

ITEMS = {
    'eval_in_list': dict(
        file=_F, path='impl CombinedExpressionEvaluator<\'_>::fn eval_in_list', ret='r',
        rewrites=[('re', r'vibesql_ast::', '', None), ('re', r'vibesql_types::', '', None), ('re', r'vibesql_storage::', '', None),
                  ('re', r'self\.database\.map\(\|db\| db\.sql_mode\(\)\)\.unwrap_or_default\(\)', 'self.session_sql_mode()', 1),
                  ('re', r'values\.is_empty\(\)', 'values.len() == 0', 1),
                  ('re', r'std::collections::HashSet::new\(\)', 'ValueSet::new()', 1),
                  # R10 (slice form) for the two `for value_expr in values` loops
                  ('re', r'for value_expr in values \{', 'let mut vi__: usize = 0; while vi__ < values.len() { let value_expr = &values[vi__]; vi__ = vi__ + 1;', 2),
                  # `for value in &value_set`: iteration over the set's members
                  ('re', r'for value in &value_set \{', 'let vs__ = value_set.items(); proof { lemma_members(self, expr_val, values@, *row, vs__@); } let mut si__: usize = 0; while si__ < vs__.len() { let value = &vs__[si__]; si__ = si__ + 1;', 1),
                  # hint before every `match found` return (any number of sites): the scanned prefix contains a match
                  ('re', r'return Ok\(SqlValue::Boolean\(!negated\)\);', 'proof { assert(matches_some(self, expr_val, values@, *row, vi__ as int)); } return Ok(SqlValue::Boolean(!negated));', None)],
        loops={0: _LIN_INV, 1: _SET_BUILD_INV, 2: _SET_SCAN_INV},
        proofs=[('after:re:let expr_val = self\\.eval\\(expr, row\\)\\?;', 'proof { lemma_mono_all(self, expr_val, values@, *row, values@.len() as int); }'),
                ('@loop0', 'proof { lemma_prefix(self, expr_val, values@, *row, vi__ as int + 1, values@.len() as int); }'),
                ('@loop1', 'proof { lemma_prefix(self, expr_val, values@, *row, vi__ as int + 1, values@.len() as int); }')],
        contract='''
    ensures
        // when the probe and every list item evaluate (and no `=` raises a type error), the result is the SQL value of x [NOT] IN (list)
        (values@.len() == 0) ==> r == Ok::<SqlValue, ExecutorError>(SqlValue::Boolean(negated)),
        (values@.len() > 0 && eval_spec(self, *expr, *row) is Ok && all_items_ok(self, values@, *row, values@.len() as int))
            ==> (r matches Ok(v) ==> v == in3(self, eval_spec(self, *expr, *row)->Ok_0, values@, *row, negated)),
        (values@.len() > 0 && eval_spec(self, *expr, *row) is Ok && all_items_ok(self, values@, *row, values@.len() as int)
            && all_eq_ok(self, eval_spec(self, *expr, *row)->Ok_0, values@, *row, values@.len() as int)) ==> r is Ok,
'''),
}

OBLIGATIONS = {
    'lemma_member_matches': ['post:a_matching_member_is_a_match'], 'lemma_no_member_matches': ['post:no_matching_member_means_no_match'],
    'lemma_member_eq_ok': ['post'], 'lemma_prefix': ['post'], 'lemma_mono_all': ['post:match_is_monotone_in_the_prefix'], 'lemma_members': ['post:set_scan_equals_list_scan'],
    'eval_in_list': ['post:three_valued_in_list_for_every_list_length_both_branches', 'safety:index_in_bounds', 'proof:loop_invariants'],
}
CANARIES = ['canary_in']
TRUSTED = [
    'external_body Val / Expression / Row / ExecutorError / SqlMode (clone is a copy): opaque; SqlValue collapsed to Null | Boolean | Other (the function inspects only these)',
    'external_body CombinedExpressionEvaluator::eval: uninterpreted DETERMINISTIC function of (expression, row); session_sql_mode: self.database.map(|db| db.sql_mode()).unwrap_or_default()',
    'external_body ExpressionEvaluator::eval_binary_op_static(.., Equal, ..): uninterpreted eq_spec(a, b) (decision table of `=`: unit E-ops)',
    'external_body ValueSet (new, insert, items): std HashSet<SqlValue> as an abstract set with structural membership (Eq / Hash laws of SqlValue: unit T-laws, C21)',
    'R10 rewrites (slice form) of `for value_expr in values` and of `for value in &value_set` (iteration over the members in some order)',
]
