NAME = 'B-node'
PROPERTIES = ['C17']
ENGINE = 'verus'
CLASS = 'U'
DOC = ('B+ tree node operations (btree/node/{operations,split_merge,structure}.rs) against an ordered-multimap view: leaf insert / search / delete_all '
       'keep the entries strictly sorted and update exactly the touched key; InternalNode::find_child_index returns the child that covers the key; '
       'insert_child and both split functions preserve sortedness and the children = keys + 1 arity, partition with left < separator <= right and '
       'maintain the leaf chain.')

TEMPLATE = r'''
use vstd::prelude::*;
verus! {

// R2: Key = Vec<SqlValue> -> opaque key with an uninterpreted total order (for SqlValue: unit T-laws / C21)
#[verifier::external_body]
pub struct Key { k: Vec<u8> }
pub uninterp spec fn key_le(a: Key, b: Key) -> bool;
pub open spec fn key_lt(a: Key, b: Key) -> bool { key_le(a, b) && a != b }
#[verifier::external_body]
pub proof fn key_total_order()
    ensures
        forall|a: Key| key_le(a, a),
        forall|a: Key, b: Key| key_le(a, b) || key_le(b, a),
        forall|a: Key, b: Key| key_le(a, b) && key_le(b, a) ==> a == b,
        forall|a: Key, b: Key, c: Key| key_le(a, b) && key_le(b, c) ==> key_le(a, c),
{}
impl Key {
    #[verifier::external_body]
    pub fn clone(&self) -> (r: Key) ensures r == *self { unimplemented!() }
}
pub type RowId = usize;
pub type PageId = u64;

//@@ NULL_PAGE_ID

//@@ InternalNode

//@@ LeafNode

pub open spec fn keys_sorted(s: Seq<Key>) -> bool { forall|i: int, j: int| 0 <= i < j < s.len() ==> key_lt(s[i], s[j]) }
pub open spec fn entries_sorted(s: Seq<(Key, Vec<RowId>)>) -> bool { forall|i: int, j: int| 0 <= i < j < s.len() ==> key_lt(s[i].0, s[j].0) }
pub open spec fn has_key(s: Seq<(Key, Vec<RowId>)>, k: Key) -> bool { exists|i: int| 0 <= i < s.len() && s[i].0 == k }
/// the ordered multimap a leaf represents: key -> row ids (defined for strictly sorted entries: keys are unique)
pub open spec fn rows_of(s: Seq<(Key, Vec<RowId>)>, k: Key) -> Seq<RowId> {
    if has_key(s, k) { s[choose|i: int| 0 <= i < s.len() && s[i].0 == k].1@ } else { Seq::empty() }
}

// R4: slice::binary_search on sorted keys / binary_search_by_key on sorted entries (std documented behaviour)
#[verifier::external_body]
fn bsearch_keys_raw(v: &Vec<Key>, key: &Key) -> (r: Result<usize, usize>)
    requires keys_sorted(v@)
    ensures v@.len() <= usize::MAX, match r {
        Ok(i) => i < v@.len() && v@[i as int] == *key,
        Err(i) => i <= v@.len() && (forall|j: int| 0 <= j < i ==> key_lt(v@[j], *key)) && (forall|j: int| i <= j < v@.len() ==> key_lt(*key, v@[j])),
    }
{ unimplemented!() }
#[verifier::external_body]
fn bsearch_entries_raw(v: &Vec<(Key, Vec<RowId>)>, key: &Key) -> (r: Result<usize, usize>)
    requires entries_sorted(v@)
    ensures v@.len() <= usize::MAX, match r {
        Ok(i) => i < v@.len() && v@[i as int].0 == *key,
        Err(i) => i <= v@.len() && (forall|j: int| 0 <= j < i ==> key_lt(v@[j].0, *key)) && (forall|j: int| i <= j < v@.len() ==> key_lt(*key, v@[j].0)),
    }
{ unimplemented!() }
// verified wrappers: the consequences of the std contract on SORTED input that the call sites need (proved here, not assumed)
fn bsearch_keys(v: &Vec<Key>, key: &Key) -> (r: Result<usize, usize>)
    requires keys_sorted(v@)
    ensures v@.len() <= usize::MAX, match r {
        Ok(i) => i < v@.len() && v@[i as int] == *key
            && (forall|j: int| 0 <= j < i ==> key_lt(v@[j], *key)) && (forall|j: int| i < j < v@.len() ==> key_lt(*key, v@[j])),
        Err(i) => i <= v@.len() && (forall|j: int| 0 <= j < i ==> key_lt(v@[j], *key)) && (forall|j: int| i <= j < v@.len() ==> key_lt(*key, v@[j])),
    }
{
    bsearch_keys_raw(v, key)
}
fn bsearch_entries(v: &Vec<(Key, Vec<RowId>)>, key: &Key) -> (r: Result<usize, usize>)
    requires entries_sorted(v@)
    ensures v@.len() <= usize::MAX, match r {
        Ok(i) => i < v@.len() && v@[i as int].0 == *key && has_key(v@, *key) && rows_of(v@, *key) == v@[i as int].1@,
        Err(i) => i <= v@.len() && !has_key(v@, *key) && rows_of(v@, *key) == Seq::<RowId>::empty()
            && (forall|j: int| 0 <= j < i ==> key_lt(v@[j].0, *key)) && (forall|j: int| i <= j < v@.len() ==> key_lt(*key, v@[j].0)),
    }
{
    let r = bsearch_entries_raw(v, key);
    proof {
        key_total_order();
        match r {
            Ok(i) => { lemma_rows_of_at(v@, i as int); }
            Err(i) => {
                if has_key(v@, *key) {
                    let w = choose|w: int| 0 <= w < v@.len() && v@[w].0 == *key;
                    if w < i { assert(key_lt(v@[w].0, *key)); } else { assert(key_lt(*key, v@[w].0)); }
                }
            }
        }
    }
    r
}

proof fn lemma_rows_of_at(s: Seq<(Key, Vec<RowId>)>, i: int)
    requires entries_sorted(s), 0 <= i < s.len()
    ensures has_key(s, s[i].0), rows_of(s, s[i].0) == s[i].1@
{
    key_total_order();
    let j = choose|j: int| 0 <= j < s.len() && s[j].0 == s[i].0;
    if j < i { assert(key_lt(s[j].0, s[i].0)); }
    if i < j { assert(key_lt(s[i].0, s[j].0)); }
}

impl InternalNode {
//@@ internal_new

//@@ find_child_index

//@@ insert_child

//@@ internal_split
}

impl LeafNode {
//@@ leaf_new

//@@ leaf_insert

//@@ leaf_search

//@@ delete_all

//@@ leaf_split
}

fn canary_leaf_insert(n: &mut LeafNode, key: Key, row_id: RowId)
    requires entries_sorted(old(n).entries@)
{
    let r = n.insert(key, row_id);
    assert(false); // CANARY
}
fn canary_internal_split(n: &mut InternalNode, p: u64)
    requires keys_sorted(old(n).keys@), old(n).keys@.len() >= 1, old(n).children@.len() == old(n).keys@.len() + 1
{
    let r = n.split_internal(p);
    assert(false); // CANARY
}

}
fn main() {}
'''

_O = 'crates/vibesql-storage/src/btree/node/operations.rs'
_S = 'crates/vibesql-storage/src/btree/node/split_merge.rs'
_T = 'crates/vibesql-storage/src/btree/node/structure.rs'
_SELF_I = ('re', r'-> Self\b', '-> InternalNode', 1)
_SELF_L = ('re', r'-> Self\b', '-> LeafNode', 1)
ITEMS = {
    'NULL_PAGE_ID': dict(file='crates/vibesql-storage/src/btree/mod.rs', path='const NULL_PAGE_ID'),
    'InternalNode': dict(file=_T, path='struct InternalNode'),
    'LeafNode': dict(file=_T, path='struct LeafNode'),
    'internal_new': dict(file=_T, path='impl InternalNode::fn new', ret='r', rewrites=[_SELF_I], contract='''
    ensures r.page_id == page_id, r.keys@.len() == 0, r.children@.len() == 0,
'''),
    'leaf_new': dict(file=_T, path='impl LeafNode::fn new', ret='r', rewrites=[_SELF_L], contract='''
    ensures r.page_id == page_id, r.entries@.len() == 0, r.next_leaf == NULL_PAGE_ID,
'''),
    'find_child_index': dict(
        file=_O, path='impl InternalNode::fn find_child_index', ret='r',
        rewrites=[('re', r'self\.keys\.binary_search\(key\)', 'bsearch_keys(&self.keys, key)', 1)],
        proofs=[('@entry', 'proof { key_total_order(); }')],
        contract='''
    requires keys_sorted(self.keys@),
    ensures
        r <= self.keys@.len(),
        // the child r covers the key: every separator left of it is <= key, every separator from r on is > key
        forall|j: int| 0 <= j < r ==> key_le(self.keys@[j], *key),
        forall|j: int| r <= j < self.keys@.len() ==> key_lt(*key, self.keys@[j]),
'''),
    'insert_child': dict(
        file=_O, path='impl InternalNode::fn insert_child',
        rewrites=[('re', r'self\.keys\.binary_search\(&key\)', 'bsearch_keys(&self.keys, &key)', 1)],
        proofs=[('@entry', 'proof { key_total_order(); }')],
        contract='''
    requires keys_sorted(old(self).keys@), old(self).children@.len() == old(self).keys@.len() + 1,
             old(self).keys@.len() < usize::MAX,      // a Vec never holds usize::MAX elements (allocation limit isize::MAX bytes)
             forall|j: int| 0 <= j < old(self).keys@.len() ==> old(self).keys@[j] != key,     // a separator is inserted once (caller: split propagation)
    ensures
        keys_sorted(final(self).keys@),
        final(self).children@.len() == final(self).keys@.len() + 1,
        exists|i: int| 0 <= i <= old(self).keys@.len() && final(self).keys@ == old(self).keys@.insert(i, key)
            && final(self).children@ == old(self).children@.insert(i + 1, child_page_id),
        final(self).page_id == old(self).page_id,
'''),
    'internal_split': dict(
        file=_S, path='impl InternalNode::fn split', ret='r', rewrites=[('lit', 'fn split(', 'fn split_internal(', 1)],
        proofs=[('@entry', 'proof { key_total_order(); }')],
        contract='''
    requires keys_sorted(old(self).keys@), old(self).keys@.len() >= 1, old(self).children@.len() == old(self).keys@.len() + 1,
    ensures ({
        let mid = old(self).keys@.len() as int / 2;
        &&& r.0 == old(self).keys@[mid]
        &&& final(self).keys@ == old(self).keys@.subrange(0, mid)
        &&& r.1.keys@ == old(self).keys@.subrange(mid + 1, old(self).keys@.len() as int)
        &&& final(self).children@ == old(self).children@.subrange(0, mid + 1)
        &&& r.1.children@ == old(self).children@.subrange(mid + 1, old(self).children@.len() as int)
        &&& final(self).children@.len() == final(self).keys@.len() + 1
        &&& r.1.children@.len() == r.1.keys@.len() + 1
        &&& keys_sorted(final(self).keys@) && keys_sorted(r.1.keys@)
        &&& (forall|j: int| 0 <= j < final(self).keys@.len() ==> key_lt(final(self).keys@[j], r.0))
        &&& (forall|j: int| 0 <= j < r.1.keys@.len() ==> key_lt(r.0, r.1.keys@[j]))
        &&& r.1.page_id == new_page_id && final(self).page_id == old(self).page_id
    }),
'''),
    'leaf_insert': dict(
        file=_O, path='impl LeafNode::fn insert', ret='r',
        rewrites=[('re', r'self\.entries\.binary_search_by_key\(&&key, \|\(k, _\)\| k\)', 'bsearch_entries(&self.entries, &key)', 1)],
        proofs=[('@entry', 'proof { key_total_order(); }'),
                ('after:self.entries[idx].1.push(row_id);', '''proof {
    assert(entries_sorted(self.entries@)) by { assert forall|i: int, j: int| 0 <= i < j < self.entries@.len() implies key_lt(self.entries@[i].0, self.entries@[j].0) by {
        assert(self.entries@[i].0 == old(self).entries@[i].0 && self.entries@[j].0 == old(self).entries@[j].0); } }
    lemma_rows_of_at(self.entries@, idx as int); lemma_rows_of_at(old(self).entries@, idx as int);
    assert forall|k: Key| k != key implies rows_of(self.entries@, k) == rows_of(old(self).entries@, k) by { lemma_other_keys_push(old(self).entries@, self.entries@, idx as int, k); }
}'''),
                ('re:self\\.entries\\.insert\\(idx, \\(key, vec!\\[row_id\\]\\)\\);', None)],
        contract='''
    requires entries_sorted(old(self).entries@),
    ensures
        r,
        entries_sorted(final(self).entries@),
        // multimap view: exactly the touched key gains the row id (a new key starts with [row_id]); every other key is unchanged
        rows_of(final(self).entries@, key) == rows_of(old(self).entries@, key).push(row_id),
        forall|k: Key| k != key ==> rows_of(final(self).entries@, k) == rows_of(old(self).entries@, k),
        final(self).page_id == old(self).page_id && final(self).next_leaf == old(self).next_leaf,
'''),
    'leaf_search': dict(
        file=_O, path='impl LeafNode::fn search', ret='r',
        rewrites=[('re', r'self\.entries\s*\.binary_search_by_key\(&key, \|\(k, _\)\| k\)\s*\.ok\(\)\s*\.map\(\|idx\| &self\.entries\[idx\]\.1\)',
                   'match bsearch_entries(&self.entries, key) { Ok(idx) => Some(&self.entries[idx].1), Err(_) => None }', 1)],
        proofs=[('@entry', 'proof { key_total_order(); }')],
        contract='''
    requires entries_sorted(self.entries@),
    ensures
        r is Some <==> has_key(self.entries@, *key),
        r is Some ==> r.unwrap()@ == rows_of(self.entries@, *key),
'''),
    'delete_all': dict(
        file=_O, path='impl LeafNode::fn delete_all', ret='r',
        rewrites=[('re', r'self\.entries\.binary_search_by_key\(&key, \|\(k, _\)\| k\)', 'bsearch_entries(&self.entries, key)', 1)],
        proofs=[('@entry', 'proof { key_total_order(); }'),
                ('after:re:self\\.entries\\.remove\\(idx\\);', '''proof {
    let o = old(self).entries@; let n = self.entries@;
    assert forall|i: int| 0 <= i < n.len() implies n[i] == (if i < idx { o[i] } else { o[i + 1] }) by {}
    assert(entries_sorted(n));
    assert(!has_key(n, *key)) by { if has_key(n, *key) { let w = choose|w: int| 0 <= w < n.len() && n[w].0 == *key; if w < idx { assert(key_lt(o[w].0, o[idx as int].0)); } else { assert(key_lt(o[idx as int].0, o[w + 1].0)); } } }
    assert forall|k: Key| k != *key implies rows_of(n, k) == rows_of(o, k) by { lemma_other_keys_remove(o, n, idx as int, k); }
}''')],
        contract='''
    requires entries_sorted(old(self).entries@),
    ensures
        r == has_key(old(self).entries@, *key),
        entries_sorted(final(self).entries@),
        !has_key(final(self).entries@, *key),
        forall|k: Key| k != *key ==> rows_of(final(self).entries@, k) == rows_of(old(self).entries@, k),
        final(self).page_id == old(self).page_id && final(self).next_leaf == old(self).next_leaf,
'''),
    'leaf_split': dict(
        file=_S, path='impl LeafNode::fn split', ret='r', rewrites=[('lit', 'fn split(', 'fn split_leaf(', 1)],
        proofs=[('@entry', 'proof { key_total_order(); }'),
                ('after:let middle_key = right_node.entries[0].0.clone();', '''proof {
    let o = old(self).entries@; let mid = o.len() as int / 2;
    assert(self.entries@ =~= o.subrange(0, mid)); assert(right_node.entries@ =~= o.subrange(mid, o.len() as int));
    assert(middle_key == o[mid].0);
    assert forall|j: int| 0 <= j < self.entries@.len() implies key_lt(self.entries@[j].0, middle_key) by { assert(key_lt(o[j].0, o[mid].0)); }
    assert forall|j: int| 0 <= j < right_node.entries@.len() implies key_le(middle_key, right_node.entries@[j].0) by { if j > 0 { assert(key_lt(o[mid].0, o[mid + j].0)); } }
    assert(entries_sorted(self.entries@)) by { assert forall|i: int, j: int| 0 <= i < j < self.entries@.len() implies key_lt(self.entries@[i].0, self.entries@[j].0) by { assert(key_lt(o[i].0, o[j].0)); } }
    assert(entries_sorted(right_node.entries@)) by { assert forall|i: int, j: int| 0 <= i < j < right_node.entries@.len() implies key_lt(right_node.entries@[i].0, right_node.entries@[j].0) by { assert(key_lt(o[mid + i].0, o[mid + j].0)); } }
}''')],
        contract='''
    requires entries_sorted(old(self).entries@), old(self).entries@.len() >= 1,
    ensures ({
        let mid = old(self).entries@.len() as int / 2;
        &&& final(self).entries@ == old(self).entries@.subrange(0, mid)
        &&& r.1.entries@ == old(self).entries@.subrange(mid, old(self).entries@.len() as int)
        &&& r.0 == old(self).entries@[mid].0
        &&& entries_sorted(final(self).entries@) && entries_sorted(r.1.entries@)
        &&& (forall|j: int| 0 <= j < final(self).entries@.len() ==> key_lt(final(self).entries@[j].0, r.0))
        &&& (forall|j: int| 0 <= j < r.1.entries@.len() ==> key_le(r.0, r.1.entries@[j].0))
        // leaf chain: left -> new right -> old next
        &&& final(self).next_leaf == new_page_id && r.1.next_leaf == old(self).next_leaf && r.1.page_id == new_page_id
        &&& final(self).page_id == old(self).page_id
    }),
'''),
}
# the None placeholder above is filled below (kept separate for readability)
ITEMS['leaf_insert']['proofs'][2] = ('after:re:self\\.entries\\.insert\\(idx, [^;]*\\);', '''proof {
    let o = old(self).entries@; let n = self.entries@;
    assert(n.len() == o.len() + 1 && n[idx as int].0 == key && n[idx as int].1@ == seq![row_id]);
    assert forall|i: int| 0 <= i < n.len() implies n[i] == (if i < idx { o[i] } else if i == idx { n[idx as int] } else { o[i - 1] }) by {}
    assert(entries_sorted(n)) by { assert forall|i: int, j: int| 0 <= i < j < n.len() implies key_lt(n[i].0, n[j].0) by {
        if j == idx { assert(key_lt(o[i].0, key)); } else if i == idx { assert(key_lt(key, o[j - 1].0)); } } }
    assert(!has_key(o, key)) by { if has_key(o, key) { let w = choose|w: int| 0 <= w < o.len() && o[w].0 == key; if w < idx { assert(key_lt(o[w].0, key)); } else { assert(key_lt(key, o[w].0)); } } }
    lemma_rows_of_at(n, idx as int);
    assert(rows_of(o, key) =~= Seq::<RowId>::empty());
    assert(rows_of(n, key) =~= rows_of(o, key).push(row_id));
    assert forall|k: Key| k != key implies rows_of(n, k) == rows_of(o, k) by { lemma_other_keys_insert(o, n, idx as int, k); }
}''')

TEMPLATE = TEMPLATE.replace('impl InternalNode {\n//@@ internal_new', r'''/// keys other than the touched one: pushing a row id onto entry idx changes nothing for them
proof fn lemma_other_keys_push(o: Seq<(Key, Vec<RowId>)>, n: Seq<(Key, Vec<RowId>)>, idx: int, k: Key)
    requires entries_sorted(o), entries_sorted(n), 0 <= idx < o.len(), n.len() == o.len(), k != o[idx].0,
             forall|i: int| 0 <= i < o.len() ==> n[i].0 == o[i].0, forall|i: int| 0 <= i < o.len() && i != idx ==> n[i] == o[i],
    ensures rows_of(n, k) == rows_of(o, k)
{
    if has_key(o, k) {
        let w = choose|w: int| 0 <= w < o.len() && o[w].0 == k;
        assert(n[w].0 == k); lemma_rows_of_at(o, w); lemma_rows_of_at(n, w);
    } else if has_key(n, k) {
        let w = choose|w: int| 0 <= w < n.len() && n[w].0 == k;
        assert(o[w].0 == k);
    }
}
/// keys other than the inserted one: inserting a fresh entry at idx changes nothing for them
proof fn lemma_other_keys_remove(o: Seq<(Key, Vec<RowId>)>, n: Seq<(Key, Vec<RowId>)>, idx: int, k: Key)
    requires entries_sorted(o), entries_sorted(n), 0 <= idx < o.len(), n.len() == o.len() - 1, k != o[idx].0,
             forall|i: int| 0 <= i < n.len() ==> n[i] == (if i < idx { o[i] } else { o[i + 1] }),
    ensures rows_of(n, k) == rows_of(o, k)
{
    if has_key(o, k) {
        let w = choose|w: int| 0 <= w < o.len() && o[w].0 == k;
        let w2 = if w < idx { w } else { w - 1 };
        assert(n[w2] == o[w]); lemma_rows_of_at(o, w); lemma_rows_of_at(n, w2);
    } else if has_key(n, k) {
        let w = choose|w: int| 0 <= w < n.len() && n[w].0 == k;
        let w0 = if w < idx { w } else { w + 1 };
        assert(o[w0].0 == k);
    }
}
proof fn lemma_other_keys_insert(o: Seq<(Key, Vec<RowId>)>, n: Seq<(Key, Vec<RowId>)>, idx: int, k: Key)
    requires entries_sorted(o), entries_sorted(n), 0 <= idx <= o.len(), n.len() == o.len() + 1, k != n[idx].0,
             forall|i: int| 0 <= i < n.len() && i != idx ==> n[i] == (if i < idx { o[i] } else { o[i - 1] }),
    ensures rows_of(n, k) == rows_of(o, k)
{
    if has_key(o, k) {
        let w = choose|w: int| 0 <= w < o.len() && o[w].0 == k;
        let w2 = if w < idx { w } else { w + 1 };
        assert(n[w2] == o[w]); lemma_rows_of_at(o, w); lemma_rows_of_at(n, w2);
    } else if has_key(n, k) {
        let w = choose|w: int| 0 <= w < n.len() && n[w].0 == k;
        let w0 = if w < idx { w } else { w - 1 };
        assert(o[w0].0 == k);
    }
}

impl InternalNode {
//@@ internal_new''')

OBLIGATIONS = {
    'find_child_index': ['post:child_covers_key', 'safety:no_overflow'],
    'insert_child': ['post:sorted_and_children_keys_arity', 'safety:no_panic'],
    'leaf_insert_marker': [],
}
OBLIGATIONS = {
    'find_child_index': ['post:child_covers_key', 'safety:no_overflow'],
    'insert_child': ['post:sorted_and_children_keys_arity', 'safety:no_panic'],
    'insert': ['post:multimap_view_updated_only_at_key', 'safety:index_in_bounds'],
    'search': ['post:some_iff_key_present_with_its_row_ids', 'safety:index_in_bounds'],
    'delete_all': ['post:key_removed_others_unchanged', 'safety:index_in_bounds'],
    'split_internal': ['post:partition_left_lt_sep_lt_right_and_arity', 'safety:index_in_bounds'],
    'split_leaf': ['post:partition_left_lt_sep_le_right_and_leaf_chain', 'safety:index_in_bounds'],
    'bsearch_entries': ['post:consequences_of_binary_search_on_sorted_entries'],
    'bsearch_keys': ['post:consequences_of_binary_search_on_sorted_keys'],
    'lemma_other_keys_remove': ['post:frame'],
    'lemma_rows_of_at': ['post:view_well_defined_on_sorted_entries'],
    'lemma_other_keys_push': ['post:frame'],
    'lemma_other_keys_insert': ['post:frame'],
}
CANARIES = ['canary_leaf_insert', 'canary_internal_split']
TRUSTED = [
    'external_body Key (clone) and key_total_order: Vec<SqlValue> as an opaque key with an uninterpreted total order (for SqlValue: unit T-laws, C21)',
    'external_body bsearch_keys_raw / bsearch_entries_raw: slice::binary_search / binary_search_by_key on sorted input (std documented behaviour); the wrappers bsearch_keys / bsearch_entries are verified',
    'vstd specs: Vec::insert, remove, split_off, pop, push, len, index',
    'LeafNode::delete (mutable borrow of a vector element) is not under contract; whole-tree operations (BTreeIndex insert/delete/rebalance/bulk_load/range_scan), page (de)serialisation beyond varints: not under contract',
]
