NAME = 'A-col'
PROPERTIES = ['C03', 'C07']
ENGINE = 'verus'
CLASS = 'U'
DOC = ('the columnar aggregate functions (select/columnar/aggregate.rs, scan.rs) against the SQL definitions, for every table content and every '
       'filter bitmap: COUNT(*) = number of selected rows and is never NULL; SUM / AVG / MIN / MAX range over the selected non-NULL values of the '
       'column and are NULL iff there is none; AVG divides by the number of non-NULL values. ColumnIterator::next is the row-by-row cell access.')

TEMPLATE = r'''
use vstd::prelude::*;
verus! {

// ---------------- R2: leaf types ------------------------------------------------------------------------------
#[verifier::external_body] pub struct Opq { o: u8 }          // String / Date / Time / Timestamp / Interval payloads, error messages
#[derive(PartialEq, Eq, Structural)]
pub enum Ordering { Less, Equal, Greater }

//@@ SqlValue

impl SqlValue {
    #[verifier::external_body]
    pub fn clone(&self) -> (r: SqlValue) ensures r == *self { unimplemented!() }
}
pub enum ExecutorError { UnsupportedExpression(Opq) }
#[verifier::external_body] fn fmt_msg() -> (r: Opq) { unimplemented!() }        // format!(..) / "..".to_string()

//@@ Row

impl Row {
    // `self.values.get(index)` (std slice::get)
    #[verifier::external_body]
    pub fn get(&self, index: usize) -> (r: Option<&SqlValue>)
        ensures r is Some <==> index < self.values@.len(), r is Some ==> *r.unwrap() == self.values@[index as int]
    { unimplemented!() }
}

// ---------------- f64 arithmetic as uninterpreted functions (machine floating point is not interpreted) --------
pub uninterp spec fn f_zero() -> f64;
pub uninterp spec fn f_add(a: f64, b: f64) -> f64;
pub uninterp spec fn f_div(a: f64, b: f64) -> f64;
pub uninterp spec fn f_lt(a: f64, b: f64) -> Option<Ordering>;
pub uninterp spec fn f_of_i64(a: i64) -> f64;
pub uninterp spec fn f_of_i16(a: i16) -> f64;
pub uninterp spec fn f_of_f32(a: f32) -> f64;
pub uninterp spec fn f_of_i128(a: i128) -> f64;
#[verifier::external_body] fn fzero() -> (r: f64) ensures r == f_zero() { 0.0 }
#[verifier::external_body] fn fadd(a: f64, b: f64) -> (r: f64) ensures r == f_add(a, b) { a + b }
#[verifier::external_body] fn fdiv(a: f64, b: f64) -> (r: f64) ensures r == f_div(a, b) { a / b }
#[verifier::external_body] fn f64_of_i64(a: i64) -> (r: f64) ensures r == f_of_i64(a) { a as f64 }
#[verifier::external_body] fn f64_of_i16(a: i16) -> (r: f64) ensures r == f_of_i16(a) { a as f64 }
#[verifier::external_body] fn f64_of_f32(a: f32) -> (r: f64) ensures r == f_of_f32(a) { a as f64 }
#[verifier::external_body] fn f64_of_i128(a: i128) -> (r: f64) ensures r == f_of_i128(a) { a as f64 }
// `<integer> as f64` where the integer type is not fixed by the text (i64 counters; usize when a count comes from the bitmap)
pub trait AsF64: Sized {
    spec fn f_val(self) -> f64;
    fn conv(self) -> (r: f64) ensures r == self.f_val();
}
impl AsF64 for i64 {
    open spec fn f_val(self) -> f64 { f_of_i64(self) }
    #[verifier::external_body] fn conv(self) -> (r: f64) { self as f64 }
}
impl AsF64 for usize {
    open spec fn f_val(self) -> f64 { f_of_i64(self as i64) }
    #[verifier::external_body] fn conv(self) -> (r: f64) { self as f64 }
}

// `bitmap.get(i).copied().unwrap_or(false)`
#[verifier::external_body]
fn bm_get(bitmap: &[bool], i: usize) -> (r: bool) ensures r == (i < bitmap@.len() && bitmap@[i as int]) { unimplemented!() }
// `bitmap.iter().filter(|&&pass| pass).count()`
pub open spec fn n_true(s: Seq<bool>, n: int) -> int decreases n {
    if n <= 0 { 0 } else { n_true(s, n - 1) + (if s[n - 1] { 1int } else { 0int }) }
}
#[verifier::external_body]
fn count_true(bitmap: &[bool]) -> (r: usize) ensures r == n_true(bitmap@, bitmap@.len() as int) { unimplemented!() }

// ---------------- the table as seen by the aggregate: selected rows, cells, live (non-NULL) cells --------------
pub open spec fn sel(bm: Option<&[bool]>, i: int) -> bool {
    bm is None || (0 <= i < bm.unwrap()@.len() && bm.unwrap()@[i])
}
pub open spec fn cell(rows: Seq<Row>, c: usize, i: int) -> Option<SqlValue> {
    if c < rows[i].values@.len() { Some(rows[i].values@[c as int]) } else { None }
}
/// row i takes part in an aggregate over column c: selected by the filter and holding a non-NULL value
pub open spec fn live(rows: Seq<Row>, c: usize, bm: Option<&[bool]>, i: int) -> bool {
    sel(bm, i) && cell(rows, c, i) is Some && !(cell(rows, c, i).unwrap() is Null)
}
/// COUNT(*): number of selected rows among the first n
pub open spec fn n_sel(bm: Option<&[bool]>, n: int) -> int decreases n {
    if n <= 0 { 0 } else { n_sel(bm, n - 1) + (if sel(bm, n - 1) { 1int } else { 0int }) }
}
/// COUNT(column): number of live cells among the first n rows
pub open spec fn n_live(rows: Seq<Row>, c: usize, bm: Option<&[bool]>, n: int) -> int decreases n {
    if n <= 0 { 0 } else { n_live(rows, c, bm, n - 1) + (if live(rows, c, bm, n - 1) { 1int } else { 0int }) }
}
pub open spec fn numeric(v: SqlValue) -> bool {
    v is Integer || v is Bigint || v is Smallint || v is Float || v is Real || v is Double || v is Numeric
}
pub open spec fn to_f(v: SqlValue) -> f64 {
    match v {
        SqlValue::Integer(x) => f_of_i64(x), SqlValue::Bigint(x) => f_of_i64(x), SqlValue::Smallint(x) => f_of_i16(x),
        SqlValue::Float(x) => f_of_f32(x), SqlValue::Real(x) => f_of_f32(x), SqlValue::Double(x) => x, SqlValue::Numeric(x) => x, _ => f_zero(),
    }
}
/// SUM over the live cells of the first n rows, in row order (f_add is the machine addition, uninterpreted)
pub open spec fn f_sum(rows: Seq<Row>, c: usize, bm: Option<&[bool]>, n: int) -> f64 decreases n {
    if n <= 0 { f_zero() } else if live(rows, c, bm, n - 1) { f_add(f_sum(rows, c, bm, n - 1), to_f(cell(rows, c, n - 1).unwrap())) } else { f_sum(rows, c, bm, n - 1) }
}
/// every live cell of the first n rows is numeric
pub open spec fn all_numeric(rows: Seq<Row>, c: usize, bm: Option<&[bool]>, n: int) -> bool {
    forall|i: int| 0 <= i < n && live(rows, c, bm, i) ==> numeric(#[trigger] cell(rows, c, i).unwrap())
}
/// what the float SIMD driver accepts: REAL cells are not among them (can_use_simd_for_column does not choose the driver for a REAL column)
pub open spec fn fnumeric(v: SqlValue) -> bool { numeric(v) && !(v is Real) }
pub open spec fn all_fnumeric(rows: Seq<Row>, c: usize, bm: Option<&[bool]>, n: int) -> bool {
    forall|i: int| 0 <= i < n && live(rows, c, bm, i) ==> fnumeric(#[trigger] cell(rows, c, i).unwrap())
}
/// the filter bitmap covers the table (create_filter_bitmap(rows.len(), ..) builds it that way)
pub open spec fn bm_ok(rows: Seq<Row>, bm: Option<&[bool]>) -> bool {
    bm is Some ==> bm.unwrap()@.len() == rows.len()
}
pub uninterp spec fn f32_lt(a: f32, b: f32) -> bool;     // a.partial_cmp(b) == Some(Less) (machine float comparison, uninterpreted)
pub uninterp spec fn f64_lt(a: f64, b: f64) -> bool;
/// "a < b" for MIN / MAX: numeric comparison within a numeric variant, the row path's comparator for every other pair - a columnar MIN / MAX that keeps the FIRST
/// value of a VARCHAR / DATE column (every pair "not less") does NOT satisfy this (defect repaired by fix 20eb4028)
pub open spec fn lt_spec(a: SqlValue, b: SqlValue) -> bool {
    match (a, b) {
        (SqlValue::Integer(x), SqlValue::Integer(y)) => x < y,
        (SqlValue::Bigint(x), SqlValue::Bigint(y)) => x < y,
        (SqlValue::Smallint(x), SqlValue::Smallint(y)) => x < y,
        (SqlValue::Float(x), SqlValue::Float(y)) => f32_lt(x, y),
        (SqlValue::Double(x), SqlValue::Double(y)) => f64_lt(x, y),
        (SqlValue::Numeric(x), SqlValue::Numeric(y)) => f64_lt(x, y),
        // every other pair (strings, dates, booleans, REAL, mixed variants): what the ROW path's MIN / MAX use - compare_sql_values says Less
        _ => row_lt(a, b),
    }
}
/// select::grouping::compare_sql_values(a, b) == Less (the comparator of the row-path MIN / MAX accumulators and of ORDER BY: units S-cmpsort / T-laws)
pub uninterp spec fn row_lt(a: SqlValue, b: SqlValue) -> bool;
#[verifier::external_body] fn compare_sql_values(a: &SqlValue, b: &SqlValue) -> (r: Ordering) ensures (r == Ordering::Less) == row_lt(*a, *b) { unimplemented!() }
#[verifier::external_body] fn i64_cmp(a: i64, b: i64) -> (r: Ordering) ensures r == (if a < b { Ordering::Less } else if a == b { Ordering::Equal } else { Ordering::Greater }) { unimplemented!() }
#[verifier::external_body] fn i16_cmp(a: i16, b: i16) -> (r: Ordering) ensures r == (if a < b { Ordering::Less } else if a == b { Ordering::Equal } else { Ordering::Greater }) { unimplemented!() }
#[verifier::external_body] fn f32_cmp(a: f32, b: f32) -> (r: Ordering) ensures (r == Ordering::Less) == f32_lt(a, b) { unimplemented!() }
#[verifier::external_body] fn f64_cmp(a: f64, b: f64) -> (r: Ordering) ensures (r == Ordering::Less) == f64_lt(a, b) { unimplemented!() }
/// running MIN / MAX over the live cells of the first n rows: the fold of "replace when strictly smaller / larger"
pub open spec fn fold_min(rows: Seq<Row>, c: usize, bm: Option<&[bool]>, n: int) -> Option<SqlValue> decreases n {
    if n <= 0 { None } else if live(rows, c, bm, n - 1) {
        let v = cell(rows, c, n - 1).unwrap();
        match fold_min(rows, c, bm, n - 1) { None => Some(v), Some(cur) => if lt_spec(v, cur) { Some(v) } else { Some(cur) } }
    } else { fold_min(rows, c, bm, n - 1) }
}
pub open spec fn fold_max(rows: Seq<Row>, c: usize, bm: Option<&[bool]>, n: int) -> Option<SqlValue> decreases n {
    if n <= 0 { None } else if live(rows, c, bm, n - 1) {
        let v = cell(rows, c, n - 1).unwrap();
        match fold_max(rows, c, bm, n - 1) { None => Some(v), Some(cur) => if lt_spec(cur, v) { Some(v) } else { Some(cur) } }
    } else { fold_max(rows, c, bm, n - 1) }
}
proof fn lemma_fold_none_iff_no_live(rows: Seq<Row>, c: usize, bm: Option<&[bool]>, n: int)
    ensures (fold_min(rows, c, bm, n) is None) == (n_live(rows, c, bm, n) == 0), (fold_max(rows, c, bm, n) is None) == (n_live(rows, c, bm, n) == 0),
            n_live(rows, c, bm, n) >= 0,
            fold_min(rows, c, bm, n) matches Some(v) ==> !(v is Null), fold_max(rows, c, bm, n) matches Some(v) ==> !(v is Null)
    decreases n
{
    if n > 0 { lemma_fold_none_iff_no_live(rows, c, bm, n - 1); }
}
proof fn lemma_counts(rows: Seq<Row>, c: usize, bm: Option<&[bool]>, n: int)
    ensures 0 <= n_live(rows, c, bm, n) <= n_sel(bm, n), n_sel(bm, n) <= (if n <= 0 { 0 } else { n })
    decreases n
{
    if n > 0 { lemma_counts(rows, c, bm, n - 1); }
}
proof fn lemma_n_sel_is_n_true(bm: &[bool], n: int)
    requires 0 <= n <= bm@.len()
    ensures n_sel(Some(bm), n) == n_true(bm@, n)
    decreases n
{
    if n > 0 { lemma_n_sel_is_n_true(bm, n - 1); }
}
proof fn lemma_n_sel_none(n: int)
    ensures n_sel(None, n) == (if n <= 0 { 0 } else { n })
    decreases n
{
    if n > 0 { lemma_n_sel_none(n - 1); }
}

// ---------------- integer SIMD path: kernels by their contracts (proved in unit A-simd), integer views of the column ----
pub open spec fn ssum(s: Seq<i64>) -> int decreases s.len() {
    if s.len() == 0 { 0 } else { ssum(s.drop_last()) + s.last() as int }
}
pub open spec fn is_min(s: Seq<i64>, m: i64) -> bool {
    (exists|k: int| 0 <= k < s.len() && s[k] == m) && forall|k: int| 0 <= k < s.len() ==> m <= s[k]
}
pub open spec fn is_max(s: Seq<i64>, m: i64) -> bool {
    (exists|k: int| 0 <= k < s.len() && s[k] == m) && forall|k: int| 0 <= k < s.len() ==> m >= s[k]
}
pub open spec fn min_so_far(s: Seq<i64>, n: int, m: i64) -> bool {
    (forall|k: int| 0 <= k < n ==> m <= s[k]) && (if n == 0 { m == i64::MAX } else { exists|k: int| 0 <= k < n && s[k] == m })
}
pub open spec fn max_so_far(s: Seq<i64>, n: int, m: i64) -> bool {
    (forall|k: int| 0 <= k < n ==> m >= s[k]) && (if n == 0 { m == i64::MIN } else { exists|k: int| 0 <= k < n && s[k] == m })
}
#[verifier::external_body]
fn simd_sum_i64(column: &[i64]) -> (r: i128) ensures r as int == ssum(column@) { unimplemented!() }
#[verifier::external_body]
fn simd_min_i64(column: &[i64]) -> (r: Option<i64>) ensures r is None <==> column@.len() == 0, r is Some ==> is_min(column@, r.unwrap()) { unimplemented!() }
#[verifier::external_body]
fn simd_max_i64(column: &[i64]) -> (r: Option<i64>) ensures r is None <==> column@.len() == 0, r is Some ==> is_max(column@, r.unwrap()) { unimplemented!() }
#[verifier::external_body]
fn i64_min(a: i64, b: i64) -> (r: i64) ensures r == (if a <= b { a } else { b }) { a.min(b) }
#[verifier::external_body]
fn i64_max(a: i64, b: i64) -> (r: i64) ensures r == (if a >= b { a } else { b }) { a.max(b) }

pub open spec fn is_intval(v: SqlValue) -> bool { v is Integer || v is Bigint || v is Smallint }
pub open spec fn ival(v: SqlValue) -> i64 {
    match v { SqlValue::Integer(x) => x, SqlValue::Bigint(x) => x, SqlValue::Smallint(x) => x as i64, _ => 0 }
}
/// the integer values of the live cells of the first n rows, in row order
pub open spec fn ivals(rows: Seq<Row>, c: usize, bm: Option<&[bool]>, n: int) -> Seq<i64> decreases n {
    if n <= 0 { Seq::empty() } else if live(rows, c, bm, n - 1) { ivals(rows, c, bm, n - 1).push(ival(cell(rows, c, n - 1).unwrap())) } else { ivals(rows, c, bm, n - 1) }
}
pub open spec fn all_int(rows: Seq<Row>, c: usize, bm: Option<&[bool]>, n: int) -> bool {
    forall|i: int| 0 <= i < n && live(rows, c, bm, i) ==> is_intval(#[trigger] cell(rows, c, i).unwrap())
}
/// the first live value of the column (decides the result type of MIN / MAX)
pub open spec fn first_live(rows: Seq<Row>, c: usize, bm: Option<&[bool]>, n: int) -> Option<SqlValue> decreases n {
    if n <= 0 { None } else { match first_live(rows, c, bm, n - 1) { Some(v) => Some(v), None => if live(rows, c, bm, n - 1) { Some(cell(rows, c, n - 1).unwrap()) } else { None } } }
}
pub open spec fn type_tag(o: Option<SqlValue>) -> Option<SqlValue> {
    match o { None => None, Some(SqlValue::Integer(_)) => Some(SqlValue::Integer(0)), Some(SqlValue::Smallint(_)) => Some(SqlValue::Smallint(0)), Some(_) => Some(SqlValue::Bigint(0)) }
}
pub open spec fn typed(o: Option<SqlValue>, m: i64) -> SqlValue {
    match o { Some(SqlValue::Integer(_)) => SqlValue::Integer(m), Some(SqlValue::Smallint(_)) => SqlValue::Smallint(m as i16), _ => SqlValue::Bigint(m) }
}
proof fn lemma_ivals_len(rows: Seq<Row>, c: usize, bm: Option<&[bool]>, n: int)
    ensures ivals(rows, c, bm, n).len() == n_live(rows, c, bm, n), 0 <= n_live(rows, c, bm, n) <= (if n <= 0 { 0 } else { n }),
            (first_live(rows, c, bm, n) is None) == (n_live(rows, c, bm, n) == 0)
    decreases n
{
    if n > 0 { lemma_ivals_len(rows, c, bm, n - 1); }
}
proof fn ssum_append(a: Seq<i64>, b: Seq<i64>)
    ensures ssum(a + b) == ssum(a) + ssum(b)
    decreases b.len()
{
    if b.len() == 0 { assert(a + b =~= a); } else {
        assert((a + b).drop_last() =~= a + b.drop_last());
        ssum_append(a, b.drop_last());
    }
}

proof fn lemma_min_flush(l: Seq<i64>, k: int, b: Seq<i64>, m: i64)
    requires 0 <= k, k + b.len() <= l.len(), b =~= l.subrange(k, k + b.len()), b.len() > 0, min_so_far(l, k, m)
    ensures forall|x: i64| #[trigger] is_min(b, x) ==> min_so_far(l, k + b.len(), if m <= x { m } else { x })
{
    assert forall|x: i64| #[trigger] is_min(b, x) implies min_so_far(l, k + b.len(), if m <= x { m } else { x }) by {
        let r = if m <= x { m } else { x };
        assert forall|j: int| 0 <= j < k + b.len() implies r <= l[j] by {
            if j >= k { assert(l[j] == b[j - k]); }
        }
        let w = choose|w: int| 0 <= w < b.len() && b[w] == x;
        assert(l[k + w] == x);
        if k > 0 && m <= x { let w2 = choose|w2: int| 0 <= w2 < k && l[w2] == m; assert(l[w2] == r); } else { assert(l[k + w] == r); }
    }
}
proof fn lemma_max_flush(l: Seq<i64>, k: int, b: Seq<i64>, m: i64)
    requires 0 <= k, k + b.len() <= l.len(), b =~= l.subrange(k, k + b.len()), b.len() > 0, max_so_far(l, k, m)
    ensures forall|x: i64| #[trigger] is_max(b, x) ==> max_so_far(l, k + b.len(), if m >= x { m } else { x })
{
    assert forall|x: i64| #[trigger] is_max(b, x) implies max_so_far(l, k + b.len(), if m >= x { m } else { x }) by {
        let r = if m >= x { m } else { x };
        assert forall|j: int| 0 <= j < k + b.len() implies r >= l[j] by {
            if j >= k { assert(l[j] == b[j - k]); }
        }
        let w = choose|w: int| 0 <= w < b.len() && b[w] == x;
        assert(l[k + w] == x);
        if k > 0 && m >= x { let w2 = choose|w2: int| 0 <= w2 < k && l[w2] == m; assert(l[w2] == r); } else { assert(l[k + w] == r); }
    }
}
proof fn ssum_bound(s: Seq<i64>)
    ensures -0x8000_0000_0000_0000 * s.len() <= ssum(s) <= 0x7fff_ffff_ffff_ffff * s.len()
    decreases s.len()
{
    if s.len() > 0 { ssum_bound(s.drop_last()); }
}

// ---------------- scan.rs: the real scan and iterator ----------------------------------------------------------
//@@ ColumnarScan

//@@ ColumnIterator

pub open spec fn opt_val(x: Option<&SqlValue>) -> Option<SqlValue> { match x { Some(v) => Some(*v), None => None } }

impl<'a> ColumnarScan<'a> {
//@@ scan_column

//@@ scan_len
}
impl<'a> ColumnIterator<'a> {
    pub open spec fn wf(&self) -> bool { self.row_index <= self.rows@.len() }
//@@ iter_next
}

//@@ compute_sum

//@@ compute_count

//@@ count_non_null

//@@ compute_avg

//@@ compare_for_min_max

//@@ compute_min

//@@ compute_max

//@@ AggregateOp

//@@ simd_aggregate_i64

/// what every columnar aggregate of one column must satisfy, whichever kernel computed it (C03 / C07 on NULLs and emptiness)
pub open spec fn agg_ok(rows: Seq<Row>, c: usize, bm: Option<&[bool]>, op: AggregateOp, v: SqlValue) -> bool {
    let n = rows.len() as int;
    match op {
        AggregateOp::Count => v == SqlValue::Integer(n_live(rows, c, bm, n) as i64),
        _ => (v is Null) == (n_live(rows, c, bm, n) == 0),
    }
}
// ---------------- float SIMD path: kernels and machine min / max as uninterpreted functions with ASSUMED algebra -------------
pub uninterp spec fn f_inf() -> f64;
pub uninterp spec fn f_neg_inf() -> f64;
pub uninterp spec fn f_min(a: f64, b: f64) -> f64;
pub uninterp spec fn f_max(a: f64, b: f64) -> f64;
pub uninterp spec fn k_sum(s: Seq<f64>) -> f64;
#[verifier::external_body] fn finf() -> (r: f64) ensures r == f_inf() { f64::INFINITY }
#[verifier::external_body] fn fneginf() -> (r: f64) ensures r == f_neg_inf() { f64::NEG_INFINITY }
#[verifier::external_body] fn f64_min(a: f64, b: f64) -> (r: f64) ensures r == f_min(a, b) { a.min(b) }
#[verifier::external_body] fn f64_max(a: f64, b: f64) -> (r: f64) ensures r == f_max(a, b) { a.max(b) }
/// left folds of the machine min / max
pub open spec fn fold_fmin(s: Seq<f64>, acc: f64) -> f64 decreases s.len() { if s.len() == 0 { acc } else { f_min(fold_fmin(s.drop_last(), acc), s.last()) } }
pub open spec fn fold_fmax(s: Seq<f64>, acc: f64) -> f64 decreases s.len() { if s.len() == 0 { acc } else { f_max(fold_fmax(s.drop_last(), acc), s.last()) } }
// ASSUMED: f64::min / f64::max are associative (true of IEEE minNum / maxNum up to the sign of zero and NaN payloads)
#[verifier::external_body]
pub proof fn f_minmax_assoc()
    ensures forall|a: f64, b: f64, c: f64| #![trigger f_min(f_min(a, b), c)] f_min(f_min(a, b), c) == f_min(a, f_min(b, c)),
            forall|a: f64, b: f64, c: f64| #![trigger f_max(f_max(a, b), c)] f_max(f_max(a, b), c) == f_max(a, f_max(b, c)),
{}
// the float kernels, NOT under contract: ASSUMED to be the fold of the machine operation over the batch, starting at its first element
#[verifier::external_body]
fn simd_sum_f64(column: &[f64]) -> (r: f64) ensures r == k_sum(column@) { unimplemented!() }
#[verifier::external_body]
fn simd_min_f64(column: &[f64]) -> (r: Option<f64>) ensures r is None <==> column@.len() == 0, r is Some ==> r.unwrap() == fold_fmin(column@.drop_first(), column@[0]) { unimplemented!() }
#[verifier::external_body]
fn simd_max_f64(column: &[f64]) -> (r: Option<f64>) ensures r is None <==> column@.len() == 0, r is Some ==> r.unwrap() == fold_fmax(column@.drop_first(), column@[0]) { unimplemented!() }

/// the float views of the live cells of the first n rows, in row order
pub open spec fn fvals(rows: Seq<Row>, c: usize, bm: Option<&[bool]>, n: int) -> Seq<f64> decreases n {
    if n <= 0 { Seq::empty() } else if live(rows, c, bm, n - 1) { fvals(rows, c, bm, n - 1).push(to_f(cell(rows, c, n - 1).unwrap())) } else { fvals(rows, c, bm, n - 1) }
}
proof fn lemma_fvals_len(rows: Seq<Row>, c: usize, bm: Option<&[bool]>, n: int)
    ensures fvals(rows, c, bm, n).len() == n_live(rows, c, bm, n), 0 <= n_live(rows, c, bm, n) <= (if n <= 0 { 0 } else { n })
    decreases n
{
    if n > 0 { lemma_fvals_len(rows, c, bm, n - 1); }
}
/// folding a batch b into the running extreme: fold(a + b, acc) == op(fold(a, acc), kernel(b))
proof fn lemma_fmax_flush(a: Seq<f64>, b: Seq<f64>, acc: f64)
    requires b.len() > 0
    ensures fold_fmax(a + b, acc) == f_max(fold_fmax(a, acc), fold_fmax(b.drop_first(), b[0]))
    decreases b.len()
{
    f_minmax_assoc();
    assert((a + b).drop_last() =~= a + b.drop_last());
    assert((a + b).last() == b.last());
    if b.len() == 1 {
        assert(a + b.drop_last() =~= a);
        assert(b.drop_first() =~= Seq::<f64>::empty());
    } else {
        lemma_fmax_flush(a, b.drop_last(), acc);
        assert(b.drop_last().drop_first() =~= b.drop_first().drop_last());
        assert(b.drop_last()[0] == b[0]);
        assert(b.drop_first().last() == b.last());
    }
}
proof fn lemma_fmin_flush(a: Seq<f64>, b: Seq<f64>, acc: f64)
    requires b.len() > 0
    ensures fold_fmin(a + b, acc) == f_min(fold_fmin(a, acc), fold_fmin(b.drop_first(), b[0]))
    decreases b.len()
{
    f_minmax_assoc();
    assert((a + b).drop_last() =~= a + b.drop_last());
    assert((a + b).last() == b.last());
    if b.len() == 1 {
        assert(a + b.drop_last() =~= a);
        assert(b.drop_first() =~= Seq::<f64>::empty());
    } else {
        lemma_fmin_flush(a, b.drop_last(), acc);
        assert(b.drop_last().drop_first() =~= b.drop_first().drop_last());
        assert(b.drop_last()[0] == b[0]);
        assert(b.drop_first().last() == b.last());
    }
}


//@@ simd_aggregate_f64


//@@ can_use_simd_for_column

//@@ compute_columnar_aggregate


// ---------------- the aggregate pipeline: specs, filter bitmap, one result row -------------------------------------------
#[verifier::external_body] pub struct Expression { e: u8 }            // AST payload of AggregateSource::Expression (opaque here)
#[verifier::external_body] pub struct CombinedSchema { s: u8 }
#[verifier::external_body] pub struct ColumnPredicate { p: u8 }        // filter.rs (its semantics: unit A-filter)

//@@ AggregateSource

//@@ AggregateSpec

/// what compute_columnar_aggregate guarantees for a column source (COUNT(*) / NULL iff no value), as a predicate on the result
pub open spec fn col_agg_ok(rows: Seq<Row>, c: usize, bm: Option<&[bool]>, op: AggregateOp, v: SqlValue) -> bool {
    if op == AggregateOp::Count { v == SqlValue::Integer(n_sel(bm, rows.len() as int) as i64) }
    else { (v is Null) == (n_live(rows, c, bm, rows.len() as int) == 0) }
}
// eval_simple_expr(expr, row, schema): the per-row value of an aggregate's argument expression - an uninterpreted deterministic function here
// (its ColumnRef / Literal arms are under contract in unit A-plan)
pub uninterp spec fn ev(e: Expression, row: Row, s: &CombinedSchema) -> Result<SqlValue, ExecutorError>;
#[verifier::external_body]
fn eval_simple_expr(expr: &Expression, row: &Row, schema: &CombinedSchema) -> (r: Result<SqlValue, ExecutorError>) ensures r == ev(*expr, *row, schema) { unimplemented!() }
/// row i takes part in an aggregate over expression e: selected, and e evaluates to a non-NULL value on it
pub open spec fn elive(rows: Seq<Row>, e: Expression, bm: Option<&[bool]>, s: &CombinedSchema, i: int) -> bool {
    sel(bm, i) && ev(e, rows[i], s) is Ok && !(ev(e, rows[i], s)->Ok_0 is Null)
}
pub open spec fn ev_all_ok(rows: Seq<Row>, e: Expression, bm: Option<&[bool]>, s: &CombinedSchema, n: int) -> bool {
    forall|i: int| 0 <= i < n && sel(bm, i) ==> (#[trigger] ev(e, rows[i], s)) is Ok
}
pub open spec fn n_elive(rows: Seq<Row>, e: Expression, bm: Option<&[bool]>, s: &CombinedSchema, n: int) -> int decreases n {
    if n <= 0 { 0 } else { n_elive(rows, e, bm, s, n - 1) + (if elive(rows, e, bm, s, n - 1) { 1int } else { 0int }) }
}
pub open spec fn e_all_numeric(rows: Seq<Row>, e: Expression, bm: Option<&[bool]>, s: &CombinedSchema, n: int) -> bool {
    forall|i: int| 0 <= i < n && elive(rows, e, bm, s, i) ==> numeric(#[trigger] ev(e, rows[i], s)->Ok_0)
}
pub open spec fn e_sum(rows: Seq<Row>, e: Expression, bm: Option<&[bool]>, s: &CombinedSchema, n: int) -> f64 decreases n {
    if n <= 0 { f_zero() } else if elive(rows, e, bm, s, n - 1) { f_add(e_sum(rows, e, bm, s, n - 1), to_f(ev(e, rows[n - 1], s)->Ok_0)) } else { e_sum(rows, e, bm, s, n - 1) }
}
pub open spec fn e_fold(rows: Seq<Row>, e: Expression, bm: Option<&[bool]>, s: &CombinedSchema, is_min: bool, n: int) -> Option<SqlValue> decreases n {
    if n <= 0 { None } else if elive(rows, e, bm, s, n - 1) {
        let v = ev(e, rows[n - 1], s)->Ok_0;
        match e_fold(rows, e, bm, s, is_min, n - 1) { None => Some(v), Some(cur) => if (if is_min { lt_spec(v, cur) } else { lt_spec(cur, v) }) { Some(v) } else { Some(cur) } }
    } else { e_fold(rows, e, bm, s, is_min, n - 1) }
}
proof fn lemma_e_counts(rows: Seq<Row>, e: Expression, bm: Option<&[bool]>, s: &CombinedSchema, n: int)
    ensures 0 <= n_elive(rows, e, bm, s, n) <= (if n <= 0 { 0 } else { n }),
            (e_fold(rows, e, bm, s, true, n) is None) == (n_elive(rows, e, bm, s, n) == 0), (e_fold(rows, e, bm, s, false, n) is None) == (n_elive(rows, e, bm, s, n) == 0),
            e_fold(rows, e, bm, s, true, n) matches Some(v) ==> !(v is Null), e_fold(rows, e, bm, s, false, n) matches Some(v) ==> !(v is Null)
    decreases n
{
    if n > 0 { lemma_e_counts(rows, e, bm, s, n - 1); }
}
/// the SQL value of <op>(e) over the selected rows (when every selected row evaluates)
pub open spec fn expr_agg_value(rows: Seq<Row>, e: Expression, op: AggregateOp, bm: Option<&[bool]>, s: &CombinedSchema) -> SqlValue {
    let n = rows.len() as int;
    match op {
        AggregateOp::Count => SqlValue::Integer(n_elive(rows, e, bm, s, n) as i64),           // COUNT(expr): the non-NULL values, never NULL
        _ => if n_elive(rows, e, bm, s, n) == 0 { SqlValue::Null } else { match op {
            AggregateOp::Sum => SqlValue::Double(e_sum(rows, e, bm, s, n)),
            AggregateOp::Avg => SqlValue::Double(f_div(e_sum(rows, e, bm, s, n), f_of_i64(n_elive(rows, e, bm, s, n) as i64))),
            AggregateOp::Min => e_fold(rows, e, bm, s, true, n).unwrap(),
            _ => e_fold(rows, e, bm, s, false, n).unwrap(),
        } },
    }
}
pub open spec fn expr_agg(rows: Seq<Row>, e: Expression, op: AggregateOp, bm: Option<&[bool]>, s: &CombinedSchema) -> Result<SqlValue, ExecutorError> {
    Ok(expr_agg_value(rows, e, op, bm, s))
}

//@@ compute_expression_aggregate

// `schema.ok_or_else(|| ExecutorError::UnsupportedExpression(..))`
#[verifier::external_body]
fn schema_or_err<'a>(schema: Option<&'a CombinedSchema>) -> (r: Result<&'a CombinedSchema, ExecutorError>)
    ensures schema is Some ==> r == Ok::<&CombinedSchema, ExecutorError>(schema.unwrap()), schema is None ==> r is Err
{ unimplemented!() }
// create_filter_bitmap(rows.len(), predicates, |r, c| rows.get(r).and_then(|row| row.get(c))): by the part of its contract needed here
// (unit A-filter proves it on the real function: one flag per row, true iff every predicate holds on the row)
pub uninterp spec fn filter_flags(rows: Seq<Row>, preds: Seq<ColumnPredicate>) -> Seq<bool>;
#[verifier::external_body]
fn create_filter_bitmap_rows(row_count: usize, predicates: &[ColumnPredicate], rows: &[Row]) -> (r: Result<Vec<bool>, ExecutorError>)
    ensures r matches Ok(bm) ==> bm@.len() == row_count && bm@ == filter_flags(rows@, predicates@)
{ unimplemented!() }
// Option<Vec<bool>>::as_deref()
#[verifier::external_body]
fn opt_slice(o: &Option<Vec<bool>>) -> (r: Option<&[bool]>)
    ensures r is Some <==> *o is Some, r is Some ==> r.unwrap()@ == o.unwrap()@
{ unimplemented!() }
// vec![x; n]
#[verifier::external_body]
fn vec_repeat<T>(x: T, n: usize) -> (v: Vec<T>) ensures v@.len() == n, forall|i: int| 0 <= i < n ==> v@[i] == x { unimplemented!() }
// vec![row]
#[verifier::external_body]
fn one_row(r: Row) -> (v: Vec<Row>) ensures v@ == seq![r] { unimplemented!() }
impl Row {
    #[verifier::external_body]
    pub fn new(values: Vec<SqlValue>) -> (r: Row) ensures r.values@ == values@ { unimplemented!() }
}
impl<'a> ColumnarScan<'a> {
//@@ scan_new
}
/// the bitmap the pipeline filters with
pub open spec fn pipeline_bm(rows: Seq<Row>, preds: Seq<ColumnPredicate>, bm: Option<&[bool]>) -> bool {
    if preds.len() == 0 { bm is None } else { bm is Some && bm.unwrap()@ == filter_flags(rows, preds) && bm.unwrap()@.len() == rows.len() }
}
/// every result value is the SQL aggregate of its spec
pub open spec fn results_ok(rows: Seq<Row>, specs: Seq<AggregateSpec>, bm: Option<&[bool]>, schema: Option<&CombinedSchema>, vals: Seq<SqlValue>) -> bool {
    vals.len() == specs.len() && forall|i: int| 0 <= i < specs.len() ==> match (#[trigger] specs[i]).source {
        AggregateSource::Column(c) => col_agg_ok(rows, c, bm, specs[i].op, vals[i]),
        AggregateSource::Expression(e) => schema is Some && expr_agg(rows, e, specs[i].op, bm, schema.unwrap()) == Ok::<SqlValue, ExecutorError>(vals[i]),
    }
}

//@@ compute_multiple_aggregates

//@@ execute_columnar_aggregate

fn canary_pipeline(rows: &[Row], ps: &[ColumnPredicate], specs: &[AggregateSpec], schema: Option<&CombinedSchema>)
    requires rows@.len() < i64::MAX
{
    let r = execute_columnar_aggregate(rows, ps, specs, schema);
    assert(false); // CANARY
}

fn canary_dispatch(scan: &ColumnarScan, c: usize, op: AggregateOp, bm: Option<&[bool]>)
    requires bm_ok(scan.rows@, bm), scan.rows@.len() < i64::MAX
{
    let r = compute_columnar_aggregate(scan, c, op, bm);
    assert(false); // CANARY
}
fn canary_i64(scan: &ColumnarScan, c: usize, op: AggregateOp, bm: Option<&[bool]>)
    requires bm_ok(scan.rows@, bm), scan.rows@.len() < i64::MAX
{
    let r = simd_aggregate_i64(scan, c, op, bm);
    assert(false); // CANARY
}


fn canary_sum(scan: &ColumnarScan, c: usize, bm: Option<&[bool]>)
    requires bm_ok(scan.rows@, bm), scan.rows@.len() < i64::MAX
{
    let r = compute_sum(scan, c, bm);
    assert(false); // CANARY
}
fn canary_avg(scan: &ColumnarScan, c: usize, bm: Option<&[bool]>)
    requires bm_ok(scan.rows@, bm), scan.rows@.len() < i64::MAX
{
    let r = compute_avg(scan, c, bm);
    assert(false); // CANARY
}
fn canary_count(scan: &ColumnarScan, bm: Option<&[bool]>)
    requires bm_ok(scan.rows@, bm), scan.rows@.len() < i64::MAX
{
    let r = compute_count(scan, bm);
    assert(false); // CANARY
}

}
fn main() {}
'''

_A = 'crates/vibesql-executor/src/select/columnar/aggregate.rs'
_S = 'crates/vibesql-executor/src/select/columnar/scan.rs'
_SA = 'crates/vibesql-executor/src/select/columnar/simd_aggregate.rs'
_M = 'crates/vibesql-executor/src/select/columnar/mod.rs'

# R10: `for (i, x) in <iter>.enumerate() { BODY }` is desugared exactly as the language defines it:
#      let mut it = <iter>; let mut n = 0; loop { match it.next() { None => break, Some(x) => { let i = n; n += 1; BODY } } }
_FOR_ENUM = ('re', r'for \((\w+), (\w+)\) in (scan\.column\(column_idx\))\.enumerate\(\) \{',
             r'let mut it__ = \3; let mut en__: usize = 0; loop { let nx__ = it__.next(); if nx__.is_none() { break; } let \2 = nx__.unwrap(); let \1 = en__; en__ = en__ + 1;', 1)
_PUBF = ('re', r'(?m)^(\s+)(\w+: )', r'\1pub \2', None)   # private fields made pub (visibility is not part of the verified text)
_BM = ('re', r'bitmap\.get\(row_idx\)\.copied\(\)\.unwrap_or\(false\)', 'bm_get(bitmap, row_idx)', 1)
_FMT = ('re', r'format!\((?:[^()]|\([^()]*\))*\)', 'fmt_msg()', None)
_TOSTR = ('re', r'"[^"]*"\.to_string\(\)', 'fmt_msg()', None)

# loop head facts shared by every scan loop: the iterator walks the scan's rows, en__ rows are done
_IT_INV = '''
        invariant
            it__.rows@ == scan.rows@, it__.column_index == column_idx, it__.row_index == en__, en__ <= scan.rows@.len(),
            bm_ok(scan.rows@, filter_bitmap), scan.rows@.len() < i64::MAX,
'''
_IT_END = '''
        ensures en__ == scan.rows@.len(),
        decreases scan.rows@.len() - en__,
'''

_I64_INV = """
            rows == scan.rows@, c == column_idx, bm == filter_bitmap,
            0 <= count == ivals(rows, c, bm, en__ as int).len(), count <= en__,
            batch@.len() < 1024, batch@.len() <= count,
            batch@ =~= ivals(rows, c, bm, en__ as int).subrange(count - batch@.len(), count as int),
            all_int(rows, c, bm, en__ as int),
            original_type == type_tag(first_live(rows, c, bm, en__ as int)),
            (op == AggregateOp::Sum || op == AggregateOp::Avg) ==> sum as int == ssum(ivals(rows, c, bm, en__ as int).subrange(0, count - batch@.len())),
            -0x8000_0000_0000_0000 * (count - batch@.len()) <= sum as int <= 0x7fff_ffff_ffff_ffff * (count - batch@.len()),
            op == AggregateOp::Min ==> min_so_far(ivals(rows, c, bm, en__ as int), count - batch@.len(), min),
            op == AggregateOp::Max ==> max_so_far(ivals(rows, c, bm, en__ as int), count - batch@.len(), max),
"""
_I64_AFTER_PUSH = """
            proof {
                let l0 = ivals(rows, c, bm, en__ as int - 1);
                let l1 = ivals(rows, c, bm, en__ as int);
                assert(l1 =~= l0.push(i64_value));
                assert(batch@ =~= l1.subrange(count + 1 - batch@.len(), count as int + 1));
                assert(l1.subrange(0, count + 1 - batch@.len()) =~= l0.subrange(0, count - (batch@.len() - 1)));
                let k = count + 1 - batch@.len();
                assert(forall|j: int| 0 <= j < k ==> l1[j] == l0[j]);
                if op == AggregateOp::Min {
                    assert(min_so_far(l0, k, min));
                    if k > 0 { let w = choose|w: int| 0 <= w < k && l0[w] == min; assert(l1[w] == min); }
                    assert(min_so_far(l1, k, min));
                }
                if op == AggregateOp::Max {
                    assert(max_so_far(l0, k, max));
                    if k > 0 { let w = choose|w: int| 0 <= w < k && l0[w] == max; assert(l1[w] == max); }
                    assert(max_so_far(l1, k, max));
                }
            }
"""
_I64_FLUSH_HEAD = """
                let ghost min0 = min; let ghost max0 = max;
                proof {
                    let l1 = ivals(rows, c, bm, en__ as int);
                    let k = count - batch@.len();
                    ssum_bound(batch@);
                    if op == AggregateOp::Min { lemma_min_flush(l1, k, batch@, min0); }
                    if op == AggregateOp::Max { lemma_max_flush(l1, k, batch@, max0); }
                }
"""
_I64_BEFORE_CLEAR = """
                proof {
                    let l1 = ivals(rows, c, bm, en__ as int);
                    let k = count - batch@.len();
                    assert(l1.subrange(0, k) + batch@ =~= l1.subrange(0, count as int));
                    ssum_append(l1.subrange(0, k), batch@);
                    ssum_bound(l1.subrange(0, count as int));
                }
"""
_I64_AFTER_LOOP = """
    proof { lemma_ivals_len(rows, c, bm, en__ as int); }
    let ghost vals = ivals(rows, c, bm, en__ as int);
    let ghost k0 = count - batch@.len();
    proof {
        assert(vals.subrange(0, k0) + batch@ =~= vals);
        ssum_append(vals.subrange(0, k0), batch@);
        ssum_bound(vals);
        ssum_bound(batch@);
        assert(vals.subrange(0, vals.len() as int) =~= vals);
        assert(count == vals.len());
        assert(vals.len() == n_live(rows, c, bm, en__ as int));
        if batch@.len() > 0 {
            if op == AggregateOp::Min { lemma_min_flush(vals, k0, batch@, min); }
            if op == AggregateOp::Max { lemma_max_flush(vals, k0, batch@, max); }
        }
    }
"""
_I64_AFTER_FINAL = """
    proof {
        assert((op == AggregateOp::Sum || op == AggregateOp::Avg) ==> sum as int == ssum(vals));
        assert(op == AggregateOp::Min ==> min_so_far(vals, vals.len() as int, min));
        assert(op == AggregateOp::Max ==> max_so_far(vals, vals.len() as int, max));
        assert(count == vals.len());
        assert(vals.len() == n_live(rows, c, bm, en__ as int));
        assert(en__ == scan.rows@.len());
        if count > 0 {
            assert(op == AggregateOp::Min ==> is_min(vals, min));
            assert(op == AggregateOp::Max ==> is_max(vals, max));
            assert(first_live(rows, c, bm, en__ as int) is Some);
        }
    }
"""

_F64_INV = """
            rows == scan.rows@, c == column_idx, bm == filter_bitmap,
            0 <= count == fvals(rows, c, bm, en__ as int).len(), count <= en__,
            batch@.len() < 1024, batch@.len() <= count,
            batch@ =~= fvals(rows, c, bm, en__ as int).subrange(count - batch@.len(), count as int),
            all_fnumeric(rows, c, bm, en__ as int),
            op == AggregateOp::Min ==> min == fold_fmin(fvals(rows, c, bm, en__ as int).subrange(0, count - batch@.len()), f_inf()),
            op == AggregateOp::Max ==> max == fold_fmax(fvals(rows, c, bm, en__ as int).subrange(0, count - batch@.len()), f_neg_inf()),
"""
_F64_AFTER_PUSH = """
            proof {
                let l0 = fvals(rows, c, bm, en__ as int - 1);
                let l1 = fvals(rows, c, bm, en__ as int);
                assert(l1 =~= l0.push(f64_value));
                assert(batch@ =~= l1.subrange(count + 1 - batch@.len(), count as int + 1));
                assert(l1.subrange(0, count + 1 - batch@.len()) =~= l0.subrange(0, count - (batch@.len() - 1)));
            }
"""
_F64_FLUSH_HEAD = """
                proof {
                    let l1 = fvals(rows, c, bm, en__ as int);
                    let k = count - batch@.len();
                    assert(l1.subrange(0, k) + batch@ =~= l1.subrange(0, count as int));
                    lemma_fmin_flush(l1.subrange(0, k), batch@, f_inf());
                    lemma_fmax_flush(l1.subrange(0, k), batch@, f_neg_inf());
                }
"""
_F64_AFTER_LOOP = """
    proof { lemma_fvals_len(rows, c, bm, en__ as int); }
    let ghost vals = fvals(rows, c, bm, en__ as int);
    let ghost k0 = count - batch@.len();
    proof {
        assert(vals.subrange(0, k0) + batch@ =~= vals);
        assert(vals.subrange(0, vals.len() as int) =~= vals);
        assert(count == vals.len());
        if batch@.len() > 0 {
            lemma_fmin_flush(vals.subrange(0, k0), batch@, f_inf());
            lemma_fmax_flush(vals.subrange(0, k0), batch@, f_neg_inf());
        } else { assert(vals.subrange(0, k0) =~= vals); }
    }
"""


def _f64_arm(m):
    """`SqlValue::T(v) => *v as f64,` -> conversion stub of the payload type"""
    return 'SqlValue::%s(v) => %s,' % (m.group(1), {'Float': 'f64_of_f32(*v)', 'Real': 'f64_of_f32(*v)', 'Integer': 'f64_of_i64(*v)', 'Bigint': 'f64_of_i64(*v)', 'Smallint': 'f64_of_i16(*v)'}[m.group(1)])


_EX_INV = """
            invariant
                en__ <= rows@.len(), bm_ok(rows@, filter_bitmap), rows@.len() < i64::MAX,
                ev_all_ok(rows@, *expr, filter_bitmap, schema, en__ as int),
                0 <= n_elive(rows@, *expr, filter_bitmap, schema, en__ as int) <= en__,
"""


def _sum_arm_owned(m):
    """`SqlValue::T(v) => sum += <v as f64 | v>,` with v bound BY VALUE -> stub conversion of the payload type"""
    ty, expr = m.group(1), m.group(2).strip()
    conv = {'v as f64': {'Integer': 'f64_of_i64(v)', 'Bigint': 'f64_of_i64(v)', 'Smallint': 'f64_of_i16(v)', 'Float': 'f64_of_f32(v)', 'Real': 'f64_of_f32(v)'}.get(ty), 'v': 'v'}.get(expr)
    if conv is None:
        return m.group(0)
    return 'SqlValue::%s(v) => sum = fadd(sum, %s),' % (ty, conv)


def _sum_arm(m):
    """`SqlValue::T(v) => sum += <v as f64>,` -> `SqlValue::T(v) => sum = fadd(sum, <conversion stub>),` (f64 `+=` and `as f64` are not interpreted)"""
    ty, expr = m.group(1), m.group(2).strip()
    conv = {'*v as f64': {'Integer': 'f64_of_i64(*v)', 'Bigint': 'f64_of_i64(*v)', 'Smallint': 'f64_of_i16(*v)', 'Float': 'f64_of_f32(*v)', 'Real': 'f64_of_f32(*v)'}.get(ty), 'v': '*v'}.get(expr)
    if conv is None:
        return m.group(0)
    return 'SqlValue::%s(v) => sum = fadd(sum, %s),' % (ty, conv)


ITEMS = {
    'SqlValue': dict(file='crates/vibesql-types/src/sql_value/mod.rs', path='enum SqlValue', rewrites=[
        ('re', r'\b(String|Date|Time|Timestamp|Interval)\b(?=\))', 'Opq', None)]),
    'Row': dict(file='crates/vibesql-storage/src/row.rs', path='struct Row'),
    'ColumnarScan': dict(file=_S, path='struct ColumnarScan', rewrites=[_PUBF]),
    'ColumnIterator': dict(file=_S, path='struct ColumnIterator', rewrites=[_PUBF]),
    'scan_column': dict(file=_S, path="impl<'a> ColumnarScan<'a>::fn column", ret='r', contract='''
        ensures r.rows@ == self.rows@, r.column_index == index, r.row_index == 0,
'''),
    'scan_len': dict(file=_S, path="impl<'a> ColumnarScan<'a>::fn len", ret='r', contract='''
        ensures r == self.rows@.len(),
'''),
    'iter_next': dict(file=_S, path="impl<'a> Iterator for ColumnIterator<'a>::fn next", ret='r',
        rewrites=[('re', r'Option<Self::Item>', "Option<Option<&'a SqlValue>>", 1)],
        contract='''
        requires old(self).wf()
        ensures
            final(self).rows@ == old(self).rows@, final(self).column_index == old(self).column_index, final(self).wf(),
            r is Some <==> old(self).row_index < old(self).rows@.len(),
            r is Some ==> final(self).row_index == old(self).row_index + 1 && opt_val(r.unwrap()) == cell(old(self).rows@, old(self).column_index, old(self).row_index as int),
            r is None ==> final(self).row_index == old(self).row_index,
'''),
    'compute_sum': dict(
        file=_A, path='fn compute_sum', ret='r',
        rewrites=[_FOR_ENUM, _BM, _FMT,
                  ('re', r'let mut sum = 0\.0;', 'let mut sum = fzero();', 1),
                  ('re', r'let mut count = 0;', 'let mut count = 0i64;', 1),
                  ('refn', r'SqlValue::(\w+)\(v\) => sum \+= ([^,]+),', _sum_arm, None)],
        loops={0: _IT_INV + '''
            0 <= count == n_live(scan.rows@, column_idx, filter_bitmap, en__ as int), count <= en__,
            sum == f_sum(scan.rows@, column_idx, filter_bitmap, en__ as int),
            all_numeric(scan.rows@, column_idx, filter_bitmap, en__ as int),
''' + _IT_END},
        contract='''
    requires bm_ok(scan.rows@, filter_bitmap), scan.rows@.len() < i64::MAX
    ensures
        // SUM ranges over the selected non-NULL values and is NULL iff there is none
        r matches Ok(v) ==> all_numeric(scan.rows@, column_idx, filter_bitmap, scan.rows@.len() as int) && v == (
            if n_live(scan.rows@, column_idx, filter_bitmap, scan.rows@.len() as int) == 0 { SqlValue::Null }
            else { SqlValue::Double(f_sum(scan.rows@, column_idx, filter_bitmap, scan.rows@.len() as int)) }),
        r is Err ==> !all_numeric(scan.rows@, column_idx, filter_bitmap, scan.rows@.len() as int),
'''),
    'compute_count': dict(
        file=_A, path='fn compute_count', ret='r',
        rewrites=[('re', r'bitmap\.iter\(\)\.filter\(\|&&pass\| pass\)\.count\(\)', 'count_true(bitmap)', 1)],
        proofs=[('@entry', 'proof { if filter_bitmap is Some { lemma_n_sel_is_n_true(filter_bitmap.unwrap(), scan.rows@.len() as int); } else { lemma_n_sel_none(scan.rows@.len() as int); } lemma_counts(scan.rows@, 0, filter_bitmap, scan.rows@.len() as int); }')],
        contract='''
    requires bm_ok(scan.rows@, filter_bitmap), scan.rows@.len() < i64::MAX
    ensures r == Ok::<SqlValue, ExecutorError>(SqlValue::Integer(n_sel(filter_bitmap, scan.rows@.len() as int) as i64)),   // COUNT(*): selected rows, never NULL
            0 <= n_sel(filter_bitmap, scan.rows@.len() as int) <= scan.rows@.len(),
'''),
    'count_non_null': dict(
        file=_A, path='fn count_non_null', ret='r',
        rewrites=[_FOR_ENUM, _BM],
        loops={0: _IT_INV + '''
            0 <= count == n_live(scan.rows@, column_idx, filter_bitmap, en__ as int), count <= en__,
''' + _IT_END},
        contract='''
    requires bm_ok(scan.rows@, filter_bitmap), scan.rows@.len() < i64::MAX
    ensures r == n_live(scan.rows@, column_idx, filter_bitmap, scan.rows@.len() as int),
'''),
    'compute_avg': dict(
        file=_A, path='fn compute_avg', ret='r',
        rewrites=[_TOSTR, ('re', r'sum / count as f64', 'fdiv(sum, f64_of_i64(count))', 1)],
        proofs=[('@entry', 'proof { lemma_counts(scan.rows@, column_idx, filter_bitmap, scan.rows@.len() as int); }')],
        contract='''
    requires bm_ok(scan.rows@, filter_bitmap), scan.rows@.len() < i64::MAX
    ensures
        // AVG = SUM / COUNT(column) over the selected non-NULL values, NULL iff there is none
        r matches Ok(v) ==> v == (
            if n_live(scan.rows@, column_idx, filter_bitmap, scan.rows@.len() as int) == 0 { SqlValue::Null }
            else { SqlValue::Double(f_div(f_sum(scan.rows@, column_idx, filter_bitmap, scan.rows@.len() as int),
                                          f_of_i64(n_live(scan.rows@, column_idx, filter_bitmap, scan.rows@.len() as int) as i64))) }),
        r is Err ==> !all_numeric(scan.rows@, column_idx, filter_bitmap, scan.rows@.len() as int),
'''),
    'compare_for_min_max': dict(
        file=_A, path='fn compare_for_min_max', ret='r',
        rewrites=[('re', r'use std::cmp::Ordering;', '', 1), ('re', r'crate::select::grouping::compare_sql_values', 'compare_sql_values', None),
                  ('re', r'\(SqlValue::(Integer|Bigint)\(a\), SqlValue::\1\(b\)\) => a\.cmp\(b\)', r'(SqlValue::\1(a), SqlValue::\1(b)) => i64_cmp(*a, *b)', 2),
                  ('re', r'\(SqlValue::Smallint\(a\), SqlValue::Smallint\(b\)\) => a\.cmp\(b\)', r'(SqlValue::Smallint(a), SqlValue::Smallint(b)) => i16_cmp(*a, *b)', 1),
                  ('re', r'\(SqlValue::Float\(a\), SqlValue::Float\(b\)\) => \{\s*a\.partial_cmp\(b\)\.unwrap_or\(Ordering::Equal\)\s*\}', r'(SqlValue::Float(a), SqlValue::Float(b)) => { f32_cmp(*a, *b) }', 1),
                  ('re', r'\(SqlValue::(Double|Numeric)\(a\), SqlValue::\1\(b\)\) => \{\s*a\.partial_cmp\(b\)\.unwrap_or\(Ordering::Equal\)\s*\}', r'(SqlValue::\1(a), SqlValue::\1(b)) => { f64_cmp(*a, *b) }', 2)],
        contract="""
    ensures r == lt_spec(*a, *b),
"""),
    'compute_min': dict(
        file=_A, path='fn compute_min', ret='r', rewrites=[_FOR_ENUM, _BM],
        loops={0: _IT_INV + """
            min_value == fold_min(scan.rows@, column_idx, filter_bitmap, en__ as int),
""" + _IT_END},
        proofs=[('@tail', 'proof { lemma_fold_none_iff_no_live(scan.rows@, column_idx, filter_bitmap, scan.rows@.len() as int); }')],
        contract="""
    requires bm_ok(scan.rows@, filter_bitmap), scan.rows@.len() < i64::MAX
    ensures
        // MIN: the running "replace when strictly smaller" fold over the selected non-NULL values; NULL iff there is none
        r == Ok::<SqlValue, ExecutorError>(match fold_min(scan.rows@, column_idx, filter_bitmap, scan.rows@.len() as int) { None => SqlValue::Null, Some(v) => v }),
        (fold_min(scan.rows@, column_idx, filter_bitmap, scan.rows@.len() as int) is None) == (n_live(scan.rows@, column_idx, filter_bitmap, scan.rows@.len() as int) == 0),
        fold_min(scan.rows@, column_idx, filter_bitmap, scan.rows@.len() as int) matches Some(v) ==> !(v is Null),
"""),
    'compute_max': dict(
        file=_A, path='fn compute_max', ret='r', rewrites=[_FOR_ENUM, _BM],
        loops={0: _IT_INV + """
            max_value == fold_max(scan.rows@, column_idx, filter_bitmap, en__ as int),
""" + _IT_END},
        proofs=[('@tail', 'proof { lemma_fold_none_iff_no_live(scan.rows@, column_idx, filter_bitmap, scan.rows@.len() as int); }')],
        contract="""
    requires bm_ok(scan.rows@, filter_bitmap), scan.rows@.len() < i64::MAX
    ensures
        r == Ok::<SqlValue, ExecutorError>(match fold_max(scan.rows@, column_idx, filter_bitmap, scan.rows@.len() as int) { None => SqlValue::Null, Some(v) => v }),
        (fold_max(scan.rows@, column_idx, filter_bitmap, scan.rows@.len() as int) is None) == (n_live(scan.rows@, column_idx, filter_bitmap, scan.rows@.len() as int) == 0),
        fold_max(scan.rows@, column_idx, filter_bitmap, scan.rows@.len() as int) matches Some(v) ==> !(v is Null),
"""),
    'simd_aggregate_f64': dict(
        file=_SA, path='fn simd_aggregate_f64', ret='r',
        rewrites=[_FOR_ENUM, _BM, _FMT,
                  ('re', r'const BATCH_SIZE: usize = 1024;[^\n]*\n', '', 1), ('re', r'\bBATCH_SIZE\b', '1024', 2),
                  ('re', r'let mut batch = Vec::with_capacity\(1024\);', 'let mut batch: Vec<f64> = Vec::with_capacity(1024);', 1),
                  ('re', r'&batch\b', 'batch.as_slice()', 6),
                  ('re', r'let mut sum = 0\.0f64;', 'let mut sum = fzero();', 1),
                  ('re', r'f64::INFINITY', 'finf()', 1), ('re', r'f64::NEG_INFINITY', 'fneginf()', 1),
                  ('re', r'\b(min|max)\.(min|max)\(', r'f64_\2(\1, ', 4),
                  ('re', r'sum \+= (simd_sum_f64\([^;]*\));', r'sum = fadd(sum, \1);', 2),
                  ('re', r'sum / count as f64', 'fdiv(sum, f64_of_i64(count))', 1),
                  ('refn', r'SqlValue::(Float|Integer|Bigint|Smallint)\(v\) => \*v as f64,', _f64_arm, 4)],
        loops={0: _IT_INV + _F64_INV + _IT_END},
        proofs=[('@entry', 'let ghost rows = scan.rows@; let ghost c = column_idx; let ghost bm = filter_bitmap;'),
                ('@loop0', 'proof { lemma_fvals_len(rows, c, bm, en__ as int); lemma_fvals_len(rows, c, bm, en__ as int + 1); }'),
                ('after:batch.push(f64_value);', _F64_AFTER_PUSH),
                ('after:if batch.len() >= 1024 {', _F64_FLUSH_HEAD),
                ('@afterloop0', _F64_AFTER_LOOP)],
        contract="""
    requires bm_ok(scan.rows@, filter_bitmap), scan.rows@.len() < i64::MAX
    ensures
        // an error iff some selected non-NULL value is not one of the numeric variants this driver handles
        r is Ok <==> all_fnumeric(scan.rows@, column_idx, filter_bitmap, scan.rows@.len() as int),
        r matches Ok(v) ==> ({
            let n = scan.rows@.len() as int;
            let vals = fvals(scan.rows@, column_idx, filter_bitmap, n);
            &&& vals.len() == n_live(scan.rows@, column_idx, filter_bitmap, n)
            &&& match op {
                AggregateOp::Count => v == SqlValue::Integer(vals.len() as i64),
                _ => if vals.len() == 0 { v == SqlValue::Null } else { match op {
                    AggregateOp::Min => v == SqlValue::Double(fold_fmin(vals, f_inf())),          // the machine minimum over ALL selected non-NULL values
                    AggregateOp::Max => v == SqlValue::Double(fold_fmax(vals, f_neg_inf())),
                    _ => v is Double,                                                            // SUM / AVG: batched float addition, value not specified
                } },
            }
        }),
"""),
    'compute_expression_aggregate': dict(
        file=_A, path='fn compute_expression_aggregate', ret='res',
        rewrites=[_FMT,
                  ('re', r'for \(row_idx, row\) in rows\.iter\(\)\.enumerate\(\) \{', 'let mut en__: usize = 0; while en__ < rows.len() { let row = &rows[en__]; let row_idx = en__; en__ = en__ + 1;', 3),
                  ('re', r'bitmap\.get\(row_idx\)\.copied\(\)\.unwrap_or\(false\)', 'bm_get(bitmap, row_idx)', 3),
                  ('re', r'let mut sum = 0\.0;', 'let mut sum = fzero();', 1),
                  ('re', r'let mut count = 0;', 'let mut count = 0i64;', 2),
                  ('refn', r'SqlValue::(\w+)\(v\) => sum \+= ([^,]+),', _sum_arm_owned, None),
                  ('re', r'bitmap\.iter\(\)\.filter\(\|&&pass\| pass\)\.count\(\)', 'count_true(bitmap)', None),
                  ('re', r'sum / count as f64', 'fdiv(sum, count.conv())', 1)],
        loops={0: _EX_INV + """
                op == AggregateOp::Sum,
                count == n_elive(rows@, *expr, filter_bitmap, schema, en__ as int),
                sum == e_sum(rows@, *expr, filter_bitmap, schema, en__ as int),
                e_all_numeric(rows@, *expr, filter_bitmap, schema, en__ as int),
            decreases rows@.len() - en__,
""", 1: _EX_INV + """
                count == n_elive(rows@, *expr, filter_bitmap, schema, en__ as int),
            decreases rows@.len() - en__,
""", 2: _EX_INV + """
                result_value == e_fold(rows@, *expr, filter_bitmap, schema, op == AggregateOp::Min, en__ as int),
            decreases rows@.len() - en__,
"""},
        proofs=[('@entry', 'proof { lemma_e_counts(rows@, *expr, filter_bitmap, schema, rows@.len() as int); }'),
                ('@loop0', 'proof { let x = ev(*expr, rows@[en__ as int], schema)->Ok_0; assert(numeric(x) || !numeric(x)); }')],
        contract="""
    requires bm_ok(rows@, filter_bitmap), rows@.len() < i64::MAX
    ensures
        // when the expression evaluates on every selected row: the SQL aggregate over its non-NULL values (SUM / AVG: an error iff one of them is not numeric)
        res matches Ok(v) ==> ev_all_ok(rows@, *expr, filter_bitmap, schema, rows@.len() as int) && v == expr_agg_value(rows@, *expr, op, filter_bitmap, schema),
        (ev_all_ok(rows@, *expr, filter_bitmap, schema, rows@.len() as int)
            && ((op == AggregateOp::Sum || op == AggregateOp::Avg) ==> e_all_numeric(rows@, *expr, filter_bitmap, schema, rows@.len() as int))) ==> res is Ok,
    decreases (if op == AggregateOp::Avg { 1int } else { 0int }),
"""),
    'AggregateSource': dict(file=_A, path='enum AggregateSource'),
    'AggregateSpec': dict(file=_A, path='struct AggregateSpec'),
    'scan_new': dict(file=_S, path="impl<'a> ColumnarScan<'a>::fn new", ret='r', contract="""
        ensures r.rows@ == rows@,
"""),
    'compute_multiple_aggregates': dict(
        file=_A, path='fn compute_multiple_aggregates', ret='res',
        rewrites=[_FMT, _TOSTR,
                  ('re', r'for spec in aggregates \{', 'let mut si__: usize = 0; while si__ < aggregates.len() { let spec = &aggregates[si__]; si__ = si__ + 1;', 1),
                  ('re', r'let schema = schema\.ok_or_else\(\|\| \{\s*ExecutorError::UnsupportedExpression\(\s*fmt_msg\(\)\s*\)\s*\}\)\?;', 'let schema = schema_or_err(schema)?;', 1)],
        loops={0: """
        invariant
            si__ <= aggregates@.len(), scan.rows@ == rows@, bm_ok(rows@, filter_bitmap), rows@.len() < i64::MAX,
            results_ok(rows@, aggregates@.subrange(0, si__ as int), filter_bitmap, schema, results@),
        decreases aggregates@.len() - si__,
"""},
        proofs=[('@tail', 'proof { assert(aggregates@.subrange(0, aggregates@.len() as int) =~= aggregates@); }')],
        contract="""
    requires bm_ok(rows@, filter_bitmap), rows@.len() < i64::MAX
    ensures res matches Ok(vals) ==> results_ok(rows@, aggregates@, filter_bitmap, schema, vals@),
"""),
    'execute_columnar_aggregate': dict(
        file=_M, path='fn execute_columnar_aggregate', ret='res',
        rewrites=[('re', r'aggregate::AggregateSpec', 'AggregateSpec', None),
                  ('re', r'predicates\.is_empty\(\)', 'predicates.len() == 0', 1),
                  ('re', r'create_filter_bitmap\(rows\.len\(\), predicates, \|row_idx, col_idx\| \{\s*rows\.get\(row_idx\)\.and_then\(\|row\| row\.get\(col_idx\)\)\s*\}\)', 'create_filter_bitmap_rows(rows.len(), predicates, rows)', 1),
                  ('re', r'let results = compute_multiple_aggregates\(rows, aggregates, filter_bitmap\.as_deref\(\), schema\)\?;',
                   'let fb__ = opt_slice(&filter_bitmap); let results = compute_multiple_aggregates(rows, aggregates, fb__, schema)?;', 1),
                  ('re', r'vec!\[Row::new\((\w+)\)\]', r'one_row(Row::new(\1))', None),
                  ('re', r'vec!\[([^;\]]+); ([^\]]+)\]', r'vec_repeat(\1, \2)', None),
                  ('re', r'rows\.is_empty\(\)', 'rows.len() == 0', None)],
        contract="""
    requires rows@.len() < i64::MAX
    ensures
        // exactly ONE result row (also for an empty table), one value per aggregate, each the SQL aggregate over the rows the filter keeps
        res matches Ok(out) ==> out@.len() == 1 && exists|bm: Option<&[bool]>| #[trigger] pipeline_bm(rows@, predicates@, bm) && results_ok(rows@, aggregates@, bm, schema, out@[0].values@),
""",
        proofs=[('@tail', 'proof { assert(pipeline_bm(rows@, predicates@, fb__)); }')]),
    'can_use_simd_for_column': dict(
        file=_SA, path='fn can_use_simd_for_column', ret='r',
        rewrites=[('re', r'for \((\w+), (\w+)\) in (scan\.column\(column_idx\))\.enumerate\(\) \{',
                   r'let mut it__ = \3; let mut en__: usize = 0; loop { let nx__ = it__.next(); if nx__.is_none() { break; } let \2 = nx__.unwrap(); let \1 = en__; en__ = en__ + 1;', 1)],
        loops={0: """
        invariant it__.rows@ == scan.rows@, it__.column_index == column_idx, it__.row_index == en__, en__ <= scan.rows@.len(),
        decreases scan.rows@.len() - en__,
"""},
        contract="""
    ensures true,      // a pure heuristic: every answer must lead to a correct aggregate (see compute_columnar_aggregate)
"""),
    'compute_columnar_aggregate': dict(
        file=_A, path='fn compute_columnar_aggregate', ret='r',
        rewrites=[('re', r'use super::simd_aggregate::\{[^}]*\};', '', 1)],
        proofs=[('@entry', 'proof { lemma_counts(scan.rows@, column_idx, filter_bitmap, scan.rows@.len() as int); lemma_fold_none_iff_no_live(scan.rows@, column_idx, filter_bitmap, scan.rows@.len() as int); }')],
        contract="""
    requires bm_ok(scan.rows@, filter_bitmap), scan.rows@.len() < i64::MAX
    ensures
        // COUNT over a column source is COUNT(*): the number of selected rows, never NULL, whatever the column holds
        op == AggregateOp::Count ==> r == Ok::<SqlValue, ExecutorError>(SqlValue::Integer(n_sel(filter_bitmap, scan.rows@.len() as int) as i64)),
        // SUM / AVG / MIN / MAX: NULL iff the column has no selected non-NULL value - on the SIMD integer, SIMD float and scalar paths alike
        op != AggregateOp::Count ==> (r matches Ok(v) ==> ((v is Null) == (n_live(scan.rows@, column_idx, filter_bitmap, scan.rows@.len() as int) == 0))),
"""),
    'AggregateOp': dict(file=_A, path='enum AggregateOp', rewrites=[('re', r'^enum AggregateOp', '#[derive(PartialEq, Eq, Structural, Clone, Copy)]\npub enum AggregateOp', 1)]),
    'simd_aggregate_i64': dict(
        file=_SA, path='fn simd_aggregate_i64', ret='r',
        rewrites=[_FOR_ENUM, _BM, _FMT,
                  ('re', r'const BATCH_SIZE: usize = 1024;[^\n]*\n', '', 1), ('re', r'\bBATCH_SIZE\b', '1024', 2),
                  ('re', r'let mut batch = Vec::with_capacity\(1024\);', 'let mut batch: Vec<i64> = Vec::with_capacity(1024);', 1),
                  ('re', r'&batch\b', 'batch.as_slice()', 6),
                  ('re', r'\b(min|max)\.(min|max)\(', r'i64_\2(\1, ', 4),
                  ('re', r'sum as f64 / count as f64', 'fdiv(f64_of_i128(sum), f64_of_i64(count))', 1),
                  ('re', r'SqlValue::Double\(sum as f64\)', 'SqlValue::Double(f64_of_i128(sum))', 1)],
        loops={0: _IT_INV + _I64_INV + _IT_END},
        proofs=[('@entry', 'let ghost rows = scan.rows@; let ghost c = column_idx; let ghost bm = filter_bitmap;'),
                ('@loop0', 'proof { lemma_ivals_len(rows, c, bm, en__ as int); lemma_ivals_len(rows, c, bm, en__ as int + 1); }'),
                ('after:batch.push(i64_value);', _I64_AFTER_PUSH),
                ('after:if batch.len() >= 1024 {', _I64_FLUSH_HEAD),
                ('batch.clear();', _I64_BEFORE_CLEAR),
                ('@afterloop0', _I64_AFTER_LOOP),
                ('@tail', _I64_AFTER_FINAL)],
        contract="""
    requires bm_ok(scan.rows@, filter_bitmap), scan.rows@.len() < i64::MAX
    ensures
        // an error iff some selected non-NULL value is not an integer
        r is Ok <==> all_int(scan.rows@, column_idx, filter_bitmap, scan.rows@.len() as int),
        r matches Ok(v) ==> ({
            let n = scan.rows@.len() as int;
            let vals = ivals(scan.rows@, column_idx, filter_bitmap, n);
            &&& vals.len() == n_live(scan.rows@, column_idx, filter_bitmap, n)
            &&& match op {
                AggregateOp::Count => v == SqlValue::Integer(vals.len() as i64),                  // COUNT(column): never NULL
                _ => if vals.len() == 0 { v == SqlValue::Null } else { match op {                  // NULL iff no non-NULL value
                    AggregateOp::Sum => v == SqlValue::Double(f_of_i128(ssum(vals) as i128)),        // the exact integer sum, converted once
                    AggregateOp::Avg => v == SqlValue::Double(f_div(f_of_i128(ssum(vals) as i128), f_of_i64(vals.len() as i64))),
                    AggregateOp::Min => exists|m: i64| is_min(vals, m) && v == typed(first_live(scan.rows@, column_idx, filter_bitmap, n), m),
                    AggregateOp::Max => exists|m: i64| is_max(vals, m) && v == typed(first_live(scan.rows@, column_idx, filter_bitmap, n), m),
                    AggregateOp::Count => true,
                } },
            }
        }),
"""),
}

OBLIGATIONS = {
    'next': ['post:yields_cell_of_next_row_then_none', 'safety:index_in_bounds_no_overflow'],
    'column': ['post:iterator_at_row_0'],
    'len': ['post:row_count'],
    'compute_sum': ['post:sum_over_selected_non_null_values__null_iff_none', 'safety:no_overflow', 'proof:loop_invariant'],
    'compute_count': ['post:count_star_is_number_of_selected_rows_never_null'],
    'count_non_null': ['post:number_of_selected_non_null_values', 'safety:no_overflow'],
    'compute_avg': ['post:sum_divided_by_number_of_non_null_values__null_iff_none'],
    'compare_for_min_max': ['post:numeric_order_within_a_variant__the_row_path_comparator_for_every_other_pair'],
    'compute_min': ['post:fold_of_strictly_smaller_over_selected_non_null_values__null_iff_none', 'proof:loop_invariant'],
    'compute_max': ['post:fold_of_strictly_larger_over_selected_non_null_values__null_iff_none', 'proof:loop_invariant'],
    'lemma_fold_none_iff_no_live': ['post:fold_is_none_iff_no_live_value'],
    'can_use_simd_for_column': ['safety:no_panic_terminates'],
    'new': ['post:scan_over_the_rows'],
    'compute_expression_aggregate': ['post:sql_aggregate_over_the_non_null_values_of_the_expression__count_never_null', 'safety:no_overflow', 'proof:loop_invariants_and_termination'],
    'lemma_e_counts': ['post'],
    'compute_multiple_aggregates': ['post:one_value_per_spec_each_the_aggregate_of_its_source', 'proof:loop_invariant'],
    'execute_columnar_aggregate': ['post:exactly_one_row_also_for_empty_input__values_are_the_aggregates_over_the_filtered_rows'],
    'compute_columnar_aggregate': ['post:count_is_count_star__others_null_iff_no_non_null_value_on_every_path'],
    'simd_aggregate_f64': ['post:count__null_iff_none__min_max_are_the_machine_fold_over_all_values__error_iff_non_numeric', 'safety:no_overflow_of_count', 'proof:loop_invariant_over_batches'],
    'lemma_fvals_len': ['post'], 'lemma_fmax_flush': ['post:running_max_extends_over_a_batch_by_associativity'], 'lemma_fmin_flush': ['post:running_min_extends_over_a_batch_by_associativity'],
    'simd_aggregate_i64': ['post:count_sum_avg_min_max_over_selected_non_null_integers__null_iff_none__error_iff_non_integer', 'safety:no_overflow_of_i128_sum_and_i64_count', 'proof:loop_invariant_over_batches'],
    'lemma_ivals_len': ['post:ivals_length_is_live_count'], 'ssum_append': ['post:sum_of_concatenation'], 'ssum_bound': ['post:sum_bounded_by_length'], 'lemma_min_flush': ['post:running_min_extends_over_a_batch'], 'lemma_max_flush': ['post:running_max_extends_over_a_batch'],
}
CANARIES = ['canary_sum', 'canary_avg', 'canary_count', 'canary_dispatch', 'canary_i64', 'canary_pipeline']
TRUSTED = [
    'external_body Opq: String / Date / Time / Timestamp / Interval payloads of SqlValue and error messages (never inspected by these functions)',
    'external_body SqlValue::clone: Clone is a copy',
    'external_body fmt_msg: format!(..) / "..".to_string() building an error message',
    'external_body Row::get: Vec::get (std slice::get: Some(&v[i]) iff i < len)',
    'external_body fzero / fadd / fdiv / f64_of_i64 / f64_of_i16 / f64_of_f32 / f64_of_i128 / AsF64::conv (`<i64 or usize> as f64`): machine floating point is UNINTERPRETED (f_add, f_div, f_of_*): sums and averages are stated as the fold of the machine operations in row order, not as real-number arithmetic',
    'external_body bm_get: bitmap.get(i).copied().unwrap_or(false); count_true: bitmap.iter().filter(|&&p| p).count() (iterator adapters are outside the Verus subset)',
    'precondition bm_ok: a filter bitmap has one entry per row (create_filter_bitmap(rows.len(), ..), not under contract); precondition rows.len() < i64::MAX (a Vec<Row> cannot be longer)',
    'external_body simd_sum_i64 / simd_min_i64 / simd_max_i64: the integer kernels BY THEIR CONTRACTS (exact sum; None iff empty else minimum / maximum), which unit A-simd proves on the real kernels',
    'external_body simd_sum_f64 / simd_min_f64 / simd_max_f64: the float kernels are NOT under contract; ASSUMED: min / max return None iff the batch is empty, else the left fold of f64::min / f64::max over the batch starting at its first element; sum is an uninterpreted function of the batch',
    'f_minmax_assoc (ASSUMED): f64::min / f64::max are associative (IEEE minNum / maxNum, up to the sign of zero and NaN payloads); finf / fneginf / f64_min / f64_max: f64::INFINITY, NEG_INFINITY, f64::min, f64::max as uninterpreted functions',
    'SUM / AVG on the float driver: only "is a Double, NULL iff no value" is stated (batched float addition is not associative; no value-level spec)',
    'external_body i64_min / i64_max: std i64::min / i64::max; i64_cmp / i16_cmp: Ord::cmp on integers; f32_cmp / f64_cmp: partial_cmp(..).unwrap_or(Equal) on floats, only "is Less" is used (uninterpreted f32_lt / f64_lt)',
    'lt_spec: MIN / MAX compare numerically within a numeric variant and with the row path comparator (external_body compare_sql_values, uninterpreted row_lt) otherwise; the earlier version of this unit stated the code as it was (every other pair "not less": first value kept) WITHOUT judging it - a spec read off the code, which hid the defect repaired by fix 20eb4028',
    'external_body eval_simple_expr: the per-row value of the argument expression of SUM(a*b) / COUNT(col) / .., an uninterpreted DETERMINISTIC function of (expression, row, schema) (its ColumnRef / Literal arms: unit A-plan; arithmetic: OperatorRegistry, unit E-ops); Expression / CombinedSchema / ColumnPredicate opaque; schema_or_err: Option::ok_or_else; opt_slice: Option<Vec<bool>>::as_deref; one_row: vec![row]; vec_repeat: vec![x; n]; Row::new',
    'external_body create_filter_bitmap_rows: create_filter_bitmap called with the closure |r, c| rows.get(r).and_then(|row| row.get(c)), by the length part of its contract (proved on the real function in unit A-filter) and an uninterpreted content',
    'R10 rewrite: for (i, x) in it.enumerate() desugared to its definition (loop / next / break with a usize counter)',
    'f64 `+=` / `as f64` / `/` rewritten to the fadd / f64_of_* / fdiv stubs (Verus does not interpret float arithmetic)',
]
