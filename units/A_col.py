NAME = 'A-col'
PROPERTIES = ['C03', 'C07']
ENGINE = 'verus'
CLASS = 'U'
DOC = ('the columnar aggregate functions (select/columnar/aggregate.rs, scan.rs) against the SQL definitions, for every table content and every '
       'filter bitmap: COUNT(*) = number of selected rows and is never NULL; SUM / AVG / MIN / MAX range over the selected non-NULL values of the '
       'column and are NULL iff there is none; AVG divides by the number of non-NULL values. ColumnIterator::next is the row-by-row cell access.')

TEMPLATE = r'''
use vstd::prelude::*;
verus! {

// ---------------- R2: leaf types ------------------------------------------------------------------------------
#[verifier::external_body] pub struct Opq { o: u8 }          // String / Date / Time / Timestamp / Interval payloads, error messages
#[derive(PartialEq, Eq, Structural)]
pub enum Ordering { Less, Equal, Greater }

//@@ SqlValue

impl SqlValue {
    #[verifier::external_body]
    pub fn clone(&self) -> (r: SqlValue) ensures r == *self { unimplemented!() }
}
pub enum ExecutorError { UnsupportedExpression(Opq) }
#[verifier::external_body] fn fmt_msg() -> (r: Opq) { unimplemented!() }        // format!(..) / "..".to_string()

//@@ Row

impl Row {
    // `self.values.get(index)` (std slice::get)
    #[verifier::external_body]
    pub fn get(&self, index: usize) -> (r: Option<&SqlValue>)
        ensures r is Some <==> index < self.values@.len(), r is Some ==> *r.unwrap() == self.values@[index as int]
    { unimplemented!() }
}

// ---------------- f64 arithmetic as uninterpreted functions (machine floating point is not interpreted) --------
pub uninterp spec fn f_zero() -> f64;
pub uninterp spec fn f_add(a: f64, b: f64) -> f64;
pub uninterp spec fn f_div(a: f64, b: f64) -> f64;
pub uninterp spec fn f_lt(a: f64, b: f64) -> Option<Ordering>;
pub uninterp spec fn f_of_i64(a: i64) -> f64;
pub uninterp spec fn f_of_i16(a: i16) -> f64;
pub uninterp spec fn f_of_f32(a: f32) -> f64;
pub uninterp spec fn f_of_i128(a: i128) -> f64;
#[verifier::external_body] fn fzero() -> (r: f64) ensures r == f_zero() { 0.0 }
#[verifier::external_body] fn fadd(a: f64, b: f64) -> (r: f64) ensures r == f_add(a, b) { a + b }
#[verifier::external_body] fn fdiv(a: f64, b: f64) -> (r: f64) ensures r == f_div(a, b) { a / b }
#[verifier::external_body] fn f64_of_i64(a: i64) -> (r: f64) ensures r == f_of_i64(a) { a as f64 }
#[verifier::external_body] fn f64_of_i16(a: i16) -> (r: f64) ensures r == f_of_i16(a) { a as f64 }
#[verifier::external_body] fn f64_of_f32(a: f32) -> (r: f64) ensures r == f_of_f32(a) { a as f64 }
#[verifier::external_body] fn f64_of_i128(a: i128) -> (r: f64) ensures r == f_of_i128(a) { a as f64 }

// `bitmap.get(i).copied().unwrap_or(false)`
#[verifier::external_body]
fn bm_get(bitmap: &[bool], i: usize) -> (r: bool) ensures r == (i < bitmap@.len() && bitmap@[i as int]) { unimplemented!() }
// `bitmap.iter().filter(|&&pass| pass).count()`
pub open spec fn n_true(s: Seq<bool>, n: int) -> int decreases n {
    if n <= 0 { 0 } else { n_true(s, n - 1) + (if s[n - 1] { 1int } else { 0int }) }
}
#[verifier::external_body]
fn count_true(bitmap: &[bool]) -> (r: usize) ensures r == n_true(bitmap@, bitmap@.len() as int) { unimplemented!() }

// ---------------- the table as seen by the aggregate: selected rows, cells, live (non-NULL) cells --------------
pub open spec fn sel(bm: Option<&[bool]>, i: int) -> bool {
    bm is None || (0 <= i < bm.unwrap()@.len() && bm.unwrap()@[i])
}
pub open spec fn cell(rows: Seq<Row>, c: usize, i: int) -> Option<SqlValue> {
    if c < rows[i].values@.len() { Some(rows[i].values@[c as int]) } else { None }
}
/// row i takes part in an aggregate over column c: selected by the filter and holding a non-NULL value
pub open spec fn live(rows: Seq<Row>, c: usize, bm: Option<&[bool]>, i: int) -> bool {
    sel(bm, i) && cell(rows, c, i) is Some && !(cell(rows, c, i).unwrap() is Null)
}
/// COUNT(*): number of selected rows among the first n
pub open spec fn n_sel(bm: Option<&[bool]>, n: int) -> int decreases n {
    if n <= 0 { 0 } else { n_sel(bm, n - 1) + (if sel(bm, n - 1) { 1int } else { 0int }) }
}
/// COUNT(column): number of live cells among the first n rows
pub open spec fn n_live(rows: Seq<Row>, c: usize, bm: Option<&[bool]>, n: int) -> int decreases n {
    if n <= 0 { 0 } else { n_live(rows, c, bm, n - 1) + (if live(rows, c, bm, n - 1) { 1int } else { 0int }) }
}
pub open spec fn numeric(v: SqlValue) -> bool {
    v is Integer || v is Bigint || v is Smallint || v is Float || v is Double || v is Numeric
}
pub open spec fn to_f(v: SqlValue) -> f64 {
    match v {
        SqlValue::Integer(x) => f_of_i64(x), SqlValue::Bigint(x) => f_of_i64(x), SqlValue::Smallint(x) => f_of_i16(x),
        SqlValue::Float(x) => f_of_f32(x), SqlValue::Double(x) => x, SqlValue::Numeric(x) => x, _ => f_zero(),
    }
}
/// SUM over the live cells of the first n rows, in row order (f_add is the machine addition, uninterpreted)
pub open spec fn f_sum(rows: Seq<Row>, c: usize, bm: Option<&[bool]>, n: int) -> f64 decreases n {
    if n <= 0 { f_zero() } else if live(rows, c, bm, n - 1) { f_add(f_sum(rows, c, bm, n - 1), to_f(cell(rows, c, n - 1).unwrap())) } else { f_sum(rows, c, bm, n - 1) }
}
/// every live cell of the first n rows is numeric
pub open spec fn all_numeric(rows: Seq<Row>, c: usize, bm: Option<&[bool]>, n: int) -> bool {
    forall|i: int| 0 <= i < n && live(rows, c, bm, i) ==> numeric(#[trigger] cell(rows, c, i).unwrap())
}
/// the filter bitmap covers the table (create_filter_bitmap(rows.len(), ..) builds it that way)
pub open spec fn bm_ok(rows: Seq<Row>, bm: Option<&[bool]>) -> bool {
    bm is Some ==> bm.unwrap()@.len() == rows.len()
}
pub uninterp spec fn lt_spec(a: SqlValue, b: SqlValue) -> bool;     // compare_for_min_max(a, b): "a < b" (its own contract below)
/// running MIN / MAX over the live cells of the first n rows: the fold of "replace when strictly smaller / larger"
pub open spec fn fold_min(rows: Seq<Row>, c: usize, bm: Option<&[bool]>, n: int) -> Option<SqlValue> decreases n {
    if n <= 0 { None } else if live(rows, c, bm, n - 1) {
        let v = cell(rows, c, n - 1).unwrap();
        match fold_min(rows, c, bm, n - 1) { None => Some(v), Some(cur) => if lt_spec(v, cur) { Some(v) } else { Some(cur) } }
    } else { fold_min(rows, c, bm, n - 1) }
}
pub open spec fn fold_max(rows: Seq<Row>, c: usize, bm: Option<&[bool]>, n: int) -> Option<SqlValue> decreases n {
    if n <= 0 { None } else if live(rows, c, bm, n - 1) {
        let v = cell(rows, c, n - 1).unwrap();
        match fold_max(rows, c, bm, n - 1) { None => Some(v), Some(cur) => if lt_spec(cur, v) { Some(v) } else { Some(cur) } }
    } else { fold_max(rows, c, bm, n - 1) }
}
proof fn lemma_fold_none_iff_no_live(rows: Seq<Row>, c: usize, bm: Option<&[bool]>, n: int)
    ensures (fold_min(rows, c, bm, n) is None) == (n_live(rows, c, bm, n) == 0), (fold_max(rows, c, bm, n) is None) == (n_live(rows, c, bm, n) == 0),
            n_live(rows, c, bm, n) >= 0
    decreases n
{
    if n > 0 { lemma_fold_none_iff_no_live(rows, c, bm, n - 1); }
}
proof fn lemma_counts(rows: Seq<Row>, c: usize, bm: Option<&[bool]>, n: int)
    ensures 0 <= n_live(rows, c, bm, n) <= n_sel(bm, n), n_sel(bm, n) <= (if n <= 0 { 0 } else { n })
    decreases n
{
    if n > 0 { lemma_counts(rows, c, bm, n - 1); }
}
proof fn lemma_n_sel_is_n_true(bm: &[bool], n: int)
    requires 0 <= n <= bm@.len()
    ensures n_sel(Some(bm), n) == n_true(bm@, n)
    decreases n
{
    if n > 0 { lemma_n_sel_is_n_true(bm, n - 1); }
}
proof fn lemma_n_sel_none(n: int)
    ensures n_sel(None, n) == (if n <= 0 { 0 } else { n })
    decreases n
{
    if n > 0 { lemma_n_sel_none(n - 1); }
}

// ---------------- integer SIMD path: kernels by their contracts (proved in unit A-simd), integer views of the column ----
pub open spec fn ssum(s: Seq<i64>) -> int decreases s.len() {
    if s.len() == 0 { 0 } else { ssum(s.drop_last()) + s.last() as int }
}
pub open spec fn is_min(s: Seq<i64>, m: i64) -> bool {
    (exists|k: int| 0 <= k < s.len() && s[k] == m) && forall|k: int| 0 <= k < s.len() ==> m <= s[k]
}
pub open spec fn is_max(s: Seq<i64>, m: i64) -> bool {
    (exists|k: int| 0 <= k < s.len() && s[k] == m) && forall|k: int| 0 <= k < s.len() ==> m >= s[k]
}
pub open spec fn min_so_far(s: Seq<i64>, n: int, m: i64) -> bool {
    (forall|k: int| 0 <= k < n ==> m <= s[k]) && (if n == 0 { m == i64::MAX } else { exists|k: int| 0 <= k < n && s[k] == m })
}
pub open spec fn max_so_far(s: Seq<i64>, n: int, m: i64) -> bool {
    (forall|k: int| 0 <= k < n ==> m >= s[k]) && (if n == 0 { m == i64::MIN } else { exists|k: int| 0 <= k < n && s[k] == m })
}
#[verifier::external_body]
fn simd_sum_i64(column: &[i64]) -> (r: i128) ensures r as int == ssum(column@) { unimplemented!() }
#[verifier::external_body]
fn simd_min_i64(column: &[i64]) -> (r: Option<i64>) ensures r is None <==> column@.len() == 0, r is Some ==> is_min(column@, r.unwrap()) { unimplemented!() }
#[verifier::external_body]
fn simd_max_i64(column: &[i64]) -> (r: Option<i64>) ensures r is None <==> column@.len() == 0, r is Some ==> is_max(column@, r.unwrap()) { unimplemented!() }
#[verifier::external_body]
fn i64_min(a: i64, b: i64) -> (r: i64) ensures r == (if a <= b { a } else { b }) { a.min(b) }
#[verifier::external_body]
fn i64_max(a: i64, b: i64) -> (r: i64) ensures r == (if a >= b { a } else { b }) { a.max(b) }

pub open spec fn is_intval(v: SqlValue) -> bool { v is Integer || v is Bigint || v is Smallint }
pub open spec fn ival(v: SqlValue) -> i64 {
    match v { SqlValue::Integer(x) => x, SqlValue::Bigint(x) => x, SqlValue::Smallint(x) => x as i64, _ => 0 }
}
/// the integer values of the live cells of the first n rows, in row order
pub open spec fn ivals(rows: Seq<Row>, c: usize, bm: Option<&[bool]>, n: int) -> Seq<i64> decreases n {
    if n <= 0 { Seq::empty() } else if live(rows, c, bm, n - 1) { ivals(rows, c, bm, n - 1).push(ival(cell(rows, c, n - 1).unwrap())) } else { ivals(rows, c, bm, n - 1) }
}
pub open spec fn all_int(rows: Seq<Row>, c: usize, bm: Option<&[bool]>, n: int) -> bool {
    forall|i: int| 0 <= i < n && live(rows, c, bm, i) ==> is_intval(#[trigger] cell(rows, c, i).unwrap())
}
/// the first live value of the column (decides the result type of MIN / MAX)
pub open spec fn first_live(rows: Seq<Row>, c: usize, bm: Option<&[bool]>, n: int) -> Option<SqlValue> decreases n {
    if n <= 0 { None } else { match first_live(rows, c, bm, n - 1) { Some(v) => Some(v), None => if live(rows, c, bm, n - 1) { Some(cell(rows, c, n - 1).unwrap()) } else { None } } }
}
pub open spec fn type_tag(o: Option<SqlValue>) -> Option<SqlValue> {
    match o { None => None, Some(SqlValue::Integer(_)) => Some(SqlValue::Integer(0)), Some(SqlValue::Smallint(_)) => Some(SqlValue::Smallint(0)), Some(_) => Some(SqlValue::Bigint(0)) }
}
pub open spec fn typed(o: Option<SqlValue>, m: i64) -> SqlValue {
    match o { Some(SqlValue::Integer(_)) => SqlValue::Integer(m), Some(SqlValue::Smallint(_)) => SqlValue::Smallint(m as i16), _ => SqlValue::Bigint(m) }
}
proof fn lemma_ivals_len(rows: Seq<Row>, c: usize, bm: Option<&[bool]>, n: int)
    ensures ivals(rows, c, bm, n).len() == n_live(rows, c, bm, n), 0 <= n_live(rows, c, bm, n) <= (if n <= 0 { 0 } else { n }),
            (first_live(rows, c, bm, n) is None) == (n_live(rows, c, bm, n) == 0)
    decreases n
{
    if n > 0 { lemma_ivals_len(rows, c, bm, n - 1); }
}
proof fn ssum_append(a: Seq<i64>, b: Seq<i64>)
    ensures ssum(a + b) == ssum(a) + ssum(b)
    decreases b.len()
{
    if b.len() == 0 { assert(a + b =~= a); } else {
        assert((a + b).drop_last() =~= a + b.drop_last());
        ssum_append(a, b.drop_last());
    }
}
proof fn ssum_bound(s: Seq<i64>)
    ensures -0x8000_0000_0000_0000 * s.len() <= ssum(s) <= 0x7fff_ffff_ffff_ffff * s.len()
    decreases s.len()
{
    if s.len() > 0 { ssum_bound(s.drop_last()); }
}

// ---------------- scan.rs: the real scan and iterator ----------------------------------------------------------
//@@ ColumnarScan

//@@ ColumnIterator

pub open spec fn opt_val(x: Option<&SqlValue>) -> Option<SqlValue> { match x { Some(v) => Some(*v), None => None } }

impl<'a> ColumnarScan<'a> {
//@@ scan_column

//@@ scan_len
}
impl<'a> ColumnIterator<'a> {
    pub open spec fn wf(&self) -> bool { self.row_index <= self.rows@.len() }
//@@ iter_next
}

//@@ compute_sum

//@@ compute_count

//@@ count_non_null

//@@ compute_avg

//@@ AggregateOp

//@@ simd_aggregate_i64


fn canary_sum(scan: &ColumnarScan, c: usize, bm: Option<&[bool]>)
    requires bm_ok(scan.rows@, bm), scan.rows@.len() < i64::MAX
{
    let r = compute_sum(scan, c, bm);
    assert(false); // CANARY
}
fn canary_avg(scan: &ColumnarScan, c: usize, bm: Option<&[bool]>)
    requires bm_ok(scan.rows@, bm), scan.rows@.len() < i64::MAX
{
    let r = compute_avg(scan, c, bm);
    assert(false); // CANARY
}
fn canary_count(scan: &ColumnarScan, bm: Option<&[bool]>)
    requires bm_ok(scan.rows@, bm), scan.rows@.len() < i64::MAX
{
    let r = compute_count(scan, bm);
    assert(false); // CANARY
}

}
fn main() {}
'''

_A = 'crates/vibesql-executor/src/select/columnar/aggregate.rs'
_S = 'crates/vibesql-executor/src/select/columnar/scan.rs'

# R10: `for (i, x) in <iter>.enumerate() { BODY }` is desugared exactly as the language defines it:
#      let mut it = <iter>; let mut n = 0; loop { match it.next() { None => break, Some(x) => { let i = n; n += 1; BODY } } }
_FOR_ENUM = ('re', r'for \((\w+), (\w+)\) in (scan\.column\(column_idx\))\.enumerate\(\) \{',
             r'let mut it__ = \3; let mut en__: usize = 0; loop { let nx__ = it__.next(); if nx__.is_none() { break; } let \2 = nx__.unwrap(); let \1 = en__; en__ = en__ + 1;', 1)
_PUBF = ('re', r'(?m)^(\s+)(\w+: )', r'\1pub \2', None)   # private fields made pub (visibility is not part of the verified text)
_BM = ('re', r'bitmap\.get\(row_idx\)\.copied\(\)\.unwrap_or\(false\)', 'bm_get(bitmap, row_idx)', 1)
_FMT = ('re', r'format!\((?:[^()]|\([^()]*\))*\)', 'fmt_msg()', None)
_TOSTR = ('re', r'"[^"]*"\.to_string\(\)', 'fmt_msg()', None)

# loop head facts shared by every scan loop: the iterator walks the scan's rows, en__ rows are done
_IT_INV = '''
        invariant
            it__.rows@ == scan.rows@, it__.column_index == column_idx, it__.row_index == en__, en__ <= scan.rows@.len(),
            bm_ok(scan.rows@, filter_bitmap), scan.rows@.len() < i64::MAX,
'''
_IT_END = '''
        ensures en__ == scan.rows@.len(),
        decreases scan.rows@.len() - en__,
'''


def _sum_arm(m):
    """`SqlValue::T(v) => sum += <v as f64>,` -> `SqlValue::T(v) => sum = fadd(sum, <conversion stub>),` (f64 `+=` and `as f64` are not interpreted)"""
    ty, expr = m.group(1), m.group(2).strip()
    conv = {'*v as f64': {'Integer': 'f64_of_i64(*v)', 'Bigint': 'f64_of_i64(*v)', 'Smallint': 'f64_of_i16(*v)', 'Float': 'f64_of_f32(*v)'}.get(ty), 'v': '*v'}.get(expr)
    if conv is None:
        return m.group(0)
    return 'SqlValue::%s(v) => sum = fadd(sum, %s),' % (ty, conv)


ITEMS = {
    'SqlValue': dict(file='crates/vibesql-types/src/sql_value/mod.rs', path='enum SqlValue', rewrites=[
        ('re', r'\b(String|Date|Time|Timestamp|Interval)\b(?=\))', 'Opq', None)]),
    'Row': dict(file='crates/vibesql-storage/src/row.rs', path='struct Row'),
    'ColumnarScan': dict(file=_S, path='struct ColumnarScan', rewrites=[_PUBF]),
    'ColumnIterator': dict(file=_S, path='struct ColumnIterator', rewrites=[_PUBF]),
    'scan_column': dict(file=_S, path="impl<'a> ColumnarScan<'a>::fn column", ret='r', contract='''
        ensures r.rows@ == self.rows@, r.column_index == index, r.row_index == 0,
'''),
    'scan_len': dict(file=_S, path="impl<'a> ColumnarScan<'a>::fn len", ret='r', contract='''
        ensures r == self.rows@.len(),
'''),
    'iter_next': dict(file=_S, path="impl<'a> Iterator for ColumnIterator<'a>::fn next", ret='r',
        rewrites=[('re', r'Option<Self::Item>', "Option<Option<&'a SqlValue>>", 1)],
        contract='''
        requires old(self).wf()
        ensures
            final(self).rows@ == old(self).rows@, final(self).column_index == old(self).column_index, final(self).wf(),
            r is Some <==> old(self).row_index < old(self).rows@.len(),
            r is Some ==> final(self).row_index == old(self).row_index + 1 && opt_val(r.unwrap()) == cell(old(self).rows@, old(self).column_index, old(self).row_index as int),
            r is None ==> final(self).row_index == old(self).row_index,
'''),
    'compute_sum': dict(
        file=_A, path='fn compute_sum', ret='r',
        rewrites=[_FOR_ENUM, _BM, _FMT,
                  ('re', r'let mut sum = 0\.0;', 'let mut sum = fzero();', 1),
                  ('re', r'let mut count = 0;', 'let mut count = 0i64;', 1),
                  ('refn', r'SqlValue::(\w+)\(v\) => sum \+= ([^,]+),', _sum_arm, 6)],
        loops={0: _IT_INV + '''
            0 <= count == n_live(scan.rows@, column_idx, filter_bitmap, en__ as int), count <= en__,
            sum == f_sum(scan.rows@, column_idx, filter_bitmap, en__ as int),
            all_numeric(scan.rows@, column_idx, filter_bitmap, en__ as int),
''' + _IT_END},
        contract='''
    requires bm_ok(scan.rows@, filter_bitmap), scan.rows@.len() < i64::MAX
    ensures
        // SUM ranges over the selected non-NULL values and is NULL iff there is none
        r matches Ok(v) ==> all_numeric(scan.rows@, column_idx, filter_bitmap, scan.rows@.len() as int) && v == (
            if n_live(scan.rows@, column_idx, filter_bitmap, scan.rows@.len() as int) == 0 { SqlValue::Null }
            else { SqlValue::Double(f_sum(scan.rows@, column_idx, filter_bitmap, scan.rows@.len() as int)) }),
        r is Err ==> !all_numeric(scan.rows@, column_idx, filter_bitmap, scan.rows@.len() as int),
'''),
    'compute_count': dict(
        file=_A, path='fn compute_count', ret='r',
        rewrites=[('re', r'bitmap\.iter\(\)\.filter\(\|&&pass\| pass\)\.count\(\)', 'count_true(bitmap)', 1)],
        proofs=[('@entry', 'proof { if filter_bitmap is Some { lemma_n_sel_is_n_true(filter_bitmap.unwrap(), scan.rows@.len() as int); } else { lemma_n_sel_none(scan.rows@.len() as int); } lemma_counts(scan.rows@, 0, filter_bitmap, scan.rows@.len() as int); }')],
        contract='''
    requires bm_ok(scan.rows@, filter_bitmap), scan.rows@.len() < i64::MAX
    ensures r == Ok::<SqlValue, ExecutorError>(SqlValue::Integer(n_sel(filter_bitmap, scan.rows@.len() as int) as i64)),   // COUNT(*): selected rows, never NULL
            0 <= n_sel(filter_bitmap, scan.rows@.len() as int) <= scan.rows@.len(),
'''),
    'count_non_null': dict(
        file=_A, path='fn count_non_null', ret='r',
        rewrites=[_FOR_ENUM, _BM],
        loops={0: _IT_INV + '''
            0 <= count == n_live(scan.rows@, column_idx, filter_bitmap, en__ as int), count <= en__,
''' + _IT_END},
        contract='''
    requires bm_ok(scan.rows@, filter_bitmap), scan.rows@.len() < i64::MAX
    ensures r == n_live(scan.rows@, column_idx, filter_bitmap, scan.rows@.len() as int),
'''),
    'compute_avg': dict(
        file=_A, path='fn compute_avg', ret='r',
        rewrites=[_TOSTR, ('re', r'sum / count as f64', 'fdiv(sum, f64_of_i64(count))', 1)],
        proofs=[('@entry', 'proof { lemma_counts(scan.rows@, column_idx, filter_bitmap, scan.rows@.len() as int); }')],
        contract='''
    requires bm_ok(scan.rows@, filter_bitmap), scan.rows@.len() < i64::MAX
    ensures
        // AVG = SUM / COUNT(column) over the selected non-NULL values, NULL iff there is none
        r matches Ok(v) ==> v == (
            if n_live(scan.rows@, column_idx, filter_bitmap, scan.rows@.len() as int) == 0 { SqlValue::Null }
            else { SqlValue::Double(f_div(f_sum(scan.rows@, column_idx, filter_bitmap, scan.rows@.len() as int),
                                          f_of_i64(n_live(scan.rows@, column_idx, filter_bitmap, scan.rows@.len() as int) as i64))) }),
        r is Err ==> !all_numeric(scan.rows@, column_idx, filter_bitmap, scan.rows@.len() as int),
'''),
}

OBLIGATIONS = {
    'next': ['post:yields_cell_of_next_row_then_none', 'safety:index_in_bounds_no_overflow'],
    'column': ['post:iterator_at_row_0'],
    'len': ['post:row_count'],
    'compute_sum': ['post:sum_over_selected_non_null_values__null_iff_none', 'safety:no_overflow', 'proof:loop_invariant'],
    'compute_count': ['post:count_star_is_number_of_selected_rows_never_null'],
    'count_non_null': ['post:number_of_selected_non_null_values', 'safety:no_overflow'],
    'compute_avg': ['post:sum_divided_by_number_of_non_null_values__null_iff_none'],
}
CANARIES = ['canary_sum', 'canary_avg', 'canary_count']
TRUSTED = [
    'external_body Opq: String / Date / Time / Timestamp / Interval payloads of SqlValue and error messages (never inspected by these functions)',
    'external_body SqlValue::clone: Clone is a copy',
    'external_body fmt_msg: format!(..) / "..".to_string() building an error message',
    'external_body Row::get: Vec::get (std slice::get: Some(&v[i]) iff i < len)',
    'external_body fzero / fadd / fdiv / f64_of_i64 / f64_of_i16 / f64_of_f32 / f64_of_i128: machine floating point is UNINTERPRETED (f_add, f_div, f_of_*): sums and averages are stated as the fold of the machine operations in row order, not as real-number arithmetic',
    'external_body bm_get: bitmap.get(i).copied().unwrap_or(false); count_true: bitmap.iter().filter(|&&p| p).count() (iterator adapters are outside the Verus subset)',
    'precondition bm_ok: a filter bitmap has one entry per row (create_filter_bitmap(rows.len(), ..), not under contract); precondition rows.len() < i64::MAX (a Vec<Row> cannot be longer)',
    'R10 rewrite: for (i, x) in it.enumerate() desugared to its definition (loop / next / break with a usize counter)',
    'f64 `+=` / `as f64` / `/` rewritten to the fadd / f64_of_* / fdiv stubs (Verus does not interpret float arithmetic)',
]
