# Per-property claim texts for MANIFEST.json (read by bin/gen_manifest). A property appears in MANIFEST.checks only if
# it is listed here AND some unit registers it.
_B_NOTE = ('Trusted: rustc/Kani codegen + CBMC 6.11 + CaDiCaL; Verus + Z3 + vstd specs; the assumed contracts of std/dependency calls '
           'listed in evidence.coverage.trusted_base; extraction rewrites logged in evidence. NOT machine-checked: the composition of the '
           'kernel contracts into the statement-level property (DESIGN.md section 5); code outside the functions under contract.')
CLAIMS = {
    'C21': ('proof',
            'The property IS the conjunction of the contracts: on the real impls of PartialEq/Ord/Hash for SqlValue (and Interval) Kani proves, over the full machine '
            'domain of every scalar payload (NaN payloads, +-0.0, i64::MIN, out-of-range dates), that eq is an equivalence, cmp is antisymmetric/transitive and agrees with eq, '
            'and equal values feed identical write streams to any Hasher. Variants are case-split outside the solver; string payloads are bounded to 2 ASCII bytes (labelled bounded).',
            _B_NOTE, 'contract-based deductive verification: Kani/CBMC harnesses over full scalar domains on the real trait impls, in place', 'DESIGN.md 5/C21'),
    'C08': ('proof',
            'Kernel contracts only: LIMIT/OFFSET slicing is proved for all inputs (Verus, unbounded) on the real apply_limit_offset; the ORDER BY comparator and the sort-key '
            'comparison are proved total preorders with NULLs last. Sorting itself (std sort_by given a total preorder), DISTINCT and the index-order path are not under contract.',
            _B_NOTE, 'contract-based deductive verification: Verus on mechanically extracted functions + Kani on scalar comparison kernels', 'DESIGN.md 5/C08'),
}
CLAIMS['C27'] = ('proof',
    'The statement is, clause for clause, the contract proved by Verus (all byte strings, no bound) on the real text of FrontendMessage::decode, decode_startup and '
    'read_cstring: no callee precondition violated (bytes-crate panics are preconditions) and no arithmetic overflow; Ok(None) only for an incomplete frame and then the buffer is '
    'unchanged; otherwise exactly the declared frame is consumed and the result is the specification decoding of that frame (or Err for an undecodable frame); plus the round-trip lemma '
    'decode(encode(m) ++ rest) = (m, rest) over the contract. The tokio read loop in connection.rs is not under contract.',
    _B_NOTE, 'contract-based deductive verification: Verus on mechanically extracted functions over an assumed-contract BytesMut', 'DESIGN.md 5/C27')
CLAIMS['C02'] = ('proof',
    'Kernel contracts only: the functions that decide WHICH index keys a predicate selects are proved on the real code - key normalisation preserves numeric order, '
    'the successor functions used to turn > v / <= v into inclusive/exclusive composite-key bounds return the exact IEEE/integer successor (full f32/f64/i64 domains, Kani), '
    'and the recursive predicate-to-range extraction is sound for every AST nesting (Verus, when the I-range unit is registered). BTreeMap::range, index selection and maintenance are not under contract.',
    _B_NOTE, 'contract-based deductive verification: Kani/CBMC on scalar index-key kernels (+ Verus on the range extraction)', 'DESIGN.md 5/C02')
CLAIMS['C18'] = ('proof',
    'Narrow: for every scalar SqlValue tag the real write_sql_value/read_sql_value pair is proved a bitwise round trip with exact byte consumption (NaN payloads, -0.0, extreme integers), '
    'TypeTag::from_u8 is the inverse of the tag byte on all 256 codes, and the 16-byte header round-trips. Strings, temporals, catalog, index definitions, JSON and compression are not under contract.',
    _B_NOTE, 'contract-based deductive verification: Kani/CBMC harnesses over full scalar domains on the real codec functions', 'DESIGN.md 5/C18')
CLAIMS['C20'] = ('proof',
    'Narrow: the fixed-width readers of the binary format (read_sql_value per scalar tag, read_header, TypeTag::from_u8) are proved total on arbitrary and truncated bytes: Ok or Err, '
    'no panic, no out-of-bounds, never reading past the input, truncated input is an error (every tag x every length, symbolic payload bytes). String/catalog/row readers, JSON and SQL dumps are not under contract.',
    _B_NOTE, 'contract-based deductive verification: Kani/CBMC harnesses (tag/length case split outside the solver)', 'DESIGN.md 5/C20')
CLAIMS['C17'] = ('proof',
    'Kernel contracts only: the varint codec of the page format round-trips for all usize with exact consumption and its reader is total (Kani); node-level operations (sorted insert/search/delete/split '
    'against a multimap view) are proved by Verus where registered. Whole-tree behaviour over operation sequences, rebalancing and page I/O are not under contract.',
    _B_NOTE, 'contract-based deductive verification: Kani/CBMC on the varint codec (+ Verus on node operations)', 'DESIGN.md 5/C17')
CLAIMS['C24'] = ('proof',
    'The arithmetic clause is proved on the real operator code through OperatorRegistry::eval_binary_op: +, -, * on exact numerics return the mathematically exact integer or an explicit error, never a wrapped value, '
    'and no path panics (Kani checks overflow/unwrap/unreachable on every path; full i64 domains, products value-checked on 32-bit operands); % and / by zero yield NULL (DIV: error), i64::MIN % -1 does not panic. '
    '"Any parsed statement leaves the database usable" is a whole-executor statement and is not decided.',
    _B_NOTE, 'contract-based deductive verification: Kani/CBMC harnesses over full integer domains on the real operator functions', 'DESIGN.md 5/C24')
CLAIMS['C06'] = ('proof',
    'Kernel contracts only: the truth-value algebra the partition law rests on is proved on the real code - AND/OR are the Kleene tables and reject non-Boolean operands, every non-logical operator maps a NULL operand to NULL, '
    'comparisons return only Boolean/NULL and are the mathematical relation (trichotomy, <> = NOT =, <= = < OR =). That the scan/filter/pushdown code applies these kernels to every row is not under contract.',
    _B_NOTE, 'contract-based deductive verification: Kani/CBMC harnesses on the real operator functions', 'DESIGN.md 5/C06')
CLAIMS['C01'] = ('proof',
    'Kernel contracts only: the scalar semantics every query of the subset is built from (three-valued AND/OR, NULL propagation, exact integer +,-,*, comparisons) and LIMIT/OFFSET slicing are proved on the real code '
    'against the SQL definitions written as independent spec predicates. Also under contract (Verus): the scan-level WHERE filter (unit A-filter), x [NOT] IN (list) (unit E-inlist), the row-path accumulators (A-acc). Planner, joins, grouping glue and subqueries are not under contract.',
    _B_NOTE, 'contract-based deductive verification: Kani/CBMC on operator kernels + Verus on apply_limit_offset', 'DESIGN.md 5/C01')
CLAIMS['C10'] = ('proof',
    'Narrow: the one place where constraint checking is short-circuited - the append-mode tracker that lets the PRIMARY KEY check skip its duplicate lookup - is put under contract against a ghost set of the '
    'table\'s keys (Verus, unbounded): on monotone insert histories the invariant "active => no stored key exceeds last_pk" is preserved and the skip is sound for keys above last_pk; the unrestricted clauses fail and are '
    'a recorded, CLI-reproduced finding (duplicate key via INSERT ... SELECT). UNIQUE/NOT NULL/CHECK enforcement, UPDATE validation, REPLACE and ALTER are not under contract.',
    _B_NOTE, 'contract-based deductive verification: Verus on mechanically extracted functions with a ghost key set', 'DESIGN.md 5/C10')
CLAIMS['C14'] = ('proof',
    'Kernel contracts only: the savepoint bookkeeping of TransactionManager (record_change, create_savepoint, rollback_to_savepoint, release_savepoint) is proved against the savepoint stack of the statement '
    '(Verus, unbounded): rollback to s returns exactly the changes recorded after s, cuts the log back to s, keeps s alive, destroys later savepoints, resolves a duplicated name to the most recent savepoint; RELEASE '
    'removes only that savepoint and touches no change; no panic. That every DML executor records its changes (UPDATE/DELETE do not - see DESIGN.md) and that undo_change restores table contents are not covered.',
    _B_NOTE, 'contract-based deductive verification: Verus on mechanically extracted functions', 'DESIGN.md 5/C14')
CLAIMS['C03'] = ('proof',
    'Kernel contracts only: the integer SIMD kernels used by the columnar aggregate path are proved for all columns of all lengths (Verus, loop invariants over the 4-wide and remainder loops): simd_sum_i64 is the exact '
    'mathematical sum (i128, cannot overflow), simd_min_i64/simd_max_i64 are None iff empty else the minimum/maximum, simd_count is the length - i.e. the SQL definitions the row path implements. '
    'The gate should_use_columnar, NULL handling and result typing in simd_aggregate_i64 / columnar/aggregate.rs, f64 kernels, HAVING/ORDER/LIMIT on the columnar result are not under contract.',
    _B_NOTE, 'contract-based deductive verification: Verus on mechanically extracted functions with loop invariants', 'DESIGN.md 5/C03')
CLAIMS['C29'] = ('proof',
    'The decision logic of PasswordStore::verify_md5 and verify_cleartext is proved (Verus) with the cryptography as uninterpreted functions: cleartext verification accepts iff the user exists with an $argon2 secret that parses and '
    'verifies; MD5 verification accepts iff the user exists with a {MD5} secret and the response is "md5" ++ D(secret, user, salt) - for responses carrying the md5 prefix; acceptance of the bare digest without the prefix is a recorded finding '
    '(pinned by the repository\'s own test). MD5/Argon2/PHC implementations, the hex formatting of compute_md5_password, timing and the connection state machine are assumed, not verified.',
    _B_NOTE, 'contract-based deductive verification: Verus on mechanically extracted functions with uninterpreted digests', 'DESIGN.md 5/C29')
CLAIMS['C07'] = ('proof',
    'Kernel contracts only: the row-path accumulator is proved as a STEP contract over an arbitrary pre-state (Verus, unbounded): accumulate(v) is the fold step of the SQL definition for COUNT/SUM/AVG/MIN/MAX and their DISTINCT variants, '
    'finalize is COUNT n (never NULL) / NULL iff nothing was accumulated, and COUNT over any input sequence is the number of non-NULL inputs (induction lemma); the grouping key relation is the Eq/Hash laws of SqlValue (Kani, unit T-laws); '
    'the integer SIMD kernels of the columnar path are the same definitions (unit A-simd). the columnar aggregate functions are under contract in units A-col / A-gate (see C03). group_rows, execute_with_aggregation (one row for empty input, HAVING), the f64 SIMD driver and combine() are not under contract.',
    _B_NOTE, 'contract-based deductive verification: Verus step contracts on mechanically extracted functions + Kani on the key equality/hash laws', 'DESIGN.md 5/C07')
CLAIMS['C09'] = ('proof',
    'Narrow, kernel contracts only: the WHERE decision shared by SELECT, UPDATE and DELETE (is_truthy_basic/is_truthy_combined and the six inline decision tables of the scan paths, lifted mechanically) is proved to be ONE function of the value on every boolean/NULL/numeric value (Kani), and the primary-key fast path of UPDATE and DELETE is proved (Verus, over the real AST): extract_primary_key_lookup (both copies) answers Some([lit]) only for pkcol = lit / lit = pkcol on a single-column '
    'primary key, and RowSelector::select_rows returns for every table and WHERE clause exactly the rows the reference table scan returns (an index hit is used, a miss falls back to the scan) - under the stated assumption that an index HIT is the scan result. '
    'The inline copy of that logic in DeleteExecutor::execute_internal, SET evaluation on pre-update values, row counts and INSERT coercion are not under contract.',
    _B_NOTE, 'contract-based deductive verification: Verus on mechanically extracted functions over the real AST types', 'DESIGN.md 5/C09')
CLAIMS['C28'] = ('proof',
    'The statement is the contract proved by Verus (all messages, all vector lengths, loop invariants) on the real text of BackendMessage::encode, put_cstring, encode_notice_or_error and TransactionStatus::as_byte: for every message that '
    'fits the wire format the bytes appended are exactly one frame - type byte, big-endian i32 length equal to the number of bytes after the type byte, then the field serialisation of the PostgreSQL v3 format written as independent spec functions. '
    'For messages outside the format\'s domain (more than 32767 fields, over-long frames, NUL inside strings) encode truncates silently: a recorded finding reproduced against the real code. Parse-back is represented by the spec frame format, its injectivity is not proved.',
    _B_NOTE, 'contract-based deductive verification: Verus on mechanically extracted functions with loop invariants over an assumed-contract BytesMut', 'DESIGN.md 5/C28')
NOT_APPLICABLE = {
    'C04': 'concurrency/rayon scheduling: Kani has no threads, Verus needs permission-typed code; the determinism-relevant comparator laws are claimed under C21/C08',
    'C05': 'every anchor is an AST-to-plan transformation or a join operator over Database/evaluator state: AST walks do not finish in CBMC and the code is outside the Verus subset',
    'C11': 'atomicity is a frame condition over the whole Database through executors, evaluator and triggers; discharging it needs the whole executor inside the verifier',
    'C12': 'two-table history invariant enforced by four executors through evaluator and catalog; no function-sized kernel carries a clause',
    'C16': 'the EFFECT of the disk-backed arms is a live BTreeIndex over page / file I/O (bulk_load, rebalancing): opaque in every unit, so "same results on both backends" has no contract to stand on; the backend choice (row threshold, memory budget, spill policy, spill_index_to_disk) is not under contract either. Partially reached under C15: which B+ tree operation a single-row maintenance step may call is constrained (unit I-maint: BTreeIndex::delete removes every position of a key - fix f6f71441, found by reading and reproduced with a 1-byte memory budget); the B+ tree node operations themselves are C17',
    'C19': 'String/chars()/lines() scanners: Verus has no str iteration theory; CBMC cannot get past 3 symbolic bytes (Date::from_str on 6 bytes = 25 GB)',
    'C22': 'from_str/Display go through str parsing and core::fmt padding: 3 ASCII bytes = 78 s in CBMC, 6 bytes does not finish; no str theory in Verus',
    'C23': 'totality/termination/stack depth of a 25 kLoC &str recursive-descent parser: outside Verus string support; Kani input bound of 3 bytes says nothing',
    'C25': 'QuerySignature::normalize is split_whitespace/join/to_lowercase, the cache is RwLock<HashMap> + closures, table extraction is a full-AST walker: none within reach',
    'C26': 'completeness is a call-graph property over every table-access path; needs whole-executor ghost-state verification',
    'C30': 'substitute_placeholders is a chars().peekable() scanner building a String; stmt cache / conversions are pyo3',
    'C31': 'CSV/JSON import-export are line/field string scanners and serde',
    'C32': 'view/CTE expansion re-executes stored queries through the full executor',
    'C33': 'cross-registry consistency over DDL histories through catalog + storage + executor',
    'C34': 'trigger firing counts/row images go through parser + recursive statement execution',
}

# ---- texts revised after the A-gate / A-col / A-filter / K-table / E-inlist units were built ------------------------------------------
CLAIMS['C03'] = ('proof',
    'Function contracts on the columnar fast path itself (Verus, all table contents and filter bitmaps, unbounded): the gate try_columnar_execution / should_use_columnar '
    'answers only statements without HAVING, LIMIT, OFFSET, GROUP BY, DISTINCT, set operation or CTE and its answer is a function of FROM, WHERE and the select list only; '
    'compute_columnar_aggregate yields COUNT(*) = number of selected rows (never NULL) and SUM/AVG/MIN/MAX NULL iff the column has no selected non-NULL value on the SIMD-integer, '
    'SIMD-float (assumed) and scalar paths; compute_sum / compute_avg / count_non_null / compute_min / compute_max and the integer batching driver simd_aggregate_i64 are proved '
    'against the SQL definitions (exact integer sum, minimum / maximum, division by the number of non-NULL values), on top of the kernel contracts of unit A-simd; the scan-level '
    'filter (extract_predicates_recursive, evaluate_predicate, create_filter_bitmap) selects exactly the rows on which the WHERE fragment is TRUE. NOT under contract: '
    'simd_aggregate_f64 and the f64 kernels (structural contract assumed), extract_aggregates / compute_expression_aggregate (planning of COUNT(col) and SUM(a*b)), '
    'execute_columnar_aggregate (glue), float arithmetic (uninterpreted), equality of result TYPES with the row path (SUM is Double here).',
    _B_NOTE, 'contract-based deductive verification: Verus on mechanically extracted functions (loop invariants, induction lemmas) - units A-gate, A-col, A-filter, A-simd', 'DESIGN.md 5/C03, 9b')
CLAIMS['C06'] = ('proof',
    'Kernel contracts plus the two row filters that sit in front of them: (Kani) AND/OR are the Kleene tables and reject non-Boolean operands, every non-logical operator maps a '
    'NULL operand to NULL, comparisons return only Boolean/NULL and are the mathematical relation; (Verus) the table-scan predicate filter used by every single-table SELECT with a '
    'simple WHERE - extract_predicates_recursive accepts only forms with a defined meaning and its predicates hold on a row exactly when the WHERE expression is TRUE (NULL operands '
    'never TRUE, literal-first comparisons mirrored, BETWEEN SYMMETRIC / NOT BETWEEN not taken as plain BETWEEN), evaluate_predicate, create_filter_bitmap; eval_in_list is the '
    'three-valued x [NOT] IN (list) for every list length (linear and HashSet branch); the index range extraction is sound for BETWEEN [SYMMETRIC] (unit I-range). '
    'NOT under contract: the OR predicate tree, CompiledWhereClause (vectorized path), join / subquery predicates, and that every scan path applies these functions to every row.',
    _B_NOTE, 'contract-based deductive verification: Kani/CBMC harnesses on the real operator functions + Verus on the extracted filter / IN-list functions', 'DESIGN.md 5/C06, 9b')

# ---- additions after units K-undo, K-pk, G-group, I-resolve, S-setops ----------------------------------------------------------------------
def _extend(pid, extra):
    c = CLAIMS[pid]
    CLAIMS[pid] = (c[0], c[1] + ' ' + extra, c[2], c[3], c[4])

CLAIMS['C13'] = ('proof',
    'Kernel contracts over the places a transaction keeps state, one operation each (that EVERY effect of every statement lives in one of them is not machine-checked): '
    '(a) TransactionManager (unit X-sp, real code): BEGIN snapshots the catalog and every table AS THEY ARE with an empty savepoint stack and change log, a nested BEGIN is refused and changes nothing; '
    'ROLLBACK puts back EXACTLY that catalog and those tables and ends the transaction; COMMIT only ends it. '
    '(b) Database (unit K-undo, real code): BEGIN records the definitions of exactly the user-defined indexes registered at that moment; ROLLBACK, after the snapshot is restored, brings the index registry '
    'back to those definitions (every registered index is one of them, every one of them is registered: indexes created inside the transaction are dropped, dropped ones re-created) and rebuilds the '
    'user-defined indexes of every indexed table from the restored rows; COMMIT touches neither table contents nor the registry. '
    '(c) the constraint hash indexes travel inside the table snapshot (Table is cloned with its IndexManager). '
    '(d) Operations::{record_index_definitions, take_index_definitions, forget_index_definitions} (unit X-defs, real code): BEGIN records the registered definitions and keeps the spatial indexes whole, ROLLBACK hands the definitions out once and puts the spatial indexes back exactly as they were at BEGIN (fix d9626b61: they used to be outside the transaction), COMMIT forgets both and changes no index. '
    'NOT under contract: session variables, query / plan caches and other state outside catalog, tables and the two index registries; that Clone of Catalog, HashMap<String, Table> and the spatial map copies everything observable (assumed); '
    'the iterator chain that enumerates the registry (assumed to list exactly it); ROLLBACK TO SAVEPOINT does not restore index definitions (observed, DESIGN 9c).',
    _B_NOTE, 'contract-based deductive verification: Verus on mechanically extracted functions (snapshot / restore as exact postconditions; the index registry as a finite map)', 'DESIGN.md 9c/C13')

CLAIMS['C15'] = ('proof',
    'Kernel contracts, one operation each; the quantifier over HISTORIES is the induction over these operations and is not machine-checked as a whole. '
    '(a) Constraint hash indexes: on the real IndexManager (unit K-index) new makes one empty map per constraint, rebuild makes every map exactly "key -> position of the row with that key", '
    'update_for_insert KEEPS that mirror when the row goes to position rows.len(), update_for_update / update_selective keep it on a duplicate-free table when the written keys are held by no other row '
    '(the premise PRIMARY KEY / UNIQUE enforcement establishes: C10) and - selective - every index not told to update has an unchanged key (get_affected_indexes names exactly the indexes with a changed column); '
    'every Table mutator (insert, update_row, update_row_selective, delete_where, remove_row, clear, rebuild_indexes) re-establishes "the hash indexes mirror the row vector, the rows are duplicate-free" over exactly those contracts '
    '(unit K-table): writes store the STORED form of the row at the stated position, removals rebuild because positions shift. '
    '(b) User-defined (CREATE INDEX) indexes: the per-index insert and update steps keep the mirror "under each key exactly the positions of the rows with that key, each once, no empty list" (unit I-maint); '
    'the loops over the index registry hand EVERY index of the table its own key and position and leave the others alone, a rebuild leaves every in-memory index of the table as the mirror of the rows, CREATE INDEX builds the mirror of the rows it is handed (I-loop, I-maint rebuild_step / create_build); '
    'INSERT (single row and batch: a failed batch changes nothing) maintains them with the stored row at the position it received, after the unique check (I-insert); UPDATE and INSERT .. ON DUPLICATE KEY UPDATE with the old row and the row now stored at that position (I-update, U-apply, O-apply); '
    'DELETE, DELETE without WHERE, TRUNCATE, ROLLBACK, ROLLBACK TO SAVEPOINT and a binary reload rebuild them from the rows directly after the rows changed (D-apply, T-clear, K-undo, P-data), and a rebuild / CREATE INDEX builds from the rows of the table the name resolves to (I-resolve). '
    'NOT under contract: ALTER TABLE (Table::rows_mut / schema_mut; observed to leave catalog and table inconsistent), the disk-backed index arm, the JSON / SQL-dump loaders, the registry loop around the per-index steps, '
    'BTreeMap / HashMap themselves (assumed finite maps), the cascade executors, that the executors establish the freshness premise.',
    _B_NOTE, 'contract-based deductive verification: Verus on mechanically extracted functions (mirror invariant as pre/postconditions quantified over the mirrored row vector + induction lemmas; trace contracts for the executors)', 'DESIGN.md 9c/C15')

_extend('C14', 'ADDED (unit K-undo): Database::rollback_to_savepoint / undo_change apply the inverse of every change recorded since the savepoint, last first, '
        'over table contents as bags (Insert: take the row out; Update: take the NEW row out, put the OLD row back; Delete: put the row back). That the executors RECORD '
        'every change they make is not under contract (since the fixes bd4781a4 and 1ce19e95 INSERT, UPDATE, DELETE, REPLACE, ON DUPLICATE KEY UPDATE and the FK cascade actions do: SQL reproductions in findings/).')
_extend('C10', 'ADDED (unit K-pk): enforce_primary_key_constraint / enforce_unique_constraints / enforce_check_constraints on INSERT - an accepted row repeats no PRIMARY KEY '
        'and no NULL-free UNIQUE key of the batch or of a stored row (index lookup and scan fallback), NULL-holding UNIQUE keys never collide, CHECK rejects exactly FALSE; '
        '(unit K-table) every Table mutator leaves the hash indexes in sync (IndexManager by assumed contracts). RowValidator, the UPDATE-side validator, REPLACE and '
        'CREATE UNIQUE INDEX enforcement are not under contract.')
_extend('C08', 'ADDED (unit S-setops): apply_distinct returns every key of its input exactly once (multiplicities; that first occurrences keep their order is not stated).')
_extend('C02', 'ADDED (unit I-resolve): Operations::rebuild_indexes - called after DELETE and after a savepoint undo shift row positions - rebuilds the CREATE INDEX indexes from the '
        'rows of the table the name resolves to, with the same name resolution as create_index (the registry\'s own maintenance code by assumed contracts).')
_extend('C07', 'ADDED: group_rows is a partition of the input by key - one group per distinct key, NULL keys one group, rows in input order (unit G-group); the float batching driver '
        'and the columnar pipeline are under contract in unit A-col.')
_extend('C01', 'ADDED (unit S-setops): apply_set_operation against SQL bag semantics for UNION / INTERSECT / EXCEPT [ALL], per key over the multiplicities of both inputs.')


_extend('C10', 'ADDED (units K-rowval, I-probe): RowValidator::validate_column_constraints extracts PRIMARY KEY / UNIQUE / FOREIGN KEY keys in the order of the constraint\'s column list '
        '(the order the indexes use) and enforces NOT NULL; IndexData::contains_key - the CREATE UNIQUE INDEX membership test - normalizes its probe like the stored keys.')

_extend('C10', 'ADDED (unit K-index): the real IndexManager maintenance operations (update_for_insert / update / delete / update_selective, rebuild, clear) have their EXACT effect on the '
        'primary-key and unique hash indexes (which key leaves, which key enters, nothing else), and after rebuild the indexes mirror the rows; these are the contracts unit K-table assumes.')
_extend('C02', 'ADDED (units I-range, I-multi): the WHERE re-check is skipped only for ranges that exclude the NULL keys (a range without a lower bound returns the rows whose indexed cell '
        'IS NULL - fix ea284e95); IndexData::multi_lookup / prefix_multi_lookup look up the DISTINCT NORMALIZED keys of an IN list, in ascending key order, each once (fix 1fd7fb89), '
        'so on a well-formed index no row position is returned twice (lemma). IndexData::range_scan itself is not under contract.')
_extend('C08', 'ADDED (unit I-multi): an IN list through an index returns every row at most once (distinct normalized keys; `IN (5, 5.0)` is one key) and in ascending key order.')
_extend('C06', 'ADDED (unit I-range): on a NULL indexed cell no comparison / BETWEEN / AND of those is TRUE, and the skip-the-re-check lemma now ranges over the NULL keys too.')

_extend('C02', 'ADDED (unit I-scan): IndexData::range_scan, in-memory arm, IS now under contract: on every index with a fixed number (>= 1) of key columns it returns, in ascending key '
        'order, the position lists of exactly the keys whose first column lies within the normalized bounds - NULL keys exactly when the start is unbounded - on all four paths '
        '(equality prefix, empty / inverted exits, multi-column with successor bounds and first-column check - fix 7bd57b75 -, single column), and BTreeMap::range is never '
        'called with bounds it panics on. The disk-backed arm (indexes created on >= 100000 rows) is not under contract.')
_extend('C08', 'ADDED (unit I-scan): rows produced by an index range scan come in ascending key order (first key column non-decreasing), which is what index-provided ORDER BY relies on.')
_extend('C24', 'ADDED (unit I-scan): IndexData::range_scan never calls BTreeMap::range with an inverted range or two equal Excluded bounds (its two documented panics).')

_extend('C02', 'ADDED (unit I-maint): the per-index maintenance step of INSERT / UPDATE / DELETE on the CREATE INDEX indexes (in-memory arm) has exactly the stated effect on the key -> positions map, '
        'with key components built from the named column, prefix-truncated and normalized; the loop over the index registry around it is not under contract. Prefix indexes are '
        'used as a plain row source only (fix 5f8dd171; execute_index_scan is glue outside the units).')

_extend('C10', 'ADDED (unit K-replace): REPLACE INTO deletes exactly the stored rows that collide with the new row on the PRIMARY KEY or on a NULL-free UNIQUE key (handle_replace_conflicts: '
        'its match-building head and the conflicts closure, lifted); the delete_where call and the following INSERT are by units K-table / K-pk / K-rowval.')

_extend('C14', 'ADDED (units K-record, K-table): Database::insert_row / insert_rows_batch record one Insert entry per inserted row, in order, only after the insert succeeded; Table::remove_row - the '
        'undo of an Insert / the first half of the undo of an Update - removes exactly one row equal to the STORED FORM of the recorded row (the log holds rows as handed in, the table '
        'normalizes them: fix 2308fd7d).')

_extend('C02', 'ADDED (units I-decide, I-fetch, I-insert): the decisions at the head of execute_index_scan (pushed predicate = the extracted one for the first indexed column, none for a prefix index; '
        'WHERE re-check skipped only when where_clause_fully_satisfied_by_index vouched for that predicate) and its tail (index operation called with exactly the pushed bounds / values, rows '
        'fetched at the returned positions, WHERE re-applied when decided, result flags) are under contract, lifted as prefix / tail fragments; Operations::insert_row maintains the indexes with '
        'the stored row at its position. The surrounding calls are stubs with the contracts units I-range / I-scan / I-multi / I-maint prove.')
_extend('C08', 'ADDED (unit I-fetch): an ordering is claimed for index-delivered rows only when index order IS the requested order - one direction throughout and, for ASC, no returned row with a NULL '
        'in an ORDER BY column (fix 2d05905b); DESC reverses the whole sequence; (unit G-aggtail) after aggregation ORDER BY, then DISTINCT, then LIMIT / OFFSET are applied in that order.')
_extend('C07', 'ADDED (unit G-aggtail, E-truthy/e_truthy_having): execute_with_aggregation from the WHERE filter on - one group without GROUP BY also over zero rows, one row per group kept by HAVING, '
        'values in select-list order; the HAVING keep/drop table makes the same decision as the WHERE reference.')
_extend('C10', 'ADDED (unit I-insert): user-defined UNIQUE indexes are checked before the table is touched by Operations::insert_row.')

_extend('C09', 'ADDED (units D-apply, U-apply): how DELETE and UPDATE are APPLIED once the rows are selected - over a trace of storage operations: DELETE removes exactly the collected positions in one '
        'delete_where call, rebuilds the indexes directly afterwards and records one Delete per row; UPDATE writes every prepared row at its position, then maintains the indexes and records one Update '
        'per row, in order. Nothing is claimed for the error paths in the middle of a statement.')
_extend('C14', 'ADDED (units D-apply, U-apply): DELETE and UPDATE record one change per affected row, with the rows they collected / prepared, in order, after the table was changed.')

_extend('C10', 'ADDED (unit N-track): within a multi-row INSERT the UNIQUE key of constraint c of every validated row is filed under slot c for the duplicate check of the later rows (a NULL-holding key files nothing and shifts nothing). '
        'Since fix 3b5d38c3 a multi-row UPDATE tracks the keys it hands out, and INSERT .. ON DUPLICATE KEY UPDATE runs the checks of UPDATE on the row it rewrites (SQL reproductions; executor glue outside the units).')

_extend('C14', 'ADDED (units K-undo revised, F-cascade): the undo of a change works on rows in their STORED form (the change log holds rows as handed in; Table::remove_row / insert normalize); ON DELETE CASCADE deletes and records '
        'every referencing child row with its multiplicity. Self-referencing foreign keys (referential actions changing the very table a DELETE / UPDATE is being applied to) are NOT covered: observed defect, DESIGN 9b.')
_extend('C10', 'ADDED (unit K-uqprobe): the key with which UPDATE probes a CREATE UNIQUE INDEX index for the new row is built from the columns the index names, prefix-truncated like the stored keys, in definition order (fix 51980647: it was not truncated).')
_extend('C10', 'ADDED (unit K-uqcreate): CREATE UNIQUE INDEX is refused exactly when two rows of the table share a NULL-free key of the index (fix 7890b305: it used to succeed over duplicates).')
_extend('C10', 'ADDED (unit U-stmtkeys): the statement-level duplicate check of a multi-row UPDATE files the NULL-free, prefix-truncated keys of each new row under their slot and refuses the statement exactly when one is already filed by an earlier row (fix 215562c9: prefix indexes were skipped).')
_extend('C18', 'ADDED (unit P-data): a successful read_data leaves no table whose user-defined indexes lag behind the rows it loaded (the index-driven half of the round trip for the binary and compressed loaders; fix 065c2cf2). Repaired on the way: load_json ignored the prefix length of index columns (fix f8a62156). Still lost by the formats (observed, DESIGN 9c): constraint and DEFAULT definitions, the prefix length in the binary formats, spatial indexes, views, tables outside the current schema.')
_extend('C18', 'ADDED (unit N-trunc, bounded): the stored form of a CHAR(n) value is exactly n bytes and a fixed point of the normalization every reload applies again (fix 27263297; Kani, strings of up to 3 bytes, n <= 4).')
_extend('C10', 'ADDED (unit K-alterkey): ALTER TABLE ADD PRIMARY KEY / ADD UNIQUE is refused exactly when the existing rows violate the constraint (fix fb84ff1a: it used to be accepted). ADD CHECK: checked against the existing rows and enforced afterwards since fix 52830b89 (not under contract: expression evaluation).')
_extend('C02', 'ADDED (unit S-local): in a join the indexes of one table are offered only the conjuncts of the WHERE clause that name no column qualified with another table or alias (fix 92c7d1d9: `t2.a = 3` used to be answered from an index on `t1.a`).')
