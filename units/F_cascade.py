NAME = 'F-cascade'
PROPERTIES = ['C14', 'C09']
ENGINE = 'verus'
CLASS = 'U'
DOC = ('cascade_delete (executor delete/integrity.rs), the ON DELETE CASCADE action: the child rows collected are EVERY row of the child table whose foreign-key '
       'columns equal the deleted parent key (rows with a NULL in the foreign key are skipped), each as often as it occurs, in scan order; they are checked '
       'recursively, removed from the child table, the indexes are rebuilt, and ONE Delete change is recorded PER COLLECTED ROW - so k identical child rows '
       'are put back k times by ROLLBACK TO SAVEPOINT. Stated over the trace of storage operations.')

TEMPLATE = r'''
use vstd::prelude::*;
verus! {

#[verifier::external_body] pub struct Val { v: u8 }
pub enum SqlValue { Null, V(Val) }
#[verifier::external_body] pub struct Str { s: u8 }
#[verifier::external_body] pub struct ExecutorError { e: u8 }
pub struct Row { pub values: Vec<SqlValue> }
impl Row { #[verifier::external_body] pub fn clone(&self) -> (r: Row) ensures r == *self { unimplemented!() } }
pub struct ForeignKeyConstraint { pub column_indices: Vec<usize> }
pub enum TransactionChange { Delete { table_name: Str, row: Row } }

pub open spec fn proj(vals: Seq<SqlValue>, idx: Seq<usize>) -> Seq<SqlValue> { Seq::new(idx.len(), |j: int| vals[idx[j] as int]) }
pub open spec fn has_null(s: Seq<SqlValue>) -> bool { exists|i: int| 0 <= i < s.len() && s[i] is Null }
pub open spec fn idx_ok(idx: Seq<usize>, n: int) -> bool { forall|j: int| 0 <= j < idx.len() ==> (#[trigger] idx[j]) < n }
/// the child row references the deleted parent: its foreign key holds no NULL and equals the parent key
pub open spec fn references(row: Row, fk: Seq<usize>, parent_key: Seq<SqlValue>) -> bool {
    !has_null(proj(row.values@, fk)) && proj(row.values@, fk) == parent_key
}
/// every referencing row among the first n child rows, in scan order, as often as it occurs
pub open spec fn referencing(rows: Seq<Row>, fk: Seq<usize>, parent_key: Seq<SqlValue>, n: int) -> Seq<Row>
    decreases n
{
    if n <= 0 { Seq::empty() } else {
        let p = referencing(rows, fk, parent_key, n - 1);
        if references(rows[n - 1], fk, parent_key) { p.push(rows[n - 1]) } else { p }
    }
}
// fk.column_indices.iter().map(|&idx| child_row.values[idx].clone()).collect()
#[verifier::external_body]
fn project(vals: &Vec<SqlValue>, idx: &Vec<usize>) -> (r: Vec<SqlValue>)
    requires idx_ok(idx@, vals@.len() as int),
    ensures r@ == proj(vals@, idx@)
{ unimplemented!() }
// child_fk_values.iter().any(|v| matches!(v, SqlValue::Null))
#[verifier::external_body]
fn any_null(v: &Vec<SqlValue>) -> (r: bool) ensures r == has_null(v@) { unimplemented!() }
// Vec<Row>::contains(&row)
#[verifier::external_body]
fn rows_contains(v: &Vec<Row>, r: &Row) -> (b: bool) ensures b == v@.contains(*r) { unimplemented!() }
// Vec<SqlValue> == &[SqlValue]
#[verifier::external_body]
fn key_eq(a: &Vec<SqlValue>, b: &[SqlValue]) -> (r: bool) ensures r == (a@ == b@) { unimplemented!() }

pub enum Ev {
    /// check_no_child_references(db, child table, row): the recursive referential action for a collected row (may cascade further)
    Recurse(Row),
    /// child_table.delete_where(|row| row == r): removes EVERY row equal to r (unit K-table: exactly the rows the predicate accepts)
    DeleteEqual(Str, Row),
    Rebuild(Str),
    Record(TransactionChange),
}
pub open spec fn recurses(v: Seq<Row>, n: int) -> Seq<Ev> decreases n { if n <= 0 { Seq::empty() } else { recurses(v, n - 1).push(Ev::Recurse(v[n - 1])) } }
pub open spec fn deletes(t: Str, v: Seq<Row>, n: int) -> Seq<Ev> decreases n { if n <= 0 { Seq::empty() } else { deletes(t, v, n - 1).push(Ev::DeleteEqual(t, v[n - 1])) } }
pub open spec fn records(t: Str, v: Seq<Row>, n: int) -> Seq<Ev>
    decreases n
{
    if n <= 0 { Seq::empty() } else { records(t, v, n - 1).push(Ev::Record(TransactionChange::Delete { table_name: t, row: v[n - 1] })) }
}

#[verifier::external_body] pub struct Database { d: u8 }
pub uninterp spec fn name_of(s: &str) -> Str;
impl Database {
    pub uninterp spec fn trace(&self) -> Seq<Ev>;
    /// rows of the child table (db.get_table(name).unwrap().scan())
    pub uninterp spec fn rows_of(&self, t: &str) -> Seq<Row>;
    #[verifier::external_body]
    pub fn child_rows(&self, t: &str) -> (r: Vec<Row>) ensures r@ == self.rows_of(t) { unimplemented!() }
    #[verifier::external_body]
    pub fn delete_equal(&mut self, t: &str, row: &Row)
        ensures final(self).trace() == old(self).trace().push(Ev::DeleteEqual(name_of(t), *row)) { unimplemented!() }
    #[verifier::external_body]
    pub fn rebuild_indexes(&mut self, t: &str) ensures final(self).trace() == old(self).trace().push(Ev::Rebuild(name_of(t))) { unimplemented!() }
    #[verifier::external_body]
    pub fn record_change(&mut self, c: TransactionChange) ensures final(self).trace() == old(self).trace().push(Ev::Record(c)) { unimplemented!() }
}
#[verifier::external_body]
fn check_no_child_references(db: &mut Database, t: &str, row: &Row) -> (r: Result<(), ExecutorError>)
    ensures final(db).trace() == old(db).trace().push(Ev::Recurse(*row)) { unimplemented!() }
#[verifier::external_body] fn str_of(s: &str) -> (r: Str) ensures r == name_of(s) { unimplemented!() }

//@@ cascade_delete

fn canary_cascade(db: &mut Database, t: &str, fk: &ForeignKeyConstraint, key: &[SqlValue])
    requires forall|i: int| 0 <= i < old(db).rows_of(t).len() ==> idx_ok(fk.column_indices@, (#[trigger] old(db).rows_of(t)[i]).values@.len() as int),
{
    let r = cascade_delete(db, t, fk, key);
    assert(false); // CANARY
}

}
fn main() {}
'''

_M = 'referencing(old(db).rows_of(child_table_name), fk.column_indices@, parent_key_values@, old(db).rows_of(child_table_name).len() as int)'
_T = 'name_of(child_table_name)'
ITEMS = {
    'cascade_delete': dict(
        file='crates/vibesql-executor/src/delete/integrity.rs', path='fn cascade_delete', ret='res',
        rewrites=[
            ('re', r'vibesql_storage::Database', 'Database', None), ('re', r'vibesql_catalog::ForeignKeyConstraint', 'ForeignKeyConstraint', None),
            ('re', r'vibesql_storage::Row', 'Row', None), ('re', r'vibesql_storage::database::TransactionChange', 'TransactionChange', None),
            # the scan of the child table as an owned snapshot (the table is not touched before the deletion loop)
            ('re', r'let child_table = db\.get_table\(child_table_name\)\.unwrap\(\);', 'let child_rows__ = db.child_rows(child_table_name);', 1),
            ('re', r'for child_row in child_table\.scan\(\) \{', 'let mut ci__: usize = 0; while ci__ < child_rows__.len() { let child_row = &child_rows__[ci__]; ci__ = ci__ + 1;', 1),
            ('re', r'(?s)fk\.column_indices\.iter\(\)\.map\(\|&idx\| child_row\.values\[idx\]\.clone\(\)\)\.collect\(\)', 'project(&child_row.values, &fk.column_indices)', 1),
            ('re', r'child_fk_values\.iter\(\)\.any\(\|v\| matches!\(v, SqlValue::Null\)\)', 'any_null(&child_fk_values)', 1),
            ('re', r'child_fk_values == parent_key_values', 'key_eq(&child_fk_values, parent_key_values)', None),
            ('re', r'rows_to_delete\.contains\((\w+)\)', r'rows_contains(&rows_to_delete, \1)', None),
            ('re', r'for child_row in &rows_to_delete \{', 'let mut ri__: usize = 0; while ri__ < rows_to_delete.len() { let child_row = &rows_to_delete[ri__]; ri__ = ri__ + 1;', 1),
            # R12 + FnMut: get_table_mut + delete_where(|row| row == r) -> delete-equal on the named table
            ('re', r'let child_table_mut = db\.get_table_mut\(child_table_name\)\.unwrap\(\);', '', 1),
            ('re', r'for row_to_delete in &rows_to_delete \{', 'let mut di__: usize = 0; while di__ < rows_to_delete.len() { let row_to_delete = &rows_to_delete[di__]; di__ = di__ + 1;', 1),
            ('re', r'child_table_mut\.delete_where\(\|row\| row == row_to_delete\);', 'db.delete_equal(child_table_name, row_to_delete);', 1),
            ('re', r'for row in rows_to_delete \{', 'let mut xi__: usize = 0; while xi__ < rows_to_delete.len() { let row = rows_to_delete[xi__].clone(); xi__ = xi__ + 1;', 1),
            ('re', r'child_table_name\.to_string\(\)', 'str_of(child_table_name)', None),
        ],
        loops={0: '''
        invariant
            ci__ <= child_rows__@.len(), child_rows__@ == old(db).rows_of(child_table_name), db.trace() == old(db).trace(),
            forall|i: int| 0 <= i < child_rows__@.len() ==> idx_ok(fk.column_indices@, (#[trigger] child_rows__@[i]).values@.len() as int),
            rows_to_delete@ == referencing(child_rows__@, fk.column_indices@, parent_key_values@, ci__ as int),
        decreases child_rows__@.len() - ci__,
''', 1: '''
        invariant
            ri__ <= rows_to_delete@.len(),
            db.trace() == old(db).trace() + recurses(rows_to_delete@, ri__ as int),
        decreases rows_to_delete@.len() - ri__,
''', 2: '''
        invariant
            di__ <= rows_to_delete@.len(),
            db.trace() == old(db).trace() + recurses(rows_to_delete@, rows_to_delete@.len() as int) + deletes(%(T)s, rows_to_delete@, di__ as int),
        decreases rows_to_delete@.len() - di__,
''' % dict(T=_T), 3: '''
        invariant
            xi__ <= rows_to_delete@.len(),
            db.trace() == old(db).trace() + recurses(rows_to_delete@, rows_to_delete@.len() as int) + deletes(%(T)s, rows_to_delete@, rows_to_delete@.len() as int)
                + seq![Ev::Rebuild(%(T)s)] + records(%(T)s, rows_to_delete@, xi__ as int),
        decreases rows_to_delete@.len() - xi__,
''' % dict(T=_T)},
        contract='''
    requires
        forall|i: int| 0 <= i < old(db).rows_of(child_table_name).len() ==> idx_ok(fk.column_indices@, (#[trigger] old(db).rows_of(child_table_name)[i]).values@.len() as int),
    ensures
        res is Ok ==> ({
            let m = %(M)s;
            // every referencing child row (with its multiplicity): checked recursively, deleted, and - after the index rebuild - recorded once EACH
            final(db).trace() == old(db).trace() + recurses(m, m.len() as int) + deletes(%(T)s, m, m.len() as int) + seq![Ev::Rebuild(%(T)s)] + records(%(T)s, m, m.len() as int)
        }),
''' % dict(M=_M, T=_T)),
}

OBLIGATIONS = {
    'cascade_delete': ['post:every_referencing_child_row_with_its_multiplicity_is_deleted_and_recorded_once_each__after_the_index_rebuild', 'proof:loop_invariants_and_termination', 'safety:foreign_key_columns_in_bounds'],
}
CANARIES = ['canary_cascade']
TRUSTED = [
    'the contract is over a TRACE of storage operations (ghost sequence Database::trace): external_body check_no_child_references (event Recurse: the nested referential action, which may cascade further - into this table too when the key is self-referencing: observed, DESIGN 9b), delete_equal (get_table_mut(..).unwrap() + Table::delete_where(|row| row == r): event DeleteEqual - removes EVERY row equal to r, unit K-table), rebuild_indexes, record_change',
    'external_body Database::child_rows (get_table(..).unwrap().scan() as a snapshot: the function does not change the child table between the scan and the deletion loop except through Recurse), project / any_null / key_eq / rows_contains (Vec<Row>::contains; iter().map(|&idx| values[idx].clone()).collect(), iter().any(|v| matches!(v, Null)), Vec == slice), str_of, Row::clone; Str, ExecutorError opaque; SqlValue = Null | V(opaque), equality structural',
    'precondition: the foreign-key column positions are columns of every child row (catalog); the `.unwrap()` on get_table is not modelled (a missing child table panics - DDL keeps the catalog and the tables in step)',
    'R10 rewrites of the four `for` loops; that the DELETE executor calls this for every foreign key with ON DELETE CASCADE is outside the unit; set_null / set_default (the other actions) are not under contract',
]
