NAME = 'U-apply'
PROPERTIES = ['C09', 'C14', 'C02', 'C15']
ENGINE = 'verus'
CLASS = 'U'
DOC = ('UpdateExecutor::execute_internal (executor update/mod.rs), from "Step 8: Apply all updates" to the end - how an UPDATE is APPLIED: every prepared '
       '(position, old row, new row) is written to the table at ITS position with ITS new row, in order, all of them before anything else; then, for every '
       'prepared update - in order - the user-defined indexes are maintained with (old row, new row, position) and one Update change (old row, new row) is '
       'recorded; only then do the AFTER ROW triggers run (fix ccc0b6aa: a failing trigger body finds everything maintained and recorded); the reported count is the number of prepared updates. Stated over the trace of storage operations.')

TEMPLATE = r'''
use vstd::prelude::*;
verus! {

#[verifier::external_body] pub struct Row { r: u8 }
impl Row { #[verifier::external_body] pub fn clone(&self) -> (r: Row) ensures r == *self { unimplemented!() } }
#[verifier::external_body] pub struct Str { s: u8 }
impl Str { #[verifier::external_body] pub fn clone(&self) -> (r: Str) ensures r == *self { unimplemented!() } }
#[verifier::external_body] pub struct ExecutorError { e: u8 }
#[verifier::external_body] pub struct TriggerContext { t: u8 }
#[verifier::external_body] pub struct ColSet { c: u8 }
pub struct UpdateStmt { pub table_name: Str }
pub enum TransactionChange { Update { table_name: Str, old_row: Row, new_row: Row } }
/// one prepared update: (position, old row, new row, changed columns, updates the primary key)
pub type Upd = (usize, Row, Row, ColSet, bool);

/// the storage operations a statement performs, in order
pub enum Ev {
    /// Table::update_row_selective(position, new row, ..) on the statement's table (unit K-table)
    WriteRow(Str, usize, Row),
    /// Database::update_indexes_for_update(table, old row, new row, position) (units I-update, I-maint)
    IndexUpdate(Str, Row, Row, usize),
    /// Database::record_change
    Record(TransactionChange),
    /// a trigger body ran (may do anything)
    Trigger,
}
pub open spec fn writes(t: Str, u: Seq<Upd>, n: int) -> Seq<Ev>
    decreases n
{
    if n <= 0 { Seq::empty() } else { writes(t, u, n - 1).push(Ev::WriteRow(t, u[n - 1].0, u[n - 1].2)) }
}
pub open spec fn triggers(n: int) -> Seq<Ev> decreases n { if n <= 0 { Seq::empty() } else { triggers(n - 1).push(Ev::Trigger) } }
pub open spec fn index_and_record(t: Str, u: Seq<Upd>, n: int) -> Seq<Ev>
    decreases n
{
    if n <= 0 { Seq::empty() } else {
        index_and_record(t, u, n - 1).push(Ev::IndexUpdate(t, u[n - 1].1, u[n - 1].2, u[n - 1].0))
            .push(Ev::Record(TransactionChange::Update { table_name: t, old_row: u[n - 1].1, new_row: u[n - 1].2 }))
    }
}
proof fn lemma_lens(t: Str, u: Seq<Upd>, n: int)
    requires n >= 0,
    ensures writes(t, u, n).len() == n, triggers(n).len() == n, index_and_record(t, u, n).len() == 2 * n,
    decreases n,
{
    if n > 0 { lemma_lens(t, u, n - 1); }
}

#[verifier::external_body] pub struct Database { d: u8 }
impl Database {
    pub uninterp spec fn trace(&self) -> Seq<Ev>;
    // get_table_mut(..)? once, then table_mut.update_row_selective(index, new_row, changed).map_err(..)?  (R12: on the named table)
    #[verifier::external_body]
    pub fn require_table(&self, t: &Str) -> (r: Result<(), ExecutorError>) { unimplemented!() }
    #[verifier::external_body]
    pub fn write_row(&mut self, t: &Str, index: usize, row: Row, changed: &ColSet) -> (r: Result<(), ExecutorError>)
        ensures r is Ok ==> final(self).trace() == old(self).trace().push(Ev::WriteRow(*t, index, row)),
                r is Err ==> final(self).trace() == old(self).trace()
    { unimplemented!() }
    #[verifier::external_body]
    pub fn update_indexes_for_update(&mut self, t: &Str, old_row: &Row, new_row: &Row, index: usize)
        ensures final(self).trace() == old(self).trace().push(Ev::IndexUpdate(*t, *old_row, *new_row, index)) { unimplemented!() }
    #[verifier::external_body]
    pub fn record_change(&mut self, c: TransactionChange) ensures final(self).trace() == old(self).trace().push(Ev::Record(c)) { unimplemented!() }
}
#[verifier::external_body]
fn after_row_trigger(db: &mut Database, t: &Str, old_row: &Row, new_row: &Row) -> (r: Result<(), ExecutorError>)
    ensures final(db).trace() == old(db).trace().push(Ev::Trigger) { unimplemented!() }
#[verifier::external_body]
fn after_statement_trigger(db: &mut Database, t: &Str) -> (r: Result<(), ExecutorError>)
    ensures final(db).trace() == old(db).trace().push(Ev::Trigger) { unimplemented!() }

//@@ apply_update

fn canary_apply(stmt: &UpdateStmt, database: &mut Database, updates: Vec<Upd>, tc: Option<&TriggerContext>)
{
    let r = apply_update(stmt, database, updates, tc);
    assert(false); // CANARY
}

}
fn main() {}
'''

_T = 'stmt.table_name'
ITEMS = {
    'apply_update': dict(
        file='crates/vibesql-executor/src/update/mod.rs', path='impl UpdateExecutor::fn execute_internal', ret='res',
        fragment=dict(kind='tail', index=0, **{'from': r'// Step 8: Apply all updates'},
                      sig='fn apply_update(stmt: &UpdateStmt, database: &mut Database, updates: Vec<Upd>, trigger_context: Option<&TriggerContext>) -> Result<usize, ExecutorError>'),
        rewrites=[
            ('re', r'(?s)let table_mut = database\s*\.get_table_mut\(&stmt\.table_name\)\s*\.ok_or_else\(\|\| ExecutorError::TableNotFound\(stmt\.table_name\.clone\(\)\)\)\?;', 'database.require_table(&stmt.table_name)?;', 1),
            ('re', r'(?s)table_mut\s*\.update_row_selective\(\*index, new_row\.clone\(\), changed_columns\)\s*\.map_err\(\|e\| ExecutorError::StorageError\(e\.to_string\(\)\)\)\?;', 'database.write_row(&stmt.table_name, *index, new_row.clone(), changed_columns)?;', 1),
            ('re', r'let mut index_updates = Vec::new\(\);', 'let mut index_updates: Vec<(usize, Row, Row)> = Vec::new();', 1),
            ('re', r'for \(index, old_row, new_row, changed_columns, _updates_pk\) in &updates \{', 'let mut ui__: usize = 0; while ui__ < updates.len() { let index = &updates[ui__].0; let old_row = &updates[ui__].1; let new_row = &updates[ui__].2; let changed_columns = &updates[ui__].3; ui__ = ui__ + 1;', 1),
            ('re', r'for \(_row_index, old_row, new_row, _changed_columns, _updates_pk\) in &updates \{', 'let mut ti__: usize = 0; while ti__ < updates.len() { let old_row = &updates[ti__].1; let new_row = &updates[ti__].2; ti__ = ti__ + 1;', 1),
            ('re', r'for \(index, old_row, new_row\) in index_updates \{', 'let mut xi__: usize = 0; while xi__ < index_updates.len() { let index = index_updates[xi__].0; let old_row = index_updates[xi__].1.clone(); let new_row = index_updates[xi__].2.clone(); xi__ = xi__ + 1;', 1),
            ('re', r'(?s)crate::TriggerFirer::execute_after_triggers\(\s*database,\s*&stmt\.table_name,\s*vibesql_ast::TriggerEvent::Update\(None\),\s*Some\(old_row\),\s*Some\(new_row\),\s*\)\?', 'after_row_trigger(database, &stmt.table_name, old_row, new_row)?', 1),
            ('re', r'(?s)crate::TriggerFirer::execute_after_statement_triggers\(\s*database,\s*&stmt\.table_name,\s*vibesql_ast::TriggerEvent::Update\(None\),\s*\)\?', 'after_statement_trigger(database, &stmt.table_name)?', 1),
            ('re', r'vibesql_storage::database::TransactionChange', 'TransactionChange', None),
        ],
        loops={0: '''
            invariant
                ui__ <= updates@.len(), index_updates@.len() == ui__,
                forall|k: int| 0 <= k < ui__ ==> (#[trigger] index_updates@[k]) == (updates@[k].0, updates@[k].1, updates@[k].2),
                database.trace() == old(database).trace() + writes(%(T)s, updates@, ui__ as int),
            decreases updates@.len() - ui__,
''' % dict(T=_T), 1: '''
            invariant
                xi__ <= index_updates@.len(), index_updates@.len() == updates@.len(),
                forall|k: int| 0 <= k < updates@.len() ==> (#[trigger] index_updates@[k]) == (updates@[k].0, updates@[k].1, updates@[k].2),
                database.trace() == old(database).trace() + writes(%(T)s, updates@, updates@.len() as int) + index_and_record(%(T)s, updates@, xi__ as int),
            decreases index_updates@.len() - xi__,
''' % dict(T=_T), 2: '''
            invariant
                ti__ <= updates@.len(),
                database.trace() == old(database).trace() + writes(%(T)s, updates@, updates@.len() as int) + index_and_record(%(T)s, updates@, updates@.len() as int)
                    + triggers(ti__ as int),
            decreases updates@.len() - ti__,
''' % dict(T=_T)},
        proofs=[('@tail', 'proof { lemma_lens(%(T)s, updates@, updates@.len() as int); }' % dict(T=_T))],
        contract='''
    ensures
        res matches Ok(n) ==> ({
            let m = updates@.len() as int;
            let base = old(database).trace() + writes(stmt.table_name, updates@, m) + index_and_record(stmt.table_name, updates@, m) + triggers(m);
            let t = final(database).trace();
            &&& n == updates@.len()
            // every prepared update written at its position with its row, in order; then index maintenance + one Update record per update, in order; only then the AFTER triggers
            &&& (t == base || t == base.push(Ev::Trigger))
        }),
'''),
}

OBLIGATIONS = {
    'apply_update': ['post:every_prepared_update_written_at_its_position__then_index_maintenance_and_one_record_per_update_in_order', 'proof:loop_invariants_and_termination', 'safety:index_in_bounds'],
}
CANARIES = ['canary_apply']
TRUSTED = [
    'R6 (fragment kind tail): the statements of UpdateExecutor::execute_internal from "// Step 8: Apply all updates" to the end are lifted; NOT under contract: everything before it - row selection (units D-pk, E-truthy), the SET list (unit D-set), normalization and constraint validation of the new rows, cascades, BEFORE triggers',
    'the contract is over a TRACE of storage operations (ghost sequence Database::trace): external_body write_row (Table::update_row_selective on the statement table through get_table_mut - R12; its effect on the table and its hash indexes: unit K-table), update_indexes_for_update (unit I-update), record_change, the AFTER triggers (external_body after_row_trigger / after_statement_trigger - event Trigger: a trigger body may do anything); Row::clone / Str::clone are copies; require_table = get_table_mut(..).ok_or_else(..)?',
    'on an ERROR in the middle (a storage error of update_row_selective in the write loop) the rows written so far stay written while NO index maintenance and NO change record has happened yet for them (since fix 442858f2 the rows are normalized during validation, so the table does not reject them at this point; since fix ccc0b6aa a failing AFTER trigger comes after maintenance and recording) - nothing is claimed for the error case (observed, DESIGN 9b)',
    'Row / Str / ExecutorError / TriggerContext / ColSet (HashSet<usize>) opaque; UpdateStmt and TransactionChange reduced; R10 rewrites of the three `for` loops (two by reference, one consuming)',
]
