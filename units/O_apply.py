NAME = 'O-apply'
PROPERTIES = ['C15', 'C14', 'C10']
ENGINE = 'verus'
CLASS = 'U'
DOC = ('update_conflicting_row (executor insert/duplicate_key_update.rs), from the normalization of the updated row to the end - how INSERT .. ON DUPLICATE KEY UPDATE '
       'APPLIES its update: the new row is brought into the form the table stores and validated (table constraints, then the user-defined unique indexes) BEFORE anything is '
       'written; then exactly: the table row at the conflicting position is replaced by that row, the user-defined indexes are maintained with (old row, that row, position), '
       'one Update change (old row, that row) is recorded - in this order, nothing else; a failed validation writes nothing. Stated over the trace of storage operations.')

TEMPLATE = r'''
use vstd::prelude::*;
verus! {

#[verifier::external_body] pub struct Row { r: u8 }
impl Row {
    #[verifier::external_body] pub fn clone(&self) -> (r: Row) ensures r == *self { unimplemented!() }
    #[verifier::external_body] pub fn new(v: Values) -> (r: Row) ensures r == row_of(v) { unimplemented!() }
}
#[verifier::external_body] pub struct Values { v: u8 }
pub uninterp spec fn row_of(v: Values) -> Row;
/// the form in which the table stores a row; None: rejected
pub uninterp spec fn stored_form(row: Row) -> Option<Row>;
#[verifier::external_body] pub struct ExecutorError { e: u8 }
#[verifier::external_body] pub struct TableSchema { t: u8 }
pub enum TransactionChange { Update { table_name: Seq<char>, old_row: Row, new_row: Row } }
#[verifier::external_body] fn mk_update(t: &str, old_row: Row, new_row: Row) -> (r: TransactionChange)
    ensures r == (TransactionChange::Update { table_name: t@, old_row: old_row, new_row: new_row }) { unimplemented!() }

/// the storage operations, in order
pub enum Ev {
    /// Table::update_row(position, row) on the named table (unit K-table)
    WriteRow(Seq<char>, usize, Row),
    /// Database::update_indexes_for_update(table, old row, new row, position) (units I-update, I-loop, I-maint)
    IndexUpdate(Seq<char>, Row, Row, usize),
    /// Database::record_change
    Record(TransactionChange),
}
#[verifier::external_body] pub struct Database { d: u8 }
impl Database {
    pub uninterp spec fn trace(&self) -> Seq<Ev>;
    // table.normalize_row(Row::new(values)).map_err(..)   (R12: `table` is the `&Table` obtained at the top of the function)
    #[verifier::external_body]
    pub fn tbl_normalize_row(&self, t: &str, row: Row) -> (r: Result<Row, ExecutorError>)
        ensures (r is Ok) == (stored_form(row) is Some), r matches Ok(x) ==> x == stored_form(row)->Some_0 { unimplemented!() }
    // ConstraintValidator::new(schema).validate_row(table, ..)? ; .validate_unique_indexes(db, ..)?
    #[verifier::external_body]
    pub fn validate_row(&self, schema: &TableSchema, t: &str, row_id: usize, new_row: &Row, old_row: &Row) -> (r: Result<(), ExecutorError>) { unimplemented!() }
    #[verifier::external_body]
    pub fn validate_unique_indexes(&self, schema: &TableSchema, t: &str, new_row: &Row, old_row: &Row) -> (r: Result<(), ExecutorError>) { unimplemented!() }
    #[verifier::external_body]
    pub fn require_table(&self, t: &str) -> (r: Result<(), ExecutorError>) { unimplemented!() }
    #[verifier::external_body]
    pub fn tbl_update_row(&mut self, t: &str, row_id: usize, row: Row) -> (r: Result<(), ExecutorError>)
        ensures r is Ok ==> final(self).trace() == old(self).trace().push(Ev::WriteRow(t@, row_id, row)), r is Err ==> final(self).trace() == old(self).trace() { unimplemented!() }
    #[verifier::external_body]
    pub fn update_indexes_for_update(&mut self, t: &str, old_row: &Row, new_row: &Row, row_id: usize)
        ensures final(self).trace() == old(self).trace().push(Ev::IndexUpdate(t@, *old_row, *new_row, row_id)) { unimplemented!() }
    #[verifier::external_body]
    pub fn record_change(&mut self, c: TransactionChange) ensures final(self).trace() == old(self).trace().push(Ev::Record(c)) { unimplemented!() }
}

//@@ apply_odku

fn canary_apply(db: &mut Database, t: &str, schema: &TableSchema, row_id: usize, old_row: Row, v: Values)
{
    let r = apply_odku(db, t, schema, row_id, old_row, v);
    assert(false); // CANARY
}

}
fn main() {}
'''

ITEMS = {
    'apply_odku': dict(
        file='crates/vibesql-executor/src/insert/duplicate_key_update.rs', path='fn update_conflicting_row', ret='res',
        fragment=dict(kind='tail', index=0, **{'from': r'// The updated row has to satisfy the constraints'},
                      sig='fn apply_odku(db: &mut Database, table_name: &str, schema: &TableSchema, row_id: usize, old_row: Row, new_row_values: Values) -> Result<(), ExecutorError>'),
        rewrites=[
            ('re', r'(?s)let new_row = table\s*\.normalize_row\(vibesql_storage::Row::new\(new_row_values\)\)\s*\.map_err\(\|e\| ExecutorError::UnsupportedExpression\(format!\("Storage error: \{\}", e\)\)\)\?;',
             'let new_row = db.tbl_normalize_row(table_name, Row::new(new_row_values))?;', 1),
            ('re', r'let constraint_validator = crate::update::ConstraintValidator::new\(schema\);', '', 1),
            ('re', r'constraint_validator\.validate_row\(table, table_name, row_id, &new_row, &old_row\)\?;', 'db.validate_row(schema, table_name, row_id, &new_row, &old_row)?;', 1),
            ('re', r'constraint_validator\.validate_unique_indexes\(db, table_name, &new_row, &old_row\)\?;', 'db.validate_unique_indexes(schema, table_name, &new_row, &old_row)?;', 1),
            ('re', r'(?s)let table_mut = db\s*\.get_table_mut\(table_name\)\s*\.ok_or_else\(\|\| ExecutorError::TableNotFound\(table_name\.to_string\(\)\)\)\?;', 'db.require_table(table_name)?;', 1),
            ('re', r'(?s)table_mut\.update_row\(row_id, new_row\.clone\(\)\)\s*\.map_err\(\|e\| ExecutorError::UnsupportedExpression\(format!\("Storage error: \{\}", e\)\)\)\?;', 'db.tbl_update_row(table_name, row_id, new_row.clone())?;', 1),
            ('re', r'vibesql_storage::database::TransactionChange::Update \{ table_name: table_name\.to_string\(\), old_row, new_row \}', 'mk_update(table_name, old_row, new_row)', 1),
        ],
        contract='''
    ensures
        res is Ok ==> ({
            let nr = stored_form(row_of(new_row_values));
            &&& nr is Some
            // the STORED form of the updated row is written at the conflicting position, the user-defined indexes get (old row, that row, position), one Update change is recorded - in this order, nothing else
            &&& final(db).trace() == old(db).trace().push(Ev::WriteRow(table_name@, row_id, nr->Some_0)).push(Ev::IndexUpdate(table_name@, old_row, nr->Some_0, row_id))
                    .push(Ev::Record(TransactionChange::Update { table_name: table_name@, old_row: old_row, new_row: nr->Some_0 }))
        }),
        // a failure leaves the trace as it was (validation happens BEFORE the write; a failed write writes nothing)
        res is Err ==> final(db).trace() == old(db).trace(),
'''),
}
OBLIGATIONS = {
    'apply_odku': ['post:stored_form_written_at_the_position_then_index_maintenance_then_one_update_record__a_failure_writes_nothing'],
}
CANARIES = ['canary_apply']
TRUSTED = [
    'R6 (fragment kind tail): the statements of update_conflicting_row from "// The updated row has to satisfy the constraints" to the end are lifted; NOT under contract: how the conflicting row is found (find_conflicting_row: scans by PRIMARY KEY / UNIQUE values) and how the assignments are evaluated (VALUES(), column references)',
    'the contract is over a TRACE of storage operations (ghost sequence Database::trace): external_body tbl_update_row (Table::update_row through get_mut_table - R12; unit K-table), update_indexes_for_update (units I-update, I-loop, I-maint), record_change; tbl_normalize_row (Table::normalize_row on the `&Table` obtained at the top of the function), validate_row / validate_unique_indexes (ConstraintValidator: what they check is units K-pk / K-rowval side, here only THAT they run before the write), require_table, mk_update (the struct literal with table_name.to_string())',
    'Row (clone is a copy; Row::new), Values (Vec<SqlValue>), ExecutorError, TableSchema opaque; row_of = Row::new; stored_form uninterpreted',
]
