NAME = 'K-append'
PROPERTIES = ['C10']
ENGINE = 'verus'
CLASS = 'U'
DOC = ('AppendModeTracker (storage/table/append_mode.rs) against a ghost set of the table\'s primary keys: the PRIMARY KEY check in '
       'insert/constraints.rs skips the duplicate lookup while the tracker is active, so "active => the new key is not in the table" is the '
       'clause the property needs.  It holds on monotone histories (#main) and FAILS in general (recorded finding).')

TEMPLATE = r'''
use vstd::prelude::*;
verus! {

// R2: Vec<SqlValue> primary key -> opaque `Key` with an uninterpreted total order (justified for SqlValue by unit T-laws / C21)
#[verifier::external_body]
pub struct Key { k: Vec<u8> }
pub uninterp spec fn key_le(a: Key, b: Key) -> bool;
pub open spec fn key_lt(a: Key, b: Key) -> bool { key_le(a, b) && a != b }
#[verifier::external_body]
pub proof fn key_total_order()
    ensures
        forall|a: Key| key_le(a, a),
        forall|a: Key, b: Key| key_le(a, b) || key_le(b, a),
        forall|a: Key, b: Key| key_le(a, b) && key_le(b, a) ==> a == b,
        forall|a: Key, b: Key, c: Key| key_le(a, b) && key_le(b, c) ==> key_le(a, c),
{}
// R4: `pk_values > last_pk.as_slice()`
#[verifier::external_body]
fn key_gt(a: &Key, b: &Key) -> (r: bool) ensures r == key_lt(*b, *a) { unimplemented!() }
#[verifier::external_body]
fn key_ge(a: &Key, b: &Key) -> (r: bool) ensures r == key_le(*b, *a) { unimplemented!() }
#[verifier::external_body]
fn key_lt_x(a: &Key, b: &Key) -> (r: bool) ensures r == key_lt(*a, *b) { unimplemented!() }
#[verifier::external_body]
fn key_le_x(a: &Key, b: &Key) -> (r: bool) ensures r == key_le(*a, *b) { unimplemented!() }
#[verifier::external_body]
fn key_eq_x(a: &Key, b: &Key) -> (r: bool) ensures r == (*a == *b) { unimplemented!() }
#[verifier::external_body]
fn key_ne_x(a: &Key, b: &Key) -> (r: bool) ensures r == (*a != *b) { unimplemented!() }
// R4: `pk_values.to_vec()`
#[verifier::external_body]
fn key_clone(a: &Key) -> (r: Key) ensures r == *a { unimplemented!() }

//@@ THRESHOLD

//@@ AppendModeTracker

// what the PRIMARY KEY shortcut relies on: while active, no stored key exceeds last_pk
spec fn inv(t: AppendModeTracker, keys: Set<Key>) -> bool {
    t.append_mode ==> (t.last_pk_value is Some && forall|k: Key| keys.contains(k) ==> key_le(k, t.last_pk_value.unwrap()))
}
// monotone history: last_pk is the maximum of the stored keys (every insert so far was in increasing key order)
spec fn max_inv(t: AppendModeTracker, keys: Set<Key>) -> bool {
    &&& (t.last_pk_value is None ==> keys == Set::<Key>::empty())
    &&& (t.last_pk_value is Some ==> forall|k: Key| keys.contains(k) ==> key_le(k, t.last_pk_value.unwrap()))
    &&& (t.append_mode ==> t.last_pk_value is Some)
}

impl AppendModeTracker {
//@@ new

//@@ update

//@@ update__known

//@@ is_active

//@@ reset
}

// skip-soundness at the point insert/constraints.rs skips the lookup.
// #main: sound for a key above last_pk
proof fn lemma_skip_sound_for_larger_key(t: AppendModeTracker, keys: Set<Key>, pk: Key)
    requires inv(t, keys), t.append_mode, key_lt(t.last_pk_value.unwrap(), pk)
    ensures !keys.contains(pk)
{
    key_total_order();
}
// #known: the code skips for ANY key while active (is_in_append_mode() does not look at the new key): EXPECTED TO FAIL
proof fn lemma_skip_sound_for_any_key__known(t: AppendModeTracker, keys: Set<Key>, pk: Key)
    requires inv(t, keys), t.append_mode
    ensures !keys.contains(pk)
{
    key_total_order();
}

fn canary_update(t: &mut AppendModeTracker, pk: &Key, Ghost(keys): Ghost<Set<Key>>)
    requires max_inv(*old(t), keys), old(t).append_streak < usize::MAX
{
    t.update(pk, Ghost(keys));
    assert(false); // CANARY
}

}
fn main() {}
'''

_F = 'crates/vibesql-storage/src/table/append_mode.rs'


def _cmp_stub(m):
    """slice comparison on keys -> the stub for that operator: > key_gt, >= key_ge, < key_lt_x, <= key_le_x, == key_eq_x, != key_ne_x"""
    return {'>': 'key_gt', '>=': 'key_ge', '<': 'key_lt_x', '<=': 'key_le_x', '==': 'key_eq_x', '!=': 'key_ne_x'}[m.group(1)] + '(pk_values, last_pk)'


_UPD_RW = [
    ('lit', 'pk_values: &[SqlValue])', 'pk_values: &Key, Ghost(keys): Ghost<Set<Key>>)', 1),
    ('refn', r'pk_values\s*(>=|<=|>|<|==|!=)\s*last_pk\.as_slice\(\)', _cmp_stub, 1),
    ('lit', 'pk_values.to_vec()', 'key_clone(pk_values)', 1),
]
ITEMS = {
    'THRESHOLD': dict(file=_F, path='const APPEND_MODE_THRESHOLD'),
    'AppendModeTracker': dict(file=_F, path='struct AppendModeTracker', rewrites=[('lit', 'Option<Vec<SqlValue>>', 'Option<Key>', 1)]),
    'new': dict(file=_F, path='impl AppendModeTracker::fn new', ret='r',
                rewrites=[('lit', '-> Self', '-> AppendModeTracker', 1), ('lit', 'Self {', 'AppendModeTracker {', 1)],
                contract='''
    ensures !r.append_mode, r.last_pk_value is None, r.append_streak == 0, max_inv(r, Set::<Key>::empty()), inv(r, Set::<Key>::empty()),
'''),
    'update': dict(file=_F, path='impl AppendModeTracker::fn update', rewrites=_UPD_RW,
                   proofs=[('@entry', 'proof { key_total_order(); }')],
                   contract='''
    requires max_inv(*old(self), keys), old(self).append_streak < usize::MAX,
    ensures
        inv(*final(self), keys.insert(*pk_values)),
        final(self).last_pk_value == Some(*pk_values),
        // still a monotone history iff this insert was in order
        (old(self).last_pk_value is None || key_lt(old(self).last_pk_value.unwrap(), *pk_values)) ==> max_inv(*final(self), keys.insert(*pk_values)),
        // a non-sequential insert switches append mode off
        (old(self).last_pk_value is Some && !key_lt(old(self).last_pk_value.unwrap(), *pk_values)) ==> !final(self).append_mode,
'''),
    'update__known': dict(file=_F, path='impl AppendModeTracker::fn update',
                          rewrites=_UPD_RW + [('lit', 'fn update(', 'fn update__known(', 1)],
                          proofs=[('@entry', 'proof { key_total_order(); }')],
                          contract='''
    requires inv(*old(self), keys), old(self).append_streak < usize::MAX,
    ensures inv(*final(self), keys.insert(*pk_values)),
'''),
    'is_active': dict(file=_F, path='impl AppendModeTracker::fn is_active', ret='r', contract='''
    ensures r == self.append_mode,
'''),
    'reset': dict(file=_F, path='impl AppendModeTracker::fn reset', contract='''
    ensures !final(self).append_mode, final(self).last_pk_value is None, final(self).append_streak == 0,
            max_inv(*final(self), Set::<Key>::empty()),
'''),
}

OBLIGATIONS = {
    'new': ['post:inactive_and_invariant'],
    'update': ['post:invariant_preserved_on_monotone_histories', 'safety:no_overflow'],
    'update__known': ['post:invariant_inductive_on_every_history'],
    'is_active': ['post:is_append_mode'],
    'reset': ['post:inactive_and_invariant'],
    'lemma_skip_sound_for_larger_key': ['post:skip_sound_for_key_above_last'],
    'lemma_skip_sound_for_any_key__known': ['post:skip_sound_for_any_key'],
}
KNOWN = {
    'update__known': 'KF-C10-append-mode-skip',
    'lemma_skip_sound_for_any_key__known': 'KF-C10-append-mode-skip',
}
CANARIES = ['canary_update']
TRUSTED = [
    'external_body Key: Vec<SqlValue> as an opaque key; key_total_order: uninterpreted total order (for SqlValue: unit T-laws, C21, modulo its recorded finding)',
    'external_body key_gt / key_ge / key_lt_x / key_le_x / key_eq_x / key_ne_x: slice comparison operators on keys are the corresponding relations of the total order; key_clone: to_vec() is a copy',
    'ghost parameter `keys` (the table\'s primary keys) added to update (R9: ghost-only)',
    'precondition append_streak < usize::MAX (2^64 consecutive inserts)',
    'enforce_primary_key_constraint / RowValidator themselves (hash-index lookups over Database) are not under contract',
]
