NAME = 'I-decide'
PROPERTIES = ['C02', 'C06', 'C08']
ENGINE = 'verus'
CLASS = 'U'
DOC = ('execute_index_scan (executor select/scan/index_scan/execution.rs), the decisions at its head: which predicate is pushed to the index, whether the '
       'WHERE clause is re-applied, and whether index order is claimed. The pushed predicate is the one extract_index_predicate produces for the FIRST '
       'indexed column, and none at all for a prefix index; the WHERE re-check is skipped ONLY when where_clause_fully_satisfied_by_index answered true '
       'for exactly that predicate (so the exactness lemmas of unit I-range apply), never for a prefix index and never when nothing was pushed; an '
       'ordering is claimed only for an index without prefix columns.')

TEMPLATE = r'''
use vstd::prelude::*;
verus! {

#[verifier::external_body] pub struct Expression { e: u8 }
#[verifier::external_body] pub struct ExecutorError { e: u8 }
#[verifier::external_body] pub struct IndexPredicate { p: u8 }
#[verifier::external_body] pub struct Str { s: u8 }
#[verifier::external_body] pub struct SortCol { s: u8 }
#[verifier::external_body] pub struct Table { t: u8 }
#[verifier::external_body] pub struct IndexData { d: u8 }
pub struct IndexColumn { pub column_name: Str, pub prefix_length: Option<u64> }
pub struct IndexMetadata { pub columns: Vec<IndexColumn> }
#[verifier::external_body] pub struct Database { d: u8 }
pub uninterp spec fn table_spec(db: &Database, n: &str) -> &'static Table;
impl Database {
    pub uninterp spec fn meta(&self, index_name: &str) -> Option<IndexMetadata>;
    // database.get_table(n).ok_or_else(|| ExecutorError::TableNotFound(..))? etc.
    #[verifier::external_body] pub fn get_table_or(&self, n: &str) -> (r: Result<&Table, ExecutorError>)
        ensures r matches Ok(t) ==> t == table_spec(self, n) { unimplemented!() }
    #[verifier::external_body] pub fn get_index_or(&self, n: &str) -> (r: Result<&IndexMetadata, ExecutorError>)
        ensures r matches Ok(m) ==> self.meta(n) == Some(*m) { unimplemented!() }
    #[verifier::external_body] pub fn get_index_data_or(&self, n: &str) -> (r: Result<&IndexData, ExecutorError>) { unimplemented!() }
}
/// the name of the first indexed column ("" for an index without columns)
pub uninterp spec fn first_col_name(cols: Seq<IndexColumn>) -> &'static str;
// index_metadata.columns.first().map(|col| col.column_name.as_str()).unwrap_or("")
#[verifier::external_body] fn first_column_name(cols: &Vec<IndexColumn>) -> (r: &str) ensures r == first_col_name(cols@) { unimplemented!() }
pub open spec fn first_is_prefix(cols: Seq<IndexColumn>) -> bool { cols.len() > 0 && cols[0].prefix_length is Some }
pub open spec fn any_prefix(cols: Seq<IndexColumn>) -> bool { exists|i: int| 0 <= i < cols.len() && (#[trigger] cols[i]).prefix_length is Some }
// .first().is_some_and(|col| col.prefix_length.is_some())  /  .iter().any(|col| col.prefix_length.is_some())
#[verifier::external_body] fn first_has_prefix(cols: &Vec<IndexColumn>) -> (r: bool) ensures r == first_is_prefix(cols@) { unimplemented!() }
#[verifier::external_body] fn some_has_prefix(cols: &Vec<IndexColumn>) -> (r: bool) ensures r == any_prefix(cols@) { unimplemented!() }
/// extract_index_predicate (unit I-range) as a deterministic function
pub uninterp spec fn extracted(e: Expression, col: &str) -> Option<IndexPredicate>;
// where_clause.and_then(|expr| extract_index_predicate(expr, indexed_column))
#[verifier::external_body]
fn extract_for(where_clause: Option<&Expression>, col: &str) -> (r: Option<IndexPredicate>)
    ensures where_clause is None ==> r is None, where_clause matches Some(e) ==> r == extracted(*e, col) { unimplemented!() }
/// predicate_literals_have_key_variant for the column named col of this table: every literal of the predicate has the SqlValue variant the index keys have
pub uninterp spec fn key_variant_ok(p: IndexPredicate, table: &Table, col: &str) -> bool;
// index_predicate.filter(|p| table.schema.columns.iter().find(|c| c.name == col).is_some_and(|c| predicate_literals_have_key_variant(p, &c.data_type)))
#[verifier::external_body]
fn keep_if_key_variant(p: Option<IndexPredicate>, table: &Table, col: &str) -> (r: Option<IndexPredicate>)
    ensures r == (match p { Some(x) => if key_variant_ok(x, table, col) { Some(x) } else { None }, None => None }) { unimplemented!() }
/// where_clause_fully_satisfied_by_index answered true (its contract, unit I-range: the skip shape)
pub uninterp spec fn skip_ok(e: Expression, col: &str, p: Option<IndexPredicate>) -> bool;
#[verifier::external_body]
fn where_clause_fully_satisfied_by_index(e: &Expression, col: &str, p: &Option<IndexPredicate>) -> (r: bool) ensures r == skip_ok(*e, col, *p) { unimplemented!() }

//@@ scan_decisions

fn canary_decide(table_name: &str, index_name: &str, where_clause: Option<&Expression>, sorted_columns: Option<Vec<SortCol>>, database: &Database)
{
    let r = scan_decisions(table_name, index_name, where_clause, sorted_columns, database);
    assert(false); // CANARY
}

}
fn main() {}
'''

ITEMS = {
    'scan_decisions': dict(
        file='crates/vibesql-executor/src/select/scan/index_scan/execution.rs', path='fn execute_index_scan', ret='res',
        fragment=dict(kind='prefix', index=0, until=r'\n\s*// Determine if this is a multi-column index',
                      sig='fn scan_decisions(table_name: &str, index_name: &str, where_clause: Option<&Expression>, sorted_columns: Option<Vec<SortCol>>, database: &Database) '
                          '-> Result<(Option<IndexPredicate>, bool, Option<Vec<SortCol>>), ExecutorError>',
                      tail='Ok((index_predicate, need_where_filter, sorted_columns))'),
        rewrites=[
            ('re', r'(?s)database\s*\.get_(table|index|index_data)\((\w+)\)\s*\.ok_or_else\(\|\| ExecutorError::\w+\(\w+\.to_string\(\)\)\)\?', r'database.get_\1_or(\2)?', 3),
            ('re', r'(?s)index_metadata\s*\.columns\s*\.first\(\)\s*\.map\(\|col\| col\.column_name\.as_str\(\)\)\s*\.unwrap_or\(""\)', 'first_column_name(&index_metadata.columns)', 1),
            ('re', r'index_metadata\.columns\.first\(\)\.is_some_and\(\|col\| col\.prefix_length\.is_some\(\)\)', 'first_has_prefix(&index_metadata.columns)', None),
            ('re', r'index_metadata\.columns\.iter\(\)\.any\(\|col\| col\.prefix_length\.is_some\(\)\)', 'some_has_prefix(&index_metadata.columns)', None),
            ('re', r'where_clause\.and_then\(\|expr\| extract_index_predicate\(expr, indexed_column\)\)', 'extract_for(where_clause, indexed_column)', None),
            ('re', r'(?s)let index_predicate = index_predicate\.filter\(\|predicate\| \{.*?\n    \}\);', 'let index_predicate = keep_if_key_variant(index_predicate, table, indexed_column);', None),
        ],
        contract='''
    ensures
        res matches Ok((pred, need_filter, sorted)) ==> ({
            let m = database.meta(index_name);
            let col = first_col_name(m->Some_0.columns@);
            &&& m is Some
            // what is pushed to the index: nothing for a prefix index, otherwise what extract_index_predicate gives for the first indexed column
            &&& (first_is_prefix(m->Some_0.columns@) ==> pred is None)
            // .. and only when its literals have the variant of the keys (a string literal against a DATE column is not pushed: the WHERE clause decides)
            &&& (!first_is_prefix(m->Some_0.columns@) ==> (where_clause is None ==> pred is None)
                    && (where_clause matches Some(e) ==> pred == (match extracted(*e, col) { Some(x) => if key_variant_ok(x, table_spec(database, table_name), col) { Some(x) } else { None }, None => None })))
            // the WHERE clause is re-applied unless where_clause_fully_satisfied_by_index vouched for exactly this predicate
            &&& (where_clause matches Some(e) ==> (need_filter <==> !(pred is Some && skip_ok(*e, col, pred))))
            &&& (where_clause is None ==> !need_filter)
            // index order is claimed only for an index without prefix columns
            &&& (any_prefix(m->Some_0.columns@) ==> sorted is None)
            &&& (!any_prefix(m->Some_0.columns@) ==> sorted == sorted_columns)
        }),
'''),
}

OBLIGATIONS = {
    'scan_decisions': ['post:pushed_predicate_is_the_extracted_one__none_for_prefix_indexes__recheck_skipped_only_when_vouched_for__order_claimed_only_without_prefix_columns'],
}
CANARIES = ['canary_decide']
TRUSTED = [
    'R6 (fragment kind prefix): the statements of execute_index_scan before "// Determine if this is a multi-column index" are lifted into a function returning (index_predicate, need_where_filter, sorted_columns); NOT under contract: the rest of the function (which index operation is called with the predicate - range_scan: unit I-scan, multi_lookup: unit I-multi -, row fetching, the WHERE re-application itself (decision tables: unit E-truthy), DESC reversal, the FromResult flags)',
    'external_body Database::get_table_or / get_index_or / get_index_data_or (Option::ok_or_else(..)?), first_column_name / first_has_prefix / some_has_prefix (slice::first / iter().any with closures over prefix_length), extract_for (Option::and_then(extract_index_predicate): uninterpreted deterministic `extracted`; the function itself: unit I-range), keep_if_key_variant (Option::filter with predicate_literals_have_key_variant on the declared type of the column: uninterpreted key_variant_ok - that function is a match over DataType with closures, NOT under contract; fix d55aa609), where_clause_fully_satisfied_by_index (uninterpreted skip_ok; its contract - the skip shape - and the exactness lemmas: unit I-range)',
    'Expression, ExecutorError, IndexPredicate, Str, SortCol ((String, OrderDirection)), Table, IndexData, Database opaque; IndexMetadata / IndexColumn reduced to the fields read',
]
