NAME = 'U-stmtkeys'
PROPERTIES = ['C10']
ENGINE = 'verus'
CLASS = 'U'
DOC = ('UpdateExecutor::execute_internal (executor update/mod.rs), the statement-level duplicate check of a multi-row UPDATE: for the new row, under every key of the table '
       '(PRIMARY KEY, UNIQUE constraints, user-defined UNIQUE indexes - slot = position in that list) the key - the listed columns of the row, each PREFIX-TRUNCATED as its index says - '
       'is filed under its slot unless it holds a NULL; the statement is refused EXACTLY when a NULL-free key of the row is already filed under the same slot by an earlier row of the statement.')

TEMPLATE = r'''
use vstd::prelude::*;
verus! {

#[verifier::external_body] pub struct SqlValue { v: u8 }
#[verifier::external_body] pub struct Str { s: u8 }
#[verifier::external_body] pub struct ExecutorError { e: u8 }
pub type Key = Seq<SqlValue>;
pub struct Row { pub values: Vec<SqlValue> }
pub uninterp spec fn is_null(v: SqlValue) -> bool;
pub open spec fn key_has_null(k: Key) -> bool { exists|j: int| 0 <= j < k.len() && is_null(#[trigger] k[j]) }
// key.iter().any(|value| value.is_null())
#[verifier::external_body] fn has_null(k: &Vec<SqlValue>) -> (r: bool) ensures r == key_has_null(k@) { unimplemented!() }
pub uninterp spec fn trunc(v: SqlValue, n: Option<u64>) -> SqlValue;
/// the key of a row under a list of (column position, prefix length) pairs
pub open spec fn pkey(cols: Seq<(usize, Option<u64>)>, row: Row) -> Key { Seq::new(cols.len(), |j: int| trunc(row.values@[cols[j].0 as int], cols[j].1)) }
// key_columns.iter().map(|&(idx, prefix_length)| apply_prefix_truncation(&new_row.values[idx], prefix_length)).collect()
#[verifier::external_body]
fn build_pkey(cols: &Vec<(usize, Option<u64>)>, row: &Row) -> (r: Vec<SqlValue>)
    requires forall|j: int| 0 <= j < cols@.len() ==> (#[trigger] cols@[j]).0 < row.values@.len(),
    ensures r@ == pkey(cols@, *row)
{ unimplemented!() }
// std::collections::HashSet<(usize, Vec<SqlValue>)>
#[verifier::external_body] pub struct KeySlots { s: u8 }
impl KeySlots {
    pub uninterp spec fn view(&self) -> Set<(usize, Key)>;
    #[verifier::external_body] pub fn insert(&mut self, e: (usize, Vec<SqlValue>)) -> (r: bool)
        ensures r == !old(self).view().contains((e.0, e.1@)), final(self).view() == old(self).view().insert((e.0, e.1@)) { unimplemented!() }
}
#[verifier::external_body] fn violation(name: &Str) -> (r: ExecutorError) { unimplemented!() }

/// slot s of the row collides with what is filed
pub open spec fn collides(filed: Set<(usize, Key)>, keys: Seq<(Str, Vec<(usize, Option<u64>)>)>, row: Row, s: int) -> bool {
    !key_has_null(pkey(keys[s].1@, row)) && filed.contains((s as usize, pkey(keys[s].1@, row)))
}
/// what the first n slots of the row add to the filed keys
pub open spec fn filed_after(filed: Set<(usize, Key)>, keys: Seq<(Str, Vec<(usize, Option<u64>)>)>, row: Row, n: int) -> Set<(usize, Key)> decreases n {
    if n <= 0 { filed } else {
        let prev = filed_after(filed, keys, row, n - 1);
        if key_has_null(pkey(keys[n - 1].1@, row)) { prev } else { prev.insert(((n - 1) as usize, pkey(keys[n - 1].1@, row))) }
    }
}
proof fn lemma_filed_other_slots(filed: Set<(usize, Key)>, keys: Seq<(Str, Vec<(usize, Option<u64>)>)>, row: Row, n: int, s: usize, k: Key)
    requires 0 <= n <= s, s <= usize::MAX,
    ensures filed_after(filed, keys, row, n).contains((s, k)) == filed.contains((s, k)),
    decreases n,
{
    if n > 0 { lemma_filed_other_slots(filed, keys, row, n - 1, s, k); }
}

//@@ file_statement_keys

fn canary_file(statement_key_columns: &Vec<(Str, Vec<(usize, Option<u64>)>)>, statement_keys: &mut KeySlots, new_row: &Row)
    requires forall|s: int, j: int| 0 <= s < statement_key_columns@.len() && 0 <= j < statement_key_columns@[s].1@.len() ==> (#[trigger] statement_key_columns@[s].1@[j]).0 < new_row.values@.len(),
{
    let r = file_statement_keys(statement_key_columns, statement_keys, new_row);
    assert(false); // CANARY
}

}
fn main() {}
'''

ITEMS = {
    'file_statement_keys': dict(
        file='crates/vibesql-executor/src/update/mod.rs', path='impl UpdateExecutor::fn execute_internal', ret='res',
        fragment=dict(kind='stmt', index=0, **{'from': r'for \(slot, \(constraint_name, key_columns\)\) in statement_key_columns\.iter\(\)\.enumerate\(\) \{'},
                      sig='fn file_statement_keys(statement_key_columns: &Vec<(Str, Vec<(usize, Option<u64>)>)>, statement_keys: &mut KeySlots, new_row: &Row) -> Result<(), ExecutorError>',
                      tail='Ok(())'),
        elide=[dict(kind='closure', index=0, expect_params='&(idx, prefix_length)', to='PKEY__')],
        rewrites=[
            ('re', r'for \(slot, \(constraint_name, key_columns\)\) in statement_key_columns\.iter\(\)\.enumerate\(\) \{',
             'let mut si__: usize = 0; while si__ < statement_key_columns.len() { let constraint_name = &statement_key_columns[si__].0; let key_columns = &statement_key_columns[si__].1; let slot = si__; si__ = si__ + 1;', 1),
            ('re', r'(?s)let key: Vec<vibesql_types::SqlValue> =\s*key_columns\s*\.iter\(\)\s*\.map\(PKEY__\)\s*\.collect\(\);', 'let key: Vec<SqlValue> = build_pkey(key_columns, new_row);', 1),
            ('re', r'key\.iter\(\)\.any\(\|value\| value\.is_null\(\)\)', 'has_null(&key)', 1),
            ('re', r'(?s)Err\(ExecutorError::ConstraintViolation\(format!\((?:[^()]|\([^()]*\))*\)\)\)', 'Err(violation(constraint_name))', 1),
        ],
        loops={0: '''
            invariant si__ <= statement_key_columns@.len(),
                forall|s: int, j: int| 0 <= s < statement_key_columns@.len() && 0 <= j < statement_key_columns@[s].1@.len() ==> (#[trigger] statement_key_columns@[s].1@[j]).0 < new_row.values@.len(),
                statement_keys.view() == filed_after(old(statement_keys).view(), statement_key_columns@, *new_row, si__ as int),
                // no slot visited so far collided
                forall|s: int| 0 <= s < si__ ==> !collides(old(statement_keys).view(), statement_key_columns@, *new_row, s),
            decreases statement_key_columns@.len() - si__,
'''},
        proofs=[('@loop0', 'proof { lemma_filed_other_slots(old(statement_keys).view(), statement_key_columns@, *new_row, si__ as int, si__, pkey(statement_key_columns@[si__ as int].1@, *new_row)); }'),
                ('re:return Err\\(', 'proof { assert(collides(old(statement_keys).view(), statement_key_columns@, *new_row, slot as int)); }')],

        contract='''
    requires forall|s: int, j: int| 0 <= s < statement_key_columns@.len() && 0 <= j < statement_key_columns@[s].1@.len() ==> (#[trigger] statement_key_columns@[s].1@[j]).0 < new_row.values@.len(),
    ensures
        // refused EXACTLY when, under some key of the table, the NULL-free (prefix-truncated) key of the row is already filed by an earlier row of the statement
        (res is Err) <==> exists|s: int| 0 <= s < statement_key_columns@.len() && #[trigger] collides(old(statement_keys).view(), statement_key_columns@, *new_row, s),
        // accepted: every NULL-free key of the row is now filed under its slot, nothing else is
        res is Ok ==> final(statement_keys).view() == filed_after(old(statement_keys).view(), statement_key_columns@, *new_row, statement_key_columns@.len() as int),
'''),
}
OBLIGATIONS = {
    'file_statement_keys': ['post:refused_exactly_on_a_collision_within_the_statement__keys_filed_under_their_slots_prefix_truncated', 'proof:loop_invariant_and_termination', 'safety:column_position_in_bounds'],
    'lemma_filed_other_slots': ['post:filing_the_first_n_slots_leaves_later_slots_alone'],
}
CANARIES = ['canary_file']
TRUSTED = [
    'R6 (fragment kind stmt): the loop over statement_key_columns inside the per-row loop of UpdateExecutor::execute_internal is lifted (fall-through value Ok(())); NOT under contract: how statement_key_columns is assembled (PRIMARY KEY, UNIQUE constraints, unique indexes of the table with their prefix lengths; only for statements with several candidate rows), the per-row checks against the table as it was before the statement (ConstraintValidator: units K-uqprobe and the K-pk side)',
    'R6b (elide): the key closure `|&(idx, prefix_length)| apply_prefix_truncation(&new_row.values[idx], prefix_length)` becomes build_pkey (external_body: `iter().map(closure).collect()`; trunc = apply_prefix_truncation uninterpreted; requires the column positions to exist in the row)',
    'external_body KeySlots (std HashSet<(usize, Vec<SqlValue>)>: insert returns whether the entry was new), has_null (`key.iter().any(|v| v.is_null())`, is_null uninterpreted), violation (the ConstraintViolation with its format! text); SqlValue, Str, ExecutorError opaque; Row reduced to its values',
]
