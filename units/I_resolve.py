NAME = 'I-resolve'
PROPERTIES = ['C02', 'C15']
ENGINE = 'verus'
CLASS = 'U'
DOC = ('Operations::{rebuild_indexes, create_index, drop_table} (storage/database/operations.rs): a dropped table leaves no user-defined index behind (neither under the name it is stored under nor under its bare name); the user-defined (CREATE INDEX) indexes of a table are built and '
       'REBUILT from the rows of the table the name resolves to - tables are stored under their normalized, schema-qualified name, and both functions '
       'resolve a bare name the same way (spec fn resolve). rebuild_indexes is what DELETE (and the savepoint undo) call after row positions shift.')

TEMPLATE = r'''
use vstd::prelude::*;
verus! {

// identifiers as opaque strings with the three operations the name resolution uses
#[verifier::external_body] pub struct Str { s: u8 }
pub uninterp spec fn upper(s: Str) -> Str;
pub uninterp spec fn dotted(s: Str) -> bool;
pub uninterp spec fn qualified(schema: Str, name: Str) -> Str;
impl Str {
    #[verifier::external_body] pub fn clone(&self) -> (r: Str) ensures r == *self { unimplemented!() }
    #[verifier::external_body] pub fn to_uppercase(&self) -> (r: Str) ensures r == upper(*self) { unimplemented!() }
    #[verifier::external_body] pub fn has_dot(&self) -> (r: bool) ensures r == dotted(*self) { unimplemented!() }       // contains('.')
}
#[verifier::external_body] fn qualify(schema: &Str, name: &Str) -> (r: Str) ensures r == qualified(*schema, *name) { unimplemented!() }   // format!("{}.{}", ..)

#[verifier::external_body] pub struct Row { r: u8 }
#[verifier::external_body] pub struct IndexColumn { c: u8 }
#[verifier::external_body] pub struct TableSchema { s: u8 }
pub enum StorageError { TableNotFound(Str), Other }
#[verifier::external_body] pub struct Table { t: u8 }
impl Table {
    pub uninterp spec fn rows(&self) -> Seq<Row>;
    #[verifier::external_body] pub fn rows_to_vec(&self) -> (r: Vec<Row>) ensures r@ == self.rows() { unimplemented!() }     // scan().to_vec()
}
// HashMap<String, Table>
#[verifier::external_body] pub struct TableMap { m: u8 }
impl TableMap {
    pub uninterp spec fn view(&self) -> Map<Str, Table>;
    #[verifier::external_body] pub fn remove(&mut self, k: &Str) -> (r: Option<Table>)
        ensures final(self).view() == old(self).view().remove(*k), (r is Some) == old(self).view().dom().contains(*k) { unimplemented!() }
    #[verifier::external_body] pub fn get(&self, k: &Str) -> (r: Option<&Table>)
        ensures (r is Some) == self.view().dom().contains(*k), r is Some ==> *r.unwrap() == self.view()[*k] { unimplemented!() }
}
#[verifier::external_body] pub struct Catalog { c: u8 }
impl Catalog {
    pub uninterp spec fn case_sensitive(&self) -> bool;
    pub uninterp spec fn schema(&self) -> Str;
    pub uninterp spec fn table(&self, name: Str) -> Option<TableSchema>;
    #[verifier::external_body] pub fn is_case_sensitive_identifiers(&self) -> (r: bool) ensures r == self.case_sensitive() { unimplemented!() }
    #[verifier::external_body] pub fn get_current_schema(&self) -> (r: Str) ensures r == self.schema() { unimplemented!() }
    // catalog.drop_table(name).map_err(|e| StorageError::CatalogError(e.to_string()))
    #[verifier::external_body] pub fn drop_table_(&mut self, name: &Str) -> (r: Result<(), StorageError>)
        ensures final(self).case_sensitive() == old(self).case_sensitive(), final(self).schema() == old(self).schema() { unimplemented!() }
    #[verifier::external_body] pub fn get_table(&self, name: &Str) -> (r: Option<&TableSchema>)
        ensures (r is Some) == (self.table(*name) is Some), r is Some ==> *r.unwrap() == self.table(*name).unwrap() { unimplemented!() }
}
#[verifier::external_body]
fn table_or_err<'a>(t: Option<&'a Table>, name: &Str) -> (r: Result<&'a Table, StorageError>)
    ensures t is Some ==> r == Ok::<&Table, StorageError>(t.unwrap()), t is None ==> r is Err { unimplemented!() }
#[verifier::external_body]
fn schema_or_err<'a>(t: Option<&'a TableSchema>, name: &Str) -> (r: Result<&'a TableSchema, StorageError>)
    ensures t is Some ==> r == Ok::<&TableSchema, StorageError>(t.unwrap()), t is None ==> r is Err { unimplemented!() }
#[verifier::external_body]
fn validate_prefix_lengths(s: &TableSchema, cols: &Vec<IndexColumn>) -> (r: Result<(), StorageError>) { unimplemented!() }

/// WHERE A TABLE LIVES: tables are stored under their normalized name, usually schema-qualified ("public.T"); a bare name is tried as is, then qualified
pub open spec fn norm(c: &Catalog, name: Str) -> Str { if c.case_sensitive() { name } else { upper(name) } }
pub open spec fn resolve(c: &Catalog, tables: &TableMap, name: Str) -> Option<Table> {
    if tables.view().dom().contains(norm(c, name)) { Some(tables.view()[norm(c, name)]) }
    else if !dotted(name) && tables.view().dom().contains(qualified(c.schema(), norm(c, name))) { Some(tables.view()[qualified(c.schema(), norm(c, name))]) }
    else { None }
}
// the user-defined index registry (database/indexes): ASSUMED contracts over what each index of a table was last built from
#[verifier::external_body] pub struct IndexRegistry { i: u8 }
impl IndexRegistry {
    /// every index registered for table `name` was (re)built from exactly these rows
    pub uninterp spec fn built_from(&self, name: Str, rows: Seq<Row>) -> bool;
    pub uninterp spec fn has_index(&self, index_name: Str, table: Str, rows: Seq<Row>) -> bool;
    #[verifier::external_body]
    pub fn rebuild_indexes(&mut self, name: &Str, schema: &TableSchema, rows: &Vec<Row>) ensures final(self).built_from(*name, rows@) { unimplemented!() }
    /// some index is registered under this table name (index metadata holds the name CREATE INDEX was given)
    pub uninterp spec fn any_for(&self, table: Str) -> bool;
    // IndexManager::drop_indexes_for_table: every index whose metadata names exactly this table goes, the others stay
    #[verifier::external_body]
    pub fn drop_indexes_for_table(&mut self, name: &Str) -> (r: Vec<Str>)
        ensures !final(self).any_for(*name), forall|u: Str| u != *name ==> final(self).any_for(u) == old(self).any_for(u) { unimplemented!() }
    #[verifier::external_body]
    pub fn create_index(&mut self, index_name: Str, table_name: Str, schema: &TableSchema, rows: &Vec<Row>, unique: bool, columns: Vec<IndexColumn>) -> (r: Result<(), StorageError>)
        ensures r is Ok ==> final(self).has_index(index_name, table_name, rows@) { unimplemented!() }
}
pub struct Operations { pub index_manager: IndexRegistry }

impl Operations {
    #[verifier::external_body] fn drop_spatial_indexes_for_table(&mut self, name: &Str) ensures final(self).index_manager == old(self).index_manager { unimplemented!() }
//@@ drop_table

//@@ create_index

//@@ rebuild_indexes
}

fn canary_rebuild(ops: &mut Operations, c: &Catalog, t: &TableMap, n: &Str)
{
    ops.rebuild_indexes(c, t, n);
    assert(false); // CANARY
}

}
fn main() {}
'''

_F = 'crates/vibesql-storage/src/database/operations.rs'
_RW = [
    ('re', r'&vibesql_catalog::Catalog', '&Catalog', None), ('re', r'&HashMap<String, Table>', '&TableMap', None),
    ('re', r'\bString\b', 'Str', None), ('re', r'&str\b', '&Str', None),
    ('re', r'table_name\.to_string\(\)', 'table_name.clone()', None),
    ('re', r"table_name\.contains\('\.'\)", 'table_name.has_dot()', None),
    ('re', r'format!\("\{\}\.\{\}", current_schema, normalized_name\)', 'qualify(&current_schema, &normalized_name)', None),
    ('re', r'tables\s*\.get\(&qualified_name\)\s*\.ok_or_else\(\|\| StorageError::TableNotFound\(table_name\.clone\(\)\)\)\?', 'table_or_err(tables.get(&qualified_name), &table_name)?', None),
    ('re', r'catalog\s*\.get_table\(&table_name\)\s*\.ok_or_else\(\|\| StorageError::TableNotFound\(table_name\.clone\(\)\)\)\?', 'schema_or_err(catalog.get_table(&table_name), &table_name)?', None),
    ('re', r'let table_rows: Vec<Row> = (\w+)\.scan\(\)\.to_vec\(\);', r'let table_rows: Vec<Row> = \1.rows_to_vec();', None),
    ('re', r'(\w+)\.scan\(\)\.to_vec\(\)', r'\1.rows_to_vec()', None),
    ('re', r'Self::validate_prefix_lengths\(table_schema, &columns\)\?;', 'validate_prefix_lengths(table_schema, &columns)?;', None),
]
ITEMS = {
    'create_index': dict(file=_F, path='impl Operations::fn create_index', ret='res', rewrites=_RW,
        contract='''
        ensures
            // the index is built from the rows of the table the name RESOLVES to
            res is Ok ==> (resolve(catalog, tables, table_name) is Some && final(self).index_manager.has_index(index_name, table_name, resolve(catalog, tables, table_name).unwrap().rows())),
'''),
    'rebuild_indexes': dict(file=_F, path='impl Operations::fn rebuild_indexes', rewrites=_RW,
        contract='''
        ensures
            // whenever the table exists (same resolution as create_index / insert_row / get_table) its indexes are rebuilt from its current rows
            (resolve(catalog, tables, *table_name) is Some && catalog.table(*table_name) is Some) ==> final(self).index_manager.built_from(*table_name, resolve(catalog, tables, *table_name).unwrap().rows()),
    '''),
}

ITEMS['drop_table'] = dict(file=_F, path='impl Operations::fn drop_table', ret='res', rewrites=[
        ('re', r'&mut vibesql_catalog::Catalog', '&mut Catalog', 1), ('re', r'&mut HashMap<String, Table>', '&mut TableMap', 1),
        ('re', r'&str\b', '&Str', None),
        ('re', r'name\.to_string\(\)', 'name.clone()', None),
        ('re', r"normalized_name\.contains\('\.'\)", 'normalized_name.has_dot()', None),
        ('re', r'format!\("\{\}\.\{\}", current_schema, normalized_name\)', 'qualify(&current_schema, &normalized_name)', None),
        ('re', r'catalog\.drop_table\(name\)\.map_err\(\|e\| StorageError::CatalogError\(e\.to_string\(\)\)\)\?;', 'catalog.drop_table_(name)?;', 1),
    ],
    contract='''
        ensures
            // a dropped table leaves NO user-defined index behind: neither one registered under the name the table is stored under, nor one registered under its bare name
            // (index metadata holds the table name as CREATE INDEX was given it)
            res is Ok ==> !final(self).index_manager.any_for(norm(old(catalog), *name))
                && !final(self).index_manager.any_for(if dotted(norm(old(catalog), *name)) { norm(old(catalog), *name) } else { qualified(old(catalog).schema(), norm(old(catalog), *name)) }),
''')

OBLIGATIONS = {
    'create_index': ['post:index_built_from_the_rows_of_the_resolved_table'],
    'drop_table': ['post:no_user_defined_index_left_under_the_stored_name_or_the_bare_name'],
    'rebuild_indexes': ['post:resolves_the_table_like_every_other_operation_and_rebuilds_from_its_current_rows'],
}
CANARIES = ['canary_rebuild']
TRUSTED = [
    'external_body Str with to_uppercase / has_dot (contains(\'.\')) / clone and qualify (format!("{}.{}", schema, name)) as uninterpreted functions; Row / IndexColumn / TableSchema / Table opaque (rows_to_vec: scan().to_vec())',
    'external_body TableMap::get (std HashMap<String, Table>), Catalog (is_case_sensitive_identifiers, get_current_schema, get_table), table_or_err / schema_or_err (Option::ok_or_else), validate_prefix_lengths',
    'external_body IndexRegistry::{rebuild_indexes, create_index}: the user-defined index registry (database/indexes/index_maintenance.rs, BTreeMap / B+ tree maintenance) by ASSUMED contracts: "every index of the table was rebuilt from these rows" - its maintenance code is not verified (C15 region)',
    'spec fn resolve is read off create_index / insert_row / Database::get_table (normalized name, then schema-qualified): the contract states that rebuild_indexes uses the SAME resolution, not that the resolution is the right one',
    'drop_table: external_body IndexRegistry::drop_indexes_for_table (every index whose metadata names exactly that table goes: `metadata.table_name == table_name`), TableMap::remove, Catalog::drop_table_ (catalog.drop_table(..).map_err(..)), drop_spatial_indexes_for_table (does not touch the B-tree registry); a table dropped under a schema-qualified name keeps indexes registered under its bare name (not reachable through SQL: qualified names do not parse in DML / DDL)',
    'insert_row / insert_rows_batch (get_mut returns &mut: outside this Verus) and the executors that call rebuild_indexes are not under contract',
]
