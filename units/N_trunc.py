NAME = 'N-trunc'
PROPERTIES = ['C24', 'C18']
ENGINE = 'kani'
CLASS = 'B'
CRATE = 'vibesql-storage'
MODULE = 'table::normalization::verif_kani_text'
UNWIND = 6
HARNESS_FILE = 'kani/storage/text.rs'
DOC = ('truncate_to_char_boundary (table/normalization.rs), the helper behind VARCHAR(n) / NAME / CHAR(n) truncation: never panics and returns the longest '
       'prefix that is at most max bytes long and ends on a character boundary - every valid UTF-8 string of up to 4 bytes (BOUNDED: 4 bytes, '
       'covering every character width) and every usize max. normalize_char_value - the stored form of a CHAR(n) value - is exactly n bytes (that prefix, then spaces) and a stored value is a fixed point of it (BOUNDED: strings of up to 3 bytes, n <= 4).')
FUNCTIONS = [
    dict(file='crates/vibesql-storage/src/table/normalization.rs', path='fn truncate_to_char_boundary'),
    dict(file='crates/vibesql-storage/src/table/normalization.rs', path="impl<'a> RowNormalizer<'a>::fn normalize_char_value"),
]
HARNESSES = {
    'n_trunc_longest_fitting_prefix_on_a_char_boundary': dict(fn='truncate_to_char_boundary', clause='no_panic__longest_prefix_within_max_on_a_char_boundary', cls='B(4 bytes)'),
    'n_char_exactly_n_bytes_and_a_fixed_point': dict(fn='normalize_char_value', clause='exactly_n_bytes__longest_fitting_prefix_then_spaces__stored_value_is_a_fixed_point', cls='B(3 bytes, n <= 4)'),
    'n_trunc_canary_must_fail': dict(fn='canary', clause='must_fail', canary=True),
}
TRUSTED = ['core::str::from_utf8 / str::is_char_boundary (std)', 'strings longer than 4 bytes are not explored (bounded stand-in; the loop of the helper walks back at most 3 bytes for any valid UTF-8)',
           'the three call sites in RowNormalizer (s.len() > max_len guards) and truncate_for_error in executor/persistence.rs (same loop, inline) are not under contract']
