NAME = 'K-alterkey'
PROPERTIES = ['C10']
ENGINE = 'verus'
CLASS = 'U'
DOC = ('check_existing_rows (executor alter/constraints.rs), the check ALTER TABLE ADD PRIMARY KEY / ADD UNIQUE passes before the schema is changed: the constraint is refused '
       'EXACTLY when the rows of the table already violate it - two rows share a NULL-free key under the listed columns (in the listed order), or, for a PRIMARY KEY, some row '
       'holds a NULL in a key column.')

TEMPLATE = r'''
use vstd::prelude::*;
verus! {

#[verifier::external_body] pub struct SqlValue { v: u8 }
#[verifier::external_body] pub struct Str { s: u8 }
#[verifier::external_body] pub struct ExecutorError { e: u8 }
pub type Key = Seq<SqlValue>;
pub struct Row { pub values: Vec<SqlValue> }
pub uninterp spec fn is_null(v: SqlValue) -> bool;
pub open spec fn key_has_null(k: Key) -> bool { exists|j: int| 0 <= j < k.len() && is_null(#[trigger] k[j]) }
#[verifier::external_body] fn has_null(k: &Vec<SqlValue>) -> (r: bool) ensures r == key_has_null(k@) { unimplemented!() }   // key.iter().any(|value| value.is_null())
pub open spec fn rkey(positions: Seq<usize>, row: Row) -> Key { Seq::new(positions.len(), |j: int| row.values@[positions[j] as int]) }
// positions.iter().map(|&idx| row.values[idx].clone()).collect()
#[verifier::external_body]
fn project(positions: &Vec<usize>, row: &Row) -> (r: Vec<SqlValue>)
    requires forall|j: int| 0 <= j < positions@.len() ==> (#[trigger] positions@[j]) < row.values@.len(),
    ensures r@ == rkey(positions@, *row)
{ unimplemented!() }
#[verifier::external_body] pub struct Table { t: u8 }
impl Table {
    pub uninterp spec fn rows(&self) -> Seq<Row>;
    /// positions of the named columns, in the order of the names (None: some column is unknown)
    pub uninterp spec fn positions_of(&self, names: Seq<Str>) -> Option<Seq<usize>>;
    // column_names.iter().map(|name| table.schema.get_column_index(name)).collect::<Option<Vec<usize>>>()
    #[verifier::external_body] pub fn resolve(&self, names: &[Str]) -> (r: Option<Vec<usize>>)
        ensures (r is Some) == (self.positions_of(names@) is Some), r matches Some(p) ==> p@ == self.positions_of(names@)->Some_0 { unimplemented!() }
    #[verifier::external_body] pub fn scan(&self) -> (r: &[Row]) ensures r@ == self.rows() { unimplemented!() }
}
// std::collections::HashSet<Vec<SqlValue>>
#[verifier::external_body] pub struct KeySet { s: u8 }
impl KeySet {
    pub uninterp spec fn view(&self) -> Set<Key>;
    #[verifier::external_body] pub fn new() -> (r: KeySet) ensures r.view() == Set::<Key>::empty() { unimplemented!() }
    #[verifier::external_body] pub fn insert(&mut self, k: Vec<SqlValue>) -> (r: bool)
        ensures r == !old(self).view().contains(k@), final(self).view() == old(self).view().insert(k@) { unimplemented!() }
}
#[verifier::external_body] fn null_in_key(table_name: &str) -> (r: ExecutorError) { unimplemented!() }
#[verifier::external_body] fn duplicate_keys(kind: &str, table_name: &str) -> (r: ExecutorError) { unimplemented!() }

pub open spec fn dup_pair(p: Seq<usize>, rows: Seq<Row>, a: int, b: int) -> bool { !key_has_null(rkey(p, rows[a])) && rkey(p, rows[a]) == rkey(p, rows[b]) }
/// the first n rows violate the constraint
pub open spec fn violated(p: Seq<usize>, rows: Seq<Row>, primary_key: bool, n: int) -> bool {
    ||| exists|a: int, b: int| #![trigger dup_pair(p, rows, a, b)] 0 <= a < b < n && dup_pair(p, rows, a, b)
    ||| primary_key && exists|a: int| 0 <= a < n && key_has_null(#[trigger] rkey(p, rows[a]))
}

//@@ check_existing_rows

fn canary_check(table: &Table, column_names: &[Str], primary_key: bool, table_name: &str)
    requires table.positions_of(column_names@) matches Some(p) ==> forall|i: int, j: int| 0 <= i < table.rows().len() && 0 <= j < p.len() ==> (#[trigger] p[j]) < (#[trigger] table.rows()[i]).values@.len(),
{
    let r = check_existing_rows(table, column_names, primary_key, table_name);
    assert(false); // CANARY
}

}
fn main() {}
'''

ITEMS = {
    'check_existing_rows': dict(
        file='crates/vibesql-executor/src/alter/constraints.rs', path='fn check_existing_rows', ret='res',
        rewrites=[
            ('re', r'table: &vibesql_storage::Table', 'table: &Table', 1), ('re', r'column_names: &\[String\]', 'column_names: &[Str]', 1),
            ('re', r'(?s)let positions: Option<Vec<usize>> =\s*column_names\.iter\(\)\.map\(\|name\| table\.schema\.get_column_index\(name\)\)\.collect\(\);', 'let positions: Option<Vec<usize>> = table.resolve(column_names);', 1),
            # let-else written as the match it abbreviates
            ('re', r'(?s)let Some\(positions\) = positions else \{(.*?)return Ok\(\(\)\);\s*\};', r'let positions = match positions { Some(p) => p, None => { return Ok(()); } };', 1),
            ('re', r'let mut seen = std::collections::HashSet::new\(\);', 'let mut seen: KeySet = KeySet::new(); let rows__ = table.scan();', 1),
            ('re', r'for row in table\.scan\(\) \{', 'let mut ri__: usize = 0; while ri__ < rows__.len() { let row = &rows__[ri__]; ri__ = ri__ + 1;', 1),
            ('re', r'(?s)let key: Vec<vibesql_types::SqlValue> = positions\.iter\(\)\.map\(\|&idx\| row\.values\[idx\]\.clone\(\)\)\.collect\(\);', 'let key: Vec<SqlValue> = project(&positions, row);', 1),
            ('re', r'key\.iter\(\)\.any\(\|value\| value\.is_null\(\)\)', 'has_null(&key)', 1),
            ('re', r'(?s)Err\(ExecutorError::ConstraintViolation\(format!\(\s*"PRIMARY KEY constraint cannot be added: table \'\{\}\' holds NULL in a key column",\s*table_name\s*\)\)\)', 'Err(null_in_key(table_name))', 1),
            ('re', r'(?s)Err\(ExecutorError::ConstraintViolation\(format!\(\s*"\{\} constraint cannot be added: table \'\{\}\' holds duplicate key values",\s*kind, table_name\s*\)\)\)', 'Err(duplicate_keys(kind, table_name))', 1),
        ],
        loops={0: '''
            invariant ri__ <= rows__@.len(), rows__@ == table.rows(), table.positions_of(column_names@) == Some(positions@),
                forall|i: int, j: int| 0 <= i < table.rows().len() && 0 <= j < positions@.len() ==> (#[trigger] positions@[j]) < (#[trigger] table.rows()[i]).values@.len(),
                forall|k: Key| #![trigger seen.view().contains(k)] seen.view().contains(k) <==> (!key_has_null(k) && exists|a: int| 0 <= a < ri__ && #[trigger] rkey(positions@, table.rows()[a]) == k),
                !violated(positions@, table.rows(), primary_key, ri__ as int),
            decreases rows__@.len() - ri__,
'''},
        proofs=[('@loop0', 'let ghost i0__ = ri__ as int; let ghost seen0__ = seen.view();'),
                ('re:return Err\\(null_in_key', 'proof { assert(primary_key && key_has_null(rkey(positions@, table.rows()[i0__]))); }'),
                ('re:return Err\\(duplicate_keys', '''proof {
                    let kk = rkey(positions@, table.rows()[i0__]);
                    assert(seen0__.contains(kk));
                    let a = choose|a: int| 0 <= a < i0__ && #[trigger] rkey(positions@, table.rows()[a]) == kk;
                    assert(0 <= a < i0__ < table.rows().len() && dup_pair(positions@, table.rows(), a, i0__));
                }''')],
        contract='''
    requires table.positions_of(column_names@) matches Some(p) ==> forall|i: int, j: int| 0 <= i < table.rows().len() && 0 <= j < p.len() ==> (#[trigger] p[j]) < (#[trigger] table.rows()[i]).values@.len(),
    ensures
        // with every listed column known: refused EXACTLY when the existing rows violate the constraint
        table.positions_of(column_names@) matches Some(p) ==> ((res is Err) <==> violated(p, table.rows(), primary_key, table.rows().len() as int)),
        // an unknown column is left to the caller's own checks
        table.positions_of(column_names@) is None ==> res is Ok,
'''),
}
OBLIGATIONS = {
    'check_existing_rows': ['post:refused_exactly_when_the_existing_rows_violate_the_constraint', 'proof:loop_invariant_and_termination', 'safety:column_position_in_bounds'],
}
CANARIES = ['canary_check']
TRUSTED = [
    'external_body Table (rows = scan(); resolve = `column_names.iter().map(|n| table.schema.get_column_index(n)).collect::<Option<Vec<usize>>>()`: the positions of the named columns in the order of the names, None if one is unknown), project (`positions.iter().map(|&i| row.values[i].clone()).collect()`; requires the positions to exist in the row), KeySet (std HashSet<Vec<SqlValue>>: KeySet::new is empty, insert returns whether the key was new), has_null (`key.iter().any(|v| v.is_null())`, is_null uninterpreted), null_in_key / duplicate_keys (the two ConstraintViolation errors with their format! texts)',
    'the let-else `let Some(positions) = positions else { return Ok(()) }` is written as the match it abbreviates; R10 rewrite of `for row in table.scan()`; SqlValue, Str, ExecutorError opaque; Row reduced to its values',
    'NOT under contract: execute_add_constraint around it (that the check runs BEFORE the schema is changed, the catalog refresh), ADD CHECK (existing rows evaluated since fix 52830b89: through the expression evaluator, not under contract) / ADD FOREIGN KEY (existing rows are not checked: observed)',
]
