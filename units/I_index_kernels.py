"""I-norm / I-succ : index key normalisation and successor functions (Kani, in place)."""
NAME = 'I-kernels'
PROPERTIES = ['C02']
ENGINE = 'kani'
CLASS = 'C'
CRATE = 'vibesql-storage'
MODULE = 'database::indexes::verif_kani_idx'
UNWIND = 4
HARNESS_FILE = 'kani/storage/idx.rs'
DOC = ('normalize_for_comparison preserves the numeric order (exact below 2^53); try_increment_sqlvalue / smart_increment_value '
       'return the exact successor (strictly greater, nothing strictly between, None only at the top) - what range_scan needs to turn '
       '> v into >= succ(v) and <= v into < succ(v) on composite keys')
_F = 'crates/vibesql-storage/src/database/indexes/'
FUNCTIONS = [
    dict(file=_F + 'value_normalization.rs', path='fn normalize_for_comparison'),
    dict(file=_F + 'range_bounds.rs', path='fn try_increment_sqlvalue'),
    dict(file=_F + 'range_bounds.rs', path='fn smart_increment_value'),
    dict(file=_F + 'range_bounds.rs', path='fn calculate_next_value'),
]
HARNESSES = {}
for v in ['integer', 'smallint', 'bigint', 'unsigned', 'float', 'real', 'double', 'numeric']:
    HARNESSES['i_norm_' + v] = dict(fn='normalize_for_comparison', clause='order_preserving[%s]' % v)
HARNESSES['i_norm_bigint_strict_on_full_domain'] = dict(fn='normalize_for_comparison', clause='strict_on_full_domain[bigint]', known='KF-C02-f64-index-keys')
HARNESSES['i_norm_non_numeric_unchanged'] = dict(fn='normalize_for_comparison', clause='identity_on_non_numeric')
HARNESSES['i_succ_try_increment_double_is_exact_successor'] = dict(fn='try_increment_sqlvalue', clause='exact_successor[double]')
HARNESSES['i_succ_smart_increment_double_is_exact_successor'] = dict(fn='smart_increment_value', clause='exact_successor[double]')
HARNESSES['i_succ_try_increment_float'] = dict(fn='try_increment_sqlvalue', clause='exact_successor[float]')
HARNESSES['i_succ_try_increment_real'] = dict(fn='try_increment_sqlvalue', clause='exact_successor[real]')
HARNESSES['i_succ_try_increment_numeric'] = dict(fn='try_increment_sqlvalue', clause='exact_successor[numeric]')
for v in ['integer', 'smallint', 'bigint', 'unsigned']:
    HARNESSES['i_succ_' + v] = dict(fn='try_increment_sqlvalue', clause='plus_one_or_none_at_max[%s]' % v)
HARNESSES['i_succ_boolean_null_temporal'] = dict(fn='try_increment_sqlvalue', clause='boolean_null_temporal')
HARNESSES['i_succ_calculate_next_double_strictly_greater'] = dict(fn='calculate_next_value', clause='strictly_greater_below_2p53[double]')
HARNESSES['i_canary_must_fail'] = dict(fn='canary', clause='must_fail', canary=True)
TRUSTED = [
    'callers (IndexData::range_scan) pass normalised values: numerics are Double; integer arms of calculate_next_value are checked under v < MAX',
    'calculate_next_value(Double d): only "strictly greater" for finite |d| < 2^53 is demanded (d + 1.0 == d beyond; DiskBacked prefix path; unit-level observation)',
    'IndexData::range_scan / BTreeMap::range themselves are not under contract',
]
