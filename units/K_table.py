NAME = 'K-table'
PROPERTIES = ['C09', 'C10', 'C14']
ENGINE = 'verus'
CLASS = 'U'
DOC = ('Table (storage/table/mod.rs): every mutator re-establishes "the hash indexes are in sync with the row vector" - the fact the UPDATE / DELETE '
       'primary-key fast path (unit D-pk) and the PRIMARY KEY / UNIQUE checks rely on. IndexManager is an abstract interface with ASSUMED contracts here '
       '(the real IndexManager operations are verified separately, unit K-index: exact effect of each maintenance call, mirror after rebuild); what is PROVED here is the Table-level protocol: which IndexManager operation is called, '
       'with which row / position, in which order - e.g. delete_where and remove_row end with a rebuild because removals shift positions.')

TEMPLATE = r'''
use vstd::prelude::*;
verus! {

// ---------------- R2: collaborators of Table as abstract types -------------------------------------------------------
#[verifier::external_body] pub struct Row { r: u8 }
impl Row {
    #[verifier::external_body] pub fn clone(&self) -> (r: Row) ensures r == *self { unimplemented!() }
}
#[verifier::external_body] pub struct TableSchema { s: u8 }
#[verifier::external_body] pub struct AppendModeTracker { a: u8 }
impl AppendModeTracker {
    #[verifier::external_body] pub fn reset(&mut self) { unimplemented!() }
}
#[verifier::external_body] pub struct TableStatistics { t: u8 }
pub enum StorageError { ColumnIndexOutOfBounds { index: usize }, RowNotFound, Other }
// RowNormalizer::new(&schema).normalize_and_validate(row)
#[verifier::external_body] pub struct RowNormalizer<'a> { s: &'a TableSchema }
impl<'a> RowNormalizer<'a> {
    #[verifier::external_body] pub fn new(schema: &'a TableSchema) -> (r: RowNormalizer<'a>) ensures r.sch() == schema { unimplemented!() }
    #[verifier::external_body] pub fn normalize_and_validate(&self, row: Row) -> (r: Result<Row, StorageError>)
        ensures r matches Ok(x) ==> stored_form(self.sch(), row) == Some(x), r is Err ==> stored_form(self.sch(), row) is None { unimplemented!() }
    pub uninterp spec fn sch(&self) -> &'a TableSchema;
}
/// the form in which a table with this schema stores the row (CHAR padding, VARCHAR truncation); None: the row is rejected
pub uninterp spec fn stored_form(schema: &TableSchema, row: Row) -> Option<Row>;
/// the row remove_row looks for: the stored form of the row it is handed (the row itself when it has none)
pub open spec fn probe_of(schema: &TableSchema, row: Row) -> Row { match stored_form(schema, row) { Some(x) => x, None => row } }
// std::collections::HashSet<usize> (changed columns) and the IndexType list: opaque
#[verifier::external_body] pub struct ColSet { c: u8 }
#[verifier::external_body] pub struct IndexTypes { c: u8 }
// the `F: FnMut(&Row) -> bool` predicate of delete_where, as a pure function of the row
#[verifier::external_body] pub struct RowPred { p: u8 }
impl RowPred {
    pub uninterp spec fn holds(&self, r: Row) -> bool;
    #[verifier::external_body] pub fn call(&self, r: &Row) -> (b: bool) ensures b == self.holds(*r) { unimplemented!() }
    // the closure `|row| row == target`
    #[verifier::external_body] pub fn eq_to(target: &Row) -> (p: RowPred) ensures forall|r: Row| p.holds(r) == (r == *target) { unimplemented!() }
}
// `self.rows.iter().position(|row| row == target_row)`
#[verifier::external_body]
fn position_of(rows: &Vec<Row>, target: &Row) -> (r: Option<usize>)
    ensures r matches Some(p) ==> p < rows@.len() && rows@[p as int] == *target,
            r is None ==> !rows@.contains(*target)
{ unimplemented!() }

// ---------------- IndexManager: ASSUMED contracts (see TRUSTED) ----------------------------------------------------------
#[verifier::external_body] pub struct IndexManager { i: u8 }
impl IndexManager {
    /// the hash indexes (primary key, unique constraints) hold exactly the keys of `rows`, each mapped to its position
    pub uninterp spec fn synced(&self, schema: &TableSchema, rows: Seq<Row>) -> bool;

    #[verifier::external_body]
    pub fn new(schema: &TableSchema) -> (r: IndexManager) ensures r.synced(schema, Seq::<Row>::empty()) { unimplemented!() }
    #[verifier::external_body]
    pub fn rebuild(&mut self, schema: &TableSchema, rows: &Vec<Row>) ensures final(self).synced(schema, rows@) { unimplemented!() }
    #[verifier::external_body]
    pub fn clear(&mut self) ensures forall|s: &TableSchema| #![auto] final(self).synced(s, Seq::<Row>::empty()) { unimplemented!() }
    /// appending `row` at position row_index == (number of rows before)
    #[verifier::external_body]
    pub fn update_for_insert(&mut self, schema: &TableSchema, row: &Row, row_index: usize)
        ensures forall|rows: Seq<Row>| #![auto] old(self).synced(schema, rows) && row_index == rows.len() ==> final(self).synced(schema, rows.push(*row))
    { unimplemented!() }
    /// replacing old_row by new_row at position row_index
    #[verifier::external_body]
    pub fn update_for_update(&mut self, schema: &TableSchema, old_row: &Row, new_row: &Row, row_index: usize)
        ensures forall|rows: Seq<Row>| #![auto] old(self).synced(schema, rows) && row_index < rows.len() && rows[row_index as int] == *old_row
                    ==> final(self).synced(schema, rows.update(row_index as int, *new_row))
    { unimplemented!() }
    #[verifier::external_body]
    pub fn get_affected_indexes(&self, schema: &TableSchema, changed: &ColSet) -> (r: IndexTypes) { unimplemented!() }
    /// like update_for_update, restricted to the indexes over changed columns (the others are unaffected by definition of `changed`)
    #[verifier::external_body]
    pub fn update_selective(&mut self, schema: &TableSchema, old_row: &Row, new_row: &Row, row_index: usize, affected: &IndexTypes)
        ensures forall|rows: Seq<Row>| #![auto] old(self).synced(schema, rows) && row_index < rows.len() && rows[row_index as int] == *old_row
                    ==> final(self).synced(schema, rows.update(row_index as int, *new_row))
    { unimplemented!() }
    /// removes the row's keys; positions of later rows are NOT adjusted: nothing is promised about `synced` (a rebuild is needed)
    #[verifier::external_body]
    pub fn update_for_delete(&mut self, schema: &TableSchema, row: &Row) { unimplemented!() }
}

//@@ Table

impl Table {
    /// representation invariant: the indexes mirror the row vector
    pub open spec fn wf(&self) -> bool { self.indexes.synced(&self.schema, self.rows@) }

//@@ clear

//@@ update_row

//@@ update_row_selective

//@@ delete_where

//@@ remove_row

//@@ rebuild_indexes
}

fn canary_delete(t: &mut Table, p: &RowPred)
    requires old(t).wf()
{
    let n = t.delete_where(p);
    assert(false); // CANARY
}
fn canary_update(t: &mut Table, i: usize, r: Row)
    requires old(t).wf()
{
    let n = t.update_row(i, r);
    assert(false); // CANARY
}

}
fn main() {}
'''

_F = 'crates/vibesql-storage/src/table/mod.rs'
_TY = [('re', r'vibesql_catalog::TableSchema', 'TableSchema', None), ('re', r'crate::statistics::TableStatistics', 'TableStatistics', None),
       ('re', r'&std::collections::HashSet<usize>', '&ColSet', None)]
_PUBF = ('re', r'(?m)^(\s+)(\w+: )', r'\1pub \2', None)

ITEMS = {
    'Table': dict(file=_F, path='struct Table', rewrites=_TY + [('re', r'\bpub (\w+: )', r'\1', None), _PUBF]),
    'clear': dict(file=_F, path='impl Table::fn clear', rewrites=_TY, contract='''
        ensures final(self).wf(), final(self).rows@.len() == 0,
'''),
    'update_row': dict(file=_F, path='impl Table::fn update_row', ret='res', rewrites=_TY + [
        ('re', r'self\.rows\[index\] = normalized_row\.clone\(\);', 'self.rows.set(index, normalized_row.clone());', 1)],
        contract='''
        requires old(self).wf()
        ensures final(self).wf(),
                res is Err ==> final(self).rows@ == old(self).rows@,
                res is Ok ==> final(self).rows@.len() == old(self).rows@.len() && forall|k: int| 0 <= k < old(self).rows@.len() && k != index ==> final(self).rows@[k] == old(self).rows@[k],
'''),
    'update_row_selective': dict(file=_F, path='impl Table::fn update_row_selective', ret='res', rewrites=_TY + [
        ('re', r'self\.rows\[index\] = normalized_row\.clone\(\);', 'self.rows.set(index, normalized_row.clone());', 1)],
        contract='''
        requires old(self).wf()
        ensures final(self).wf(),
                res is Err ==> final(self).rows@ == old(self).rows@,
'''),
    'delete_where': dict(file=_F, path='impl Table::fn delete_where', ret='res', rewrites=_TY + [
        ('re', r'fn delete_where<F>\(&mut self, mut predicate: F\)', 'fn delete_where(&mut self, predicate: &RowPred)', 1),
        ('re', r'where\s+F: FnMut\(&Row\) -> bool,', '', 1),
        ('re', r'predicate\(row\)', 'predicate.call(row)', 1),
        # R10 (slice forms)
        ('re', r'for \(index, row\) in self\.rows\.iter\(\)\.enumerate\(\) \{',
         'let mut en__: usize = 0; while en__ < self.rows.len() { let row = &self.rows[en__]; let index = en__; en__ = en__ + 1;', 1),
        ('re', r'for \(index, _\) in indices_and_rows_to_delete\.iter\(\)\.rev\(\) \{',
         'let mut rv__: usize = indices_and_rows_to_delete.len(); while rv__ > 0 { rv__ = rv__ - 1; let index = &indices_and_rows_to_delete[rv__].0;', 1),
        # R13: `v.last().is_some_and(|(index, _)| EXPR)` (closure with a tuple pattern) -> the match it abbreviates, on the last element by position
        ('re', r'(?s)indices_and_rows_to_delete\s*\.last\(\)\s*\.is_some_and\(\|\((\w+), _\)\| ([^;]*?)\);',
         r'(if indices_and_rows_to_delete.len() > 0 { let \1 = &indices_and_rows_to_delete[indices_and_rows_to_delete.len() - 1].0; \2 } else { false });', None),
        ('re', r'for \(_, deleted_row\) in &indices_and_rows_to_delete \{',
         'let mut dl__: usize = 0; while dl__ < indices_and_rows_to_delete.len() { let deleted_row = &indices_and_rows_to_delete[dl__].1; dl__ = dl__ + 1;', 1),
    ],
        loops={0: '''
            invariant
                en__ <= self.rows@.len(), self.rows@ == old(self).rows@,
                indices_and_rows_to_delete@.len() <= en__,
                // collected positions are strictly increasing and below the scan position
                forall|a: int, b: int| 0 <= a < b < indices_and_rows_to_delete@.len() ==> indices_and_rows_to_delete@[a].0 < indices_and_rows_to_delete@[b].0,
                forall|a: int| 0 <= a < indices_and_rows_to_delete@.len() ==> indices_and_rows_to_delete@[a].0 + (indices_and_rows_to_delete@.len() - a) <= en__,
            decreases self.rows@.len() - en__,
''', 1: '''
            invariant
                rv__ <= indices_and_rows_to_delete@.len(),
                forall|a: int, b: int| 0 <= a < b < indices_and_rows_to_delete@.len() ==> indices_and_rows_to_delete@[a].0 < indices_and_rows_to_delete@[b].0,
                // every position still to be removed is valid: rows has shrunk only behind them
                self.rows@.len() + (indices_and_rows_to_delete@.len() - rv__) == old(self).rows@.len(),
                forall|a: int| 0 <= a < rv__ ==> indices_and_rows_to_delete@[a].0 + (rv__ - a) <= self.rows@.len(),
            decreases rv__,
''', 2: '''
            invariant dl__ <= indices_and_rows_to_delete@.len(),
            decreases indices_and_rows_to_delete@.len() - dl__,
'''},
        contract='''
        requires old(self).wf()
        ensures final(self).wf(),                                   // the indexes are rebuilt: removals shift row positions
                final(self).rows@.len() + res == old(self).rows@.len(),
'''),
    'remove_row': dict(file=_F, path='impl Table::fn remove_row', ret='res', rewrites=_TY + [
        ('re', r'self\.rows\.iter\(\)\.position\(\|row\| row == target_row\)', 'position_of(&self.rows, target_row)', None),
        # an equality predicate closure handed to delete_where (R: FnMut parameter -> abstract pure predicate)
        ('re', r'\|row\| row == (\w+)', r'&RowPred::eq_to(\1)', None)],
        contract='''
        requires old(self).wf()
        ensures final(self).wf(),
                res is Err ==> final(self).rows@ == old(self).rows@,
                res is Ok ==> final(self).rows@.len() + 1 == old(self).rows@.len(),      // exactly ONE row goes (the savepoint undo of unit K-undo relies on it)
                // .. and it is a row equal to the STORED FORM of the row handed in (the change log holds rows as they were before normalization)
                res is Ok ==> exists|p: int| 0 <= p < old(self).rows@.len() && old(self).rows@[p] == probe_of(&old(self).schema, *target_row)
                                && final(self).rows@ == old(self).rows@.remove(p),
                res is Err ==> !old(self).rows@.contains(probe_of(&old(self).schema, *target_row)),
'''),
    'rebuild_indexes': dict(file=_F, path='impl Table::fn rebuild_indexes', rewrites=_TY, contract='''
        ensures final(self).wf(), final(self).rows@ == old(self).rows@,
'''),
}

OBLIGATIONS = {
    'clear': ['post:indexes_in_sync_with_empty_table'],
    'update_row': ['post:indexes_in_sync__other_rows_untouched__error_changes_nothing', 'safety:index_in_bounds'],
    'update_row_selective': ['post:indexes_in_sync__error_changes_nothing', 'safety:index_in_bounds'],
    'delete_where': ['post:indexes_in_sync_after_positions_shift__row_count', 'safety:every_removed_position_in_bounds', 'proof:loop_invariants'],
    'remove_row': ['post:exactly_one_row_equal_to_the_stored_form_of_the_given_row_goes__indexes_in_sync_after_positions_shift', 'safety:position_in_bounds'],
    'rebuild_indexes': ['post:indexes_in_sync__rows_untouched'],
}
CANARIES = ['canary_delete', 'canary_update']
TRUSTED = [
    'external_body IndexManager (new, rebuild, clear, update_for_insert, update_for_update, update_selective, update_for_delete, get_affected_indexes): ASSUMED contracts over the uninterpreted predicate synced(schema, rows); the HashMap<Vec<SqlValue>, usize> maintenance in table/indexes.rs is verified in unit K-index (exact per-call effects on the pk / unique maps; `mirrors` after rebuild) - the link synced == mirrors between the two units is by reading, not by a shared definition. update_for_update / update_selective are assumed to re-sync only when handed the row that really was at that position',
    'external_body Row (clone is a copy), TableSchema, AppendModeTracker::reset, TableStatistics, RowNormalizer (normalize_and_validate: the uninterpreted stored_form of the row, or an error), ColSet / IndexTypes (HashSet<usize>, Vec<IndexType>): opaque',
    'external_body RowPred::call / eq_to: the FnMut(&Row) -> bool parameter of delete_where as a pure function of the row; `|row| row == target` as its equality instance',
    'external_body position_of: rows.iter().position(|r| r == target) returns a valid position holding an equal row, None iff there is none (std, Row::eq)',
    'R10 rewrites (slice forms): for .. in v.iter().enumerate() / v.iter().rev() / &v -> index loops; rows[i] = x -> rows.set(i, x)',
    'Table::insert (normalisation, append tracker, statistics) is not under contract here: its IndexManager call is update_for_insert(schema, row, rows.len() before push)',
    'the user-defined (CREATE INDEX) B-tree indexes of Database are a different registry (property C15: not applicable)',
]
