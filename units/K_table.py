NAME = 'K-table'
PROPERTIES = ['C09', 'C10', 'C14', 'C15']
ENGINE = 'verus'
CLASS = 'U'
DOC = ('Table (storage/table/mod.rs): every mutator (insert, update_row, update_row_selective, delete_where, remove_row, clear, rebuild_indexes) re-establishes the '
       'representation invariant "the hash indexes mirror the row vector and no two rows share a PRIMARY KEY / UNIQUE key" - the fact the UPDATE / DELETE '
       'primary-key fast path (unit D-pk) and the PRIMARY KEY / UNIQUE checks rely on, and the table half of C15. The writes keep it when the keys of the STORED '
       'row are fresh (held by no other row: what the uniqueness checks before a write establish); the removals rebuild because positions shift. IndexManager '
       'is an abstract interface here whose ASSUMED contracts are, clause by clause, postconditions PROVED of the real IndexManager in unit K-index; what is '
       'PROVED here is the Table-level protocol: which IndexManager operation is called, with which row / position, in which order.')

TEMPLATE = r'''
use vstd::prelude::*;
verus! {

// ---------------- R2: collaborators of Table as abstract types -------------------------------------------------------
#[verifier::external_body] pub struct Row { r: u8 }
impl Row {
    #[verifier::external_body] pub fn clone(&self) -> (r: Row) ensures r == *self { unimplemented!() }
}
#[verifier::external_body] pub struct TableSchema { s: u8 }
impl TableSchema { #[verifier::external_body] pub fn get_primary_key_indices(&self) -> (r: Option<Vec<usize>>) { unimplemented!() } }
#[verifier::external_body] pub struct AppendModeTracker { a: u8 }
impl AppendModeTracker {
    #[verifier::external_body] pub fn reset(&mut self) { unimplemented!() }
    #[verifier::external_body] pub fn update(&mut self, pk: &Vec<SqlValue>) { unimplemented!() }
}
#[verifier::external_body] pub struct StatsRest { t: u8 }
pub struct TableStatistics { pub row_count: usize, pub rest: StatsRest }
impl TableStatistics { #[verifier::external_body] pub fn mark_stale(&mut self) ensures final(self).row_count == old(self).row_count { unimplemented!() } }
#[verifier::external_body] pub struct SqlValue { v: u8 }
// pk_indices.iter().map(|&idx| row.values[idx].clone()).collect()  (feeds the append-mode tracker only)
#[verifier::external_body] fn project_pk(row: &Row, idx: &Vec<usize>) -> (r: Vec<SqlValue>) { unimplemented!() }
pub enum StorageError { ColumnIndexOutOfBounds { index: usize }, RowNotFound, Other }
// RowNormalizer::new(&schema).normalize_and_validate(row)
#[verifier::external_body] pub struct RowNormalizer<'a> { s: &'a TableSchema }
impl<'a> RowNormalizer<'a> {
    #[verifier::external_body] pub fn new(schema: &'a TableSchema) -> (r: RowNormalizer<'a>) ensures r.sch() == schema { unimplemented!() }
    #[verifier::external_body] pub fn normalize_and_validate(&self, row: Row) -> (r: Result<Row, StorageError>)
        ensures r matches Ok(x) ==> stored_form(self.sch(), row) == Some(x), r is Err ==> stored_form(self.sch(), row) is None { unimplemented!() }
    pub uninterp spec fn sch(&self) -> &'a TableSchema;
}
/// the form in which a table with this schema stores the row (CHAR padding, VARCHAR truncation); None: the row is rejected
pub uninterp spec fn stored_form(schema: &TableSchema, row: Row) -> Option<Row>;
/// the row remove_row looks for: the stored form of the row it is handed (the row itself when it has none)
pub open spec fn probe_of(schema: &TableSchema, row: Row) -> Row { match stored_form(schema, row) { Some(x) => x, None => row } }
// std::collections::HashSet<usize> (changed columns) and the IndexType list: opaque
#[verifier::external_body] pub struct ColSet { c: u8 }
#[verifier::external_body] pub struct IndexTypes { c: u8 }
// the `F: FnMut(&Row) -> bool` predicate of delete_where, as a pure function of the row
#[verifier::external_body] pub struct RowPred { p: u8 }
impl RowPred {
    pub uninterp spec fn holds(&self, r: Row) -> bool;
    #[verifier::external_body] pub fn call(&self, r: &Row) -> (b: bool) ensures b == self.holds(*r) { unimplemented!() }
    // the closure `|row| row == target`
    #[verifier::external_body] pub fn eq_to(target: &Row) -> (p: RowPred) ensures forall|r: Row| p.holds(r) == (r == *target) { unimplemented!() }
}
// `self.rows.iter().position(|row| row == target_row)`
#[verifier::external_body]
fn position_of(rows: &Vec<Row>, target: &Row) -> (r: Option<usize>)
    ensures r matches Some(p) ==> p < rows@.len() && rows@[p as int] == *target,
            r is None ==> !rows@.contains(*target)
{ unimplemented!() }

// ---------------- IndexManager: ASSUMED contracts, each one PROVED of the real code in unit K-index (see TRUSTED) ------------------
#[verifier::external_body] pub struct IndexManager { i: u8 }
impl IndexManager {
    /// the hash indexes (primary key, unique constraints) hold exactly the keys of `rows`, each mapped to its position  (K-index: synced_n)
    pub uninterp spec fn synced(&self, schema: &TableSchema, rows: Seq<Row>) -> bool;
    /// no two rows share a stored PRIMARY KEY / UNIQUE key  (K-index: all_dupfree)
    pub uninterp spec fn dupfree(schema: &TableSchema, rows: Seq<Row>) -> bool;
    /// the PRIMARY KEY / UNIQUE keys of `row`, about to be stored at position i, are held by no OTHER row  (K-index: all_fresh) - what the
    /// uniqueness checks of the executors establish before they write (C10)
    pub uninterp spec fn fresh(schema: &TableSchema, rows: Seq<Row>, i: int, row: Row) -> bool;
    /// the list names exactly the constraint indexes with a column in the set  (K-index: covers)
    pub uninterp spec fn covers(schema: &TableSchema, changed: &ColSet, affected: &IndexTypes) -> bool;
    /// every constraint index the list does not name has the same key in both rows  (K-index: unlisted_same)
    pub uninterp spec fn unlisted_same(schema: &TableSchema, affected: &IndexTypes, a: Row, b: Row) -> bool;

    #[verifier::external_body]
    pub fn new(schema: &TableSchema) -> (r: IndexManager) ensures r.synced(schema, Seq::<Row>::empty()) { unimplemented!() }
    #[verifier::external_body]
    pub fn rebuild(&mut self, schema: &TableSchema, rows: &Vec<Row>) ensures final(self).synced(schema, rows@) { unimplemented!() }
    #[verifier::external_body]
    pub fn clear(&mut self) ensures forall|s: &TableSchema| #![auto] final(self).synced(s, Seq::<Row>::empty()) { unimplemented!() }
    /// appending `row` at position row_index == (number of rows before)   (K-index update_for_insert: APPEND KEEPS THE MIRROR)
    #[verifier::external_body]
    pub fn update_for_insert(&mut self, schema: &TableSchema, row: &Row, row_index: usize)
        ensures forall|rows: Seq<Row>| #![trigger old(self).synced(schema, rows)] old(self).synced(schema, rows) && rows.len() < usize::MAX && row_index == rows.len()
                    ==> final(self).synced(schema, rows.push(*row))
                        && (IndexManager::dupfree(schema, rows) && IndexManager::fresh(schema, rows, rows.len() as int, *row) ==> IndexManager::dupfree(schema, rows.push(*row)))
    { unimplemented!() }
    /// replacing old_row by new_row at position row_index   (K-index update_for_update: WRITE-IN-PLACE KEEPS THE MIRROR - on a duplicate-free table, new keys fresh)
    #[verifier::external_body]
    pub fn update_for_update(&mut self, schema: &TableSchema, old_row: &Row, new_row: &Row, row_index: usize)
        ensures forall|rows: Seq<Row>| #![trigger old(self).synced(schema, rows)] old(self).synced(schema, rows) && rows.len() <= usize::MAX && row_index < rows.len() && rows[row_index as int] == *old_row
                    && IndexManager::dupfree(schema, rows) && IndexManager::fresh(schema, rows, row_index as int, *new_row)
                    ==> final(self).synced(schema, rows.update(row_index as int, *new_row)) && IndexManager::dupfree(schema, rows.update(row_index as int, *new_row))
    { unimplemented!() }
    /// (K-index get_affected_indexes)
    #[verifier::external_body]
    pub fn get_affected_indexes(&self, schema: &TableSchema, changed: &ColSet) -> (r: IndexTypes) ensures IndexManager::covers(schema, changed, &r) { unimplemented!() }
    /// like update_for_update, restricted to the LISTED indexes: the others must have an unchanged key   (K-index update_selective)
    #[verifier::external_body]
    pub fn update_selective(&mut self, schema: &TableSchema, old_row: &Row, new_row: &Row, row_index: usize, affected: &IndexTypes)
        ensures forall|rows: Seq<Row>| #![trigger old(self).synced(schema, rows)] old(self).synced(schema, rows) && rows.len() <= usize::MAX && row_index < rows.len() && rows[row_index as int] == *old_row
                    && IndexManager::dupfree(schema, rows) && IndexManager::fresh(schema, rows, row_index as int, *new_row)
                    && IndexManager::unlisted_same(schema, affected, *old_row, *new_row)
                    ==> final(self).synced(schema, rows.update(row_index as int, *new_row)) && IndexManager::dupfree(schema, rows.update(row_index as int, *new_row))
    { unimplemented!() }
    /// removes the row's keys; positions of later rows are NOT adjusted: in general nothing is promised about `synced` (a rebuild is needed) -
    /// except when the row is the LAST one of a duplicate-free table: then no position shifts   (K-index update_for_delete: TAKING THE LAST ROW OUT KEEPS THE MIRROR)
    #[verifier::external_body]
    pub fn update_for_delete(&mut self, schema: &TableSchema, row: &Row)
        ensures forall|rows: Seq<Row>| #![trigger old(self).synced(schema, rows)] old(self).synced(schema, rows) && rows.len() >= 1 && rows[rows.len() - 1] == *row
                    && IndexManager::dupfree(schema, rows) ==> final(self).synced(schema, rows.drop_last())
    { unimplemented!() }
}
/// the two rows agree on every column outside the set (what "changed columns" means; established by the UPDATE executor, unit D-set side)
pub uninterp spec fn differ_only_in(changed: &ColSet, a: Row, b: Row) -> bool;
// facts about the uninterpreted predicates, each PROVED over their definitions in unit K-index
/// K-index lemma_covers_unlisted_same
#[verifier::external_body]
proof fn fact_covers_unlisted_same(schema: &TableSchema, changed: &ColSet, affected: &IndexTypes, a: Row, b: Row)
    requires IndexManager::covers(schema, changed, affected), differ_only_in(changed, a, b),
    ensures IndexManager::unlisted_same(schema, affected, a, b)
{ }
/// K-index lemma_remove_dupfree: taking a row out of a duplicate-free table leaves it duplicate-free
#[verifier::external_body]
proof fn fact_remove_keeps_dupfree(schema: &TableSchema, rows: Seq<Row>, p: int)
    requires 0 <= p < rows.len(), IndexManager::dupfree(schema, rows),
    ensures IndexManager::dupfree(schema, rows.remove(p))
{ }
/// K-index lemma_empty_dupfree
#[verifier::external_body]
proof fn fact_empty_dupfree(schema: &TableSchema)
    ensures IndexManager::dupfree(schema, Seq::<Row>::empty())
{ }

//@@ Table

impl Table {
    /// representation invariant: the indexes mirror the row vector
    pub open spec fn synced_(&self) -> bool { self.indexes.synced(&self.schema, self.rows@) }
    /// representation invariant: .. and no two rows share a PRIMARY KEY / UNIQUE key
    pub open spec fn wf(&self) -> bool { self.synced_() && IndexManager::dupfree(&self.schema, self.rows@) }

//@@ clear

//@@ insert

//@@ update_row

//@@ update_row_selective

//@@ delete_where

//@@ remove_row

//@@ rebuild_indexes
}

fn canary_delete(t: &mut Table, p: &RowPred)
    requires old(t).wf()
{
    let n = t.delete_where(p);
    assert(false); // CANARY
}
fn canary_insert(t: &mut Table, r: Row)
    requires old(t).wf(), old(t).rows@.len() < usize::MAX, old(t).modifications_since_stats < usize::MAX
{
    let n = t.insert(r);
    assert(false); // CANARY
}
fn canary_update(t: &mut Table, i: usize, r: Row)
    requires old(t).wf()
{
    let n = t.update_row(i, r);
    assert(false); // CANARY
}

}
fn main() {}
'''

_F = 'crates/vibesql-storage/src/table/mod.rs'
_TY = [('re', r'vibesql_catalog::TableSchema', 'TableSchema', None), ('re', r'crate::statistics::TableStatistics', 'TableStatistics', None),
       ('re', r'&std::collections::HashSet<usize>', '&ColSet', None)]
_PUBF = ('re', r'(?m)^(\s+)(\w+: )', r'\1pub \2', None)

ITEMS = {
    'Table': dict(file=_F, path='struct Table', rewrites=_TY + [('re', r'\bpub (\w+: )', r'\1', None), _PUBF]),
    'clear': dict(file=_F, path='impl Table::fn clear', rewrites=_TY, proofs=[('@entry', 'proof { fact_empty_dupfree(&self.schema); }')], contract='''
        ensures final(self).wf(), final(self).rows@.len() == 0,
'''),
    'insert': dict(file=_F, path='impl Table::fn insert', ret='res', rewrites=_TY + [
        # R4: the key projection iterator chain (used only for the append-mode tracker)
        ('re', r'(?s)let pk_values: Vec<SqlValue> =\s*pk_indices\.iter\(\)\.map\(\|&idx\| normalized_row\.values\[idx\]\.clone\(\)\)\.collect\(\);', 'let pk_values: Vec<SqlValue> = project_pk(&normalized_row, &pk_indices);', 1)],
        contract='''
        requires old(self).wf(), old(self).rows@.len() < usize::MAX, old(self).modifications_since_stats < usize::MAX
        ensures
            // a rejected row changes neither rows nor indexes
            res is Err ==> stored_form(&old(self).schema, row) is None && final(self).rows@ == old(self).rows@ && final(self).wf(),
            // an accepted row is appended in its STORED form, the hash indexes mirror the longer row vector ..
            res is Ok ==> stored_form(&old(self).schema, row) is Some && final(self).rows@ == old(self).rows@.push(stored_form(&old(self).schema, row)->Some_0)
                          && final(self).synced_(),
            // .. and the table stays duplicate-free when the stored row's keys were fresh (the uniqueness check before the insert: C10)
            res is Ok && IndexManager::fresh(&old(self).schema, old(self).rows@, old(self).rows@.len() as int, stored_form(&old(self).schema, row)->Some_0) ==> final(self).wf(),
'''),
    'update_row': dict(file=_F, path='impl Table::fn update_row', ret='res', rewrites=_TY + [
        ('re', r'self\.rows\[index\] = normalized_row\.clone\(\);', 'self.rows.set(index, normalized_row.clone());', 1)],
        contract='''
        requires old(self).wf()
        ensures res is Err ==> final(self).rows@ == old(self).rows@ && final(self).wf(),
                // the row at `index` becomes the STORED form of the new row, every other row is untouched
                res is Ok ==> index < old(self).rows@.len() && stored_form(&old(self).schema, row) is Some
                              && final(self).rows@ == old(self).rows@.update(index as int, stored_form(&old(self).schema, row)->Some_0),
                // the hash indexes mirror the new row vector when the stored row's keys were fresh (the uniqueness check before the write: C10)
                res is Ok && IndexManager::fresh(&old(self).schema, old(self).rows@, index as int, stored_form(&old(self).schema, row)->Some_0) ==> final(self).wf(),
'''),
    'update_row_selective': dict(file=_F, path='impl Table::fn update_row_selective', ret='res', rewrites=_TY + [
        ('re', r'self\.rows\[index\] = normalized_row\.clone\(\);', 'self.rows.set(index, normalized_row.clone());', 1)],
        proofs=[('re:self\\.indexes\\.update_selective\\(', 'proof { if differ_only_in(changed_columns, old_row, normalized_row) { fact_covers_unlisted_same(&self.schema, changed_columns, &affected_indexes, old_row, normalized_row); } }')],
        contract='''
        requires old(self).wf()
        ensures res is Err ==> final(self).rows@ == old(self).rows@ && final(self).wf(),
                res is Ok ==> index < old(self).rows@.len() && stored_form(&old(self).schema, row) is Some
                              && final(self).rows@ == old(self).rows@.update(index as int, stored_form(&old(self).schema, row)->Some_0),
                // in sync again when the new keys were fresh AND `changed_columns` really holds every column in which the stored row differs from the old one
                res is Ok && IndexManager::fresh(&old(self).schema, old(self).rows@, index as int, stored_form(&old(self).schema, row)->Some_0)
                    && differ_only_in(changed_columns, old(self).rows@[index as int], stored_form(&old(self).schema, row)->Some_0) ==> final(self).wf(),
'''),
    'delete_where': dict(file=_F, path='impl Table::fn delete_where', ret='res', rewrites=_TY + [
        ('re', r'fn delete_where<F>\(&mut self, mut predicate: F\)', 'fn delete_where(&mut self, predicate: &RowPred)', 1),
        ('re', r'where\s+F: FnMut\(&Row\) -> bool,', '', 1),
        ('re', r'predicate\(row\)', 'predicate.call(row)', 1),
        # R10 (slice forms)
        ('re', r'for \(index, row\) in self\.rows\.iter\(\)\.enumerate\(\) \{',
         'let mut en__: usize = 0; while en__ < self.rows.len() { let row = &self.rows[en__]; let index = en__; en__ = en__ + 1;', 1),
        ('re', r'for \(index, _\) in indices_and_rows_to_delete\.iter\(\)\.rev\(\) \{',
         'let mut rv__: usize = indices_and_rows_to_delete.len(); while rv__ > 0 { rv__ = rv__ - 1; let index = &indices_and_rows_to_delete[rv__].0;', 1),
        # R13: `v.last().is_some_and(|(index, _)| EXPR)` (closure with a tuple pattern) -> the match it abbreviates, on the last element by position
        ('re', r'(?s)indices_and_rows_to_delete\s*\.last\(\)\s*\.is_some_and\(\|\((\w+), _\)\| ([^;]*?)\);',
         r'(if indices_and_rows_to_delete.len() > 0 { let \1 = &indices_and_rows_to_delete[indices_and_rows_to_delete.len() - 1].0; \2 } else { false });', None),
        ('re', r'for \(_, deleted_row\) in &indices_and_rows_to_delete \{',
         'let mut dl__: usize = 0; while dl__ < indices_and_rows_to_delete.len() { let deleted_row = &indices_and_rows_to_delete[dl__].1; dl__ = dl__ + 1;', 1),
    ],
        loops={0: '''
            invariant
                en__ <= self.rows@.len(), self.rows@ == old(self).rows@,
                indices_and_rows_to_delete@.len() <= en__,
                // collected positions are strictly increasing and below the scan position
                forall|a: int, b: int| 0 <= a < b < indices_and_rows_to_delete@.len() ==> indices_and_rows_to_delete@[a].0 < indices_and_rows_to_delete@[b].0,
                forall|a: int| 0 <= a < indices_and_rows_to_delete@.len() ==> indices_and_rows_to_delete@[a].0 + (indices_and_rows_to_delete@.len() - a) <= en__,
            decreases self.rows@.len() - en__,
''', 1: '''
            invariant
                rv__ <= indices_and_rows_to_delete@.len(),
                forall|a: int, b: int| 0 <= a < b < indices_and_rows_to_delete@.len() ==> indices_and_rows_to_delete@[a].0 < indices_and_rows_to_delete@[b].0,
                // every position still to be removed is valid: rows has shrunk only behind them
                self.rows@.len() + (indices_and_rows_to_delete@.len() - rv__) == old(self).rows@.len(),
                forall|a: int| 0 <= a < rv__ ==> indices_and_rows_to_delete@[a].0 + (rv__ - a) <= self.rows@.len(),
                self.schema == old(self).schema, IndexManager::dupfree(&self.schema, self.rows@),
            decreases rv__,
''', 2: '''
            invariant dl__ <= indices_and_rows_to_delete@.len(),
            decreases indices_and_rows_to_delete@.len() - dl__,
'''},
        proofs=[('@loop1', 'let ghost rows0__ = self.rows@;'), ('after:self.rows.remove(*index);', 'proof { fact_remove_keeps_dupfree(&self.schema, rows0__, *index as int); }')],
        contract='''
        requires old(self).wf()
        ensures final(self).wf(),                                   // the indexes are rebuilt: removals shift row positions
                final(self).rows@.len() + res == old(self).rows@.len(),
'''),
    'remove_row': dict(file=_F, path='impl Table::fn remove_row', ret='res', rewrites=_TY + [
        ('re', r'self\.rows\.iter\(\)\.position\(\|row\| row == target_row\)', 'position_of(&self.rows, target_row)', None),
        # an equality predicate closure handed to delete_where (R: FnMut parameter -> abstract pure predicate)
        ('re', r'\|row\| row == (\w+)', r'&RowPred::eq_to(\1)', None)],
        proofs=[('@entry', 'let ghost rows0__ = self.rows@;'), ('after:self.rows.remove(pos);', 'proof { fact_remove_keeps_dupfree(&self.schema, rows0__, pos as int); if pos as int == rows0__.len() - 1 { assert(rows0__.remove(pos as int) =~= rows0__.drop_last()); } }')],
        contract='''
        requires old(self).wf()
        ensures final(self).wf(),
                res is Err ==> final(self).rows@ == old(self).rows@,
                res is Ok ==> final(self).rows@.len() + 1 == old(self).rows@.len(),      // exactly ONE row goes (the savepoint undo of unit K-undo relies on it)
                // .. and it is a row equal to the STORED FORM of the row handed in (the change log holds rows as they were before normalization)
                res is Ok ==> exists|p: int| 0 <= p < old(self).rows@.len() && old(self).rows@[p] == probe_of(&old(self).schema, *target_row)
                                && final(self).rows@ == old(self).rows@.remove(p),
                res is Err ==> !old(self).rows@.contains(probe_of(&old(self).schema, *target_row)),
'''),
    'rebuild_indexes': dict(file=_F, path='impl Table::fn rebuild_indexes', rewrites=_TY, contract='''
        ensures final(self).synced_(), final(self).rows@ == old(self).rows@, final(self).schema == old(self).schema,
'''),
}

OBLIGATIONS = {
    'clear': ['post:indexes_in_sync_with_empty_table'],
    'insert': ['post:stored_form_appended__indexes_mirror_the_longer_vector__rejected_row_changes_nothing', 'safety:counter_overflow'],
    'update_row': ['post:stored_form_written_at_the_position__indexes_in_sync_when_keys_fresh__other_rows_untouched__error_changes_nothing', 'safety:index_in_bounds'],
    'update_row_selective': ['post:stored_form_written__indexes_in_sync_when_keys_fresh_and_changed_columns_complete__error_changes_nothing', 'safety:index_in_bounds'],
    'delete_where': ['post:indexes_in_sync_after_positions_shift__row_count', 'safety:every_removed_position_in_bounds', 'proof:loop_invariants'],
    'remove_row': ['post:exactly_one_row_equal_to_the_stored_form_of_the_given_row_goes__indexes_in_sync_after_positions_shift', 'safety:position_in_bounds'],
    'rebuild_indexes': ['post:indexes_in_sync__rows_untouched'],
}
CANARIES = ['canary_delete', 'canary_update', 'canary_insert']
TRUSTED = [
    'external_body IndexManager (new, rebuild, clear, update_for_insert, update_for_update, update_selective, get_affected_indexes, update_for_delete): ASSUMED contracts over the uninterpreted predicates synced / dupfree / fresh / covers / unlisted_same; each clause is a postcondition PROVED of the real function in unit K-index (synced = synced_n over all rows, dupfree = all_dupfree, fresh = all_fresh, covers, unlisted_same) - the correspondence between the two units is clause by clause, by reading, not by a shared definition (Row and TableSchema are opaque here, reduced there)',
    'external_body proof fns fact_covers_unlisted_same, fact_remove_keeps_dupfree, fact_empty_dupfree: facts about the uninterpreted predicates, PROVED over their definitions in unit K-index (lemma_covers_unlisted_same, lemma_all_remove_dupfree, lemma_all_empty_dupfree)',
    'update_for_delete: assumed to keep `synced` only for the LAST row of a duplicate-free table (K-index: TAKING THE LAST ROW OUT KEEPS THE MIRROR) - so a removal that skips the rebuild for the last row verifies, one that skips it for any other row does not (seed C15-3); the K-index clause carries the bound rows.len() <= usize::MAX, true of every Vec, which this unit cannot state for a row vector whose length it never reads',
    'fresh(schema, rows, i, stored row) - the keys of the row about to be stored are held by no other row - is a PREMISE of the write contracts, established by the PRIMARY KEY / UNIQUE checks of the executors (C10), not here; differ_only_in(changed_columns, old, new) - the set holds every column that differs - is a premise of update_row_selective, established by the UPDATE executor, not under contract',
    'external_body Row (clone is a copy), TableSchema (get_primary_key_indices), AppendModeTracker::reset / update, TableStatistics (row_count + the opaque StatsRest; mark_stale), RowNormalizer (normalize_and_validate: the uninterpreted stored_form of the row, or an error), SqlValue, project_pk (the key projection feeding the append-mode tracker), ColSet / IndexTypes (HashSet<usize>, Vec<IndexType>): opaque',
    'external_body RowPred::call / eq_to: the FnMut(&Row) -> bool parameter of delete_where as a pure function of the row; `|row| row == target` as its equality instance',
    'external_body position_of: rows.iter().position(|r| r == target) returns a valid position holding an equal row, None iff there is none (std, Row::eq)',
    'R10 rewrites (slice forms): for .. in v.iter().enumerate() / v.iter().rev() / &v -> index loops; rows[i] = x -> rows.set(i, x)',
    'machine arithmetic: insert requires fewer than usize::MAX rows and modifications_since_stats < usize::MAX (the counter is incremented unchecked)',
    'Table::rows_mut / schema_mut hand out `&mut` to the row vector and the schema (ALTER TABLE): their callers are NOT under contract and do not rebuild (observed, DESIGN 9b)',
    'the user-defined (CREATE INDEX) B-tree indexes of Database are a different registry (units I-maint, I-insert, I-update, I-resolve)',
]
