"""Mechanical scan for unproved assumptions + span hashes of functions under contract."""
import hashlib
import os
import re

from rustlex import Source

PATTERNS = ['assume(', 'admit(', 'external_body', 'assume_specification', 'external_fn_specification',
            'verifier::truncate', 'verifier::external', 'verifier(external', 'axiom']


def scan_verus(text, unit):
    """every occurrence of an assumption construct must be covered by the unit's declared TRUSTED list:
    a TRUSTED entry covers a construct when the entry text starts with the construct name followed by the
    identifier it is attached to (e.g. 'external_body skip_take_collect: ...')."""
    declared = ' '.join(getattr(unit, 'TRUSTED', []))
    bad = []
    lines = text.split('\n')
    for i, line in enumerate(lines):
        s = line.strip()
        if s.startswith('//'):
            continue
        for p in ('assume(', 'admit('):
            if p in s and 'kani::' not in s:
                tag = 'ALLOW-ASSUME'
                if tag not in line:
                    bad.append('line %d: %s' % (i + 1, s[:80]))
        if 'external_body' in s or 'assume_specification' in s:
            # find the identifier on this or following lines
            ident = None
            for j in range(i, min(i + 6, len(lines))):
                m = re.search(r'\b(?:fn|struct|enum|type)\s+([A-Za-z0-9_]+)', lines[j])
                if m:
                    ident = m.group(1)
                    break
                m = re.search(r'assume_specification(?:<[^>]*>)?\s*\[\s*([^\]]+)\]', lines[j])
                if m:
                    ident = m.group(1).strip()
                    break
            if ident is None or ident not in declared:
                bad.append('line %d: undeclared %s (%s)' % (i + 1, 'external_body/assume_specification', ident))
    return bad


def span_hashes(repo, functions):
    out = []
    for f in functions:
        p = os.path.join(repo, f['file'])
        try:
            src = Source(p)
            s, e, _, _ = src.find_item(f['path'])
            raw = src.src[s:e]
            out.append({'file': f['file'], 'item': f['path'], 'line_start': src.src.count('\n', 0, s) + 1,
                        'sha256_span': hashlib.sha256(raw.encode()).hexdigest()[:16], 'in_place': True})
        except Exception as ex:  # lost anchor for evidence only; the harness itself decides
            out.append({'file': f['file'], 'item': f['path'], 'error': str(ex)})
    return out
